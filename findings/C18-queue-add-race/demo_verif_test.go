//go:build verif

package scratch

import (
	"context"
	"sync/atomic"
	"testing"
	"time"

	"github.com/iotaledger/hive.go/app/daemon"
	"github.com/iotaledger/hive.go/runtime/timed"
)

// Schedule: BackgroundWorker has passed its IsStopped test; ShutdownAndWait runs to completion;
// BackgroundWorker continues. The worker must be refused - instead it is registered (or the call
// panics on the cleared maps) and, if started, is never cancelled.
func TestBackgroundWorkerRacingShutdown(t *testing.T) {
	d := daemon.New()
	d.Start()
	var started atomic.Bool
	daemon.VerifYield = func(point string) {
		if point == "BackgroundWorker:after-stopped-check" {
			d.ShutdownAndWait()
		}
	}
	defer func() { daemon.VerifYield = func(string) {} }()
	var err error
	func() {
		defer func() {
			if r := recover(); r != nil {
				t.Fatalf("BackgroundWorker racing with shutdown panicked: %v", r)
			}
		}()
		err = d.BackgroundWorker("late", func(ctx context.Context) { started.Store(true); <-ctx.Done() })
	}()
	time.Sleep(20 * time.Millisecond)
	if err == nil {
		t.Fatalf("a worker was accepted after ShutdownAndWait had returned (started=%v)", started.Load())
	}
}

// Schedule: Add has passed its IsShutdown test; Shutdown completes and the executor's workers
// leave; Add continues and returns a non-nil element that nobody will ever deliver.
func TestQueueAddRacingShutdown(t *testing.T) {
	e := timed.NewExecutor(1)
	timed.VerifYield = func(point string) {
		if point == "Queue.Add:after-shutdown-check" {
			e.Shutdown()
		}
	}
	defer func() { timed.VerifYield = func(string) {} }()
	var ran atomic.Bool
	task := e.ExecuteAt(func() { ran.Store(true) }, time.Now())
	time.Sleep(20 * time.Millisecond)
	if task != nil && !ran.Load() {
		t.Fatalf("the task was accepted (non-nil) after every worker had left; it stays in the queue forever (size %d)", e.Size())
	}
}
