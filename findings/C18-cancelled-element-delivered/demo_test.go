package scratch_test

import (
	"runtime"
	"testing"
	"time"

	"github.com/iotaledger/hive.go/runtime/timed"
)

// An element that was cancelled (Cancel returned) before Shutdown(IgnorePendingTimeouts) must never be delivered.
func TestCancelledElementNotDeliveredOnIgnoreTimeoutsShutdown(t *testing.T) {
	_ = runtime.NumCPU()
	delivered := 0
	for round := 0; round < 30000; round++ {
		q := timed.NewQueue[int]()
		e := q.Add(42, time.Now().Add(time.Hour))
		got := make(chan int, 1)
		go func() { got <- q.Poll(true) }()
		// wait until the poller has popped the element (queue empty)
		for q.Size() != 0 {
		}
		e.Cancel()
		q.Shutdown(timed.IgnorePendingTimeouts)
		select {
		case v := <-got:
			if v == 42 {
				delivered++
			}
		case <-time.After(2 * time.Second):
			t.Fatal("poll did not return")
		}
	}
	if delivered > 0 {
		t.Fatalf("a cancelled element was delivered in %d of 30000 rounds", delivered)
	}
}
