package scratch

import (
	"runtime"
	"sync/atomic"
	"testing"
	"time"

	"github.com/iotaledger/hive.go/kvstore"
	"github.com/iotaledger/hive.go/kvstore/mapdb"
)

type obj struct {
	scheduled atomic.Bool
	written   atomic.Bool
	done      atomic.Bool
	onCheck   func()
}

func (o *obj) BatchWrite(b kvstore.BatchedMutations) { _ = b.Set([]byte("k"), []byte("v")); o.written.Store(true) }
func (o *obj) BatchWriteDone()                         { o.done.Store(true) }
func (o *obj) BatchWriteScheduled() bool {
	if o.onCheck != nil {
		o.onCheck()
	}
	return !o.scheduled.CompareAndSwap(false, true)
}
func (o *obj) ResetBatchWriteScheduled() { o.scheduled.Store(false) }

// Stop must not return before an object whose Enqueue returned earlier has been written.
// With one P the freshly started writer goroutine has not run yet when Stop calls Wait.
func TestStopWaitsForUnstartedWriter(t *testing.T) {
	defer runtime.GOMAXPROCS(runtime.GOMAXPROCS(1))
	bw := kvstore.NewBatchedWriter(mapdb.NewMapDB(), kvstore.WithBatchTimeout(5*time.Millisecond))
	o := &obj{}
	bw.Enqueue(o)
	bw.StopBatchWriter()
	if !o.done.Load() {
		t.Fatalf("StopBatchWriter returned although the enqueued object was not written (written=%v)", o.written.Load())
	}
}

// An Enqueue that races with Stop must either write the object or not touch it.
func TestEnqueueRacingStop(t *testing.T) {
	bw := kvstore.NewBatchedWriter(mapdb.NewMapDB(), kvstore.WithBatchTimeout(5*time.Millisecond))
	bw.Enqueue(&obj{}) // start the writer
	time.Sleep(50 * time.Millisecond)
	stopped := make(chan struct{})
	o := &obj{}
	o.onCheck = func() {
		// Stop arrives while Enqueue is between its running check and the publication.
		go func() { bw.StopBatchWriter(); close(stopped) }()
		time.Sleep(100 * time.Millisecond)
	}
	bw.Enqueue(o)
	select {
	case <-stopped:
	case <-time.After(5 * time.Second):
		t.Fatal("StopBatchWriter blocked")
	}
	if o.scheduled.Load() && !o.done.Load() {
		t.Fatalf("object is marked scheduled and sits in the queue but was never written (written=%v)", o.written.Load())
	}
}
