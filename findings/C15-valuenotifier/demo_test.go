package scratch

import (
	"context"
	"testing"
	"time"

	"github.com/iotaledger/hive.go/runtime/valuenotifier"
)

// A listener's Wait may only succeed if Notify for its value was called after the listener was
// created. Deregistration looks the entry up again by value, so a listener of an earlier
// generation (already notified) closes the channel of a later one.
func TestStaleListenerDoesNotNotifyNewGeneration(t *testing.T) {
	n := valuenotifier.New[string]()
	l1 := n.Listener("v")
	n.Notify("v") // generation 1 is notified and its entry removed
	l2 := n.Listener("v")
	l1.Deregister() // what Wait does on its way out
	ctx, cancel := context.WithTimeout(context.Background(), 100*time.Millisecond)
	defer cancel()
	if err := l2.Wait(ctx); err == nil {
		t.Fatal("the second listener's Wait succeeded although Notify was never called after it was created")
	}
}
