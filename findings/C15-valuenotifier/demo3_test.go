package scratch

import (
	"context"
	"testing"
	"time"

	"github.com/iotaledger/hive.go/runtime/valuenotifier"
)

// Wait may only succeed if Notify was called before the listener was deregistered. A second
// listener keeps the shared entry alive; the first one is deregistered and only THEN the value is
// notified. A Wait of the first listener that has passed its deregistered check but has not
// parked yet finds both of its channels closed and picks one at random.
func TestNotifyAfterDeregisterIsNotASuccess(t *testing.T) {
	n := valuenotifier.New[int]()
	succ := 0
	for i := 0; i < 1000000; i++ {
		l := n.Listener(i)
		keep := n.Listener(i)
		go func() {
			l.Deregister()
			n.Notify(i)
		}()
		ctx, cancel := context.WithTimeout(context.Background(), time.Second)
		if err := l.Wait(ctx); err == nil {
			succ++
		}
		cancel()
		keep.Deregister()
	}
	if succ > 0 {
		t.Fatalf("Wait succeeded %d times although the listener was deregistered before Notify", succ)
	}
}
