package scratch

import (
	"context"
	"testing"
	"time"

	"github.com/iotaledger/hive.go/runtime/valuenotifier"
)

// Wait may only succeed if Notify for the value was called. Before the fix the last listener that
// deregistered closed the shared notification channel, so a Wait that had passed its deregistered
// check but had not parked yet saw both channels closed and returned nil half of the time -
// without any Notify (a handful of the 20000 rounds on 16 cores).
func TestDeregisterRacingWaitNeverSucceeds(t *testing.T) {
	n := valuenotifier.New[int]()
	succ := 0
	for i := 0; i < 20000; i++ {
		l := n.Listener(i)
		go l.Deregister()
		ctx, cancel := context.WithTimeout(context.Background(), time.Second)
		if err := l.Wait(ctx); err == nil {
			succ++
		}
		cancel()
	}
	if succ > 0 {
		t.Fatalf("Wait succeeded %d times although Notify was never called", succ)
	}
}
