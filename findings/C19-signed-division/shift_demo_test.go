package scratch

import (
	"testing"

	"github.com/iotaledger/hive.go/core/safemath"
)

// C19: SafeLeftShift must return the exact result or an overflow error.
func TestSafeLeftShiftExact(t *testing.T) {
	for v := 0; v < 256; v++ {
		for s := 0; s < 10; s++ {
			got, err := safemath.SafeLeftShift(uint8(v), uint8(s))
			exact := v << s
			if exact <= 255 {
				if err != nil || int(got) != exact {
					t.Fatalf("uint8 %d<<%d: got (%d,%v), want %d", v, s, got, err, exact)
				}
			} else if err == nil {
				t.Fatalf("uint8 %d<<%d: got (%d,nil), want overflow error (exact %d)", v, s, got, exact)
			}
		}
	}
	for v := -128; v < 128; v++ {
		for s := 0; s < 10; s++ {
			got, err := safemath.SafeLeftShift(int8(v), uint8(s))
			exact := v << s
			if exact >= -128 && exact <= 127 {
				if err != nil || int(got) != exact {
					t.Fatalf("int8 %d<<%d: got (%d,%v), want %d", v, s, got, err, exact)
				}
			} else if err == nil {
				t.Fatalf("int8 %d<<%d: got (%d,nil), want overflow error (exact %d)", v, s, got, exact)
			}
		}
	}
}
