package scratch

import (
	"math"
	"testing"

	"github.com/iotaledger/hive.go/core/safemath"
)

func TestSignedDivisionAndMultiplicationNeverWrap(t *testing.T) {
	if v, err := safemath.SafeDiv[int8](math.MinInt8, -1); err == nil {
		t.Errorf("SafeDiv[int8](-128, -1) = %d, nil: 128 is not representable, the result wrapped", v)
	}
	if v, err := safemath.SafeDiv[int64](math.MinInt64, -1); err == nil {
		t.Errorf("SafeDiv[int64](min, -1) = %d, nil", v)
	}
	if v, err := safemath.SafeMul[int8](-1, math.MinInt8); err == nil {
		t.Errorf("SafeMul[int8](-1, -128) = %d, nil: the divide-back check wraps the same way", v)
	}
	if v, err := safemath.SafeMul[int32](math.MinInt32, -1); err == nil {
		t.Errorf("SafeMul[int32](min, -1) = %d, nil", v)
	}
	// must stay exact for the representable neighbours and for unsigned types
	if v, err := safemath.SafeDiv[int8](-127, -1); err != nil || v != 127 {
		t.Errorf("SafeDiv[int8](-127,-1) = %d, %v", v, err)
	}
	if v, err := safemath.SafeDiv[uint8](128, 255); err != nil || v != 0 {
		t.Errorf("SafeDiv[uint8](128,255) = %d, %v", v, err)
	}
	if v, err := safemath.SafeMul[uint8](128, 1); err != nil || v != 128 {
		t.Errorf("SafeMul[uint8](128,1) = %d, %v", v, err)
	}
	if v, err := safemath.SafeMul[int8](-1, 127); err != nil || v != -127 {
		t.Errorf("SafeMul[int8](-1,127) = %d, %v", v, err)
	}
	if v, err := safemath.SafeMul[uint8](255, 1); err != nil || v != 255 {
		t.Errorf("SafeMul[uint8](255,1) = %d, %v", v, err)
	}
}
