package scratch

import (
	"testing"
	"time"

	"github.com/iotaledger/hive.go/ds/timeheap"
	"github.com/iotaledger/hive.go/ds/walker"
	"github.com/iotaledger/hive.go/web/subscriptionmanager"
)

func TestWalkerPushFrontYieldsEveryNewElement(t *testing.T) {
	w := walker.New[int]()
	w.Push(1)
	w.PushFront(1, 2, 3) // 1 is a repeat and must be skipped, 2 and 3 are new
	seen := map[int]bool{}
	for w.HasNext() {
		seen[w.Next()] = true
	}
	if !seen[2] || !seen[3] {
		t.Fatalf("PushFront dropped the elements following a repeat: walked %v", seen)
	}
}

func TestTimeHeapClearResetsWindowedSum(t *testing.T) {
	h := timeheap.NewTimeHeap()
	h.Add(10)
	h.Clear()
	if avg := h.AveragePerSecond(time.Second); avg != 0 {
		t.Fatalf("after Clear the windowed average still counts cleared entries: %v", avg)
	}
}

func TestSubscriptionLimitDropKeepsOtherClientsTopics(t *testing.T) {
	m := subscriptionmanager.New[string, string](subscriptionmanager.WithMaxTopicSubscriptionsPerClient[string, string](2))
	m.Connect("A")
	m.Connect("B")
	m.Subscribe("A", "t")
	m.Subscribe("B", "other")
	if m.Subscribe("B", "t") { // second distinct topic reaches the limit: B is dropped
		t.Fatal("expected B to be dropped at the limit")
	}
	if !m.TopicHasSubscribers("t") {
		t.Fatal("client A is still subscribed to topic t, but the global count of t was decremented by the drop of B (whose subscription to t was never counted)")
	}
}
