package scratch

import (
	"testing"

	"github.com/iotaledger/hive.go/kvstore"
	"github.com/iotaledger/hive.go/kvstore/mapdb"
)

// Release on an object that never leased anything must not roll the durable mark back.
func TestReleaseWithoutLeaseDoesNotReuse(t *testing.T) {
	store := mapdb.NewMapDB()
	key := []byte("seq")
	s1, _ := kvstore.NewSequence(store, key, 10)
	seen := map[uint64]bool{}
	for i := 0; i < 3; i++ {
		n, err := s1.Next()
		if err != nil {
			t.Fatal(err)
		}
		seen[n] = true
	}
	// s1 is abandoned (crash). A new object is created and released without ever calling Next.
	s2, _ := kvstore.NewSequence(store, key, 10)
	if err := s2.Release(); err != nil {
		t.Fatal(err)
	}
	s3, _ := kvstore.NewSequence(store, key, 10)
	n, err := s3.Next()
	if err != nil {
		t.Fatal(err)
	}
	if seen[n] {
		t.Fatalf("number %d handed out twice", n)
	}
}
