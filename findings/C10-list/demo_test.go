package scratch

import (
	"container/list"
	"testing"
	"time"

	"github.com/iotaledger/hive.go/ds"
)

func values(l ds.List[int]) []int { return l.Values() }

func TestMoveBeforeAfterLikeContainerList(t *testing.T) {
	for _, lockFree := range []bool{false, true} {
		l := ds.NewList[int](lockFree)
		ref := list.New()
		var hs []ds.ListElement[int]
		var rs []*list.Element
		for i := 1; i <= 3; i++ {
			hs = append(hs, l.PushBack(i))
			rs = append(rs, ref.PushBack(i))
		}
		l.MoveBefore(hs[2], hs[0])
		ref.MoveBefore(rs[2], rs[0])
		l.MoveAfter(hs[0], hs[1])
		ref.MoveAfter(rs[0], rs[1])
		var want []int
		for e := ref.Front(); e != nil; e = e.Next() {
			want = append(want, e.Value.(int))
		}
		got := values(l)
		for i := range want {
			if i >= len(got) || got[i] != want[i] {
				t.Fatalf("lockFree=%v: got %v, container/list gives %v", lockFree, got, want)
			}
		}
	}
}

func TestPushBackListSelf(t *testing.T) {
	l := ds.NewList[int]()
	l.PushBack(1)
	l.PushBack(2)
	done := make(chan struct{})
	go func() { l.PushBackList(l); l.PushFrontList(l); close(done) }()
	select {
	case <-done:
	case <-time.After(2 * time.Second):
		t.Fatal("PushBackList(self) deadlocks on the thread-safe list; container/list duplicates the elements")
	}
	if got := values(l); len(got) != 8 {
		t.Fatalf("got %v", got)
	}
}
