package scratch

import (
	"testing"

	"github.com/iotaledger/hive.go/runtime/syncutils"
)

// Unlocking a write lock that is not held must panic (as RUnlock without RLock does).
func TestUnlockWithoutLockPanics(t *testing.T) {
	m := syncutils.NewStarvingMutex()
	defer func() {
		if recover() == nil {
			t.Fatal("Unlock of a StarvingMutex that is not write-locked returned normally")
		}
	}()
	m.Unlock()
}
