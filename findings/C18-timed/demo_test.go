package scratch

import (
	"sync"
	"sync/atomic"
	"testing"
	"time"

	"github.com/iotaledger/hive.go/runtime/timed"
)

// Two pollers wait on an empty queue. One element is added (Signal wakes one poller) and the
// queue is shut down while the heap still holds that element: Shutdown only broadcasts when
// the heap is empty, so the second poller is never told about the shutdown.
func TestShutdownWakesEveryWaitingPoller(t *testing.T) {
	for i := 0; i < 2000; i++ {
		q := timed.NewQueue[int]()
		var wg sync.WaitGroup
		for k := 0; k < 2; k++ {
			wg.Add(1)
			go func() {
				defer wg.Done()
				for q.Poll(true) != 0 {
				}
			}()
		}
		time.Sleep(200 * time.Microsecond) // let both pollers park
		q.Add(7, time.Now().Add(time.Hour))
		q.Shutdown(timed.IgnorePendingTimeouts)
		done := make(chan struct{})
		go func() { wg.Wait(); close(done) }()
		select {
		case <-done:
		case <-time.After(2 * time.Second):
			t.Fatalf("iteration %d: a poller is still blocked in Poll after Shutdown", i)
		}
	}
}

// TaskExecutor: re-scheduling an identifier from inside its own running callback must keep the
// new task cancellable; the wrapper of the old task deletes the identifier unconditionally.
func TestTaskExecutorRescheduleDuringCallback(t *testing.T) {
	te := timed.NewTaskExecutor[string](1)
	defer te.Shutdown(timed.CancelPendingElements)
	var secondRan atomic.Bool
	firstDone := make(chan struct{})
	te.ExecuteAfter("id", func() {
		te.ExecuteAfter("id", func() { secondRan.Store(true) }, time.Hour)
		close(firstDone)
	}, time.Millisecond)
	<-firstDone
	time.Sleep(50 * time.Millisecond) // wrapper of the first task has finished
	if !te.Cancel("id") {
		t.Fatal("Cancel(id) reports false although a task for id is pending (its map entry was deleted by the previous task's wrapper)")
	}
}
