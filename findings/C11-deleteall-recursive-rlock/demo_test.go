package scratch

import (
	"testing"
	"time"

	"github.com/iotaledger/hive.go/ds"
)

// otherSet lets a writer arrive while DeleteAll is in the middle of its iteration.
type otherSet struct {
	ds.ReadableSet[int]
	between func()
}

func (o *otherSet) ForEach(callback func(int) error) error {
	return o.ReadableSet.ForEach(func(e int) error {
		o.between()
		return callback(e)
	})
}

func TestDeleteAllWithConcurrentApply(t *testing.T) {
	s := ds.NewSet(1, 2, 3)
	applied := make(chan struct{})
	other := &otherSet{ReadableSet: ds.NewSet(1, 2), between: func() {
		// an Apply arrives (and queues for the write lock) while DeleteAll holds the read lock
		go func() { s.Apply(ds.NewSetMutations(4)); close(applied) }()
		time.Sleep(50 * time.Millisecond)
	}}
	done := make(chan struct{})
	go func() { s.DeleteAll(other); close(done) }()
	select {
	case <-done:
	case <-time.After(3 * time.Second):
		t.Fatal("DeleteAll deadlocked against a concurrent Apply (recursive read lock)")
	}
	<-applied
}
