package scratch

import (
	"testing"

	"github.com/iotaledger/hive.go/ds"
	"github.com/iotaledger/hive.go/ds/reactive"
)

// Folding the mutations reported to a subscriber must reproduce the set's contents.
func TestReactiveSetReplaceReportsExactDiff(t *testing.T) {
	s := reactive.NewSet[int]()
	s.AddAll(ds.NewSet(1, 2, 3))
	mirror := ds.NewSet[int]()
	s.OnUpdate(func(m ds.SetMutations[int]) { mirror.Apply(m) })
	s.Replace(ds.NewSet(2, 3, 4))
	if !mirror.Equals(ds.NewSet(2, 3, 4)) {
		t.Fatalf("subscriber folded the reported mutations to %v, the set contains %v", mirror.ToSlice(), s.ToSlice())
	}
}

// ds.Set.Replace returns exactly the elements whose membership changed (the removed ones).
func TestSetReplaceReturnsRemovedElements(t *testing.T) {
	s := ds.NewSet(1, 2, 3)
	removed := s.Replace(ds.NewSet(2, 3, 4))
	if !removed.Equals(ds.NewSet(1)) {
		t.Fatalf("Replace returned %v, but only element 1 was removed", removed.ToSlice())
	}
}
