package scratch

import (
	"testing"

	"github.com/iotaledger/hive.go/ads"
	"github.com/iotaledger/hive.go/serializer/v2/typeutils"
	"github.com/iotaledger/hive.go/kvstore/mapdb"
)

type tKey [1]byte

func (t tKey) Bytes() ([]byte, error) { return t[:], nil }
func tKeyFromBytes(b []byte) (tKey, int, error) {
	return tKey(b), 1, nil
}

type tVal []byte

func (t tVal) Bytes() ([]byte, error)            { return t, nil }
func tValFromBytes(b []byte) (tVal, int, error) { return b, len(b), nil }

// C09: an empty value whose encoding is a nil slice is still a value: Has/Get/Size must agree with a plain map.
func TestNilEncodedValue(t *testing.T) {
	m := ads.NewMap[[32]byte](mapdb.NewMapDB(), typeutils.ByteArray32ToBytes, typeutils.ByteArray32FromBytes, tKey.Bytes, tKeyFromBytes, tVal.Bytes, tValFromBytes)
	k := tKey{1}
	for i := 0; i < 2; i++ {
		if err := m.Set(k, tVal(nil)); err != nil {
			t.Fatal(err)
		}
	}
	has, err := m.Has(k)
	if err != nil {
		t.Fatal(err)
	}
	_, exists, err := m.Get(k)
	if err != nil {
		t.Fatal(err)
	}
	n := 0
	_ = m.Stream(func(key tKey, value tVal) error { n++; return nil })
	if m.Size() != 1 || !has || !exists || n != 1 {
		t.Fatalf("after Set(k, nil-encoded empty value) twice: Size=%d Has=%v Get.exists=%v streamed=%d; a plain map says 1/true/true/1", m.Size(), has, exists, n)
	}
	deleted, err := m.Delete(k)
	if err != nil || !deleted || m.Size() != 0 {
		t.Fatalf("Delete: deleted=%v err=%v Size=%d", deleted, err, m.Size())
	}
}
