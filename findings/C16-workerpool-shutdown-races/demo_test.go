package scratch

import (
	"runtime"
	"sync"
	"sync/atomic"
	"testing"
	"time"

	"github.com/iotaledger/hive.go/runtime/syncutils"
	"github.com/iotaledger/hive.go/runtime/workerpool"
)

// Stack level: a shutdown signal that arrives after the waiter evaluated its wait condition but
// before it parked is lost (SignalShutdown broadcasts without entering the Cond's mutex).
func TestStackSignalShutdownLostWakeup(t *testing.T) {
	s := syncutils.NewStack[int]()
	var running atomic.Bool
	running.Store(true)
	returned := make(chan struct{})
	go func() {
		s.PopOrWait(func() bool {
			if running.Load() {
				// the stopper runs exactly now: flag flipped and signal sent while we are between
				// predicate evaluation and cond.Wait
				running.Store(false)
				s.SignalShutdown()
				return true
			}
			return false
		})
		close(returned)
	}()
	select {
	case <-returned:
	case <-time.After(2 * time.Second):
		t.Fatal("PopOrWait never re-evaluated its wait condition: the shutdown wake-up was lost")
	}
}

// WorkerPool level: Submit checks IsRunning, releases the lock and only then counts and pushes.
func TestSubmitRacingShutdownStrandsTask(t *testing.T) {
	defer runtime.GOMAXPROCS(runtime.GOMAXPROCS(4))
	deadline := time.Now().Add(20 * time.Second)
	for i := 0; time.Now().Before(deadline); i++ {
		wp := workerpool.New("t", workerpool.WithWorkerCount(1)).Start()
		var ran atomic.Int32
		var wg sync.WaitGroup
		for k := 0; k < 4; k++ {
			wg.Add(1)
			go func() { defer wg.Done(); for j := 0; j < 50; j++ { wp.Submit(func() { ran.Add(1) }) } }()
		}
		wp.Shutdown()
		wg.Wait()
		done := make(chan struct{})
		go func() { wp.ShutdownComplete.Wait(); close(done) }()
		select {
		case <-done:
		case <-time.After(3 * time.Second):
			t.Fatalf("iteration %d: shutdown never completed", i)
		}
		if p := wp.PendingTasksCounter.Get(); p != 0 {
			t.Fatalf("iteration %d: shutdown completed but %d accepted task(s) are still pending and will never run (ran=%d, queue=%d)", i, p, ran.Load(), wp.Queue.Size())
		}
	}
	t.Log("race not hit in 20s")
}
