package scratch

import (
	"errors"
	"testing"

	"github.com/iotaledger/hive.go/kvstore"
	"github.com/iotaledger/hive.go/kvstore/mapdb"
)

// An encode failure inside Compute must be reported and must leave store and cache unchanged.
func TestComputeEncodeFailure(t *testing.T) {
	store := mapdb.NewMapDB()
	encErr := errors.New("cannot encode")
	tv := kvstore.NewTypedValue[int](store, []byte("k"),
		func(v int) ([]byte, error) {
			if v == 42 {
				return nil, encErr
			}
			return []byte{byte(v)}, nil
		},
		func(b []byte) (int, int, error) { return int(b[0]), 1, nil })
	if err := tv.Set(7); err != nil {
		t.Fatal(err)
	}
	_, err := tv.Compute(func(cur int, exists bool) (int, error) { return 42, nil })
	if err == nil {
		t.Errorf("Compute swallowed the encode error")
	}
	raw, _ := store.Get([]byte("k"))
	if len(raw) != 1 || raw[0] != 7 {
		t.Errorf("store changed by failed Compute: %v", raw)
	}
	if v, _ := tv.Get(); v != 7 {
		t.Errorf("cache changed by failed Compute: %v", v)
	}
}
