package scratch

import "runtime"

type runtimeMem struct{ total uint64 }

func (m *runtimeMem) read() {
	var ms runtime.MemStats
	runtime.ReadMemStats(&ms)
	m.total = ms.TotalAlloc
}
