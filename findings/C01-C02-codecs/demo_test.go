package scratch

import (
	"bytes"
	"context"
	"encoding/binary"
	"math"
	"testing"
	"testing/iotest"

	"github.com/iotaledger/hive.go/serializer/v2"
	"github.com/iotaledger/hive.go/serializer/v2/serix"
	"github.com/iotaledger/hive.go/serializer/v2/stream"
)

func noPanic(t *testing.T, name string, f func()) {
	t.Helper()
	defer func() {
		if r := recover(); r != nil {
			t.Errorf("%s panicked: %v", name, r)
		}
	}()
	f()
}

// C01: stream helpers must work for readers that split their reads.
func TestStreamReadBytesWithChunkedReader(t *testing.T) {
	data := []byte{1, 2, 3, 4, 5}
	got, err := stream.ReadBytes(iotest.OneByteReader(bytes.NewReader(data)), len(data))
	if err != nil || !bytes.Equal(got, data) {
		t.Fatalf("ReadBytes through a reader that returns one byte per Read: %v, %v", got, err)
	}
}

// C02: a length prefix must never drive an allocation or a panic.
func TestStreamReadBytesWithSizeHugePrefix(t *testing.T) {
	prefix := make([]byte, 8)
	binary.LittleEndian.PutUint64(prefix, math.MaxUint64) // converts to a negative int
	noPanic(t, "ReadBytesWithSize(uint64 prefix = MaxUint64)", func() {
		if _, err := stream.ReadBytesWithSize(bytes.NewReader(prefix), serializer.SeriLengthPrefixTypeAsUint64); err == nil {
			t.Errorf("expected an error")
		}
	})
}

type arrOfU16 struct {
	A [2]uint16 `serix:",lenPrefix=uint8"`
}

// C01/C02: arrays of non-byte elements must round-trip (and never panic on decode).
func TestSerixArrayOfNonBytesRoundTrip(t *testing.T) {
	api := serix.NewAPI()
	in := arrOfU16{A: [2]uint16{7, 9}}
	b, err := api.Encode(context.Background(), &in)
	if err != nil {
		t.Fatal(err)
	}
	var out arrOfU16
	noPanic(t, "Decode of [2]uint16", func() {
		n, err := api.Decode(context.Background(), b, &out)
		if err != nil || n != len(b) || out != in {
			t.Errorf("decode: n=%d err=%v out=%v want %v", n, err, out, in)
		}
	})
}

type withU64Prefix struct {
	B []byte `serix:",lenPrefix=uint64"`
}

// C01: a length prefix type that the tags accept must be usable.
func TestSerixUint64LengthPrefix(t *testing.T) {
	api := serix.NewAPI()
	in := withU64Prefix{B: []byte{1, 2, 3}}
	noPanic(t, "Encode/Decode with lenPrefix=uint64", func() {
		b, err := api.Encode(context.Background(), &in)
		if err != nil {
			t.Errorf("encode: %v", err)
			return
		}
		var out withU64Prefix
		if _, err := api.Decode(context.Background(), b, &out); err != nil || !bytes.Equal(out.B, in.B) {
			t.Errorf("decode: %v %v", out, err)
		}
	})
}

type jsonTarget struct {
	N uint8  `serix:""`
	S string `serix:",lenPrefix=uint8"`
	F bool   `serix:""`
}

// C02: wrong-typed JSON must produce an error, never a panic.
func TestJSONDecodeWrongTypes(t *testing.T) {
	api := serix.NewAPI()
	for _, doc := range []string{`{"n":"x","s":"a","f":true}`, `{"n":1,"s":"a","f":"yes"}`, `{"n":1,"s":5,"f":true}`} {
		var out jsonTarget
		noPanic(t, "JSONDecode "+doc, func() {
			if err := api.JSONDecode(context.Background(), []byte(doc), &out); err == nil {
				t.Errorf("%s: expected an error", doc)
			}
		})
	}
}

// C02: the Deserializer must not allocate from the prefix before checking the remaining input.
func TestReadVariableByteSliceStopsOnLengthError(t *testing.T) {
	src := []byte{0xff, 0xff, 0xff, 0x7f, 1, 2, 3} // uint32 prefix = 2 GiB, 3 bytes of payload
	var out []byte
	allocs := testing.AllocsPerRun(1, func() {
		serializer.NewDeserializer(src).ReadVariableByteSlice(&out, serializer.SeriLengthPrefixTypeAsUint32, func(err error) error { return err }, 0, 0)
	})
	_ = allocs
	var m1, m2 runtimeMem
	m1.read()
	serializer.NewDeserializer(src).ReadVariableByteSlice(&out, serializer.SeriLengthPrefixTypeAsUint32, func(err error) error { return err }, 0, 0)
	m2.read()
	if m2.total-m1.total > 1<<20 {
		t.Errorf("ReadVariableByteSlice allocated %d bytes for a 7 byte input", m2.total-m1.total)
	}
}
