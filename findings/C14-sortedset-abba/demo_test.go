package scratch

import (
	"sync"
	"testing"
	"time"

	"github.com/iotaledger/hive.go/ds/reactive"
)

// Weight updates racing with deletions: deleteSorted unsubscribes from the weight variable while
// holding the sorted set's mutex; the weight callback takes that mutex while holding its execution
// lock (AB-BA).
func TestSortedSetWeightUpdateRacingDelete(t *testing.T) {
	deadline := time.Now().Add(30 * time.Second)
	for i := 0; time.Now().Before(deadline); i++ {
		weights := map[int]reactive.Variable[int]{}
		for k := 0; k < 4; k++ {
			weights[k] = reactive.NewVariable[int]()
		}
		s := reactive.NewSortedSet[int, int](func(e int) reactive.Variable[int] { return weights[e] })
		for k := 0; k < 4; k++ {
			s.Add(k)
		}
		done := make(chan struct{})
		var wg sync.WaitGroup
		for k := 0; k < 4; k++ {
			wg.Add(2)
			go func(k int) {
				defer wg.Done()
				for j := 0; j < 200; j++ {
					weights[k].Set(j)
				}
			}(k)
			go func(k int) {
				defer wg.Done()
				for j := 0; j < 50; j++ {
					s.Delete(k)
					s.Add(k)
				}
			}(k)
		}
		go func() { wg.Wait(); close(done) }()
		select {
		case <-done:
		case <-time.After(5 * time.Second):
			t.Fatalf("iteration %d: dead-lock between a weight update and a deletion", i)
		}
	}
	t.Log("race not hit")
}
