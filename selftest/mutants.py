MUTANTS = []
def M(prop, name, file, old, new, expect, **kw):
    MUTANTS.append(dict(prop=prop, name=prop+'-'+name, file=file, old=old, new=new, expect=expect, **kw))

# ---------------- C05
M('C05','get-nolock','kvstore/mapdb/synced_map.go','''	s.RLock()
	defer s.RUnlock()
	value, ok := s.m[string(key)]''','''	value, ok := s.m[string(key)]''','lock/guarded-by syncedKVMap.m in kvstore/mapdb.syncedKVMap.get')
M('C05','deleteprefix-rlock','kvstore/mapdb/synced_map.go','''	s.Lock()
	defer s.Unlock()
	prefix := string(keyPrefix)''','''	s.RLock()
	defer s.RUnlock()
	prefix := string(keyPrefix)''','lock/guarded-by syncedKVMap.m in kvstore/mapdb.syncedKVMap.deletePrefix [W]')
M('C05','iterate-consume-under-lock','kvstore/mapdb/synced_map.go','''			copiedElements[key] = byteutils.ConcatBytes(value)
		}
	}
	s.RUnlock()
''','''			copiedElements[key] = byteutils.ConcatBytes(value)
		}
	}
	defer s.RUnlock()
''','lock/no-callback-under-lock kvstore/mapdb.syncedKVMap.iterate')
M('C05','set-leak','kvstore/mapdb/mapdb.go','''	s.Lock()
	defer s.Unlock()

	return s.set(key, value)''','''	s.Lock()

	return s.set(key, value)''','lock/balance kvstore/mapdb.mapDB.Set')
M('C05','batch-set-nolock','kvstore/mapdb/mapdb.go','''	b.Lock()
	defer b.Unlock()

	delete(b.deleteOperations, stringKey)''','''	delete(b.deleteOperations, stringKey)''','lock/guarded-by batchedMutations')
M('C05','iteratekeys-two-sections','kvstore/mapdb/synced_map.go','''	for key := range s.m {
		if strings.HasPrefix(key, prefix) {
			copiedElements[key] = struct{}{}
		}
	}
	s.RUnlock()''','''	for key := range s.m {
		if strings.HasPrefix(key, prefix) {
			s.RUnlock()
			copiedElements[key] = struct{}{}
			s.RLock()
		}
	}
	s.RUnlock()''','snapshot/one-section kvstore/mapdb.syncedKVMap.iterateKeys')
M('C05','commit-reacquire','kvstore/mapdb/mapdb.go','''		err := b.kvStore.set([]byte(key), value)''','''		err := b.kvStore.Set([]byte(key), value)''','lock/order reacquire')
M('C05','silent-explicit-unlock','kvstore/mapdb/synced_map.go','''	s.Lock()
	defer s.Unlock()
	delete(s.m, string(key))''','''	s.Lock()
	delete(s.m, string(key))
	s.Unlock()''','',silent=True)

# ---------------- C06
M('C06','compute-wrong-var','kvstore/typedvalue.go','newValueBytesErr := t.vToBytes(newValue); newValueBytesErr != nil','newValueBytesErr := t.vToBytes(newValue); err != nil','err/checked error of field vToBytes in kvstore.TypedValue.Compute')
M('C06','set-cache-before-store','kvstore/typedvalue.go','''	if valueBytes, err := t.vToBytes(value); err != nil {
		return ierrors.Wrap(err, "failed to encode value")
	} else if err = t.kv.Set(t.keyBytes, valueBytes); err != nil {
		return ierrors.Wrap(err, "failed to store value in KV store")
	}

	t.valueCached = &value
	t.hasCached = &truePtr
''','''	t.valueCached = &value
	t.hasCached = &truePtr
	if valueBytes, err := t.vToBytes(value); err != nil {
		return ierrors.Wrap(err, "failed to encode value")
	} else if err = t.kv.Set(t.keyBytes, valueBytes); err != nil {
		return ierrors.Wrap(err, "failed to store value in KV store")
	}
''','cache/after-store-success valueCached write in kvstore.TypedValue.Set')
M('C06','delete-swallow','kvstore/typedvalue.go','''	if err = t.kv.Delete(t.keyBytes); err != nil {
		return ierrors.Wrap(err, "failed to delete entry from KV store")
	}''','''	if err = t.kv.Delete(t.keyBytes); err != nil {
		return nil
	}''','err/failure-returns-error nil-error return in kvstore.TypedValue.Delete')
M('C06','get-absence-any-error','kvstore/typedvalue.go','''		if ierrors.Is(valueBytesErr, ErrKeyNotFound) {
			t.hasCached = &falsePtr
		}
''','''		t.hasCached = &falsePtr
''','cache/after-store-success hasCached write in kvstore.TypedValue.Get (absence)')
M('C06','compute-split-section','kvstore/typedvalue.go','''	t.mutex.Lock()
	defer t.mutex.Unlock()

	currentValue, exists := t.cachedValue()''','''	t.mutex.RLock()
	currentValue, exists := t.cachedValue()
	t.mutex.RUnlock()
	t.mutex.Lock()
	defer t.mutex.Unlock()
''','lock/one-write-section kvstore.TypedValue.Compute')
M('C06','has-nolock-second','kvstore/typedvalue.go','''	// If we have a cache miss, get lock and check again
	t.mutex.Lock()
	defer t.mutex.Unlock()

	if t.hasCached != nil {
		return *t.hasCached, nil
	} else if''','''	// If we have a cache miss, get lock and check again
	if t.hasCached != nil {
		return *t.hasCached, nil
	} else if''','lock/guarded-by TypedValue.hasCached in kvstore.TypedValue.Has')
M('C06','store-set-drop-err','kvstore/typedstore.go','''	err = t.kv.Set(keyBytes, valueBytes)
	if err != nil {
		return ierrors.Wrap(err, "failed to store in KV store")
	}

	return nil''','''	err = t.kv.Set(keyBytes, valueBytes)

	return nil''','err/checked error of KVStore.Set in kvstore.TypedStore.Set')
M('C06','store-set-raw-key','kvstore/typedstore.go','''	err = t.kv.Set(keyBytes, valueBytes)''','''	err = t.kv.Set(valueBytes, keyBytes)''','codec/plumbing kvstore.TypedStore.Set')
M('C06','iterate-continue-on-error','kvstore/typedstore.go','''		valueDecoded, _, valueErr := t.bytesToValue(value)
		if valueErr != nil {
			innerErr = valueErr

			return false
		}''','''		valueDecoded, _, valueErr := t.bytesToValue(value)
		if valueErr != nil {
			innerErr = valueErr

			return true
		}''','iterate/stop-and-report kvstore.TypedStore.Iterate')
M('C06','iteratekeys-lose-error','kvstore/typedstore.go','''		return ierrors.Wrap(iterationErr, "failed to iterate keys over KV store")
	}

	return innerErr''','''		return ierrors.Wrap(iterationErr, "failed to iterate keys over KV store")
	}
	_ = innerErr

	return nil''','iterate/stop-and-report kvstore.TypedStore.IterateKeys')
M('C06','silent-reorder-cache-writes','kvstore/typedvalue.go','''	t.valueCached = nil
	t.hasCached = &falsePtr
''','''	t.hasCached = &falsePtr
	t.valueCached = nil
''','',silent=True)

# ---------------- C07
M('C07','release-unguarded','kvstore/sequence.go','''	if seq.next >= seq.reserved {
		// nothing is leased (never leased, exhausted or already released): the stored mark is already correct
		return nil
	}
''','','seq/durable-mark-monotone store write in kvstore.Sequence.Release')
M('C07','reserve-before-set','kvstore/sequence.go','''	err = seq.store.Set(seq.key, buf[:])
	if err != nil {
		return err
	}
	seq.reserved = reserved
''','''	seq.reserved = reserved
	err = seq.store.Set(seq.key, buf[:])
	if err != nil {
		return err
	}
''','seq/reserve-before-handout reserved write in kvstore.Sequence.update')
M('C07','next-guard-offbyone','kvstore/sequence.go','if seq.next >= seq.reserved {\n\t\tif err','if seq.next > seq.reserved {\n\t\tif err','seq/next-guard kvstore.Sequence.Next')
M('C07','any-error-is-notfound','kvstore/sequence.go','''	case ierrors.Is(err, ErrKeyNotFound):
		seq.next = 0
	case err != nil:
		return err''','''	case ierrors.Is(err, ErrKeyNotFound) || err != nil:
		seq.next = 0''','seq/init-only-on-notfound')
M('C07','byteorder-read','kvstore/sequence.go','num := binary.BigEndian.Uint64(value)','num := binary.LittleEndian.Uint64(value)','seq/byte-order')
M('C07','update-ignores-set-error','kvstore/sequence.go','''	err = seq.store.Set(seq.key, buf[:])
	if err != nil {
		return err
	}
	seq.reserved = reserved''','''	_ = seq.store.Set(seq.key, buf[:])
	seq.reserved = reserved''','seq/reserve-before-handout')
M('C07','next-no-lock','kvstore/sequence.go','''func (seq *Sequence) Next() (uint64, error) {
	seq.Lock()
	defer seq.Unlock()
''','''func (seq *Sequence) Next() (uint64, error) {
''','lock/guarded-by')
M('C07','reserved-other-value','kvstore/sequence.go','	seq.reserved = reserved\n','	seq.reserved = reserved + seq.interval\n','seq/reserve-before-handout')
M('C07','silent-guard-form','kvstore/sequence.go','if seq.next >= seq.reserved {\n\t\tif err','if !(seq.next < seq.reserved) {\n\t\tif err','',silent=True)
M('C07','silent-release-guard-form','kvstore/sequence.go','''	if seq.next >= seq.reserved {
		// nothing is leased''','''	if seq.reserved == 0 || seq.reserved <= seq.next {
		// nothing is leased''','',silent=True)
