MUTANTS = []
def M(prop, name, file, old, new, expect, **kw):
    MUTANTS.append(dict(prop=prop, name=prop+'-'+name, file=file, old=old, new=new, expect=expect, **kw))

# ---------------- C05
M('C05','get-nolock','kvstore/mapdb/synced_map.go','''	s.RLock()
	defer s.RUnlock()
	value, ok := s.m[string(key)]''','''	value, ok := s.m[string(key)]''','lock/guarded-by syncedKVMap.get() in kvstore/mapdb.mapDB.Get')
M('C05','deleteprefix-rlock','kvstore/mapdb/synced_map.go','''	s.Lock()
	defer s.Unlock()
	prefix := string(keyPrefix)''','''	s.RLock()
	defer s.RUnlock()
	prefix := string(keyPrefix)''','lock/guarded-by syncedKVMap.m in kvstore/mapdb.syncedKVMap.deletePrefix [W]')
M('C05','iterate-consume-under-lock','kvstore/mapdb/synced_map.go','''			copiedElements[key] = byteutils.ConcatBytes(value)
		}
	}
	s.RUnlock()
''','''			copiedElements[key] = byteutils.ConcatBytes(value)
		}
	}
	defer s.RUnlock()
''','lock/no-callback-under-lock kvstore/mapdb.syncedKVMap.iterate')
M('C05','set-leak','kvstore/mapdb/mapdb.go','''	s.Lock()
	defer s.Unlock()

	return s.set(key, value)''','''	s.Lock()

	return s.set(key, value)''','lock/balance kvstore/mapdb.mapDB.Set')
M('C05','batch-set-nolock','kvstore/mapdb/mapdb.go','''	b.Lock()
	defer b.Unlock()

	delete(b.deleteOperations, stringKey)''','''	delete(b.deleteOperations, stringKey)''','lock/guarded-by batchedMutations')
M('C05','iteratekeys-two-sections','kvstore/mapdb/synced_map.go','''	for key := range s.m {
		if strings.HasPrefix(key, prefix) {
			copiedElements[key] = struct{}{}
		}
	}
	s.RUnlock()''','''	for key := range s.m {
		if strings.HasPrefix(key, prefix) {
			s.RUnlock()
			copiedElements[key] = struct{}{}
			s.RLock()
		}
	}
	s.RUnlock()''','snapshot/one-section kvstore/mapdb.syncedKVMap.iterateKeys')
M('C05','commit-reacquire','kvstore/mapdb/mapdb.go','''		err := b.kvStore.set([]byte(key), value)''','''		err := b.kvStore.Set([]byte(key), value)''','lock/order reacquire')
M('C05','silent-explicit-unlock','kvstore/mapdb/synced_map.go','''	s.Lock()
	defer s.Unlock()
	delete(s.m, string(key))''','''	s.Lock()
	delete(s.m, string(key))
	s.Unlock()''','',silent=True)

# ---------------- C06
M('C06','compute-wrong-var','kvstore/typedvalue.go','newValueBytesErr := t.vToBytes(newValue); newValueBytesErr != nil','newValueBytesErr := t.vToBytes(newValue); err != nil','err/checked error of field vToBytes in kvstore.TypedValue.Compute')
M('C06','set-cache-before-store','kvstore/typedvalue.go','''	if valueBytes, err := t.vToBytes(value); err != nil {
		return ierrors.Wrap(err, "failed to encode value")
	} else if err = t.kv.Set(t.keyBytes, valueBytes); err != nil {
		return ierrors.Wrap(err, "failed to store value in KV store")
	}

	t.valueCached = &value
	t.hasCached = &truePtr
''','''	t.valueCached = &value
	t.hasCached = &truePtr
	if valueBytes, err := t.vToBytes(value); err != nil {
		return ierrors.Wrap(err, "failed to encode value")
	} else if err = t.kv.Set(t.keyBytes, valueBytes); err != nil {
		return ierrors.Wrap(err, "failed to store value in KV store")
	}
''','cache/after-store-success valueCached write in kvstore.TypedValue.Set')
M('C06','delete-swallow','kvstore/typedvalue.go','''	if err = t.kv.Delete(t.keyBytes); err != nil {
		return ierrors.Wrap(err, "failed to delete entry from KV store")
	}''','''	if err = t.kv.Delete(t.keyBytes); err != nil {
		return nil
	}''','err/failure-returns-error nil-error return in kvstore.TypedValue.Delete')
M('C06','get-absence-any-error','kvstore/typedvalue.go','''		if ierrors.Is(valueBytesErr, ErrKeyNotFound) {
			t.hasCached = &falsePtr
		}
''','''		t.hasCached = &falsePtr
''','cache/after-store-success hasCached write in kvstore.TypedValue.Get (absence)')
M('C06','compute-split-section','kvstore/typedvalue.go','''	t.mutex.Lock()
	defer t.mutex.Unlock()

	currentValue, exists := t.cachedValue()''','''	t.mutex.RLock()
	currentValue, exists := t.cachedValue()
	t.mutex.RUnlock()
	t.mutex.Lock()
	defer t.mutex.Unlock()
''','lock/one-write-section kvstore.TypedValue.Compute')
M('C06','has-nolock-second','kvstore/typedvalue.go','''	// If we have a cache miss, get lock and check again
	t.mutex.Lock()
	defer t.mutex.Unlock()

	if t.hasCached != nil {
		return *t.hasCached, nil
	} else if''','''	// If we have a cache miss, get lock and check again
	if t.hasCached != nil {
		return *t.hasCached, nil
	} else if''','lock/guarded-by TypedValue.hasCached in kvstore.TypedValue.Has')
M('C06','store-set-drop-err','kvstore/typedstore.go','''	err = t.kv.Set(keyBytes, valueBytes)
	if err != nil {
		return ierrors.Wrap(err, "failed to store in KV store")
	}

	return nil''','''	err = t.kv.Set(keyBytes, valueBytes)

	return nil''','err/checked error of KVStore.Set in kvstore.TypedStore.Set')
M('C06','store-set-raw-key','kvstore/typedstore.go','''	err = t.kv.Set(keyBytes, valueBytes)''','''	err = t.kv.Set(valueBytes, keyBytes)''','codec/plumbing kvstore.TypedStore.Set')
M('C06','iterate-continue-on-error','kvstore/typedstore.go','''		valueDecoded, _, valueErr := t.bytesToValue(value)
		if valueErr != nil {
			innerErr = valueErr

			return false
		}''','''		valueDecoded, _, valueErr := t.bytesToValue(value)
		if valueErr != nil {
			innerErr = valueErr

			return true
		}''','iterate/stop-and-report kvstore.TypedStore.Iterate')
M('C06','iteratekeys-lose-error','kvstore/typedstore.go','''		return ierrors.Wrap(iterationErr, "failed to iterate keys over KV store")
	}

	return innerErr''','''		return ierrors.Wrap(iterationErr, "failed to iterate keys over KV store")
	}
	_ = innerErr

	return nil''','iterate/stop-and-report kvstore.TypedStore.IterateKeys')
M('C06','silent-reorder-cache-writes','kvstore/typedvalue.go','''	t.valueCached = nil
	t.hasCached = &falsePtr
''','''	t.hasCached = &falsePtr
	t.valueCached = nil
''','',silent=True)

# ---------------- C07
M('C07','release-unguarded','kvstore/sequence.go','''	if seq.next >= seq.reserved {
		// nothing is leased (never leased, exhausted or already released): the stored mark is already correct
		return nil
	}
''','','seq/durable-mark-monotone store write in kvstore.Sequence.Release')
M('C07','reserve-before-set','kvstore/sequence.go','''	err = seq.store.Set(seq.key, buf[:])
	if err != nil {
		return err
	}
	seq.reserved = reserved
''','''	seq.reserved = reserved
	err = seq.store.Set(seq.key, buf[:])
	if err != nil {
		return err
	}
''','seq/reserve-before-handout reserved write in kvstore.Sequence.Next')
M('C07','next-guard-offbyone','kvstore/sequence.go','if seq.next >= seq.reserved {\n\t\tif err','if seq.next > seq.reserved {\n\t\tif err','seq/next-guard kvstore.Sequence.Next')
M('C07','any-error-is-notfound','kvstore/sequence.go','''	case ierrors.Is(err, ErrKeyNotFound):
		seq.next = 0
	case err != nil:
		return err''','''	case ierrors.Is(err, ErrKeyNotFound) || err != nil:
		seq.next = 0''','seq/init-only-on-notfound')
M('C07','byteorder-read','kvstore/sequence.go','num := binary.BigEndian.Uint64(value)','num := binary.LittleEndian.Uint64(value)','seq/byte-order')
M('C07','update-ignores-set-error','kvstore/sequence.go','''	err = seq.store.Set(seq.key, buf[:])
	if err != nil {
		return err
	}
	seq.reserved = reserved''','''	_ = seq.store.Set(seq.key, buf[:])
	seq.reserved = reserved''','seq/reserve-before-handout')
M('C07','next-no-lock','kvstore/sequence.go','''func (seq *Sequence) Next() (uint64, error) {
	seq.Lock()
	defer seq.Unlock()
''','''func (seq *Sequence) Next() (uint64, error) {
''','lock/guarded-by')
M('C07','reserved-other-value','kvstore/sequence.go','	seq.reserved = reserved\n','	seq.reserved = reserved + seq.interval\n','seq/reserve-before-handout')
M('C07','silent-guard-form','kvstore/sequence.go','if seq.next >= seq.reserved {\n\t\tif err','if !(seq.next < seq.reserved) {\n\t\tif err','',silent=True)
M('C07','silent-release-guard-form','kvstore/sequence.go','''	if seq.next >= seq.reserved {
		// nothing is leased''','''	if seq.reserved == 0 || seq.reserved <= seq.next {
		// nothing is leased''','',silent=True)

# ---------------- C04
M('C04','has-no-closed-check','kvstore/mapdb/mapdb.go','''func (s *mapDB) Has(key kvstore.Key) (bool, error) {
	if s.closed.Load() {
		return false, kvstore.ErrStoreClosed
	}
''','''func (s *mapDB) Has(key kvstore.Key) (bool, error) {
''','closed-gate kvstore/mapdb.mapDB.Has')
M('C04','commit-no-closed-check','kvstore/mapdb/mapdb.go','''func (b *batchedMutations) Commit() error {
	if b.closed.Load() {
		return kvstore.ErrStoreClosed
	}
''','''func (b *batchedMutations) Commit() error {
''','closed-gate kvstore/mapdb.batchedMutations.Commit')
M('C04','view-own-flag','kvstore/mapdb/mapdb.go','''		m:      s.m, // use the same underlying map
		closed: s.closed,''','''		m:      s.m, // use the same underlying map
		closed: new(atomic.Bool),''','closed-gate/shared-flag mapDB literal in kvstore/mapdb.mapDB.WithRealm')
M('C04','close-noop','kvstore/mapdb/mapdb.go','''	if s.closed.Swap(true) {
		// was already closed
		return nil
	}
''','''	if s.closed.Load() {
		// was already closed
		return nil
	}
''','closed-gate kvstore/mapdb.mapDB.Close')
M('C04','flush-after-closed','kvstore/mapdb/mapdb.go','''func (s *mapDB) Flush() error {
	if s.closed.Load() {
		return kvstore.ErrStoreClosed
	}
''','''func (s *mapDB) Flush() error {
''','closed-gate kvstore/mapdb.mapDB.Flush')
M('C04','realm-order-swapped','kvstore/mapdb/mapdb.go','s.m.delete(byteutils.ConcatBytes(s.realm, key))','s.m.delete(byteutils.ConcatBytes(key, s.realm))','realm/key-prefixed delete call in kvstore/mapdb.mapDB.Delete')
M('C04','deleteprefix-no-realm','kvstore/mapdb/mapdb.go','s.m.deletePrefix(byteutils.ConcatBytes(s.realm, prefix))','s.m.deletePrefix(prefix)','realm/key-prefixed deletePrefix call in kvstore/mapdb.mapDB.DeletePrefix')
M('C04','get-no-copy','kvstore/mapdb/synced_map.go','return byteutils.ConcatBytes(value), true','return value, true','copy/in-out kvstore/mapdb.syncedKVMap.get')
M('C04','set-no-copy','kvstore/mapdb/synced_map.go','s.m[string(key)] = byteutils.ConcatBytes(value)','s.m[string(key)] = value','copy/in-out')
M('C04','iterate-no-copy','kvstore/mapdb/synced_map.go','copiedElements[key] = byteutils.ConcatBytes(value)','copiedElements[key] = value','copy/in-out kvstore/mapdb.syncedKVMap.iterate')
M('C04','iterate-ignore-direction','kvstore/mapdb/synced_map.go','''	for _, key := range utils.SortSlice(keysSlice, iterDirection...) {
		if !consume([]byte(key)[len(realm):], copiedElements[key]) {''','''	for _, key := range utils.SortSlice(keysSlice) {
		if !consume([]byte(key)[len(realm):], copiedElements[key]) {''','order/sorted-direction kvstore/mapdb.mapDB.Iterate')
M('C04','iteratekeys-no-stop','kvstore/mapdb/synced_map.go','''		if !consume([]byte(key)[len(realm):]) {
			break
		}''','''		if !consume([]byte(key)[len(realm):]) {
			continue
		}''','order/stop-on-false kvstore/mapdb.mapDB.IterateKeys')
M('C04','iterate-no-strip','kvstore/mapdb/synced_map.go','if !consume([]byte(key)[len(realm):], copiedElements[key]) {','if !consume([]byte(key), copiedElements[key]) {','realm/strip kvstore/mapdb.syncedKVMap.iterate')
M('C04','sortslice-backward-asc','kvstore/utils/utils.go','sort.Sort(sort.Reverse(sort.StringSlice(slice)))','sort.Sort(sort.StringSlice(slice))','order/sortslice')
M('C04','batch-set-keeps-delete','kvstore/mapdb/mapdb.go','''	delete(b.deleteOperations, stringKey)
	b.setOperations[stringKey] = value''','''	b.setOperations[stringKey] = value''','batch/disjoint kvstore/mapdb.batchedMutations.Set')
M('C04','cancel-half','kvstore/mapdb/mapdb.go','''	b.setOperations = make(map[string]kvstore.Value)
	b.deleteOperations = make(map[string]types.Empty)
}''','''	b.setOperations = make(map[string]kvstore.Value)
}''','batch/disjoint kvstore/mapdb.batchedMutations.Cancel')
M('C04','flushkv-delete-no-flush','kvstore/flushkv/flushkv.go','''	if err := s.store.Delete(key); err != nil {
		return err
	}

	return s.store.Flush()''','''	if err := s.store.Delete(key); err != nil {
		return err
	}

	return nil''','fwd/flush-after-write kvstore/flushkv.flushKVStore.Delete')
M('C04','flushkv-view-wraps-parent','kvstore/flushkv/flushkv.go','''	return &flushKVStore{
		store: store,
	}, nil''','''	_ = store

	return &flushKVStore{
		store: s.store,
	}, nil''','fwd/wraps-inner kvstore/flushkv.flushKVStore.WithRealm')
M('C04','debug-set-swapped','kvstore/debug/debug.go','return s.underlying.Set(key, value)','return s.underlying.Set(value, key)','fwd/delegates kvstore/debug.debugStore.Set')
M('C04','debug-iterate-drops-direction','kvstore/debug/debug.go','return s.underlying.Iterate(prefix, kvConsumerFunc, iterDirection...)','return s.underlying.Iterate(prefix, kvConsumerFunc)','fwd/delegates kvstore/debug.debugStore.Iterate')
M('C04','flushkv-extended-realm-order','kvstore/flushkv/flushkv.go','return s.WithRealm(byteutils.ConcatBytes(s.Realm(), realm))','return s.WithRealm(byteutils.ConcatBytes(realm, s.Realm()))','realm/extended kvstore/flushkv.flushKVStore.WithExtendedRealm')
M('C04','debug-has-calls-get','kvstore/debug/debug.go','return s.underlying.Has(key)','_, err := s.underlying.Get(key)\n\n\treturn err == nil, nil','fwd/delegates kvstore/debug.debugStore.Has')

# ---------------- C08
M('C08','wg-add-in-goroutine','kvstore/batch_writer.go','''		bw.writeWg.Add(1)
		go bw.runBatchWriter()''','''		go func() {
			bw.writeWg.Add(1)
			bw.runBatchWriter()
		}()''','wg/add-before-go')
M('C08','enqueue-check-then-publish','kvstore/batch_writer.go','''	bw.scheduledCount.Add(1)

	// abort if the BatchWriter has been stopped
	if !bw.running.Load() {
		bw.scheduledCount.Add(-1)

		return
	}
''','''	// abort if the BatchWriter has been stopped
	if !bw.running.Load() {
		return
	}
	bw.scheduledCount.Add(1)
''','publish/announce-then-check')
M('C08','enqueue-leak-count','kvstore/batch_writer.go','''	if object.BatchWriteScheduled() {
		bw.scheduledCount.Add(-1)

		return
	}''','''	if object.BatchWriteScheduled() {
		return
	}''','publish/count-balanced')
M('C08','loop-cond-order','kvstore/batch_writer.go','for bw.running.Load() || bw.scheduledCount.Load() != 0 {','for bw.scheduledCount.Load() != 0 || bw.running.Load() {','publish/writer-loop-cond')
M('C08','done-before-commit','kvstore/batch_collector.go','''	if err := br.batchedMuts.Commit(); err != nil {
		return err
	}

	for i := range br.writtenValuesCounter {
		br.writtenValues[i].BatchWriteDone()
	}
''','''	for i := range br.writtenValuesCounter {
		br.writtenValues[i].BatchWriteDone()
	}

	if err := br.batchedMuts.Commit(); err != nil {
		return err
	}
''','collector/done-after-commit')
M('C08','timeout-arm-no-commit','kvstore/batch_writer.go','''				case <-batchWriterTimeoutTimer.C:
					// apply the collected mutations
					if err := batchCollector.Commit(); err != nil {
						panic(err)
					}

					return''','''				case <-batchWriterTimeoutTimer.C:
					return''','collector/typestate')
M('C08','flush-no-new-collector','kvstore/batch_writer.go','''						batchCollector = newBatchCollector(batchedMutation, &bw.scheduledCount, bw.opts.batchSize)
					}

				// no elements left''','''						_ = batchedMutation
					}

				// no elements left''','collector/typestate')
M('C08','add-no-decrement','kvstore/batch_collector.go','	br.scheduledCount.Add(-1)\n','','collector/add-steps kvstore.BatchCollector.Add scheduledCount.Add(-1)')
M('C08','stop-no-wait','kvstore/batch_writer.go','''		bw.running.Store(false)

		bw.writeWg.Wait()''','''		bw.running.Store(false)''','stop/clear-then-wait')
M('C08','stop-no-mutex','kvstore/batch_writer.go','''func (bw *BatchedWriter) StopBatchWriter() {
	bw.startStopMutex.Lock()
	if bw.running.Load() {
		bw.running.Store(false)

		bw.writeWg.Wait()
	}
	bw.startStopMutex.Unlock()''','''func (bw *BatchedWriter) StopBatchWriter() {
	if bw.running.Load() {
		bw.running.Store(false)

		bw.writeWg.Wait()
	}''','lock/guarded-by BatchedWriter.running')
M('C08','done-loop-wrong-bound','kvstore/batch_collector.go','for i := range br.writtenValuesCounter {','for i := range br.writtenValuesCounter - 1 {','collector/done-once-per-slot')

# ---------------- C09
M('C09','root-nolock','ads/map_impl.go','''func (m *authenticatedMap[IdentifierType, K, V]) Root() (root IdentifierType) {
	m.mutex.Lock()
	defer m.mutex.Unlock()
''','''func (m *authenticatedMap[IdentifierType, K, V]) Root() (root IdentifierType) {
''','lock/guarded-by authenticatedMap.tree in ads.authenticatedMap.Root')
M('C09','set-rlock','ads/map_impl.go','''func (m *authenticatedMap[IdentifierType, K, V]) Set(key K, value V) error {
	m.mutex.Lock()
	defer m.mutex.Unlock()''','''func (m *authenticatedMap[IdentifierType, K, V]) Set(key K, value V) error {
	m.mutex.RLock()
	defer m.mutex.RUnlock()''','lock/guarded-by')
M('C09','has-after-update','ads/map_impl.go','''	has, err := m.has(keyBytes)
	if err != nil {
		return ierrors.Wrap(err, "failed to check if key exists")
	}

	if err := m.tree.Update(keyBytes, valueBytes); err != nil {
		return ierrors.Wrap(err, "failed to update tree")
	}
''','''	if err := m.tree.Update(keyBytes, valueBytes); err != nil {
		return ierrors.Wrap(err, "failed to update tree")
	}

	has, err := m.has(keyBytes)
	if err != nil {
		return ierrors.Wrap(err, "failed to check if key exists")
	}
''','size/has-before-mutation ads.authenticatedMap.Set')
M('C09','set-always-addsize','ads/map_impl.go','''	if !has {
		if err := m.addSize(1); err != nil {
			return ierrors.Wrap(err, "failed to increase size")
		}
	}''','''	_ = has
	if err := m.addSize(1); err != nil {
		return ierrors.Wrap(err, "failed to increase size")
	}''','size/accounting ads.authenticatedMap.Set addSize')
M('C09','delete-absent-still-deletes','ads/map_impl.go','''	if !has {
		return false, nil
	}

	if err := m.tree.Delete(keyBytes); err != nil {''','''	if err := m.tree.Delete(keyBytes); err != nil {''','size/accounting ads.authenticatedMap.Delete absent-is-noop')
M('C09','set-update-error-swallowed','ads/map_impl.go','''	if err := m.tree.Update(keyBytes, valueBytes); err != nil {
		return ierrors.Wrap(err, "failed to update tree")
	}''','''	if err := m.tree.Update(keyBytes, valueBytes); err != nil {
		return nil
	}''','err/failure-returns-error')
M('C09','set-no-rawkey','ads/map_impl.go','''	if err := m.rawKeysStore.Set(key, types.Void); err != nil {
		return ierrors.Wrap(err, "failed to set raw key")
	}

	if !has {''','''	if !has {
		if err := m.rawKeysStore.Set(key, types.Void); err != nil {
			return ierrors.Wrap(err, "failed to set raw key")
		}
	}

	if !has && len(keyBytes) > 0 {''','size/')
M('C09','commit-no-root','ads/map_impl.go','''	if err := m.root.Set(IdentifierType(m.tree.Root())); err != nil {
		return ierrors.Wrap(err, "failed to set root")
	}

	return m.tree.Commit()''','''	return m.tree.Commit()''','commit/root-and-trie')
M('C09','commit-no-trie-commit','ads/map_impl.go','''	return m.tree.Commit()''','''	return nil''','commit/root-and-trie')
M('C09','import-with-hasher','ads/map_impl.go','newMap.tree = smt.ImportSparseMerkleTrie(mapStoreAdapter, sha256.New(), root[:], smt.WithValueHasher(nil))','newMap.tree = smt.ImportSparseMerkleTrie(mapStoreAdapter, sha256.New(), root[:])','reopen/constructor')
M('C09','prefix-collision','ads/map_impl.go','size:         kvstore.NewTypedValue(store, []byte{prefixSizeKey},','size:         kvstore.NewTypedValue(store, []byte{prefixRootKey},','layout/prefixes-distinct')
M('C09','restored-inverted','ads/map_impl.go','return !ierrors.Is(err, kvstore.ErrKeyNotFound)','return ierrors.Is(err, kvstore.ErrKeyNotFound)','reopen/was-restored')
M('C09','adapter-set-swapped','ads/map_store_adapter.go','return k.underlying.Set(key, value)','return k.underlying.Set(value, key)','fwd/delegates ads.mapStoreAdapter.Set')
M('C09','stream-continue-on-error','ads/map_impl.go','''			innerErr = ierrors.Wrapf(valueErr, "failed to get value for key %s", keyBytes)

			return false''','''			innerErr = ierrors.Wrapf(valueErr, "failed to get value for key %s", keyBytes)

			return true''','iterate/stop-and-report')
M('C09','delete-size-plus','ads/map_impl.go','if err := m.addSize(-1); err != nil {','if err := m.addSize(1); err != nil {','size/accounting ads.authenticatedMap.Delete addSize')
M('C09','get-drops-tree-error','ads/map_impl.go','''	valueBytes, err := m.tree.Get(keyBytes)
	if err != nil {
		return value, false, ierrors.Wrap(err, "failed to get from tree")
	}

	if valueBytes == nil {''','''	valueBytes, _ := m.tree.Get(keyBytes)

	if valueBytes == nil {''','err/checked')

# ---------------- C10
M('C10','movebefore-wrong-assert','ds/list_impl.go','''	positionTyped, ok := position.(*listElement[T])
	if !ok {
		panic("unsupported ListElement type")
	}

	if typedElement.list.Load() != l || element == position || positionTyped.list.Load() != l {
		return
	}

	l.move(typedElement, positionTyped.prev.Load())''','''	positionTyped, ok := element.(*listElement[T])
	if !ok {
		panic("unsupported ListElement type")
	}

	if typedElement.list.Load() != l || element == position || positionTyped.list.Load() != l {
		return
	}

	l.move(typedElement, positionTyped.prev.Load())''','handle/validated ds.list.MoveBefore param position')
M('C10','insertafter-no-membership-check','ds/list_impl.go','''	if positionTyped.list.Load() != l {
		return nil
	}

	return l.insertValue(value, positionTyped)''','''	return l.insertValue(value, positionTyped)''','handle/validated ds.list.InsertAfter param position')
M('C10','moveafter-position-unchecked','ds/list_impl.go','''	if typedElement.list.Load() != l || element == position || positionTyped.list.Load() != l {
		return
	}

	l.move(typedElement, positionTyped)''','''	if typedElement.list.Load() != l || element == position {
		return
	}

	l.move(typedElement, positionTyped)''','handle/validated ds.list.MoveAfter param position')
M('C10','remove-keeps-len','ds/list_impl.go','''	e.list.Store(nil)
	l.len--''','''	e.list.Store(nil)''','bookkeeping/sites')
M('C10','insert-wrong-link','ds/list_impl.go','''	e.prev.Load().next.Store(e)
	e.next.Load().prev.Store(e)
	e.list.Store(l)''','''	e.prev.Load().next.Store(e)
	e.next.Load().prev.Store(at)
	e.list.Store(l)''','splice/agrees-with-container-list ds.list.insert')
M('C10','move-missing-unlink','ds/list_impl.go','''	e.prev.Load().next.Store(e.next.Load())
	e.next.Load().prev.Store(e.prev.Load())

	e.prev.Store(at)''','''	e.prev.Load().next.Store(e.next.Load())

	e.prev.Store(at)''','splice/agrees-with-container-list ds.list.move')
M('C10','ts-moveafter-rlock','ds/list_impl.go','''func (t *threadSafeList[T]) MoveAfter(element, position ListElement[T]) {
	t.mutex.Lock()
	defer t.mutex.Unlock()''','''func (t *threadSafeList[T]) MoveAfter(element, position ListElement[T]) {
	t.mutex.RLock()
	defer t.mutex.RUnlock()''','lock/guarded-by threadSafeList.list in ds.threadSafeList.MoveAfter')
M('C10','ts-remove-method-deleted','ds/list_impl.go','''func (t *threadSafeList[T]) Remove(element ListElement[T]) (removedValue T) {
	t.mutex.Lock()
	defer t.mutex.Unlock()

	return t.list.Remove(element)
}''','','decorator/declares-all ds.threadSafeList.Remove')
M('C10','ts-insertbefore-calls-after','ds/list_impl.go','return t.list.InsertBefore(value, position)','return t.list.InsertAfter(value, position)','fwd/delegates ds.threadSafeList.InsertBefore')
M('C10','ts-pushbacklist-under-lock','ds/list_impl.go','''	values := other.Values()

	t.mutex.Lock()
	defer t.mutex.Unlock()

	for _, value := range values {
		t.list.PushBack(value)
	}''','''	t.mutex.Lock()
	defer t.mutex.Unlock()

	t.list.PushBackList(other)''','lock/no-list-param-under-lock ds.threadSafeList.PushBackList')
M('C10','ts-len-nolock','ds/list_impl.go','''func (t *threadSafeList[T]) Len() int {
	t.mutex.RLock()
	defer t.mutex.RUnlock()
''','''func (t *threadSafeList[T]) Len() int {
''','lock/guarded-by threadSafeList.list in ds.threadSafeList.Len')
M('C10','silent-insert-reorder-bookkeeping','ds/list_impl.go','''	e.list.Store(l)
	l.len++
''','''	l.len++
	e.list.Store(l)
''','',silent=True)

# ---------------- C11
M('C11','deleteall-recursive','ds/set_impl.go','		if s.OrderedMap.Delete(element) {\n			removedElements.Add(element)\n		}\n\n		return nil\n	})\n\n	return removedElements','		if s.Delete(element) {\n			removedElements.Add(element)\n		}\n\n		return nil\n	})\n\n	return removedElements','lock/order reacquire ds.set.applyMutex in ds.set.DeleteAll')
M('C11','omap-has-nolock','ds/orderedmap/orderedmap.go','''func (o *OrderedMap[K, V]) Size() int {
	if o == nil {
		return 0
	}

	o.mutex.RLock()
	defer o.mutex.RUnlock()
''','''func (o *OrderedMap[K, V]) Size() int {
	if o == nil {
		return 0
	}
''','lock/guarded-by OrderedMap.size in ds/orderedmap.OrderedMap.Size')
M('C11','omap-foreach-step-unlocked','ds/orderedmap/orderedmap.go','''		o.mutex.RLock()
		currentEntry = currentEntry.next
		o.mutex.RUnlock()''','''		currentEntry = currentEntry.next''','lock/guarded-by Element.next in ds/orderedmap.OrderedMap.ForEach')
M('C11','omap-delete-no-size','ds/orderedmap/orderedmap.go','''	o.dictionary.Delete(key)
	o.size--
''','''	o.dictionary.Delete(key)
''','omap/coupling ds/orderedmap.OrderedMap.Delete size--')
M('C11','omap-delete-head-not-fixed','ds/orderedmap/orderedmap.go','''	if value.prev != nil {
		value.prev.next = value.next
	} else {
		o.head = value.next
	}
''','''	if value.prev != nil {
		value.prev.next = value.next
	}
''','omap/coupling ds/orderedmap.OrderedMap.Delete unlink')
M('C11','omap-set-moves-existing-to-tail','ds/orderedmap/orderedmap.go','''		previousValue = oldValue.value
		oldValue.value = newValue

		return previousValue, true''','''		previousValue = oldValue.value
		oldValue.value = newValue
		o.tail = oldValue

		return previousValue, true''','omap/coupling ds/orderedmap.OrderedMap.Set existing key untouched')
M('C11','omap-clear-keeps-dictionary','ds/orderedmap/orderedmap.go','''	o.size = 0
	o.dictionary = shrinkingmap.New[K, *Element[K, V]]()''','''	o.size = 0''','omap/coupling ds/orderedmap.OrderedMap.Clear resets dictionary')
M('C11','omap-foreachreverse-from-head','ds/orderedmap/orderedmap.go','''	o.mutex.RLock()
	currentEntry := o.tail
	o.mutex.RUnlock()''','''	o.mutex.RLock()
	currentEntry := o.head
	o.mutex.RUnlock()''','omap/iteration-order ds/orderedmap.OrderedMap.ForEachReverse')
M('C11','shrinking-compute-rlock','ds/shrinkingmap/shrinkingmap.go','''func (s *ShrinkingMap[K, V]) Compute(key K, updateFunc func(currentValue V, exists bool) V) (updatedValue V) {
	s.mutex.Lock()
	defer s.mutex.Unlock()''','''func (s *ShrinkingMap[K, V]) Compute(key K, updateFunc func(currentValue V, exists bool) V) (updatedValue V) {
	s.mutex.RLock()
	defer s.mutex.RUnlock()''','lock/guarded-by ShrinkingMap.m in ds/shrinkingmap.ShrinkingMap.Compute [W]')
M('C11','shrinking-getorcreate-leak','ds/shrinkingmap/shrinkingmap.go','''	if existingValue, exists := s.m[key]; exists {
		s.mutex.RUnlock()

		return existingValue, false
	}
	s.mutex.RUnlock()''','''	if existingValue, exists := s.m[key]; exists {
		return existingValue, false
	}
	s.mutex.RUnlock()''','lock/balance ds/shrinkingmap.ShrinkingMap.GetOrCreate')
M('C11','set-add-nolock','ds/set_impl.go','''func (s *set[ElementType]) Add(element ElementType) bool {
	s.applyMutex.RLock()
	defer s.applyMutex.RUnlock()
''','''func (s *set[ElementType]) Add(element ElementType) bool {
''','set/apply-mutex-protocol set.readableSet in ds.set.Add')
M('C11','set-apply-rlock','ds/set_impl.go','''func (s *set[ElementType]) Apply(mutations SetMutations[ElementType]) (appliedMutations SetMutations[ElementType]) {
	s.applyMutex.Lock()
	defer s.applyMutex.Unlock()''','''func (s *set[ElementType]) Apply(mutations SetMutations[ElementType]) (appliedMutations SetMutations[ElementType]) {
	s.applyMutex.RLock()
	defer s.applyMutex.RUnlock()''','set/apply-mutex-protocol ds.set.Apply')
M('C11','addall-reports-all','ds/set_impl.go','''		if !lo.Return2(s.Set(element, types.Void)) {
			addedElements.Add(element)
		}

		return nil
	})

	return addedElements''','''		s.Set(element, types.Void)
		addedElements.Add(element)

		return nil
	})

	return addedElements''','set/exact-diff ds.set.AddAll')
M('C11','apply-inverted-delete','ds/set_impl.go','''		if s.OrderedMap.Delete(element) {
			removedElements.Add(element)
		}
	})''','''		if !s.OrderedMap.Delete(element) {
			removedElements.Add(element)
		}
	})''','set/exact-diff ds.set.apply')
M('C11','arith-subtract-routing','ds/set_impl.go','''	mutations.AddedElements().Range(s.SubtractedElementsCollector(m, threshold...))
	mutations.DeletedElements().Range(s.AddedElementsCollector(m, threshold...))''','''	mutations.AddedElements().Range(s.AddedElementsCollector(m, threshold...))
	mutations.DeletedElements().Range(s.SubtractedElementsCollector(m, threshold...))''','arith/routing ds.setArithmetic.Subtract')
M('C11','arith-threshold-offbyone','ds/set_impl.go','lo.Cond(increase, threshold, threshold-1) && !opposingSet.Delete(element)','lo.Cond(increase, threshold, threshold) && !opposingSet.Delete(element)','arith/threshold')
M('C11','somap-decode-value-first','ds/serializableorderedmap/serializable_orderedmap.go','''		var key K
		bytesReadKey, err := api.Decode(context.Background(), b[bytesRead:], &key)
		if err != nil {
			return 0, err
		}
		bytesRead += bytesReadKey

		var value V
		bytesReadValue, err := api.Decode(context.Background(), b[bytesRead:], &value)
		if err != nil {
			return 0, err
		}
		bytesRead += bytesReadValue
''','''		var value V
		bytesReadValue, err := api.Decode(context.Background(), b[bytesRead:], &value)
		if err != nil {
			return 0, err
		}
		bytesRead += bytesReadValue

		var key K
		bytesReadKey, err := api.Decode(context.Background(), b[bytesRead:], &key)
		if err != nil {
			return 0, err
		}
		bytesRead += bytesReadKey
''','somap/mirror')
M('C11','somap-decode-forgets-advance','ds/serializableorderedmap/serializable_orderedmap.go','''		bytesRead += bytesReadValue

		o.Set(key, value)''','''		_ = bytesReadValue

		o.Set(key, value)''','somap/consumed')
M('C11','silent-delete-guard-form','ds/orderedmap/orderedmap.go','''	if value.next != nil {
		value.next.prev = value.prev
	} else {
		o.tail = value.prev
	}''','''	if value.next == nil {
		o.tail = value.prev
	} else {
		value.next.prev = value.prev
	}''','',silent=True)

# ---------------- C17
M('C17','counter-wait-if','runtime/syncutils/counter.go','''	for c.value >= threshold {
		c.valueDecreasedCond.Wait()
	}''','''	if c.value >= threshold {
		c.valueDecreasedCond.Wait()
	}''','cond/wait-in-loop-under-locker valueDecreasedCond.Wait')
M('C17','update-wrong-cond','runtime/syncutils/counter.go','''	} else if delta <= -1 {
		c.valueDecreasedCond.Broadcast()
	}

	return newValue''','''	} else if delta <= -1 {
		c.valueIncreasedCond.Broadcast()
	}

	return newValue''','cond/wake-obligation runtime/syncutils.Counter.Update value decreased')
M('C17','set-no-broadcast-on-increase','runtime/syncutils/counter.go','''	if oldValue = c.set(newValue); oldValue < newValue {
		c.valueIncreasedCond.Broadcast()
	} else if oldValue > newValue {''','''	if oldValue = c.set(newValue); oldValue > newValue {''','cond/wake-obligation runtime/syncutils.Counter.Set value increased')
M('C17','push-no-broadcast','runtime/syncutils/stack.go','''	b.mutex.Unlock()

	b.elementAdded.Broadcast()
}''','''	b.mutex.Unlock()
}''','cond/wake-obligation runtime/syncutils.Stack.Push element added')
M('C17','pop-no-deferred-broadcast','runtime/syncutils/stack.go','''func (b *Stack[T]) Pop() (element T, success bool) {
	defer func() {
		if success {
			b.elementRemoved.Broadcast()
		}
	}()
''','''func (b *Stack[T]) Pop() (element T, success bool) {
''','cond/wake-obligation runtime/syncutils.Stack.Pop removal')
M('C17','runlock-no-signal','runtime/syncutils/starvingmutex.go','''		f.mutex.Unlock()
		f.writerCond.Signal()

		return
	}
	f.mutex.Unlock()
}''','''		f.mutex.Unlock()

		return
	}
	f.mutex.Unlock()
}''','cond/wake-obligation runtime/syncutils.StarvingMutex.RUnlock')
M('C17','unlock-always-readers','runtime/syncutils/starvingmutex.go','''	f.mutex.Unlock()
	f.writerCond.Signal()
}''','''	f.mutex.Unlock()
	f.readerCond.Broadcast()
}''','cond/wake-obligation runtime/syncutils.StarvingMutex.Unlock writer leaves -> pending writer woken')
M('C17','lock-grant-before-loop','runtime/syncutils/starvingmutex.go','''	f.pendingWriters++
	for !f.canWrite() {
		f.writerCond.Wait()
	}
	if debug.GetEnabled() {
		close(doneChan)
	}
	f.pendingWriters--
	f.writerActive = true''','''	f.pendingWriters++
	f.writerActive = true
	for f.readersActive != 0 {
		f.writerCond.Wait()
	}
	if debug.GetEnabled() {
		close(doneChan)
	}
	f.pendingWriters--''','excl/bookkeeping runtime/syncutils.StarvingMutex.Lock writerActive = true')
M('C17','canwrite-ignores-readers','runtime/syncutils/starvingmutex.go','return !f.writerActive && f.readersActive == 0','return !f.writerActive','excl/bookkeeping runtime/syncutils.StarvingMutex.Lock writerActive = true')
M('C17','rlock-ignores-writer','runtime/syncutils/starvingmutex.go','''	for f.writerActive {
		f.readerCond.Wait()
	}
''','''	for f.writerActive && f.pendingWriters > 0 {
		f.readerCond.Wait()
	}
''','excl/bookkeeping runtime/syncutils.StarvingMutex.RLock readersActive++')
M('C17','unlock-no-panic','runtime/syncutils/starvingmutex.go','''	if !f.writerActive {
		panic("Unlock called without Lock")
	}

''','','excl/unlock-not-held-panics runtime/syncutils.StarvingMutex.Unlock')
M('C17','runlock-no-panic','runtime/syncutils/starvingmutex.go','''	if f.readersActive == 0 {
		panic("RUnlock called without RLock")
	}
''','''	if f.readersActive == 0 {
		f.mutex.Unlock()

		return
	}
''','excl/unlock-not-held-panics runtime/syncutils.StarvingMutex.RUnlock')
M('C17','dag-lock-under-registry','runtime/syncutils/dagmutex.go','''	d.Mutex.Lock()
	mutex := d.registerMutex(id)
	d.Mutex.Unlock()

	mutex.Lock()''','''	d.Mutex.Lock()
	defer d.Mutex.Unlock()
	mutex := d.registerMutex(id)

	mutex.Lock()''','dag/no-blocking-under-registry')
M('C17','dag-register-nolock','runtime/syncutils/dagmutex.go','''	d.Mutex.Lock()
	mutex := d.registerMutex(id)
	d.Mutex.Unlock()
''','''	mutex := d.registerMutex(id)
''','lock/guarded-by DAGMutex.registerMutex() in runtime/syncutils.DAGMutex.Lock')
M('C17','dag-unregister-always-delete','runtime/syncutils/dagmutex.go','if count, _ := d.consumerCounter.Get(id); count == 1 {','if count, _ := d.consumerCounter.Get(id); count >= 1 {','dag/consumer-count runtime/syncutils.DAGMutex.unregisterMutex last-consumer')
M('C17','stack-size-nolock','runtime/syncutils/stack.go','''func (b *Stack[T]) Size() int {
	b.mutex.RLock()
	defer b.mutex.RUnlock()
''','''func (b *Stack[T]) Size() int {
''','lock/guarded-by Stack.elements in runtime/syncutils.Stack.Size')
M('C17','counter-broadcast-before-change','runtime/syncutils/counter.go','''func (c *Counter) Increase() (newValue int) {
	return c.Update(1)''','''func (c *Counter) Increase() (newValue int) {
	c.valueIncreasedCond.Broadcast()
	c.valueMutex.Lock()
	c.value++
	newValue = c.value
	c.valueMutex.Unlock()

	return newValue''','who/writes')
M('C17','silent-unlock-signal-under-lock','runtime/syncutils/starvingmutex.go','''	f.mutex.Unlock()
	f.writerCond.Signal()
}''','''	f.writerCond.Signal()
	f.mutex.Unlock()
}''','',silent=True)

# ---------------- C16
M('C16','dispatcher-drops-task','runtime/workerpool/workerpool.go','''		if task, success := w.Queue.PopOrWait(w.IsRunning); success {
			w.dispatcherChan <- task
		}''','''		if task, success := w.Queue.PopOrWait(w.IsRunning); success && w.IsRunning() {
			w.dispatcherChan <- task
		}''','conserve/dispatcher')
M('C16','close-before-zero','runtime/workerpool/workerpool.go','''	w.PendingTasksCounter.WaitIsZero()

	close(w.dispatcherChan)''','''	close(w.dispatcherChan)''','shutdown/close-after-zero')
M('C16','dispatcher-stops-when-not-running','runtime/workerpool/workerpool.go','for w.IsRunning() || w.Queue.Size() > 0 {','for w.IsRunning() {','shutdown/dispatcher-drains')
M('C16','run-no-markdone','runtime/workerpool/task.go','''	t.workerFunc()
	t.markDone()''','''	t.workerFunc()''','conserve/task runtime/workerpool.Task.run')
M('C16','handleshutdown-drops','runtime/workerpool/workerpool.go','''		if w.optCancelPendingTasksOnShutdown {
			task.markDone()
		} else {
			task.run()
		}''','''		if !w.optCancelPendingTasksOnShutdown {
			task.run()
		}''','conserve/worker runtime/workerpool.WorkerPool.worker')
M('C16','shutdown-no-queue-signal','runtime/workerpool/workerpool.go','''		w.Queue.SignalShutdown()
''','','shutdown/protocol runtime/workerpool.WorkerPool.Shutdown signals queue')
M('C16','shutdown-one-signal','runtime/workerpool/workerpool.go','''		for range w.workerCount {
			w.shutdownSignal <- struct{}{}
		}
''','''		w.shutdownSignal <- struct{}{}
''','shutdown/protocol runtime/workerpool.WorkerPool.Shutdown one signal per worker')
M('C16','worker-add-inside','runtime/workerpool/workerpool.go','''		w.ShutdownComplete.Add(1)

		go w.worker()''','''		go func() {
			w.ShutdownComplete.Add(1)
			w.worker()
		}()''','wg/add-before-go')
M('C16','push-before-count','runtime/workerpool/workerpool.go','''	w.increasePendingTasks()

	w.Queue.Push(newTask(workerFunc, w.decreasePendingTasks, lo.First(optStackTrace)))''','''	w.Queue.Push(newTask(workerFunc, w.decreasePendingTasks, lo.First(optStackTrace)))
	w.increasePendingTasks()''','submit/count-before-publish')
M('C16','isrunning-nolock','runtime/workerpool/workerpool.go','''func (w *WorkerPool) IsRunning() bool {
	w.mutex.RLock()
	defer w.mutex.RUnlock()
''','''func (w *WorkerPool) IsRunning() bool {
''','lock/guarded-by WorkerPool.isRunning in runtime/workerpool.WorkerPool.IsRunning')
M('C16','group-wrong-transition','runtime/workerpool/group.go','''	pool.PendingTasksCounter.Subscribe(func(oldValue, newValue int) {
		if oldValue == 0 {
			g.PendingChildrenCounter.Increase()
		} else if newValue == 0 {''','''	pool.PendingTasksCounter.Subscribe(func(oldValue, newValue int) {
		if oldValue < newValue {
			g.PendingChildrenCounter.Increase()
		} else if newValue == 0 {''','group/transitions runtime/workerpool.Group.CreatePool')
M('C16','decrease-increases','runtime/workerpool/workerpool.go','''func (w *WorkerPool) decreasePendingTasks() {
	w.PendingTasksCounter.Decrease()''','''func (w *WorkerPool) decreasePendingTasks() {
	w.PendingTasksCounter.Increase()''','conserve/counter-pairing')

# ---------------- C18
M('C18','poll-cancel-arm-returns','runtime/timed/queue.go','''		case <-polledElement.Value.cancel:
			timeutil.CleanupTimer(timer)
			continue

		// return the result after the time is reached''','''		case <-polledElement.Value.cancel:
			timeutil.CleanupTimer(timer)
			return polledElement.Value.Value

		// return the result after the time is reached''','poll/')
M('C18','poll-shutdown-returns-early','runtime/timed/queue.go','''			if t.shutdownFlags.HasBits(IgnorePendingTimeouts) {
				timeutil.CleanupTimer(timer)
''','''			if !t.shutdownFlags.HasBits(PanicOnModificationsAfterShutdown) {
				timeutil.CleanupTimer(timer)
''','poll/value-only-when-due')
M('C18','poll-delivers-without-second-look-at-cancel','runtime/timed/queue.go','''				select {
				case <-polledElement.Value.cancel:
					continue
				default:
				}

				return polledElement.Value.Value
			}

			// wait for the return value to become due''','''				return polledElement.Value.Value
			}

			// wait for the return value to become due''','poll/cancel-checked-before-delivery')
M('C18','poll-cancelpending-delivers','runtime/timed/queue.go','''			if t.shutdownFlags.HasBits(CancelPendingElements) {
				timeutil.CleanupTimer(timer)
				var empty T

				return empty
			}
''','''			if t.shutdownFlags.HasBits(CancelPendingElements) {
				timeutil.CleanupTimer(timer)
			}
''','poll/cancelled-never-delivered')
M('C18','cancel-close-unguarded','runtime/timed/queue.go','''	select {
	case <-timedQueueElement.cancel:
		// channel is already closed
	default:
		// close the cancel channel to notify subscribers
		close(timedQueueElement.cancel)
	}''','''	close(timedQueueElement.cancel)''','cancel/close-once-under-lock')
M('C18','cancel-nolock','runtime/timed/queue.go','''	timedQueueElement.timedQueue.heapMutex.Lock()
	defer timedQueueElement.timedQueue.heapMutex.Unlock()
''','','lock/guarded-by Queue.removeElement() in runtime/timed.QueueElement.Cancel')
M('C18','remove-no-index-guard','runtime/timed/queue.go','''	if element.rawElem.Index() == -1 {
		return
	}
''','','cancel/removes-from-heap runtime/timed.Queue.removeElement')
M('C18','add-no-signal','runtime/timed/queue.go','''	// signal waiting goroutine to wake up
	t.waitCond.Signal()
''','','cond/wake-obligation runtime/timed.Queue.Add')
M('C18','shutdown-broadcast-only-empty','runtime/timed/queue.go','''	t.waitCond.Broadcast()
	t.heapMutex.Unlock()
}''','''	if len(t.heap) == 0 {
		t.waitCond.Broadcast()
	}
	t.heapMutex.Unlock()
}''','cond/wake-obligation runtime/timed.Queue.Shutdown')
M('C18','size-nolock','runtime/timed/queue.go','''func (t *Queue[T]) Size() int {
	t.heapMutex.RLock()
	defer t.heapMutex.RUnlock()
''','''func (t *Queue[T]) Size() int {
''','lock/guarded-by Queue.heap in runtime/timed.Queue.Size')
M('C18','isshutdown-nolock','runtime/timed/queue.go','''func (t *Queue[T]) IsShutdown() bool {
	t.shutdownMutex.Lock()
	defer t.shutdownMutex.Unlock()
''','''func (t *Queue[T]) IsShutdown() bool {
''','lock/guarded-by Queue.isShutdown in runtime/timed.Queue.IsShutdown')
M('C18','executor-add-in-goroutine','runtime/timed/executor.go','''		t.shutdownWG.Add(1)
		go func() {
			for''','''		go func() {
			t.shutdownWG.Add(1)
			for''','wg/add-before-go')
M('C18','taskexec-unconditional-delete','runtime/timed/taskexecutor.go','''		if queuedElement, queuedElementExists := t.queuedElements.Get(identifier); queuedElementExists && queuedElement == scheduledTask {
			t.queuedElements.Delete(identifier)
		}''','''		t.queuedElements.Delete(identifier)''','ident/unregister-own-entry')
M('C18','taskexec-no-cancel-on-reschedule','runtime/timed/taskexecutor.go','''	if queuedElement, queuedElementExists := t.queuedElements.Get(identifier); queuedElementExists {
		queuedElement.Cancel()
	}

	var scheduledTask''','''	var scheduledTask''','taskexec/reschedule-cancels')
M('C18','taskexec-cancel-always-true','runtime/timed/taskexecutor.go','''	if !queuedElementExists {
		return false
	}
''','''	if !queuedElementExists {
		return true
	}
''','taskexec/cancel-result')
M('C18','heapkey-reversed','runtime/timed/heapkey.go','''	if time.Time(t).Before(time.Time(other)) {
		return -1
	}
	if time.Time(t).After(time.Time(other)) {
		return 1
	}''','''	if time.Time(t).Before(time.Time(other)) {
		return 1
	}
	if time.Time(t).After(time.Time(other)) {
		return -1
	}''','cmp/direction')
M('C18','heap-swap-no-index','ds/generalheap/generalheap.go','''	h[i], h[j] = h[j], h[i]
	h[i].index, h[j].index = i, j''','''	h[i], h[j] = h[j], h[i]''','heap/index-maintained ds/generalheap.Heap.Swap')
M('C18','heap-less-reversed','ds/generalheap/generalheap.go','return h[i].Key.CompareTo(h[j].Key) < 0','return h[i].Key.CompareTo(h[j].Key) > 0','heap/index-maintained ds/generalheap.Heap.Less')

# ---------------- C20
M('C20','cancel-before-wait','app/daemon/daemon.go','''				// wait for every worker in the previous shutdown priority to terminate
				d.wgPerSameShutdownOrder[prevPriority].Wait()
				prevPriority = worker.shutdownOrder''','''				prevPriority = worker.shutdownOrder''','stop/wait-before-cancel-lower-order')
M('C20','no-final-wait','app/daemon/daemon.go','''		// wait for the last priority to finish
		d.wgPerSameShutdownOrder[prevPriority].Wait()
	}
}''','''	}
}''','stop/final-wait')
M('C20','sort-ascending','app/daemon/daemon.go','return d.workers[d.shutdownOrderWorker[i]].shutdownOrder > d.workers[d.shutdownOrderWorker[j]].shutdownOrder','return d.workers[d.shutdownOrderWorker[i]].shutdownOrder < d.workers[d.shutdownOrderWorker[j]].shutdownOrder','order/sorted-descending')
M('C20','stopped-check-unlocked','app/daemon/daemon.go','''	// check again under the lock: shutdown sets the flag while holding the lock, so a worker is either registered
	// before the shutdown takes its snapshot or it is refused.
	if d.IsStopped() {
		return ErrDaemonAlreadyStopped
	}
''','','reg/atomic-with-shutdown app/daemon.OrderedDaemon.BackgroundWorker')
M('C20','stopped-set-unlocked','app/daemon/daemon.go','''	d.lock.Lock()
	d.stopped.Store(true)
	d.lock.Unlock()
''','''	d.stopped.Store(true)
''','reg/atomic-with-shutdown app/daemon.OrderedDaemon.shutdown')
M('C20','done-after-cleanup','app/daemon/daemon.go','''		shutdownOrderWaitGroup.Done()

		// now we can acquire the lock and cleanup the worker
		d.cleanupWorker(name)
''','''		// now we can acquire the lock and cleanup the worker
		d.cleanupWorker(name)
		shutdownOrderWaitGroup.Done()
''','worker/done-cleanup-order')
M('C20','wg-add-in-goroutine','app/daemon/daemon.go','''	shutdownOrderWaitGroup.Add(1)

	worker.running.Store(true)
	go func() {''','''	worker.running.Store(true)
	go func() {
		shutdownOrderWaitGroup.Add(1)''','wg/add-before-go')
M('C20','shutdown-not-once','app/daemon/daemon.go','''func (d *OrderedDaemon) ShutdownAndWait() {
	d.stopOnce.Do(d.shutdown)''','''func (d *OrderedDaemon) ShutdownAndWait() {
	d.shutdown()''','shutdown/single-shot app/daemon.OrderedDaemon.ShutdownAndWait')
M('C20','running-names-unlocked','app/daemon/daemon.go','''func (d *OrderedDaemon) GetRunningBackgroundWorkers() []string {
	d.lock.RLock()
	defer d.lock.RUnlock()
''','''func (d *OrderedDaemon) GetRunningBackgroundWorkers() []string {
''','lock/guarded-by')
M('C20','not-running-skip-cancel','app/daemon/daemon.go','''			if !worker.running.Load() {
				worker.ctxCancel()

				continue
			}''','''			if !worker.running.Load() {
				continue
			}''','stop/every-worker-cancelled')
M('C20','allow-overwrite-running','app/daemon/daemon.go','''		if exWorker.running.Load() {
			return ierrors.Wrapf(ErrExistingBackgroundWorkerStillRunning, "%s is still running", name)
		}
''','''		_ = exWorker
''','reg/running-name-refused')
M('C20','no-sort-after-append','app/daemon/daemon.go','''	sort.Slice(d.shutdownOrderWorker, func(i, j int) bool {
		return d.workers[d.shutdownOrderWorker[i]].shutdownOrder > d.workers[d.shutdownOrderWorker[j]].shutdownOrder
	})
''','''	_ = sort.Slice
''','order/sorted-descending')

# ---------------- C12
M('C12','walker-pushfront-return','ds/walker/walker.go','''			continue
		}

		w.stack.PushFront(nextElement)''','''			return w
		}

		w.stack.PushFront(nextElement)''','bulk/no-early-exit ds/walker.Walker.PushFront')
M('C12','timeheap-clear-keeps-total','ds/timeheap/timeheap.go','	h.total = 0\n}','}','pair/heap-total ds/timeheap.TimeHeap.Clear')
M('C12','timeheap-add-no-total','ds/timeheap/timeheap.go','	h.total += count\n','	_ = count\n','pair/heap-total ds/timeheap.TimeHeap.Add')
M('C12','submgr-limit-no-undo','web/subscriptionmanager/subscription_manager.go','''				subscribedTopics.Delete(topic)

				// cleanup the client''','''				// cleanup the client''','pair/client-global-count web/subscriptionmanager.SubscriptionManager.Subscribe')
M('C12','submgr-trigger-under-lock','web/subscriptionmanager/subscription_manager.go','''func (s *SubscriptionManager[C, T]) Disconnect(clientID C) bool {
	// cleanup the client
	if wasConnected, removedTopics, unsubscribedTopics := s.cleanupClient(clientID); wasConnected {''','''func (s *SubscriptionManager[C, T]) Disconnect(clientID C) bool {
	s.Lock()
	defer s.Unlock()
	if wasConnected, removedTopics, unsubscribedTopics := s.cleanupClientWithoutLocking(clientID); wasConnected {''','lock/no-callback-under-lock')
M('C12','submgr-topicssize-nolock','web/subscriptionmanager/subscription_manager.go','''func (s *SubscriptionManager[C, T]) TopicsSize() int {
	s.RLock()
	defer s.RUnlock()
''','''func (s *SubscriptionManager[C, T]) TopicsSize() int {
''','lock/guarded-by SubscriptionManager.topics in web/subscriptionmanager.SubscriptionManager.TopicsSize')
M('C12','queue-no-modulo','ds/queue/queue.go','''	queue.ringBuffer[queue.write] = element
	queue.write = (queue.write + 1) % queue.capacity
	queue.size++

	return true''','''	queue.ringBuffer[queue.write] = element
	queue.write = queue.write + 1
	queue.size++

	return true''','pair/ring-cursor ds/queue.Queue.Offer')
M('C12','queue-offer-overwrites','ds/queue/queue.go','''	if queue.size == queue.capacity {
		return false
	}
''','''	if queue.size > queue.capacity {
		return false
	}
''','pair/ring-cursor ds/queue.Queue.Offer bounded')
M('C12','ringbuffer-size-unbounded','ds/ringbuffer/ringbuffer.go','''	if r.size < r.capacity {
		r.size = r.size + 1
	}''','''	r.size = r.size + 2 - 1''','pair/ring-cursor')
M('C12','randommap-delete-no-backindex','ds/randommap/random_map.go','			movedEntry.keyIndex = oldKeyIndex\n','			_ = movedEntry\n','pair/randommap ds/randommap.RandomMap.Delete')
M('C12','randommap-get-nolock','ds/randommap/random_map.go','''func (r *RandomMap[K, V]) Has(key K) bool {
	r.mutex.RLock()
	defer r.mutex.RUnlock()
''','''func (r *RandomMap[K, V]) Has(key K) bool {
''','lock/guarded-by RandomMap.rawMap in ds/randommap.RandomMap.Has')
M('C12','bytesfilter-no-evict','ds/bytesfilter/bytesfilter.go','''		b.knownIdentifiers.Delete(b.identifiers[0])
''','','pair/bytesfilter')
M('C12','timeheap-less-flipped','ds/timeheap/timeheap.go','return h[i].timestamp.Before(h[j].timestamp)','return h[i].timestamp.After(h[j].timestamp)','cmp/direction ds/timeheap.timeHeap.Less')
M('C12','timeheap-less-respelled','ds/timeheap/timeheap.go','return h[i].timestamp.Before(h[j].timestamp)','first, second := h[i], h[j]\n\n\treturn second.timestamp.After(first.timestamp)','',silent=True)
M('C12','queue-receiver-renamed','ds/queue/queue.go','func (queue *Queue[T]) Poll() (element T, success bool) {','func (q *Queue[T]) Poll() (element T, success bool) {\n\tqueue := q','',silent=True)
M('C12','pq-popuntil-exclusive','ds/priorityqueue/priorityqueue.go','p.heap[0].Key.CompareTo(priority) <= 0','p.heap[0].Key.CompareTo(priority) < 0','cmp/direction ds/priorityqueue.PriorityQueue.PopUntil')
M('C12','pq-remove-unguarded','ds/priorityqueue/priorityqueue.go','''		if heapElement.Index() != -1 {
			heap.Remove(&p.heap, heapElement.Index())
		}''','''		heap.Remove(&p.heap, heapElement.Index())''','pair/removal-handle')
M('C12','pq-peek-nolock','ds/priorityqueue/priorityqueue.go','''func (p *PriorityQueue[Element, Priority]) Peek() (element Element, exists bool) {
	p.mutex.RLock()
	defer p.mutex.RUnlock()
''','''func (p *PriorityQueue[Element, Priority]) Peek() (element Element, exists bool) {
''','lock/guarded-by PriorityQueue.heap in ds/priorityqueue.PriorityQueue.Peek')
M('C12','time-descending-flipped','runtime/timed/priority_queue.go','''	case time.Time(t).Before(time.Time(other)):
		return 1
	case time.Time(t).After(time.Time(other)):
		return -1''','''	case time.Time(t).Before(time.Time(other)):
		return -1
	case time.Time(t).After(time.Time(other)):
		return 1''','cmp/direction runtime/timed.timeDescending.CompareTo')
M('C12','onchangemap-delete-no-callback','ds/onchangemap/onchangemap.go','''	r.m.Delete(id.Key())

	return r.executeItemCallback(r.itemDeletedCallback, item)''','''	r.m.Delete(id.Key())
	_ = item

	return nil''','pair/change-callback ds/onchangemap.OnChangeMap.Delete')
M('C12','indexedstorage-get-nolock','core/memstorage/indexedstorage.go','''func (e *IndexedStorage[IndexType, K, V]) Evict(index IndexType) (evictedStorage *shrinkingmap.ShrinkingMap[K, V]) {
	e.mutex.Lock()
	defer e.mutex.Unlock()
''','''func (e *IndexedStorage[IndexType, K, V]) Evict(index IndexType) (evictedStorage *shrinkingmap.ShrinkingMap[K, V]) {
''','lock/guarded-by IndexedStorage.cache in core/memstorage.IndexedStorage.Evict')
M('C12','stack-pop-rlock','ds/stack/threadsafe_stack.go','''func (s *threadSafeStack[T]) Pop() (value T, exists bool) {
	s.mutex.Lock()
	defer s.mutex.Unlock()''','''func (s *threadSafeStack[T]) Pop() (value T, exists bool) {
	s.mutex.RLock()
	defer s.mutex.RUnlock()''','lock/guarded-by threadSafeStack.stack in ds/stack.threadSafeStack.Pop')

# ---------------- C19
M('C19','safediv-no-min-guard','core/safemath/safe_math.go','''	if minusOne := ^T(0); minusOne < 0 && y == minusOne && x != 0 && x == -x {
		return 0, ierrors.WithMessagef(ErrIntegerOverflow, "%d / %d", x, y)
	}
''','','signed-div/guarded x / y in core/safemath.SafeDiv')
M('C19','safemul-no-min-guard','core/safemath/safe_math.go','''	if minusOne := ^T(0); minusOne < 0 && x == minusOne && y == -y {
		return 0, ierrors.WithMessagef(ErrIntegerOverflow, "%d * %d", x, y)
	}
''','','signed-div/guarded (x*y) / x in core/safemath.SafeMul')
M('C19','new-signed-division','core/safemath/safe_math.go','''func SafeLeftShift[T Integer](val T, shift uint8) (T, error) {''','''func SafeHalf[T Integer](val T, by T) T {
	if by == 0 {
		return 0
	}

	return val / by
}

func SafeLeftShift[T Integer](val T, shift uint8) (T, error) {''','signed-div/guarded val / by in core/safemath.SafeHalf')
M('C19','silent-guard-literal-form','core/safemath/safe_math.go','''	if minusOne := ^T(0); minusOne < 0 && y == minusOne && x != 0 && x == -x {
		return 0, ierrors.WithMessagef(ErrIntegerOverflow, "%d / %d", x, y)
	}
''','''	minusOne := ^T(0)
	if y == minusOne && minusOne < 0 {
		if x != 0 && x == -x {
			return 0, ierrors.WithMessagef(ErrIntegerOverflow, "%d / %d", x, y)
		}

		return -x, nil
	}
''','',silent=True)

# ---------------- C13
M('C13','replace-raw-payload','ds/reactive/set_impl.go','''	addedElements := elements.Filter(func(element ElementType) bool { return !s.value.Has(element) })

	return ds.NewSetMutations[ElementType]().WithAddedElements(addedElements).WithDeletedElements(s.value.Replace(elements)), s.uniqueUpdateID.Next(), s.updateCallbacks.Values()''','''	return ds.NewSetMutations[ElementType](elements.ToSlice()...).WithDeletedElements(s.value.Replace(elements)), s.uniqueUpdateID.Next(), s.updateCallbacks.Values()''','payload/applied-diff ds/reactive.set.replace')
M('C13','compute-invoke-unlocked','ds/reactive/variable_impl.go','''		if registeredCallback.LockExecution(updateID) {
			registeredCallback.Invoke(previousValue, newValue)
			registeredCallback.UnlockExecution()
		}''','''		_ = updateID
		registeredCallback.Invoke(previousValue, newValue)''','cb/invoke-under-execution-lock Invoke of registeredCallback in ds/reactive.variable.Compute')
M('C13','apply-no-unlock','ds/reactive/set_impl.go','''	for _, registeredCallback := range registeredCallbacks {
		if registeredCallback.LockExecution(updateID) {
			registeredCallback.Invoke(appliedMutations)
			registeredCallback.UnlockExecution()
		}
	}

	return appliedMutations
}

// Compute''','''	for _, registeredCallback := range registeredCallbacks {
		if registeredCallback.LockExecution(updateID) {
			registeredCallback.Invoke(appliedMutations)
		}
	}

	return appliedMutations
}

// Compute''','cb/invoke-under-execution-lock Invoke of registeredCallback in ds/reactive.set.Apply')
M('C13','compute-no-order-mutex','ds/reactive/variable_impl.go','''func (v *variable[Type]) Compute(computeFunc func(currentValue Type) Type) (previousValue Type) {
	v.updateOrderMutex.Lock()
	defer v.updateOrderMutex.Unlock()
''','''func (v *variable[Type]) Compute(computeFunc func(currentValue Type) Type) (previousValue Type) {
''','writer/notify-under-order-mutex')
M('C13','onupdate-unlock-before-register','ds/reactive/variable_impl.go','''	callbackElement := r.registeredCallbacks.PushBack(createdCallback)

	// grab the execution lock before we unlock the mutex, so the callback cannot be triggered by another
	// thread updating the value before we have called the callback with the initial value
	createdCallback.LockExecution(r.uniqueUpdateID)
	defer createdCallback.UnlockExecution()

	r.valueMutex.Unlock()
''','''	callbackElement := r.registeredCallbacks.PushBack(createdCallback)
	updateID := r.uniqueUpdateID
	r.valueMutex.Unlock()

	createdCallback.LockExecution(updateID)
	defer createdCallback.UnlockExecution()
''','reg/hand-off ds/reactive.readableVariable.OnUpdate')
M('C13','unsubscribe-no-mark','ds/reactive/set_impl.go','''		r.updateCallbacks.Remove(callbackElement)

		createdCallback.MarkUnsubscribed()''','''		r.updateCallbacks.Remove(callbackElement)''','unsub/remove-own-and-mark ds/reactive.readableSet.OnUpdate')
M('C13','lockexecution-no-dedupe','ds/reactive/utils.go','if c.unsubscribed || updateID != 0 && updateID == c.lastUpdate {','if c.unsubscribed {','cb/lock-execution-contract')
M('C13','lockexecution-false-holding','ds/reactive/utils.go','''		c.executionMutex.Unlock()

		return false''','''		return false''','cb/lock-execution-contract')
M('C13','updatevalue-snapshot-outside','ds/reactive/variable_impl.go','''	v.valueMutex.Lock()
	defer v.valueMutex.Unlock()

	if previousValue, newValue = v.value, v.transformationFunc(v.value, newValueGenerator(v.value)); newValue != previousValue {
		v.value = newValue
		triggerID = v.uniqueUpdateID.Next()
		callbacksToTrigger = v.registeredCallbacks.Values()
	}
''','''	v.valueMutex.Lock()

	if previousValue, newValue = v.value, v.transformationFunc(v.value, newValueGenerator(v.value)); newValue != previousValue {
		v.value = newValue
		triggerID = v.uniqueUpdateID.Next()
		v.valueMutex.Unlock()
		callbacksToTrigger = v.registeredCallbacks.Values()
	} else {
		v.valueMutex.Unlock()
	}
''','writer/atomic-change-id-snapshot')
M('C13','get-nolock','ds/reactive/variable_impl.go','''func (r *readableVariable[Type]) Get() Type {
	r.valueMutex.RLock()
	defer r.valueMutex.RUnlock()
''','''func (r *readableVariable[Type]) Get() Type {
''','lock/guarded-by readableVariable.value in ds/reactive.readableVariable.Get')
M('C11','replace-returns-previous','ds/set_impl.go','''		// elements that are part of the new set were not removed
		removedElements.Delete(element)
''','','set/exact-diff ds.set.Replace')

# ---------------- C14
M('C14','derived3-missing-subscription','ds/reactive/variable.go','''			input2.OnUpdate(func(_, input2 InputType2) {
				d.Compute(func(currentValue Type) Type { return compute(currentValue, input1.Get(), input2, input3.Get()) })
			}, true),

			input3.OnUpdate(func(_, input3 InputType3) {
				d.Compute(func(currentValue Type) Type { return compute(currentValue, input1.Get(), input2.Get(), input3) })
			}, true),
		)''','''			input3.OnUpdate(func(_, input3 InputType3) {
				d.Compute(func(currentValue Type) Type { return compute(currentValue, input1.Get(), input2.Get(), input3) })
			}, true),
		)''','derived/wiring ds/reactive.NewDerivedVariable3')
M('C14','derived2-no-initial-trigger','ds/reactive/variable.go','''			input2.OnUpdate(func(_, input2 InputType2) {
				d.Compute(func(currentValue Type) Type { return compute(currentValue, input1.Get(), input2) })
			}, true),''','''			input2.OnUpdate(func(_, input2 InputType2) {
				d.Compute(func(currentValue Type) Type { return compute(currentValue, input1.Get(), input2) })
			}),''','derived/wiring ds/reactive.NewDerivedVariable2')
M('C14','inherited-direction-swapped','ds/reactive/set_impl.go','''	mutations.AddedElements().Range(s.setArithmetic.AddedElementsCollector(inheritedMutations))
	mutations.DeletedElements().Range(s.setArithmetic.SubtractedElementsCollector(inheritedMutations))''','''	mutations.AddedElements().Range(s.setArithmetic.SubtractedElementsCollector(inheritedMutations))
	mutations.DeletedElements().Range(s.setArithmetic.AddedElementsCollector(inheritedMutations))''','derivedset/collector-direction ds/reactive.derivedSet.applyInheritedMutations')
M('C14','inheritfrom-unsub-keeps-elements','ds/reactive/set_impl.go','unsubscribeCallbacks = append(unsubscribeCallbacks, unsubscribeFromSource, removeSourceElements)','_ = removeSourceElements\n\t\tunsubscribeCallbacks = append(unsubscribeCallbacks, unsubscribeFromSource)','derivedset/unsubscribe-removes')
M('C14','waitgroup-late-increment','ds/reactive/wait_group_impl.go','''	w.pendingElementsCounter.Add(int32(len(elements)))

	// then add the elements (and correct the counter if the elements are already present)
	for _, element := range elements {
		if !w.pendingElements.Add(element) {
			w.pendingElementsCounter.Add(-1)
		}
	}''','''	for _, element := range elements {
		if w.pendingElements.Add(element) {
			w.pendingElementsCounter.Add(1)
		}
	}''','waitgroup/pre-increment')
M('C14','waitgroup-load-then-decide','ds/reactive/wait_group_impl.go','if w.pendingElements.Delete(element) && w.pendingElementsCounter.Add(-1) == 0 {','if w.pendingElements.Delete(element) && w.pendingElementsCounter.Add(-1) <= 0 && w.pendingElementsCounter.Load() == 0 {','waitgroup/trigger-on-rmw')
M('C14','evictionevent-offbyone','ds/reactive/eviction_state_impl.go','if e.lastEvictedSlot == nil || slot > *e.lastEvictedSlot {','if e.lastEvictedSlot == nil || slot >= *e.lastEvictedSlot {','evict/pre-triggered-iff-evicted')
M('C14','evict-trigger-under-lock','ds/reactive/eviction_state_impl.go','''	for _, slotEvictedEvent := range e.evict(slot) {
		slotEvictedEvent.Trigger()
	}''','''	e.mutex.RLock()
	defer e.mutex.RUnlock()
	for _, slotEvictedEvent := range e.evictionEvents.Values() {
		slotEvictedEvent.Trigger()
	}''','lock/no-callback-under-lock')
M('C14','sorted-swap-no-index','ds/reactive/sorted_set_impl.go','		left.index, right.index = right.index, left.index\n','','sorted/slot-index-coupled ds/reactive.sortedSet.swap')
M('C14','sorted-ascending-nolock','ds/reactive/sorted_set_impl.go','''func (s *sortedSet[ElementType, WeightType]) Ascending() (sortedSlice []ElementType) {
	s.mutex.RLock()
	defer s.mutex.RUnlock()
''','''func (s *sortedSet[ElementType, WeightType]) Ascending() (sortedSlice []ElementType) {
''','lock/guarded-by sortedSet.sortedElements in ds/reactive.sortedSet.Ascending')
M('C14','monitor-memory-not-updated','ds/reactive/counter_impl.go','				conditionWasTrue = conditionIsTrue\n','','counter/condition-memory')

# ---------------- C15
M('C15','event3-no-hook-pretrigger','runtime/event/events.go','''		if hook.preTriggerFunc != nil {
			hook.preTriggerFunc(arg1, arg2, arg3)
		}
''','','sibling/trigger-template runtime/event.Event3.Trigger')
M('C15','event2-no-hook-limit','runtime/event/events.go','''	e.hooks.ForEach(func(_ uint64, hook *Hook[func(T1, T2)]) bool {
		if hook.currentTriggerExceedsMaxTriggerCount() {
			hook.Unhook()

			return true
		}
''','''	e.hooks.ForEach(func(_ uint64, hook *Hook[func(T1, T2)]) bool {
''','sibling/trigger-template runtime/event.Event2.Trigger')
M('C15','event1-stops-after-exhausted-hook','runtime/event/events.go','''	e.hooks.ForEach(func(_ uint64, hook *Hook[func(T1)]) bool {
		if hook.currentTriggerExceedsMaxTriggerCount() {
			hook.Unhook()

			return true
		}''','''	e.hooks.ForEach(func(_ uint64, hook *Hook[func(T1)]) bool {
		if hook.currentTriggerExceedsMaxTriggerCount() {
			hook.Unhook()

			return false
		}''','sibling/trigger-template runtime/event.Event1.Trigger')
M('C15','count-load-then-add','runtime/event/options.go','return t.triggerCount.Add(1) > t.maxTriggerCount && t.maxTriggerCount != 0','exceeded := t.maxTriggerCount != 0 && t.triggerCount.Load() >= t.maxTriggerCount\n\tt.triggerCount.Add(1)\n\n\treturn exceeded','atomic/rmw-decision')
M('C15','linkto-no-unhook','runtime/event/event.go','''	if e.link != nil {
		e.link.Unhook()
	}
''','','link/unhook-before-hook')
M('C15','linkto-nolock','runtime/event/event.go','''	e.linkMutex.Lock()
	defer e.linkMutex.Unlock()
''','','lock/guarded-by event.link')
M('C15','promise-trigger-no-swap','runtime/promise/event.go','''		e.callbacks = nil

		return callbacks.Values()
	}() {
		callback()''','''		return callbacks.Values()
	}() {
		callback()''','promise/swap-and-call-outside runtime/promise.Event.Trigger')
M('C15','promise1-value-outside','runtime/promise/event.go','''		e.callbacks = nil
		e.value = &arg

		return callbacks.Values()
	}() {
		callback(arg)
	}
''','''		e.callbacks = nil

		return callbacks.Values()
	}() {
		callback(arg)
	}
	e.value = &arg
''','promise/swap-and-call-outside runtime/promise.Event1.Trigger')
M('C15','promise-ontrigger-no-inline','runtime/promise/event.go','''	unsubscribe, subscribed := registerCallback()
	if !subscribed {
		callback()
	}''','''	unsubscribe, subscribed := registerCallback()
	_ = subscribed''','promise/register-or-call-inline runtime/promise.Event.OnTrigger')
M('C15','promise-ontrigger-inline-under-lock','runtime/promise/event.go','''		if e.callbacks == nil {
			return void, false
		}

		callbackID := e.callbackIDs.Next()

		e.callbacks.Set(callbackID, callback)

		return func() {
			e.mutex.Lock()
			defer e.mutex.Unlock()

			if e.callbacks != nil {
				e.callbacks.Delete(callbackID)
			}
		}, true
	}

	unsubscribe, subscribed := registerCallback()
	if !subscribed {
		callback()
	}
''','''		if e.callbacks == nil {
			callback()

			return void, false
		}

		callbackID := e.callbackIDs.Next()

		e.callbacks.Set(callbackID, callback)

		return func() {
			e.mutex.Lock()
			defer e.mutex.Unlock()

			if e.callbacks != nil {
				e.callbacks.Delete(callbackID)
			}
		}, true
	}

	unsubscribe, _ = registerCallback()
''','promise/register-or-call-inline runtime/promise.Event.OnTrigger')
M('C15','promise-ontrigger-test-outside-lock','runtime/promise/event.go','''func (e *Event) OnTrigger(callback func()) (unsubscribe func()) {
	registerCallback := func() (unsubscribe func(), subscribed bool) {
		e.mutex.Lock()
		defer e.mutex.Unlock()

		if e.callbacks == nil {
			return void, false
		}

		callbackID := e.callbackIDs.Next()

		e.callbacks.Set(callbackID, callback)
''','''func (e *Event) OnTrigger(callback func()) (unsubscribe func()) {
	registerCallback := func() (unsubscribe func(), subscribed bool) {
		if e.callbacks == nil {
			return void, false
		}

		e.mutex.Lock()
		defer e.mutex.Unlock()

		callbackID := e.callbackIDs.Next()

		e.callbacks.Set(callbackID, callback)
''','promise/register-or-call-inline runtime/promise.Event.OnTrigger')
M('C15','promise-trigger-call-under-lock','runtime/promise/event.go','''func (e *Event) Trigger() (wasTriggered bool) {
	for _, callback := range func() []func() {
		e.mutex.Lock()
		defer e.mutex.Unlock()
''','''func (e *Event) Trigger() (wasTriggered bool) {
	e.mutex.Lock()
	defer e.mutex.Unlock()

	for _, callback := range func() []func() {
''','promise/swap-and-call-outside runtime/promise.Event.Trigger')
M('C15','notifier-deregister-by-value','runtime/valuenotifier/listener.go','if !exists || valueListeners != registeredListener {','if !exists {','ident/unregister-own-entry runtime/valuenotifier.Notifier.removeListener')
M('C15','notifier-notify-keeps-entry','runtime/valuenotifier/listener.go','''	close(valueListener.channel)

	v.listeners.Delete(value)
}''','''	close(valueListener.channel)
}''','notifier/close-with-delete runtime/valuenotifier.Notifier.Notify')
M('C15','unhook-wrong-id','runtime/event/hook.go','h.event.hooks.Delete(h.id)','h.event.hooks.Delete(h.id - 1)','ident/unique-hook-id runtime/event.Hook.Unhook')

# ---------------- C01 / C02 / C03 (codecs)
M('C01','stream-readbytes-single-read','serializer/stream/read.go','''	var buffer bytes.Buffer
	nBytes, err := io.CopyN(&buffer, reader, int64(length))
	if err != nil {
		return nil, ierrors.Wrapf(err, "failed to read serialized bytes: read bytes (%d) != size (%d)", nBytes, length)
	}

	readBytes := buffer.Bytes()
	if readBytes == nil {
		readBytes = []byte{}
	}
''','''	var _ bytes.Buffer
	readBytes := make([]byte, length)
	nBytes, err := reader.Read(readBytes)
	if err != nil {
		return nil, ierrors.Wrap(err, "failed to read serialized bytes")
	}
	if nBytes != length {
		return nil, ierrors.Errorf("failed to read serialized bytes: read bytes (%d) != size (%d)", nBytes, length)
	}
''','stream/no-bare-read')
M('C02','stream-readbytes-prealloc','serializer/stream/read.go','''	var buffer bytes.Buffer
	nBytes, err := io.CopyN(&buffer, reader, int64(length))
	if err != nil {
		return nil, ierrors.Wrapf(err, "failed to read serialized bytes: read bytes (%d) != size (%d)", nBytes, length)
	}

	readBytes := buffer.Bytes()
	if readBytes == nil {
		readBytes = []byte{}
	}
''','''	var _ bytes.Buffer
	readBytes := make([]byte, length)
	nBytes, err := io.ReadFull(reader, readBytes)
	if err != nil {
		return nil, ierrors.Wrapf(err, "failed to read serialized bytes: read bytes (%d) != size (%d)", nBytes, length)
	}
''','alloc/bounded-by-input serializer/stream read helpers')
M('C01','decodearray-tempcopy-to-decoder','serializer/serix/decode.go','''	var bytesRead int
	if err := decodeArrayViaSlice(value, func(sliceValue reflect.Value, sliceValueType reflect.Type) (err error) {
		bytesRead, err = api.decodeSlice(ctx, b, sliceValue, sliceValueType, ts, opts)

		return err
	}); err != nil {''','''	bytesRead, err := api.decodeSlice(ctx, b, sliceValue, sliceValueType, ts, opts)
	if err != nil {''','tempcopy/written-back sliceFromArray(value) in serializer/serix.API.decodeArray')
M('C01','decodearray-no-writeback','serializer/serix/decode.go','''		fillArrayFromSlice(value, sliceValue)

		return deseri.Done()''','''		return deseri.Done()''','tempcopy/written-back sliceFromArray(value) in serializer/serix.API.decodeArray')
M('C01','mapdecode-array-no-writeback','serializer/serix/map_decode.go','''			copy(sliceValue.Bytes(), byteSlice)
			fillArrayFromSlice(value, sliceValue)
''','''			copy(sliceValue.Bytes(), byteSlice)
''','tempcopy/written-back sliceFromArray(value) in serializer/serix.API.mapDecodeBasedOnType')
M('C01','encodemap-no-ordering','serializer/serix/encode.go','''	ts = ts.ensureOrdering()

	bytes, err := encodeSliceOfBytes(data, valueType, ts, opts)''','''	bytes, err := encodeSliceOfBytes(data, valueType, ts, opts)''','determinism/map-ordering serializer/serix.API.encodeMap')
M('C01','write-sort-only-without-validation','serializer/serializer.go','''	if deSeriMode.HasMode(DeSeriModePerformLexicalOrdering) && sliceRules.ValidationMode.HasMode(ArrayValidationModeLexicalOrdering) {
		sort.Slice(data, func(i, j int) bool {''','''	if deSeriMode.HasMode(DeSeriModePerformLexicalOrdering) && sliceRules.ValidationMode.HasMode(ArrayValidationModeLexicalOrdering) && eleValFunc == nil {
		sort.Slice(data, func(i, j int) bool {''','determinism/sort-before-write')
M('C01','decode-drops-float32-kind','serializer/serix/decode.go','''	case reflect.Int8, reflect.Int16, reflect.Int32, reflect.Int64,
		reflect.Uint8, reflect.Uint16, reflect.Uint32, reflect.Uint64,
		reflect.Float32, reflect.Float64:''','''	case reflect.Int8, reflect.Int16, reflect.Int32, reflect.Int64,
		reflect.Uint8, reflect.Uint16, reflect.Uint32, reflect.Uint64,
		reflect.Float64:''','mirror/kind-dispatch serializer/serix.encodeBasedOnType <-> decodeBasedOnType')
M('C01','writeslicelength-no-uint64','serializer/serializer.go','''	case SeriLengthPrefixTypeAsUint64:
		if err := binary.Write(&s.buf, binary.LittleEndian, uint64(l)); err != nil {
			s.err = errProducer(err)

			return
		}
	default:''','''	default:''','table/length-prefix serializer.Serializer.writeSliceLength')
M('C01','stream-writefixed-uint16-as-32','serializer/stream/write.go','''		if err := Write(writer, uint16(l)); err != nil {''','''		if err := Write(writer, uint32(l)); err != nil {''','table/length-prefix serializer/stream.writeFixedSize')
M('C01','stream-peeksize-err-dropped','serializer/stream/read.go','''	if _, err = GoTo(reader, startOffset); err != nil {
		return 0, ierrors.Wrap(err, "failed to go back to start offset")
	}''','''	_, _ = GoTo(reader, startOffset)''','err/checked error of GoTo in serializer/stream.PeekSize',build=True)
M('C02','readvarslice-no-return-on-length-error','serializer/serializer.go','''		d.err = errProducer(ierrors.Wrapf(ErrDeserializationLengthMaxExceeded, "denoted %d bytes, max allowed %d ", sliceLength, maxLen))

		return d
	case minLen > 0 && sliceLength < minLen:
		d.err = errProducer(ierrors.Wrapf(ErrDeserializationLengthMinNotReached, "denoted %d bytes, min required %d ", sliceLength, minLen))

		return d
	}

	// only allocate after it is known that the input really holds that many bytes
	if len(d.src[d.offset:]) < sliceLength {
		d.err = errProducer(ErrDeserializationNotEnoughData)

		return d
	}

	dest := make([]byte, sliceLength)''','''		d.err = errProducer(ierrors.Wrapf(ErrDeserializationLengthMaxExceeded, "denoted %d bytes, max allowed %d ", sliceLength, maxLen))
	case minLen > 0 && sliceLength < minLen:
		d.err = errProducer(ierrors.Wrapf(ErrDeserializationLengthMinNotReached, "denoted %d bytes, min required %d ", sliceLength, minLen))
	}

	dest := make([]byte, sliceLength)
	if len(d.src[d.offset:]) < sliceLength {
		d.err = errProducer(ErrDeserializationNotEnoughData)

		return d
	}
''','alloc/bounded-by-input make(?, sliceLength) in serializer.Deserializer.ReadVariableByteSlice')
M('C02','readbool-no-guard','serializer/serializer.go','''	if len(d.src[d.offset:]) == 0 {
		d.err = errProducer(ErrDeserializationNotEnoughData)

		return d
	}

	switch d.src[d.offset : d.offset+1][0] {''','''	switch d.src[d.offset : d.offset+1][0] {''','deser/bounds-guarded d.src[d.offset:(d.offset+1)] in serializer.Deserializer.ReadBool')
M('C02','readnum-guard-too-small','serializer/serializer.go','''	dataSize := numSize(dest)
	if l < dataSize {''','''	dataSize := numSize(dest)
	if l < OneByte {''','deser/bounds-guarded d.src[d.offset:(d.offset+l)] in serializer.Deserializer.ReadNum')
M('C02','readslicelength-uint64-guard-4','serializer/serializer.go','''		if l < UInt64ByteSize {
			return 0, errProducer(ErrDeserializationNotEnoughData)
		}
		l = UInt64ByteSize''','''		if l < UInt32ByteSize {
			return 0, errProducer(ErrDeserializationNotEnoughData)
		}
		l = UInt64ByteSize''','in serializer.Deserializer.readSliceLength')
M('C02','skip-unguarded','serializer/serializer.go','''	if len(d.src[d.offset:]) < skip {
		d.err = errProducer(ErrDeserializationNotEnoughData)

		return d
	}
	d.offset += skip''','''	d.offset += skip''','deser/offset-advance-guarded d.offset += skip in serializer.Deserializer.Skip')
M('C02','mapdecode-unchecked-float','serializer/serix/map_decode.go','''	floatVal, ok := mapVal.(float64)
	if !ok {
		return 0, ierrors.Errorf("non number value in map, got %T instead", mapVal)
	}

	return floatVal, nil''','''	return mapVal.(float64), nil //nolint:forcetypeassert''','json/assertion-checked mapVal.(float64) in serializer/serix.mapValAsFloat64')
M('C02','stream-readfixed-no-maxint-guard','serializer/stream/read.go','''		if result > math.MaxInt {
			return 0, ierrors.Errorf("failed to read length prefix: length %d is out of range", result)
		}
''','''		_ = math.MaxInt
''','alloc/prefix-fits-int serializer/stream.readFixedSize')
M('C02','stream-readbytes-no-negative-check','serializer/stream/read.go','''	if length < 0 {
		return nil, ierrors.Errorf("failed to read serialized bytes: invalid length %d", length)
	}
''','''''','alloc/prefix-fits-int serializer/stream.ReadBytes')
M('C02','decode-new-panic','serializer/serix/decode.go','''	if value.IsNil() {
		value.Set(reflect.MakeMap(valueType))
	}

	deserializeItem := func(b []byte) (bytesRead int, err error) {''','''	if value.IsNil() {
		value.Set(reflect.MakeMap(valueType))
	}
	if len(b) == 0 {
		panic("empty input for map")
	}

	deserializeItem := func(b []byte) (bytesRead int, err error) {''','panic/tabled serializer/serix.API.decodeMap')
M('C02','readsequence-item-error-ignored','serializer/serializer.go','''		bytesRead, err := itemDeserializer(srcBefore)
		if err != nil {
			d.err = errProducer(err)

			return d
		}
		d.offset = offsetBefore + bytesRead''','''		bytesRead, err := itemDeserializer(srcBefore)
		if err != nil {
			d.err = errProducer(err)
		}
		d.offset = offsetBefore + bytesRead''','loop/fallible-per-iteration serializer.Deserializer.ReadSequenceOfObjects')
M('C03','big-endian-both-sides','serializer/serializer.go','',None,'endian/little-only',edits=[
 ('serializer/serializer.go','''	if err := binary.Write(&s.buf, binary.LittleEndian, v); err != nil {
		s.err = errProducer(err)
	}

	return s
}

// WriteUint256''','''	if err := binary.Write(&s.buf, binary.BigEndian, v); err != nil {
		s.err = errProducer(err)
	}

	return s
}

// WriteUint256'''),
 ('serializer/serializer.go','''	case *uint16:
		*x = binary.LittleEndian.Uint16(data)''','''	case *uint16:
		*x = binary.BigEndian.Uint16(data)''')])
M('C03','readbool-lenient','serializer/serializer.go','''	case 1:
		*dest = true
	default:
		d.err = errProducer(ErrDeserializationInvalidBoolValue)

		return d
	}''','''	default:
		*dest = true
	}''','bool/strict serializer.Deserializer.ReadBool')
M('C03','reader-skips-element-validator','serializer/serializer.go','''		arrayElementValidator = arrayRules.ElementValidationFunc()
	}

	if sliceLength == 0 {''','''		_ = arrayRules.ValidationMode
	}

	if sliceLength == 0 {''','canonical/validators-both-sides serializer.Deserializer.ReadSequenceOfObjects')
M('C03','reader-skips-bounds','serializer/serializer.go','''		if err := arrayRules.CheckBounds(uint(sliceLength)); err != nil {
			d.err = errProducer(err)

			return d
		}

		arrayElementValidator''','''		arrayElementValidator''','canonical/validators-both-sides serializer.Deserializer.ReadSequenceOfObjects')
M('C03','decodemap-accepts-duplicates','serializer/serix/decode.go','''		if value.MapIndex(keyValue).IsValid() {
			// map entry already exists
			return 0, ierrors.Wrapf(ErrMapValidationViolatesUniqueness, "map entry with key %v already exists", keyValue.Interface())
		}
''','''''','canonical/map serializer/serix.API.decodeMap')
M('C03','decodemap-no-ordering','serializer/serix/decode.go','''		return bytesRead, nil
	}
	ts = ts.ensureOrdering()
''','''		return bytesRead, nil
	}
''','canonical/map serializer/serix.API.decodeMap')
M('C03','optional-length-mismatch-tolerated','serializer/serix/decode.go','''			if bytesRead != int(payloadLength) {
				return ierrors.Wrapf(
					err,
					"optional object length isn't equal to the amount of bytes read; length=%d, bytesRead=%d",
					payloadLength, bytesRead,
				)
			}''','''			if bytesRead != int(payloadLength) {
				bytesRead = int(payloadLength)
			}''','canonical/optional-length')
M('C03','lexical-validator-rejects-equal','serializer/serializable.go','''		case bytes.Compare(prev, next) > 0:''','''		case bytes.Compare(prev, next) >= 0:''','cmp/lexical serializer.ArrayRules.LexicalOrderValidator')
M('C03','payload-marker-uint16','serializer/serializer.go','''binary.Write(&s.buf, binary.LittleEndian, uint32(length))''','''binary.Write(&s.buf, binary.LittleEndian, uint16(length))''','table/payload-marker serializer.Serializer.writePayloadLength')
M('C03','writer-no-range-check','serializer/serializer.go','''		if l > math.MaxUint16 {
			s.err = errProducer(ierrors.Errorf("unable to serialize collection length: length %d is out of range (0-%d)", l, math.MaxUint16))

			return
		}
		if err := binary.Write(''','''		if err := binary.Write(''','table/length-prefix serializer.Serializer.writeSliceLength range check')
M('C03','writebool-nonzero','serializer/serializer.go','''		val = 1
''','''		val = 0xff
''','bool/strict serializer.Serializer.WriteBool')
# behaviour-preserving edits must stay silent
M('C02','silent-readbool-guard-lt-one','serializer/serializer.go','''	if len(d.src[d.offset:]) == 0 {
		d.err = errProducer(ErrDeserializationNotEnoughData)

		return d
	}

	switch d.src[d.offset : d.offset+1][0] {''','''	if len(d.src[d.offset:]) < OneByte {
		d.err = errProducer(ErrDeserializationNotEnoughData)

		return d
	}

	switch d.src[d.offset : d.offset+1][0] {''','',silent=True)
M('C02','silent-readstring-remaining-var','serializer/serializer.go','''	if len(d.src[d.offset:]) < skip {''','''	remaining := len(d.src[d.offset:])
	if remaining < skip {''','',silent=True)

# ---------------- regressions found through seeded changes (sub-agents)
M('C10','silent-insert-remove-neighbours-in-locals','ds/list_impl.go','',None,'',silent=True,edits=[
 ('ds/list_impl.go','''	e.prev.Store(at)
	e.next.Store(at.next.Load())
	e.prev.Load().next.Store(e)
	e.next.Load().prev.Store(e)
	e.list.Store(l)''','''	next := at.next.Load()

	e.prev.Store(at)
	e.next.Store(next)
	at.next.Store(e)
	next.prev.Store(e)
	e.list.Store(l)'''),
 ('ds/list_impl.go','''	e.prev.Load().next.Store(e.next.Load())
	e.next.Load().prev.Store(e.prev.Load())
	e.next.Store(nil) // avoid memory leaks''','''	prev, next := e.prev.Load(), e.next.Load()

	prev.next.Store(next)
	next.prev.Store(prev)
	e.next.Store(nil) // avoid memory leaks''')])
M('C10','move-hoists-at-next','ds/list_impl.go','''	e.prev.Load().next.Store(e.next.Load())
	e.next.Load().prev.Store(e.prev.Load())

	e.prev.Store(at)
	e.next.Store(at.next.Load())
	e.prev.Load().next.Store(e)
	e.next.Load().prev.Store(e)
}''','''	prev, next, atNext := e.prev.Load(), e.next.Load(), at.next.Load()

	prev.next.Store(next)
	next.prev.Store(prev)

	e.prev.Store(at)
	e.next.Store(atNext)
	at.next.Store(e)
	atNext.prev.Store(e)
}''','splice/agrees-with-container-list ds.list.move')
M('C10','silent-move-locals-after-unlink','ds/list_impl.go','''	e.prev.Store(at)
	e.next.Store(at.next.Load())
	e.prev.Load().next.Store(e)
	e.next.Load().prev.Store(e)
}''','''	atNext := at.next.Load()
	e.prev.Store(at)
	e.next.Store(atNext)
	at.next.Store(e)
	atNext.prev.Store(e)
}''','',silent=True)
M('C05','iterate-lazy-values','kvstore/mapdb/synced_map.go','''		if !consume([]byte(key)[len(realm):], copiedElements[key]) {''','''		value, exists := s.get([]byte(key))
		if !exists {
			continue
		}
		if !consume([]byte(key)[len(realm):], value) {''','atomic/one-section-per-operation kvstore/mapdb.syncedKVMap.iterate')
M('C19','leftshift-ordering-check','core/safemath/safe_math.go','''	if result>>shift != val {''','''	if result < val {''','wrap/round-trip-validated val<<shift in core/safemath.SafeLeftShift')
M('C19','muldiv-fast-path','core/safemath/safe_math.go','''	prodHi, prodLo := bits.Mul64(x, y)
''','''	if bits.LeadingZeros64(x)+bits.LeadingZeros64(y) >= 63 {
		return (x * y) / div, nil
	}

	prodHi, prodLo := bits.Mul64(x, y)
''','wrap/round-trip-validated x*y in core/safemath.Safe64MulDiv')
M('C19','silent-mul-check-flipped-operands','core/safemath/safe_math.go','''	if result/x != y {''','''	if y != result/x {''','',silent=True)
M('C09','set-stores-nil-value','ads/map_impl.go','''	if valueBytes == nil {
		// a nil slice is how the trie reports an absent key, so an empty value must be stored as a non-nil empty slice
		valueBytes = []byte{}
	}
''','''''','presence/stored-value-non-nil ads.authenticatedMap.Set')
M('C09','get-absent-by-length','ads/map_impl.go','''	if valueBytes == nil {
		return value, false, err
	}''','''	if len(valueBytes) == 0 {
		return value, false, nil
	}''','presence/one-predicate presence test on the result of tree.Get in ads.authenticatedMap.Get')
# C19: guard evaluation at the critical pair / sign-factor validation
M('C19','safediv-guard-wrong-dividend-test','core/safemath/safe_math.go','''	if minusOne := ^T(0); minusOne < 0 && y == minusOne && x != 0 && x == -x {''','''	if minusOne := ^T(0); minusOne < 0 && y == minusOne && x == 0 {''','signed-div/guarded x / y in core/safemath.SafeDiv')
M('C19','safemul-guard-unsigned-only','core/safemath/safe_math.go','''	if minusOne := ^T(0); minusOne < 0 && x == minusOne && y == -y {''','''	if minusOne := ^T(0); minusOne >= 0 && x == minusOne && y == -y {''','signed-div/guarded')
M('C19','mulint64-positive-sign-test-dropped','core/safemath/safe_math.go','''		if signBitSet {
			return 0, ierrors.WithMessagef(ErrIntegerOverflow, "%d * %d", x, y)
		}
	} else if !signBitSet {''','''		_ = signBitSet
	} else if !signBitSet {''','wrap/round-trip-validated int64(lo)*resultSign in core/safemath.SafeMulInt64')
M('C19','silent-guard-predicate-helpers','core/safemath/safe_math.go','','','',silent=True,edits=[('core/safemath/safe_math.go','''	if minusOne := ^T(0); minusOne < 0 && y == minusOne && x != 0 && x == -x {''','''	if isMinusOneV(y) && isSignedMinV(x) {'''),('core/safemath/safe_math.go','''func SafeLeftShift[T Integer](val T, shift uint8) (T, error) {''','''func isMinusOneV[T Integer](v T) bool {
	allOnes := ^T(0)

	return allOnes < 0 && v == allOnes
}

func isSignedMinV[T Integer](v T) bool {
	return ^T(0) < 0 && v != 0 && v == -v
}

func SafeLeftShift[T Integer](val T, shift uint8) (T, error) {''')])
# C20: deferred bookkeeping in the worker goroutine
M('C20','silent-worker-bookkeeping-deferred-in-order','app/daemon/daemon.go','''		backgroundWorker(worker.ctx)

		// first we need to finish the waitgroup, otherwise stopWorkers could
		// already have acquired the lock and wait until all wait groups are done.
		shutdownOrderWaitGroup.Done()

		// now we can acquire the lock and cleanup the worker
		d.cleanupWorker(name)

		// only after cleanup is finished, we can unset the running flag,
		// otherwise there is a race condition between starting another worker with the same name
		// and a worker that is scheduled for cleanup.
		worker.running.Store(false)
''','''		defer worker.running.Store(false)
		defer d.cleanupWorker(name)
		defer shutdownOrderWaitGroup.Done()

		backgroundWorker(worker.ctx)
''','',silent=True)
M('C20','worker-bookkeeping-deferred-wrong-order','app/daemon/daemon.go','''		backgroundWorker(worker.ctx)

		// first we need to finish the waitgroup, otherwise stopWorkers could
		// already have acquired the lock and wait until all wait groups are done.
		shutdownOrderWaitGroup.Done()

		// now we can acquire the lock and cleanup the worker
		d.cleanupWorker(name)

		// only after cleanup is finished, we can unset the running flag,
		// otherwise there is a race condition between starting another worker with the same name
		// and a worker that is scheduled for cleanup.
		worker.running.Store(false)
''','''		defer shutdownOrderWaitGroup.Done()
		defer d.cleanupWorker(name)
		defer worker.running.Store(false)

		backgroundWorker(worker.ctx)
''','worker/done-cleanup-order')
# ---------------- rules that had no firing mutant or seeded change (audit of evidence rule ids)
M('C07','next-returns-incremented','kvstore/sequence.go','''	val := seq.next
	seq.next++

	return val, nil''','''	seq.next++
	val := seq.next

	return val, nil''','seq/next-')
M('C07','next-does-not-advance','kvstore/sequence.go','''	val := seq.next
	seq.next++

	return val, nil''','''	val := seq.next

	return val, nil''','seq/next-increment')
M('C08','enqueue-send-before-running-check','kvstore/batch_writer.go','''	// abort if the BatchWriter has been stopped
	if !bw.running.Load() {
		bw.scheduledCount.Add(-1)

		return
	}

	// abort if the very same object has been queued already
	if object.BatchWriteScheduled() {
		bw.scheduledCount.Add(-1)

		return
	}
''','''	// abort if the very same object has been queued already
	if object.BatchWriteScheduled() {
		bw.scheduledCount.Add(-1)

		return
	}
''','publish/licensed-by-running')
M('C08','writer-returns-without-done','kvstore/batch_writer.go','''func (bw *BatchedWriter) runBatchWriter() {
	for bw.running.Load() || bw.scheduledCount.Load() != 0 {''','''func (bw *BatchedWriter) runBatchWriter() {
	if bw.opts.batchSize == 0 {
		return
	}
	for bw.running.Load() || bw.scheduledCount.Load() != 0 {''','wg/done-on-exit')
M('C14','evict-forgets-to-advance','ds/reactive/eviction_state_impl.go','''	e.lastEvictedSlot = &slot

	return eventsToTrigger''','''	if len(eventsToTrigger) != 0 {
		e.lastEvictedSlot = &slot
	}

	return eventsToTrigger''','evict/advance')
M('C18','worker-loop-stops-on-first-task','runtime/timed/executor.go','''			for currentEntry := t.queue.Poll(true); currentEntry != nil; currentEntry = t.queue.Poll(true) {
				currentEntry()
			}
''','''			if currentEntry := t.queue.Poll(true); currentEntry != nil {
				currentEntry()
			}
''','executor/worker-loop')
M('C18','worker-done-missing-on-exit','runtime/timed/executor.go','''				currentEntry()
			}

			t.shutdownWG.Done()''','''				currentEntry()
			}

			if t.workerCount > 1 {
				t.shutdownWG.Done()
			}''','executor/worker-loop')
M('C18','executor-shutdown-never-waits','runtime/timed/executor.go','''	if shutdownFlags.HasBits(DontWaitForShutdown) {
		return
	}

	t.shutdownWG.Wait()''','''	if shutdownFlags.HasBits(DontWaitForShutdown) || shutdownFlags.HasBits(CancelPendingElements) {
		return
	}

	t.shutdownWG.Wait()''','executor/shutdown-waits')
M('C18','taskexecutor-does-not-record','runtime/timed/taskexecutor.go','''	if scheduledTask != nil {
		t.queuedElements.Set(identifier, scheduledTask)
	}''','''	if scheduledTask != nil && !t.queuedElements.Has(identifier) {
		t.queuedElements.Set(identifier, scheduledTask)
	}''','taskexec/records-pending')
M('C18','taskexecutor-wrapper-skips-callback','runtime/timed/taskexecutor.go','''		callback()
''','''		if callback != nil && executionTime.IsZero() {
			callback()
		}
''','taskexec/wrapper-runs-callback')
M('C18','cancel-closes-unconditionally','runtime/timed/queue.go','''	select {
	case <-timedQueueElement.cancel:
		// channel is already closed
	default:
		// close the cancel channel to notify subscribers
		close(timedQueueElement.cancel)
	}''','''	// close the cancel channel to notify subscribers
	close(timedQueueElement.cancel)''','cancel/close-once-under-lock')
M('C12','randomkey-draws-from-empty','ds/randommap/random_map.go','''	if len(r.keys) == 0 {
		return defaultValue, false
	}

	return r.randomKey(), true''','''	if r.rawMap == nil {
		return defaultValue, false
	}

	return r.randomKey(), true''','pair/randommap')
M('C20','stop-flag-set-without-lock','app/daemon/daemon.go','''	d.lock.Lock()
	d.stopped.Store(true)
	d.lock.Unlock()
''','''	d.stopped.Store(true)
''','reg/atomic-with-shutdown')
M('C20','stopworkers-walks-live-state','app/daemon/daemon.go','''	workers, shutdownOrderWorker := d.getWorkersAndShutdownOrder()

	// stop all the workers''','''	workers, shutdownOrderWorker := d.workers, d.shutdownOrderWorker

	// stop all the workers''','stop/uses-snapshot')
M('C20','waitgroup-created-after-store','app/daemon/daemon.go','''	if _, ok := d.wgPerSameShutdownOrder[shutdownOrder]; !ok {
		d.wgPerSameShutdownOrder[shutdownOrder] = &sync.WaitGroup{}
	}
''','''	if _, ok := d.wgPerSameShutdownOrder[shutdownOrder]; !ok && shutdownOrder != 0 {
		d.wgPerSameShutdownOrder[shutdownOrder] = &sync.WaitGroup{}
	}
''','order/waitgroup-exists')

# ---------------- defects planted in refactored forms (base = a benign variant): the generalisations
# that keep the refactoring silent must not hide the defect
M('C09','onvariant-visitor-stream-nolock','ads/map_impl.go',"""func (m *authenticatedMap[IdentifierType, K, V]) Stream(callback func(key K, value V) error) error {
	m.mutex.Lock()
	defer m.mutex.Unlock()
""","""func (m *authenticatedMap[IdentifierType, K, V]) Stream(callback func(key K, value V) error) error {
""",'lock/guarded-by', base='C09-13')
M('C07','onvariant-freefunc-next-nolock','kvstore/sequence.go',"""	seq.Lock()
	defer seq.Unlock()

	if seq.next >= seq.reserved {
		if err := leaseInterval(seq); err != nil {""","""	if seq.next >= seq.reserved {
		if err := leaseInterval(seq); err != nil {""",'lock/guarded-by', base='C07-14')
M('C10','onvariant-freefunc-insert-no-len','ds/list_impl.go',"""	e.list.Store(l)
	l.len++
""","""	e.list.Store(l)
""",'bookkeeping/sites', base='C10-13')
M('C10','onvariant-freefunc-insert-no-mark','ds/list_impl.go',"""	e.list.Store(l)
	l.len++
""","""	l.len++
""",'bookkeeping/sites', base='C10-13')
M('C11','onvariant-recorder-records-always','ds/set_impl.go',"""	if !lo.Return2(m.target.Set(element, types.Void)) {
		m.changed.Add(element)
	}
""","""	_ = lo.Return2(m.target.Set(element, types.Void))
	m.changed.Add(element)
""",'set/exact-diff', base='C11-14')
M('C11','onvariant-recorder-addall-nolock','ds/set_impl.go',"""	s.applyMutex.RLock()
	defer s.applyMutex.RUnlock()

	added := newMembershipRecorder(s)""","""	added := newMembershipRecorder(s)""",'set/apply-mutex-protocol', base='C11-14')
M('C04','onvariant-paramobject-wrong-realm','kvstore/mapdb/synced_map.go',"""	return []byte(storedKey)[len(r.realm):]""","""	return []byte(storedKey)[len(r.keyPrefix):]""",'realm/', base='C04-14')
M('C13','onvariant-mutate-notify-outside','ds/reactive/set_impl.go',"""	s.mutex.Lock()
	defer s.mutex.Unlock()

	appliedMutations, updateID, registeredCallbacks := s.apply(mutationFactory(s.readableSet))""","""	s.mutex.Lock()
	appliedMutations, updateID, registeredCallbacks := s.apply(mutationFactory(s.readableSet))
	s.mutex.Unlock()
""",'writer/', base='C13-16')
M('C16','onvariant-inlined-drain-drops','runtime/workerpool/workerpool.go',"""			task.markDone()""","""			_ = task""",'conserve/worker', base='C16-14')
M('C11','onvariant-split-falling-offbyone','ds/set_impl.go',"""		}) == threshold-1 && !opposingSet.Delete(element) {""","""		}) == threshold && !opposingSet.Delete(element) {""",'arith/threshold', base='C11-13')
M('C12','onvariant-handle-not-idempotent','ds/priorityqueue/priorityqueue.go',"""	if r.heapElement.Index() != -1 {
		heap.Remove(&r.queue.heap, r.heapElement.Index())
	}""","""	heap.Remove(&r.queue.heap, r.heapElement.Index())""",'pair/removal-handle', base='C12-13')
M('C09','onvariant-freefunc-size-always','ads/map_impl.go',"""	if !has {
		if err := adjustSize(m.size, 1); err != nil {""","""	if has || !has {
		if err := adjustSize(m.size, 1); err != nil {""",'size/accounting', base='C09-15')

M('C05','onvariant-merged-consume-under-lock','kvstore/mapdb/synced_map.go',"""			copiedElements[key] = snapshotValue(value)
		}
	}
	s.RUnlock()
""","""			copiedElements[key] = snapshotValue(value)
		}
	}
	defer s.RUnlock()
""",'lock/no-callback-under-lock', base='C05-14')
M('C05','onvariant-renamed-mutex-set-nolock','kvstore/mapdb/synced_map.go',"""func (s *syncedKVMap) set(key, value []byte) {
	s.mutex.Lock()
	defer s.mutex.Unlock()
""","""func (s *syncedKVMap) set(key, value []byte) {
""",'lock/guarded-by', base='C05-16')
M('C17','onvariant-freefunc-register-after-block','runtime/syncutils/dagmutex.go',"""	d.Mutex.Lock()
	mutex := registerMutex(d, id)
	d.Mutex.Unlock()

	mutex.Lock()
}""","""	d.Mutex.Lock()
	mutex, _ := d.mutexes.Get(id)
	d.Mutex.Unlock()

	mutex.Lock()
	d.Mutex.Lock()
	registerMutex(d, id)
	d.Mutex.Unlock()
}""",'dag/register-before-block', base='C17-16')
M('C17','onvariant-freefunc-register-nolock','runtime/syncutils/dagmutex.go',"""	d.Mutex.Lock()
	mutex := registerMutex(d, id)
	d.Mutex.Unlock()

	mutex.Lock()
}""","""	mutex := registerMutex(d, id)

	mutex.Lock()
}""",'lock/guarded-by', base='C17-16')
M('C10','onvariant-shared-body-no-membership','ds/list_impl.go',"""	if positionTyped.list.Load() != l {
		return nil
	}

	at := positionTyped""","""	at := positionTyped""",'handle/validated', base='C10-14')
M('C11','onvariant-direction-flag-swapped-start','ds/orderedmap/orderedmap.go',"""	if reverse {
		currentEntry = o.tail
	} else {
		currentEntry = o.head
	}""","""	if !reverse {
		currentEntry = o.tail
	} else {
		currentEntry = o.head
	}""",'omap/iteration-order', base='C15-16')
M('C03','onvariant-validator-flag-inverted','serializer/serializable.go',"""			case cmp == 0 && rejectDuplicates:""","""			case cmp == 0 && !rejectDuplicates:""",'cmp/lexical', base='C03-16')
M('C14','onvariant-counterinput-forgets','ds/reactive/counter_impl.go',"""			i.conditionWasTrue = conditionIsTrue
""","""""",'counter/condition-memory', base='C14-15')
M('C07','onvariant-single-exit-returns-next','kvstore/sequence.go',"""		val = seq.next
		seq.next++
	}
""","""		seq.next++
		val = seq.next
	}
""",'seq/', base='C07-15')
M('C07','onvariant-append-encodes-next','kvstore/sequence.go',"""	mark := binary.BigEndian.AppendUint64(nil, reserved)""","""	mark := binary.BigEndian.AppendUint64(nil, seq.next)""",'seq/', base='C07-16')
M('C14','onvariant-splice-no-decrement','ds/reactive/sorted_set_impl.go',"""		for _, shiftedElement := range s.sortedElements[deletedElement.index:] {
			shiftedElement.index--
		}
""","""""",'sorted/slot-index-coupled', base='C14-14')
M('C14','onvariant-splice-decrement-from-next','ds/reactive/sorted_set_impl.go',"""		for _, shiftedElement := range s.sortedElements[deletedElement.index:] {""","""		for _, shiftedElement := range s.sortedElements[deletedElement.index+1:] {""",'sorted/slot-index-coupled', base='C14-14')
M('C18','onvariant-compare-swapped','runtime/timed/heapkey.go',"""	return time.Time(t).Compare(time.Time(other))""","""	return time.Time(other).Compare(time.Time(t))""",'cmp/direction', base='C18-16')
M('C01','onvariant-sortfunc-removed','serializer/serializer.go',"""		slices.SortFunc(data, bytes.Compare)
""","""		_ = slices.Contains[[]int]
""",'determinism/sort-before-write', base='C01-13')
M('C04','onvariant-sortfunc-backward-ascending','kvstore/utils/utils.go',"""			return strings.Compare(b, a)""","""			return strings.Compare(a, b)""",'order/sortslice', base='C04-13')
M('C12','onvariant-enqueue-push-front','ds/walker/walker.go',"""	w.enqueue(nextElement, w.stack.PushBack)""","""	w.enqueue(nextElement, w.stack.PushFront)""",'bulk/no-early-exit', base='C12-15')

M('C02','viaslice-no-length-check','serializer/serix/utils.go',"""	if sliceValue.Len() != arrValue.Len() {
		return ierrors.Errorf("can't decode %d elements into an array of length %d", sliceValue.Len(), arrValue.Len())
	}
	fillArrayFromSlice(arrValue, sliceValue)""","""	if sliceValue.Len() > arrValue.Len() {
		return ierrors.Errorf("can't decode %d elements into an array of length %d", sliceValue.Len(), arrValue.Len())
	}
	fillArrayFromSlice(arrValue, sliceValue)""",'reflect/fill-bounded-by-destination')
M('C03','payload-read-bigendian','serializer/serializer.go',"""	payloadLength := binary.LittleEndian.Uint32(d.src[d.offset:])""","""	payloadLength := binary.BigEndian.Uint32(d.src[d.offset:])""",'table/payload-marker')
M('C03','writebool-renamed-locals-silent','serializer/serializer.go',"""	var val byte
	if v {
		val = 1
	}

	if err := s.buf.WriteByte(val); err != nil {""","""	var encoded byte
	if v {
		encoded = 1
	}

	if err := s.buf.WriteByte(encoded); err != nil {""",'', silent=True)
M('C02','viaslice-renamed-locals-silent','serializer/serix/utils.go',"""	sliceValue := reflect.New(sliceValueType).Elem()

	if err := decodeSlice(sliceValue, sliceValueType); err != nil {
		return err
	}

	if sliceValue.Len() != arrValue.Len() {
		return ierrors.Errorf("can't decode %d elements into an array of length %d", sliceValue.Len(), arrValue.Len())
	}
	fillArrayFromSlice(arrValue, sliceValue)""","""	tmp := reflect.New(sliceValueType).Elem()

	if err := decodeSlice(tmp, sliceValueType); err != nil {
		return err
	}

	if arrValue.Len() != tmp.Len() {
		return ierrors.Errorf("can't decode %d elements into an array of length %d", tmp.Len(), arrValue.Len())
	}
	fillArrayFromSlice(arrValue, tmp)""",'', silent=True)

M('C01','viaslice-no-length-check','serializer/serix/utils.go',"""	if sliceValue.Len() != arrValue.Len() {
		return ierrors.Errorf("can't decode %d elements into an array of length %d", sliceValue.Len(), arrValue.Len())
	}
	fillArrayFromSlice(arrValue, sliceValue)""","""	if sliceValue.Len() > arrValue.Len() {
		return ierrors.Errorf("can't decode %d elements into an array of length %d", sliceValue.Len(), arrValue.Len())
	}
	fillArrayFromSlice(arrValue, sliceValue)""",'tempcopy/array-of-objects')
M('C14','inheritfrom-remove-before-unsub','ds/reactive/set_impl.go','unsubscribeCallbacks = append(unsubscribeCallbacks, unsubscribeFromSource, removeSourceElements)','unsubscribeCallbacks = append(unsubscribeCallbacks, removeSourceElements, unsubscribeFromSource)','derivedset/unsubscribe-removes')
M('C14','onvariant-record-shared-by-sources','ds/reactive/set_impl.go',"""	for _, source := range sources {
		unsubscribeCallbacks = append(unsubscribeCallbacks, newInheritedSource(s).subscribe(source))""","""	inherited := newInheritedSource(s)
	for _, source := range sources {
		unsubscribeCallbacks = append(unsubscribeCallbacks, inherited.subscribe(source))""",'derivedset/unsubscribe-removes', base='C14-17')
M('C14','onvariant-record-detach-keeps-subscription','ds/reactive/set_impl.go',"""	i.unsubscribeFromSource()

	i.target.inheritMutations(ds.NewSetMutations""","""	i.target.inheritMutations(ds.NewSetMutations""",'derivedset/unsubscribe-removes', base='C14-17')
M('C15','notifier-dereg-closes-channel','runtime/valuenotifier/listener.go','''		v.listeners.Delete(value)
	}
}''','''		close(valueListeners.channel)
		v.listeners.Delete(value)
	}
}''','notifier/close-means-notified')
M('C19','onvariant-binary-guard-wrong-operand','core/safemath/safe_math.go',"""	if negationOverflows(y, x) {""","""	if negationOverflows(x, y) {""",'signed-div/guarded', base='C19-17')
M('C19','onvariant-binary-guard-unsigned','core/safemath/safe_math.go',"""	return minusOne < 0 && factor == minusOne && v != 0 && v == -v""","""	return factor == minusOne && v != 0 && v == -v""",'signed-div/guard-signed-only', base='C19-17')
M('C15','notifier-wait-ctx-done-is-success','runtime/valuenotifier/listener.go','''	case <-ctx.Done():
		return ctx.Err()''','''	case <-ctx.Done():
		return nil''','notifier/wait-success-only-on-notify')
M('C15','notifier-wait-deregistered-is-success','runtime/valuenotifier/listener.go','''	case <-l.deregisteredChan:
		return ErrListenerDeregistered''','''	case <-l.deregisteredChan:
		return nil''','notifier/wait-success-only-on-notify')
M('C15','silent-notifier-wait-result-variable','runtime/valuenotifier/listener.go','''	select {
	case <-l.channel:
		// the listener could have been deregistered before the value was notified: both channels are closed then
		// and select picks one of them at random, so the deregistration has to be checked again.
		if l.deregistered.Load() {
			return ErrListenerDeregistered
		}

		return nil
	case <-l.deregisteredChan:
		return ErrListenerDeregistered
	case <-ctx.Done():
		return ctx.Err()
	}''','''	var err error
	select {
	case <-l.channel:
		if l.deregistered.Load() {
			err = ErrListenerDeregistered
		}
	case <-l.deregisteredChan:
		err = ErrListenerDeregistered
	case <-ctx.Done():
		err = ctx.Err()
	}

	return err''','', silent=True)
M('C15','notifier-wait-no-recheck','runtime/valuenotifier/listener.go','''		if l.deregistered.Load() {
			return ErrListenerDeregistered
		}

		return nil
	case <-l.deregisteredChan:''','''		return nil
	case <-l.deregisteredChan:''','notifier/wait-success-only-on-notify')

# ---------------- round 6: defects planted in the corrected twins of round 5/6 (the generalisations that
# made those twins silent must not hide the re-opened defect)
M('C02','ontwin-advance-compares-whole-source','serializer/serializer.go',"""	if len(d.src[d.offset:]) < n {
		return d.offset, false
	}""","""	if len(d.src) < n {
		return d.offset, false
	}""",'deser/bounds-guarded', base='C02-19')
M('C02','ontwin-advance-result-ignored','serializer/serializer.go',"""	end, ok := d.advance(numBytes)
	if !ok {""","""	end, ok := d.advance(numBytes)
	if !ok && d.err != nil {""",'alloc/bounded-by-input', base='C02-19')
M('C15','ontwin-poll-skips-flag-after-receive','runtime/valuenotifier/listener.go',"""	if l.deregistered.Load() {
		return true, ErrListenerDeregistered
	}

	return done, nil""","""	if !done && l.deregistered.Load() {
		return true, ErrListenerDeregistered
	}

	return done, nil""",'notifier/wait-success-only-on-notify', base='C15-19')
M('C15','ontwin-poll-counts-deregistration-signal','runtime/valuenotifier/listener.go',"""	case <-l.channel:
		done = true
	default:
	}
""","""	case <-l.channel:
		done = true
	case <-l.deregisteredChan:
		done = true
	default:
	}
""",'notifier/wait-success-only-on-notify', base='C15-19')
M('C02','ontwin-payload-window-too-short','serializer/serializer.go',"""	case payloadLength < TypeDenotationByteSize:""","""	case payloadLength < 1:""",'deser/bounds-guarded', base='C02-20')
M('C14','ontwin-publish-without-generation-guard','ds/reactive/sorted_set_impl.go',"""		if modificationID < *publishedModificationID {
			return currentElement
		}
""","""""",'sorted/end-published-through-alias', base='C14-20')
M('C20','ontwin-cleanup-without-identity-test','app/daemon/daemon.go',"""	if d.workers[name] != finishedWorker {
		return
	}
""","""	_ = finishedWorker
""",'reg/replaces-only-cleaned-up-worker', base='C20-20')
M('C17','ontwin-popwait-no-retest','runtime/syncutils/stack.go',"""		if b.elements.Len() != 0 {
			break
		}
""","""""",'cond/wait-in-loop-under-locker', base='C17-20')
M('C12','ontwin-undo-deletes-incremented-entry','web/subscriptionmanager/subscription_manager.go',"""				subscribedTopics.Set(topic, count)""","""				subscribedTopics.Delete(topic)""",'pair/client-global-count', base='C12-20')
M('C06','ontwin-readthrough-caches-missing-value','kvstore/typedvalue.go',"""		if t.hasCached = &exists; exists {
			t.valueCached = &currentValue
		}""","""		t.hasCached = &exists
		t.valueCached = &currentValue""",'cache/after-store-success', base='C06-20')
M('C07','ontwin-lease-before-write','kvstore/sequence.go',"""	if err := seq.writeMark(reserved); err != nil {
		return err
	}
	seq.reserved = reserved
""","""	seq.reserved = reserved
	if err := seq.writeMark(reserved); err != nil {
		return err
	}
""",'seq/reserve-before-handout', base='C07-20')
M('C08','ontwin-only-the-early-running-check','kvstore/batch_writer.go',"""	bw.scheduledCount.Add(1)

	// abort if the BatchWriter has been stopped
	if !bw.running.Load() {
		bw.scheduledCount.Add(-1)

		return
	}
""","""	bw.scheduledCount.Add(1)
""",'publish/', base='C08-20')
M('C19','ontwin-product-under-wrong-pin','core/safemath/safe_math.go',"""		if x == 1 || y == 1 {
			return x * y, nil
		}""","""		if x == 1 || y == 2 {
			return x * y, nil
		}""",'wrap/round-trip-validated', base='C19-20')
# ---- on the round-8 corrected twins
M('C08','ontwin-completed-flag-published-before-start','kvstore/batch_writer.go',"""		defer bw.autoStarted.Store(true)
		bw.startBatchWriter()""","""		bw.autoStarted.Store(true)
		bw.startBatchWriter()""",'publish/auto-start-is-a-barrier', base='C08-22')
M('C08','ontwin-completed-flag-claimed-by-swap','kvstore/batch_writer.go',"""	if !bw.autoStarted.Load() {
		defer bw.autoStarted.Store(true)
		bw.startBatchWriter()
	}""","""	if !bw.autoStarted.Swap(true) {
		bw.startBatchWriter()
	}""",'publish/auto-start-is-a-barrier', base='C08-22')
M('C20','ontwin-early-flag-with-cleanup-by-name','app/daemon/daemon.go',"""	if d.workers[name] != finishedWorker {
		return
	}
""","""""",'worker/done-cleanup-order', base='C20-22')
M('C20','ontwin-flag-cleared-before-done','app/daemon/daemon.go',"""		shutdownOrderWaitGroup.Done()
		worker.running.Store(false)
""","""		worker.running.Store(false)
		shutdownOrderWaitGroup.Done()
""",'worker/done-cleanup-order', base='C20-22')
M('C15','ontwin-atomic-link-hooked-before-unhook','runtime/event/event.go',"""	if link := e.link.Load(); link != nil {
		link.Unhook()
	}

	if IsInterfaceNil(target) {
		e.link.Store(nil)
	} else {
		e.link.Store(target.Hook(triggerFunc))
	}""","""	link := e.link.Load()

	if IsInterfaceNil(target) {
		e.link.Store(nil)
	} else {
		e.link.Store(target.Hook(triggerFunc))
	}

	if link != nil {
		link.Unhook()
	}""",'link/unhook-before-hook', base='C15-22')
M('C16','ontwin-start-relocks-only-on-one-branch','runtime/workerpool/workerpool.go',"""		w.mutex.Unlock()
		w.ShutdownComplete.Wait()
		w.mutex.Lock()
""","""		w.mutex.Unlock()
		w.ShutdownComplete.Wait()
""",'lock/', base='C16-22')
M("C01","ontwin-encoder-tests-kind","serializer/serix/utils.go","""arrType.Elem() == bytesType.Elem()""","""arrType.Elem().Kind() == reflect.Uint8""",'mirror/byte-array-predicate', base='C01-22')
M('C09','ontwin-helper-reports-absent-on-success','ads/map_impl.go',"""	return has, nil
}""","""	return false, nil
}""",'size/accounting', base='C09-22')
M('C09','ontwin-helper-may-return-nil-error-early','ads/map_impl.go',"""		return false, ierrors.Wrap(err, "failed to update tree")""","""		return false, nil""",'size/', base='C09-22')
M('C09','ontwin-nil-value-reaches-helper','ads/map_impl.go',"""	if valueBytes == nil {
		// a nil slice is how the trie reports an absent key, so an empty value must be stored as a non-nil empty slice
		valueBytes = []byte{}
	}
""","""""",'presence/stored-value-non-nil', base='C09-22')
M('C09','ontwin-helper-tests-after-update','ads/map_impl.go',"""	if has, err = m.has(keyBytes); err != nil {
		return false, ierrors.Wrap(err, "failed to check if key exists")
	}

	if err = m.tree.Update(keyBytes, valueBytes); err != nil {
		return false, ierrors.Wrap(err, "failed to update tree")
	}
""","""	if err = m.tree.Update(keyBytes, valueBytes); err != nil {
		return false, ierrors.Wrap(err, "failed to update tree")
	}

	if has, err = m.has(keyBytes); err != nil {
		return false, ierrors.Wrap(err, "failed to check if key exists")
	}
""",'size/has-before-mutation', base='C09-22')
M('C16','ontwin-start-reopens-section-in-the-other-mode','runtime/workerpool/workerpool.go',"""		w.mutex.Unlock()
		w.ShutdownComplete.Wait()
		w.mutex.Lock()
""","""		w.mutex.Unlock()
		w.ShutdownComplete.Wait()
		w.mutex.RLock()
""",'lock/', base='C16-22')
M('C09','ontwin-helper-overwrites-membership-after-update','ads/map_impl.go',"""	return has, nil
}""","""	has = false

	return has, nil
}""",'size/accounting', base='C09-22')
M('C16','ontwin-start-serialiser-released-at-once','runtime/workerpool/workerpool.go',"""	w.startMutex.Lock()
	defer w.startMutex.Unlock()
""","""	w.startMutex.Lock()
	w.startMutex.Unlock()
""",'start/test-and-set-one-section', base='C16-22')
M('C16','start-waits-for-previous-run-outside-the-lock','runtime/workerpool/workerpool.go',"""	if !w.isRunning {
		w.ShutdownComplete.Wait()
""","""	if !w.isRunning {
		w.mutex.Unlock()
		w.ShutdownComplete.Wait()
		w.mutex.Lock()
""",'start/test-and-set-one-section')
# ---- round-9 rules at sibling sites
M('C04','flushkv-withrealm-keeps-view-for-empty-realm','kvstore/flushkv/flushkv.go',"""func (s *flushKVStore) WithRealm(realm kvstore.Realm) (kvstore.KVStore, error) {
	store, err := s.store.WithRealm(realm)""","""func (s *flushKVStore) WithRealm(realm kvstore.Realm) (kvstore.KVStore, error) {
	if len(realm) == 0 {
		return s, nil
	}
	store, err := s.store.WithRealm(realm)""",'realm/with-realm-replaces')
M('C05','mapdb-has-builds-key-in-the-realm','kvstore/mapdb/mapdb.go',"""func (s *mapDB) Has(key kvstore.Key) (bool, error) {""","""func (s *mapDB) Has(key kvstore.Key) (bool, error) {
	_ = append(s.realm, key...)""",'alias/no-append-to-shared-field')
M('C06','typedstore-iteratekeys-branch-returns-outer-nil-error','kvstore/typedstore.go',"""		valueDecoded, _, valueErr := t.bytesToValue(value)
		if valueErr != nil {
			innerErr = valueErr
""","""		valueDecoded, _, valueErr := t.bytesToValue(value)
		if valueErr != nil {
			innerErr = keyErr
""",'err/failure-branch-reports-its-own-error')
M('C20','stopworkers-returns-from-the-walk','app/daemon/daemon.go',"""			if !worker.running.Load() {
				worker.ctxCancel()

				continue""","""			if !worker.running.Load() {
				worker.ctxCancel()

				return""",'walk/visits-every-entry')
M('C17','starvingmutex-runlock-signals-readers','runtime/syncutils/starvingmutex.go',"""		f.readerCond.Broadcast()""","""		f.readerCond.Signal()""",'cond/all-admissible-waiters-woken')
M('C11','orderedmap-head-reads-tail-key','ds/orderedmap/orderedmap.go',"""	key = o.head.key
""","""	key = o.tail.key
""",'accessor/end-consistent')
M('C10','movetoback-guard-looks-at-the-front','ds/list_impl.go',"""	if typedElement.list.Load() != l || l.root.prev.Load() == element {""","""	if typedElement.list.Load() != l || l.root.next.Load() == element {""",'accessor/end-consistent')
M('C13','set-apply-notification-stops-at-unlockable-subscriber','ds/reactive/set_impl.go',"""	appliedMutations, updateID, registeredCallbacks := s.apply(mutations)
	if appliedMutations.IsEmpty() {
		return appliedMutations
	}

	for _, registeredCallback := range registeredCallbacks {
		if registeredCallback.LockExecution(updateID) {
			registeredCallback.Invoke(appliedMutations)
			registeredCallback.UnlockExecution()
		}
	}

	return appliedMutations
}""","""	appliedMutations, updateID, registeredCallbacks := s.apply(mutations)
	if appliedMutations.IsEmpty() {
		return appliedMutations
	}

	for _, registeredCallback := range registeredCallbacks {
		if !registeredCallback.LockExecution(updateID) {
			return appliedMutations
		}
		registeredCallback.Invoke(appliedMutations)
		registeredCallback.UnlockExecution()
	}

	return appliedMutations
}""",'notify/loop-visits-every-subscriber')
M('C06','typedvalue-delete-marks-absent-before-clearing-on-error-path','kvstore/typedvalue.go',"""	t.valueCached = nil
	t.hasCached = &falsePtr

	return nil
}""","""	t.hasCached = &falsePtr

	return nil
}""",'cache/absent-implies-no-cached-value')
