MUTANTS = []
def M(prop, name, file, old, new, expect, **kw):
    MUTANTS.append(dict(prop=prop, name=prop+'-'+name, file=file, old=old, new=new, expect=expect, **kw))

# ---------------- C05
M('C05','get-nolock','kvstore/mapdb/synced_map.go','''	s.RLock()
	defer s.RUnlock()
	value, ok := s.m[string(key)]''','''	value, ok := s.m[string(key)]''','lock/guarded-by syncedKVMap.m in kvstore/mapdb.syncedKVMap.get')
M('C05','deleteprefix-rlock','kvstore/mapdb/synced_map.go','''	s.Lock()
	defer s.Unlock()
	prefix := string(keyPrefix)''','''	s.RLock()
	defer s.RUnlock()
	prefix := string(keyPrefix)''','lock/guarded-by syncedKVMap.m in kvstore/mapdb.syncedKVMap.deletePrefix [W]')
M('C05','iterate-consume-under-lock','kvstore/mapdb/synced_map.go','''			copiedElements[key] = byteutils.ConcatBytes(value)
		}
	}
	s.RUnlock()
''','''			copiedElements[key] = byteutils.ConcatBytes(value)
		}
	}
	defer s.RUnlock()
''','lock/no-callback-under-lock kvstore/mapdb.syncedKVMap.iterate')
M('C05','set-leak','kvstore/mapdb/mapdb.go','''	s.Lock()
	defer s.Unlock()

	return s.set(key, value)''','''	s.Lock()

	return s.set(key, value)''','lock/balance kvstore/mapdb.mapDB.Set')
M('C05','batch-set-nolock','kvstore/mapdb/mapdb.go','''	b.Lock()
	defer b.Unlock()

	delete(b.deleteOperations, stringKey)''','''	delete(b.deleteOperations, stringKey)''','lock/guarded-by batchedMutations')
M('C05','iteratekeys-two-sections','kvstore/mapdb/synced_map.go','''	for key := range s.m {
		if strings.HasPrefix(key, prefix) {
			copiedElements[key] = struct{}{}
		}
	}
	s.RUnlock()''','''	for key := range s.m {
		if strings.HasPrefix(key, prefix) {
			s.RUnlock()
			copiedElements[key] = struct{}{}
			s.RLock()
		}
	}
	s.RUnlock()''','snapshot/one-section kvstore/mapdb.syncedKVMap.iterateKeys')
M('C05','commit-reacquire','kvstore/mapdb/mapdb.go','''		err := b.kvStore.set([]byte(key), value)''','''		err := b.kvStore.Set([]byte(key), value)''','lock/order reacquire')
M('C05','silent-explicit-unlock','kvstore/mapdb/synced_map.go','''	s.Lock()
	defer s.Unlock()
	delete(s.m, string(key))''','''	s.Lock()
	delete(s.m, string(key))
	s.Unlock()''','',silent=True)
