#!/usr/bin/env python3
"""Development aid (not a registered check): applies one textual mutant of hive.go to a scratch
copy of /repo, runs hivecheck on it and checks that the expected obligation fires.
usage: mutate.py [-k substr] [-j N] [--list]
Mutants live in selftest/mutants.py as dicts: name, prop, file, old, new, expect (substring of a
FAILED line), optional 'silent': True for behaviour-preserving edits that must NOT fire."""
import sys, os, shutil, subprocess, tempfile, argparse, concurrent.futures, importlib.util
HERE=os.path.dirname(os.path.abspath(__file__))
spec=importlib.util.spec_from_file_location('mutants', os.path.join(HERE,'mutants.py'))
mod=importlib.util.module_from_spec(spec); spec.loader.exec_module(mod)
ENV=dict(os.environ, GOFLAGS='-mod=mod', GOPROXY='off', GOSUMDB='off', GOTOOLCHAIN='local')
ENV.pop('GOWORK',None)
def run(m):
    d=tempfile.mkdtemp(prefix='hcmut-', dir='/tmp')
    try:
        repo=os.path.join(d,'repo'); ver=os.path.join(d,'verif')
        shutil.copytree('/repo', repo, ignore=shutil.ignore_patterns('.git'))
        os.makedirs(ver)
        if os.path.exists('/verif/known_findings.json'): shutil.copy('/verif/known_findings.json', ver)
        # 'base': a behaviour-preserving variant (benign/<name>) applied first, so that the defect is
        # planted in the refactored form of the code (the generalised rule must still see it)
        if m.get('base'):
            bp=subprocess.run(['patch','-p1','-s','-i','/verif/benign/%s/patch.diff'%m['base']],cwd=repo,capture_output=True,text=True)
            if bp.returncode!=0: return (m['name'],'BROKEN','base patch does not apply: '+bp.stdout[-200:])
        edits=m.get('edits') or [(m['file'], m['old'], m['new'])]
        for (f,old,new) in edits:
            path=os.path.join(repo,f); s=open(path).read()
            if s.count(old)!=1:
                return (m['name'], 'BROKEN', 'pattern occurs %d times in %s'%(s.count(old),f))
            open(path,'w').write(s.replace(old,new))
        if m.get('build',True):
            moddir=edits[0][0].split('/')[0]
            b=subprocess.run(['go','build','./...'],cwd=os.path.join(repo,moddir),env=ENV,capture_output=True,text=True)
            if b.returncode!=0: return (m['name'],'BROKEN','does not compile: '+b.stderr[-400:])
        e=dict(ENV, HIVECHECK_REPO=repo, HIVECHECK_VERIF=ver, HIVECHECK_WORK=os.path.join(d,'work'))
        try:
            p=subprocess.run([os.environ.get('HIVECHECK_BIN','/verif/.bin/hivecheck'),'-property',m['prop'],'-tier',m.get('tier','quick')],env=e,capture_output=True,text=True,timeout=600)
        except subprocess.TimeoutExpired:
            p=subprocess.CompletedProcess([],2,'','checker did not finish within 600 s (hang)')
        out=p.stdout+p.stderr
        failed=[l for l in out.splitlines() if 'FAILED' in l]
        if m.get('silent'):
            if p.returncode==0: return (m['name'],'ok-silent','')
            return (m['name'],'FALSE-ALARM','\n'.join(failed[:5]))
        if p.returncode==1 and any(m['expect'] in l for l in failed):
            extra=[l for l in failed if m['expect'] not in l]
            return (m['name'],'ok-caught','' if not extra else '(+%d other failures)'%len(extra))
        return (m['name'],'MISSED','rc=%d\n%s'%(p.returncode,'\n'.join(failed[:6]) or out[-600:]))
    finally:
        shutil.rmtree(d,ignore_errors=True)
ap=argparse.ArgumentParser(); ap.add_argument('-k',default=''); ap.add_argument('-j',type=int,default=6); ap.add_argument('--list',action='store_true')
a=ap.parse_args()
import re
ms=[m for m in mod.MUTANTS if re.search(a.k,m['name']) or a.k==m['prop']]
if a.list:
    for m in ms: print(m['prop'],m['name'])
    sys.exit(0)
bad=0
with concurrent.futures.ThreadPoolExecutor(a.j) as ex:
    for name,st,info in ex.map(run,ms):
        print('%-60s %s %s'%(name,st,info))
        if not st.startswith('ok'): bad+=1
print('%d mutants, %d not ok'%(len(ms),bad))
sys.exit(1 if bad else 0)
