package main

import (
	"flag"
	"fmt"
	"go/ast"
	"os"
	"runtime/debug"
	"sort"
	"strconv"
	"strings"
	"time"
)

type Ctx struct {
	L    *Loader
	R    *Reporter
	Tier string
}

// Load returns the program for a module directory; a load failure is an obligation failure.
func (c *Ctx) Load(mod string) *Prog {
	p, err := c.L.Load(mod)
	if err != nil {
		c.R.Fail("load", "module "+mod, "-", err.Error())
		return nil
	}
	n := 0
	for range p.Pkgs {
		n++
	}
	mods, _ := c.R.Analysed["modules"].(map[string]any)
	if mods == nil {
		mods = map[string]any{}
		c.R.Analysed["modules"] = mods
	}
	mods[mod] = map[string]any{"root_packages": len(p.Roots), "packages_with_deps": n, "tags": p.Tags}
	return p
}

type property struct {
	ID    string
	Run   func(c *Ctx)
	Meta  propMeta
	Modes []string // extra build configurations analysed in the thorough tier
}

var registry = map[string]*property{}

var genAnchorsPath string

func register(p *property) { registry[p.ID] = p }

func main() {
	prop := flag.String("property", "", "property id (C01..C20)")
	tier := flag.String("tier", envOr("VERIF_TIER", "quick"), "quick|thorough")
	list := flag.Bool("list", false, "list registered properties")
	flag.BoolVar(&verbose, "v", false, "print every obligation")
	genAnchors := flag.String("genanchors", "", "development aid: after the run, merge the body fingerprints of the unexported functions of the loaded packages into this file (anchors.json)")
	dump := flag.String("dumpkeys", "", "development aid: module:pkg:recv:func - print the canonical keys of the conditions and assignments of a function")
	flag.Parse()
	genAnchorsPath = *genAnchors
	if *dump != "" {
		parts := strings.Split(*dump, ":")
		l, err := newLoader("")
		if err != nil || len(parts) != 4 {
			fmt.Println("usage: -dumpkeys module:pkg:recv:func", err)
			os.Exit(2)
		}
		defer l.Close()
		p, err := l.Load(parts[0])
		if err != nil {
			fmt.Println(err)
			os.Exit(2)
		}
		f := p.CFGOf(parts[1], parts[2], parts[3])
		if f == nil {
			fmt.Println("function not found")
			os.Exit(2)
		}
		for _, b := range f.G.Blocks {
			if !b.Live {
				continue
			}
			fmt.Printf("block %d (%s) succs %d\n", b.Index, b.Kind, len(b.Succs))
			for bi, n := range b.Nodes {
				switch x := n.(type) {
				case ast.Expr:
					fmt.Printf("   expr  %s\n", exprKey(x))
				case *ast.AssignStmt:
					fmt.Printf("   %s %s %s\n", exprKey(x.Lhs[0]), x.Tok, exprKey(x.Rhs[0]))
					if cl, ok := ast.Unparen(x.Rhs[0]).(*ast.CallExpr); ok {
						for ai, a := range cl.Args {
							re, _ := f.Resolve(a, Point{b, bi})
							fmt.Printf("        arg%d %s -> %s  | keyAt %s\n", ai, exprKey(a), exprKey(re), f.KeyAt(a, Point{b, bi}))
						}
					}
				case *ast.ExprStmt:
					fmt.Printf("   stmt  %s\n", exprKey(x.X))
					if cl, ok := ast.Unparen(x.X).(*ast.CallExpr); ok {
						for ai, a := range cl.Args {
							re, _ := f.Resolve(a, Point{b, bi})
							fmt.Printf("        arg%d %s -> %s  | keyAt %s | region %v\n", ai, exprKey(a), exprKey(re), f.KeyAt(a, Point{b, bi}), f.regionChain(b))
						}
					}
				case *ast.ReturnStmt:
					var rs []string
					for _, e := range x.Results {
						rs = append(rs, exprKey(e))
					}
					fmt.Printf("   return %s\n", strings.Join(rs, ", "))
				default:
					fmt.Printf("   %T\n", n)
				}
			}
		}
		return
	}
	if *list {
		var ids []string
		for id := range registry {
			ids = append(ids, id)
		}
		sort.Strings(ids)
		for _, id := range ids {
			fmt.Println(id)
		}
		return
	}
	pr := registry[*prop]
	if pr == nil {
		fmt.Fprintf(os.Stderr, "unknown property %q\n", *prop)
		os.Exit(2)
	}
	if *tier != "quick" && *tier != "thorough" {
		fmt.Fprintf(os.Stderr, "unknown tier %q\n", *tier)
		os.Exit(2)
	}
	seed, _ := strconv.Atoi(os.Getenv("VERIF_SEED"))
	started := time.Now()
	rep := newReporter(pr.ID)
	configs := []string{""}
	if *tier == "thorough" {
		configs = append(configs, pr.Modes...)
	}
	rep.Analysed["build_configurations"] = configs
	for _, tags := range configs {
		runConfig(pr, rep, *tier, tags)
		debug.FreeOSMemory()
	}
	os.Exit(rep.Finish(*tier, seed, pr.Meta, started))
}

func runConfig(pr *property, rep *Reporter, tier, tags string) {
	l, err := newLoader(tags)
	if err != nil {
		rep.Fail("load", "loader", "-", err.Error())
		return
	}
	defer l.Close()
	sub := rep
	if tags != "" {
		// obligations of non-default configurations are keyed with the configuration
		sub = newReporter(pr.ID)
	}
	c := &Ctx{L: l, R: sub, Tier: tier}
	func() {
		defer func() {
			if e := recover(); e != nil {
				sub.Fail("checker-panic", "hivecheck", "-", fmt.Sprintf("%v\n%s", e, debug.Stack()))
			}
		}()
		pr.Run(c)
	}()
	if genAnchorsPath != "" && tags == "" {
		if err := dumpAnchors(nil, genAnchorsPath); err != nil {
			fmt.Fprintln(os.Stderr, "genanchors:", err)
		}
	}
	if tags != "" {
		for _, o := range sub.Obls {
			rep.Obl(o.Rule, "[tags="+tags+"] "+o.Key, o.Pos, o.OK, o.Detail, o.Path...)
		}
		rep.Count(sub.Evals - len(sub.Obls))
		for rule, n := range sub.Floors {
			if sub.instances[rule] < n {
				rep.Fail("non-vacuity", "[tags="+tags+"] "+rule, "-", fmt.Sprintf("matched %d < %d", sub.instances[rule], n))
			}
		}
		if m, ok := sub.Analysed["modules"]; ok {
			rep.Analysed["modules[tags="+tags+"]"] = m
		}
	}
}
