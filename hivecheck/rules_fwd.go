package main

// R-FWD (DESIGN §2): a wrapper method must call the same-named method of the wrapped field
// with its own parameters forwarded in order, and hand the results back.

import (
	"fmt"
	"go/ast"
	"go/types"
)

type fwdOpts struct {
	Pkg, Type, Field string
	Skip             map[string]string // method -> reason (checked by a dedicated rule instead)
	Rename           map[string]string // wrapper method -> inner method name, if different
	MinMethods       int
}

// forwardingCall finds the unique call <recv>.<field>.<name>(...) in fd.
func forwardingCalls(info *types.Info, fd *ast.FuncDecl, field, name string) []*ast.CallExpr {
	var out []*ast.CallExpr
	ast.Inspect(fd.Body, func(n ast.Node) bool {
		if c, ok := n.(*ast.CallExpr); ok {
			if se, ok := ast.Unparen(c.Fun).(*ast.SelectorExpr); ok && se.Sel.Name == name && fieldSel(info, se.X, field) {
				if inner, ok := ast.Unparen(se.X).(*ast.SelectorExpr); ok {
					if _, isIdent := ast.Unparen(inner.X).(*ast.Ident); isIdent {
						out = append(out, c)
					}
				}
			}
		}
		return true
	})
	return out
}

// argsAreParams: the call's arguments are exactly fd's parameters in order (variadic
// parameter forwarded with ...).
func argsAreParams(info *types.Info, fd *ast.FuncDecl, c *ast.CallExpr) (bool, string) {
	params := paramObjs(info, fd)
	if len(c.Args) != len(params) {
		return false, fmt.Sprintf("forwards %d argument(s), method has %d parameter(s)", len(c.Args), len(params))
	}
	for i, a := range c.Args {
		if objOfIdent(info, a) != params[i] || params[i] == nil {
			return false, fmt.Sprintf("argument %d is not parameter %d (%s)", i, i, exprKey(a))
		}
	}
	if sig, ok := info.Defs[fd.Name].Type().(*types.Signature); ok && sig.Variadic() && !c.Ellipsis.IsValid() {
		return false, "variadic parameter not forwarded with ..."
	}
	return true, ""
}

func checkForwarding(r *Reporter, p *Prog, rule string, o fwdOpts) {
	pk := p.Pkg(o.Pkg)
	if pk == nil {
		r.Unresolved(rule, o.Pkg, "package not loaded")
		return
	}
	info := pk.TypesInfo
	ms := p.Methods(o.Pkg, o.Type)
	if len(ms) < o.MinMethods {
		r.Unresolved(rule, o.Pkg+"."+o.Type, fmt.Sprintf("expected at least %d methods, found %d", o.MinMethods, len(ms)))
	}
	for _, fd := range ms {
		key := funcKey(o.Pkg, fd)
		if _, skip := o.Skip[fd.Name.Name]; skip || fd.Body == nil {
			continue
		}
		inner := fd.Name.Name
		if rn, ok := o.Rename[inner]; ok {
			inner = rn
		}
		calls := forwardingCalls(info, fd, o.Field, inner)
		if len(calls) == 0 && !fd.Name.IsExported() {
			// an unexported helper of the wrapper itself (a locking helper, say), not an operation
			// of the wrapped value: nothing to delegate
			if _, st := p.NamedStruct(o.Pkg, o.Type); st != nil {
				isOp := false
				for i := 0; i < st.NumFields(); i++ {
					if st.Field(i).Name() == o.Field {
						if obj, _, _ := types.LookupFieldOrMethod(st.Field(i).Type(), true, pk.Types, inner); obj != nil {
							isOp = true
						}
					}
				}
				if !isOp {
					continue
				}
			}
		}
		if len(calls) != 1 {
			r.Fail(rule, key, p.posStr(fd.Pos()), fmt.Sprintf("expected exactly one call of %s.%s, found %d: the wrapper does not delegate this operation", o.Field, inner, len(calls)))
			continue
		}
		if ok, why := argsAreParams(info, fd, calls[0]); !ok {
			r.Fail(rule, key, p.posStr(calls[0].Pos()), why)
			continue
		}
		// results: the call is returned directly, or its error is tested (checked by err rules) and its
		// other results are what the method returns
		direct := false
		ast.Inspect(fd.Body, func(n ast.Node) bool {
			if rs, ok := n.(*ast.ReturnStmt); ok && len(rs.Results) == 1 && ast.Unparen(rs.Results[0]) == ast.Expr(calls[0]) {
				direct = true
			}
			return true
		})
		sig := info.Defs[fd.Name].Type().(*types.Signature)
		if !direct && sig.Results().Len() == 1 {
			// the call's result held in a local until the return (`v := inner.Op(); unlock(); return v`):
			// every return returns exactly the value of the delegated call
			f := newFuncCFG(p, info, fd.Body, key)
			nRet, all := 0, true
			for _, rpt := range f.Find(func(n ast.Node) bool { _, ok := n.(*ast.ReturnStmt); return ok }) {
				rs := f.nodeAt(rpt).(*ast.ReturnStmt)
				nRet++
				if len(rs.Results) != 1 {
					all = false
					continue
				}
				os := f.Origins(rs.Results[0], rpt)
				if len(os) == 0 {
					all = false
				}
				for _, o := range os {
					if ast.Unparen(o.E) != ast.Expr(calls[0]) {
						all = false
					}
				}
			}
			direct = nRet > 0 && all
		}
		if !direct && sig.Results().Len() > 0 {
			f := newFuncCFG(p, info, fd.Body, key)
			succ, fail := f.ErrEdges(calls[0])
			if len(succ) == 0 || len(fail) == 0 {
				r.Fail(rule, key, p.posStr(calls[0].Pos()), "result of the delegated call is neither returned directly nor error-tested")
				continue
			}
		}
		r.Pass(rule, key, p.posStr(calls[0].Pos()), "delegates to "+o.Field+"."+inner+" with its parameters in order")
	}
}
