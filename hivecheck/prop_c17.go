package main

import (
	"fmt"
	"go/ast"
	"go/token"
	"go/types"
	"golang.org/x/tools/go/cfg"
	"sort"
	"strings"
)

func init() {
	register(&property{
		ID:    "C17",
		Run:   runC17,
		Modes: []string{"deadlock"},
		Meta: propMeta{
			Explanation: "Static condition-variable and exclusion protocol of runtime/syncutils on all CFG paths: (1) every Cond.Wait sits in a for loop that re-tests its predicate and holds the Cond's Locker (wiring read from the constructors); (2) predicate and holder state (StarvingMutex counters, Counter.value, Stack.elements, DAGMutex registries) are accessed only under the tabled mutex; (3) wake obligations: every state change that can enable a waiter is followed on every path by Signal/Broadcast on the matching Cond unless the path crosses an edge proving nobody can wait (StarvingMutex Unlock/RUnlock, Counter Set/Update by direction, Stack Push/Pop/PopOrWait); (4) every Signal/Broadcast is issued inside, or on every path after, a critical section of the Cond's Locker (otherwise a waiter between predicate test and park misses it); (5) exclusion bookkeeping: writerActive is set only after the loop on !canWrite, readersActive++ only after the loop on writerActive, canWrite = !writerActive && readersActive == 0, pendingWriters ++/-- paired around the wait; (6) unlocking something not held panics: every decrement/clear of holder state is dominated by a guard on that state whose failing edge panics; (7) DAGMutex: registries under its mutex, entity registered before blocking, no blocking StarvingMutex acquisition while the registry mutex is held, entry removed only for the last consumer, panic when absent.",
			NotDecided:  "absence of lost wake-ups over all arrival orders and DAG-order deadlock freedom (need a model checker); fairness",
			Assumptions: []string{"sync.Cond/sync.Mutex semantics"},
		},
	})
}

func runC17(c *Ctx) {
	p := c.Load("runtime")
	if p == nil {
		return
	}
	r := c.R
	const pkg = "runtime/syncutils"
	pk := p.Pkg(pkg)
	if pk == nil {
		r.Unresolved("load", pkg, "package not loaded")
		return
	}
	info := pk.TypesInfo
	// Lock/RLock record the caller's stack trace in debug mode while holding the internal mutex: the
	// trace helpers must not panic on a line shape they did not expect
	checkIndexResultGuarded(r, p, "trace/index-result-guarded", []string{"runtime/debug"})
	// all queued readers become admissible together: they are woken together
	checkCondWakeIsBroadcast(r, p, pkg, "StarvingMutex", "readerCond")
	conds := discoverConds(p, pkg)
	if len(conds) < 6 {
		r.Fail("cond/wiring", pkg, "-", fmt.Sprintf("expected the 6 condition variables of StarvingMutex, Counter and Stack to be wired to a Locker in their constructors, found %v", conds))
	} else {
		for _, ci := range conds {
			r.Pass("cond/wiring", pkg+"."+ci.Type+"."+ci.Cond, "-", "Locker is "+ci.Locker)
		}
	}
	// (1) + (4)
	checkCondProtocol(r, p, pkg, conds, 7, 10)
	// (2)
	checkGuards(r, p, "lock/guarded-by", []GuardRow{
		{Pkg: pkg, Type: "StarvingMutex", Mutex: "mutex", Fields: []string{"readersActive", "writerActive", "pendingWriters"},
			CH: map[string]LockMode{"canWrite": ModeR}, Exempt: map[string]string{"StarvingMutex.String": "debug output, unguarded reads by design"}},
		{Pkg: pkg, Type: "Counter", Mutex: "valueMutex", Fields: []string{"value"}},
		{Pkg: pkg, Type: "Counter", Mutex: "subscribersMutex", Fields: []string{"subscribersCounter", "subscribers"}},
		{Pkg: pkg, Type: "Stack", Mutex: "mutex", Fields: []string{"elements"},
			Mutators: map[string][]string{"elements": {"PushBack", "PushFront", "Remove", "Init", "InsertBefore", "InsertAfter", "MoveToFront", "MoveToBack"}}},
		{Pkg: pkg, Type: "DAGMutex", Mutex: "Mutex", Fields: []string{"consumerCounter", "mutexes"},
			CH: map[string]LockMode{"registerMutex": ModeW, "unregisterMutex": ModeW}},
	})
	checkLockBalance(r, p, "lock/balance", []string{pkg}, map[string]string{
		pkg + ".RWMutexFake.RLock":   "is itself a lock method (fakemutex build flavour maps RLock to Lock)",
		pkg + ".RWMutexFake.RUnlock": "is itself an unlock method",
	}, nil)

	fieldAssign := func(field, rhs string) func(ast.Node) bool {
		return func(n ast.Node) bool {
			as, ok := n.(*ast.AssignStmt)
			return ok && len(as.Lhs) == 1 && len(as.Rhs) == 1 && fieldSel(info, as.Lhs[0], field) && (rhs == "" || exprKey(as.Rhs[0]) == rhs)
		}
	}
	fieldIncDec := func(field string, tok token.Token) func(ast.Node) bool {
		return func(n ast.Node) bool {
			s, ok := n.(*ast.IncDecStmt)
			return ok && s.Tok == tok && fieldSel(info, s.X, field)
		}
	}
	relOn := func(field string) func(rel Rel) (string, string, bool) {
		return func(rel Rel) (string, string, bool) {
			if strings.HasSuffix(rel.L, "."+field) {
				return rel.Op, rel.R, true
			}
			if strings.HasSuffix(rel.R, "."+field) {
				// flip
				switch rel.Op {
				case "<":
					return ">", rel.L, true
				case "<=":
					return ">=", rel.L, true
				}
				return rel.Op, rel.L, true
			}
			return "", "", false
		}
	}
	noPendingWriters := func(rel Rel) bool {
		op, other, ok := relOn("pendingWriters")(rel)
		return ok && other == "0" && (op == "==" || op == "<=")
	}
	somePendingWriters := func(rel Rel) bool {
		op, other, ok := relOn("pendingWriters")(rel)
		return ok && other == "0" && (op == "!=" || op == ">")
	}
	// (3) wake obligations
	// Unlock: writer leaves -> wake a writer if one is pending, all readers otherwise
	checkWakeRow(r, p, pkg, "StarvingMutex", "Unlock", wakeRow{Name: "writer leaves -> pending writer woken", Change: fieldAssign("writerActive", "false"),
		Conds: []string{"writerCond"}, Exempt: noPendingWriters})
	checkWakeRow(r, p, pkg, "StarvingMutex", "Unlock", wakeRow{Name: "writer leaves -> readers woken", Change: fieldAssign("writerActive", "false"),
		Conds: []string{"readerCond"}, Exempt: somePendingWriters})
	// RUnlock: last reader leaves -> wake a pending writer
	checkWakeRow(r, p, pkg, "StarvingMutex", "RUnlock", wakeRow{Name: "last reader leaves -> pending writer woken", Change: fieldIncDec("readersActive", token.DEC),
		Conds: []string{"writerCond"}, Exempt: func(rel Rel) bool {
			if noPendingWriters(rel) {
				return true
			}
			op, other, ok := relOn("readersActive")(rel)
			return ok && other == "0" && (op == "!=" || op == ">")
		}})
	// Counter: direction tests. The relations are read on the resolved keys (helper parameters replaced
	// by their arguments) and a difference compared with zero is the comparison of its operands:
	// 0 < (a-b) is b < a. The operands are found structurally: new = Set's parameter, old = the value
	// the locked helper set() returned; delta = Update's parameter.
	counterNames := func(method string) (par, old string) {
		fd := p.FuncDecl(pkg, "Counter", method)
		if fd == nil || len(fd.Type.Params.List) == 0 || len(fd.Type.Params.List[0].Names) == 0 {
			return "?", "?"
		}
		par = fd.Type.Params.List[0].Names[0].Name
		ast.Inspect(fd.Body, func(n ast.Node) bool {
			if as, ok := n.(*ast.AssignStmt); ok && len(as.Lhs) == 1 && len(as.Rhs) == 1 {
				if cl, ok := ast.Unparen(as.Rhs[0]).(*ast.CallExpr); ok && selectorCall(info, cl, "", "set") {
					old = rawKey(as.Lhs[0])
				}
			}
			return true
		})
		return par, old
	}
	setNew, setOld := counterNames("Set")
	updDelta, _ := counterNames("Update")
	recvNameOf := func(method string) string {
		if fd := p.FuncDecl(pkg, "Counter", method); fd != nil {
			if ro := recvObj(info, fd); ro != nil {
				return ro.Name()
			}
		}
		return "?"
	}
	setRecv := recvNameOf("Set")
	// the old value: the variable the change helper's result was stored in, that call itself, or -
	// fully resolved - the read of the value field inside the critical section before the store
	isOld := func(k string) bool {
		return (setOld != "" && k == setOld) || strings.HasSuffix(k, ".set("+setNew+")") || k == setRecv+".value"
	}
	// lessThan(rel, a, b): rel says a < b (directly, or through a difference compared with zero / one)
	splitDiff := func(k string) (string, string, bool) {
		if !strings.HasPrefix(k, "(") || !strings.HasSuffix(k, ")") {
			return "", "", false
		}
		in, depth := k[1:len(k)-1], 0
		for i := 0; i < len(in); i++ {
			switch in[i] {
			case '(', '[':
				depth++
			case ')', ']':
				depth--
			case '-':
				if depth == 0 && i > 0 {
					return in[:i], in[i+1:], true
				}
			}
		}
		return "", "", false
	}
	// cmp.Compare(x, y) as a direction: positive iff y < x
	splitCompare := func(k string) (string, string, bool) {
		if !strings.HasPrefix(k, "cmp.Compare(") || !strings.HasSuffix(k, ")") {
			return "", "", false
		}
		in, depth := k[len("cmp.Compare("):len(k)-1], 0
		for i := 0; i < len(in); i++ {
			switch in[i] {
			case '(', '[':
				depth++
			case ')', ']':
				depth--
			case ',':
				if depth == 0 {
					return in[:i], in[i+1:], true
				}
			}
		}
		return "", "", false
	}
	lessThan := func(rel Rel, isA, isB func(string) bool) bool {
		if rel.Op == "<" && isA(rel.L) && isB(rel.R) {
			return true
		}
		// 0 < cmp.Compare(b, a), 1 <= cmp.Compare(b, a): a < b;  cmp.Compare(a, b) < 0, <= -1: a < b
		if (rel.Op == "<" && rel.L == "0") || (rel.Op == "<=" && rel.L == "1") {
			if x, y, ok := splitCompare(rel.R); ok && isB(x) && isA(y) {
				return true
			}
		}
		if (rel.Op == "<" && rel.R == "0") || (rel.Op == "<=" && rel.R == "-1") {
			if x, y, ok := splitCompare(rel.L); ok && isA(x) && isB(y) {
				return true
			}
		}
		// 0 < (b-a), 1 <= (b-a)
		if (rel.Op == "<" && rel.L == "0") || (rel.Op == "<=" && rel.L == "1") {
			if x, y, ok := splitDiff(rel.R); ok && isB(x) && isA(y) {
				return true
			}
		}
		// (a-b) < 0, (a-b) <= -1
		if (rel.Op == "<" && rel.R == "0") || (rel.Op == "<=" && rel.R == "-1") {
			if x, y, ok := splitDiff(rel.L); ok && isA(x) && isB(y) {
				return true
			}
		}
		return false
	}
	isNew := func(k string) bool { return k == setNew }
	isDelta := func(k string) bool { return k == updDelta }
	for _, row := range []struct {
		method string
		rel    func(Rel) bool
		cond   string
		name   string
	}{
		{"Set", func(rel Rel) bool { return lessThan(rel, isOld, isNew) }, "valueIncreasedCond", "value increased"},
		{"Set", func(rel Rel) bool { return lessThan(rel, isNew, isOld) }, "valueDecreasedCond", "value decreased"},
		{"Update", func(rel Rel) bool {
			return (rel.Op == "<=" && rel.L == "1" && isDelta(rel.R)) || (rel.Op == "<" && rel.L == "0" && isDelta(rel.R))
		}, "valueIncreasedCond", "value increased"},
		{"Update", func(rel Rel) bool {
			return (rel.Op == "<=" && isDelta(rel.L) && rel.R == "-1") || (rel.Op == "<" && isDelta(rel.L) && rel.R == "0")
		}, "valueDecreasedCond", "value decreased"},
	} {
		f := p.CFGOf(pkg, "Counter", row.method)
		key := fmt.Sprintf("%s.Counter.%s %s", pkg, row.method, row.name)
		if f == nil {
			r.Unresolved("cond/wake-obligation", key, "method not found")
			continue
		}
		edges := f.RelEdgesAt(row.rel)
		if len(edges) == 0 {
			r.Fail("cond/wake-obligation", key, f.P.posStr(f.Body.Pos()), "the direction of the change is not tested: waiters of this direction are never woken")
			continue
		}
		bad := false
		for _, e := range edges {
			if w, found := f.reach(Point{e.From.Succs[e.Succ], 0}, &searchOpts{AvoidNode: func(n ast.Node) bool {
				c, ok := n.(*ast.CallExpr)
				if !ok {
					return false
				}
				m, cf, _, ok := condCall(info, c)
				return ok && m == "Broadcast" && cf == row.cond
			}}, func(pt Point, atExit bool) bool { return atExit }); found {
				bad = true
				r.Fail("cond/wake-obligation", key, f.P.posStr(f.Body.Pos()), "on the edge where the "+row.name+" a path returns without "+row.cond+".Broadcast", w...)
			}
		}
		if !bad {
			r.Pass("cond/wake-obligation", key, f.P.posStr(f.Body.Pos()), row.cond+".Broadcast on every path of that edge")
		}
		// the change - the one store into the value field, in this method or a helper spliced into
		// it - precedes every direction test
		isStore := func(n ast.Node) bool {
			as, ok := n.(*ast.AssignStmt)
			if !ok {
				return false
			}
			for _, l := range as.Lhs {
				if fieldSel(info, l, "value") {
					return true
				}
			}
			return false
		}
		stores := f.Find(isStore)
		if len(stores) != 1 {
			r.Fail("cond/wake-obligation", key+" (change first)", f.P.posStr(f.Body.Pos()), fmt.Sprintf("expected exactly one store into the value field on behalf of %s, found %d", row.method, len(stores)))
		} else {
			for _, e := range edges {
				cpt := Point{e.From, len(e.From.Nodes) - 1}
				// a path to the direction test that does not pass the critical section of the change
				if _, found := f.PathFromEntryAvoiding(cpt, func(n ast.Node) bool {
					c, ok := n.(*ast.CallExpr)
					if !ok {
						return false
					}
					op, path := lockOp(info, c)
					return op == "Lock" && strings.HasSuffix(path, ".valueMutex")
				}, nil); found {
					r.Fail("cond/wake-obligation", key+" (change first)", f.P.posStr(f.Body.Pos()), "the direction of the change is tested before the critical section that changes the value")
				}
			}
		}
	}
	// who changes Counter.value: only set/update; who calls them: only Set/Update
	checkWritesOnBehalfOf(r, p, pkg, "Counter", "value", []string{"Set", "Update"})
	// Stack
	checkStackWakeRows(r, p)
	// (5) exclusion bookkeeping
	checkStarvingBookkeeping(r, p)
	// (6) unlock-not-held panics
	checkPanicGuard(r, p, pkg, "StarvingMutex", "RUnlock", fieldIncDec("readersActive", token.DEC), "readersActive decrement", func(rel Rel) bool {
		op, other, ok := relOn("readersActive")(rel)
		return ok && other == "0" && (op == "!=" || op == ">")
	}, nil)
	checkPanicGuard(r, p, pkg, "StarvingMutex", "Unlock", fieldAssign("writerActive", "false"), "writerActive clear", nil, func(e ast.Expr) bool {
		return fieldSel(info, e, "writerActive")
	})
	// (7) DAGMutex
	checkDAGMutex(r, p)
}

// checkWhoWrites: field of typ is assigned / inc-decremented only in the listed methods.
func checkWhoWrites(r *Reporter, p *Prog, pkg, typ, field string, allowed []string) {
	info := p.Pkg(pkg).TypesInfo
	ok := map[string]bool{}
	for _, a := range allowed {
		ok[a] = true
	}
	n := 0
	var bad []string
	for _, fd := range p.AllFuncDecls(pkg) {
		if fd.Body == nil || strings.HasSuffix(p.Fset.Position(fd.Pos()).Filename, "_test.go") {
			continue
		}
		ast.Inspect(fd.Body, func(nd ast.Node) bool {
			var target ast.Expr
			switch x := nd.(type) {
			case *ast.AssignStmt:
				for _, l := range x.Lhs {
					if fieldSel(info, l, field) && shortTypeName(typeName(info.TypeOf(ast.Unparen(l).(*ast.SelectorExpr).X))) == typ {
						target = l
					}
				}
			case *ast.IncDecStmt:
				if fieldSel(info, x.X, field) && shortTypeName(typeName(info.TypeOf(ast.Unparen(x.X).(*ast.SelectorExpr).X))) == typ {
					target = x.X
				}
			}
			if target != nil {
				n++
				if !(recvTypeName(fd) == typ && ok[fd.Name.Name]) {
					bad = append(bad, p.posStr(target.Pos())+" in "+funcKey(pkg, fd))
				}
			}
			return true
		})
	}
	key := fmt.Sprintf("%s.%s.%s written only by %v", pkg, typ, field, allowed)
	if n == 0 {
		r.Fail("who/writes", key, "-", "no write found (vacuous)")
	} else if len(bad) > 0 {
		r.Fail("who/writes", key, "-", "written outside the tabled writers (the wake-up obligations are attached to those): "+strings.Join(bad, ", "))
	} else {
		r.Pass("who/writes", key, "-", fmt.Sprintf("%d write(s), all in the tabled methods", n))
	}
}

// checkWhoCalls: method `callee` of typ is called only from the listed methods of typ.
func checkWhoCalls(r *Reporter, p *Prog, pkg, typ, callee string, allowed []string) {
	info := p.Pkg(pkg).TypesInfo
	ok := map[string]bool{}
	for _, a := range allowed {
		ok[a] = true
	}
	n := 0
	var bad []string
	for _, fd := range p.AllFuncDecls(pkg) {
		if fd.Body == nil || strings.HasSuffix(p.Fset.Position(fd.Pos()).Filename, "_test.go") {
			continue
		}
		ast.Inspect(fd.Body, func(nd ast.Node) bool {
			c, isCall := nd.(*ast.CallExpr)
			if !isCall {
				return true
			}
			fn := staticCallee(info, c)
			if fn == nil || funcName(fn) != callee {
				return true
			}
			if rt := namedOfRecv(fn); rt == nil || rt.Obj().Name() != typ {
				return true
			}
			n++
			if !(recvTypeName(fd) == typ && ok[fd.Name.Name]) {
				bad = append(bad, p.posStr(c.Pos())+" in "+funcKey(pkg, fd))
			}
			return true
		})
	}
	key := fmt.Sprintf("%s.%s.%s called only by %v", pkg, typ, callee, allowed)
	if n == 0 {
		r.Fail("who/calls", key, "-", "no call found (vacuous)")
	} else if len(bad) > 0 {
		r.Fail("who/calls", key, "-", "called from outside the tabled callers: "+strings.Join(bad, ", "))
	} else {
		r.Pass("who/calls", key, "-", fmt.Sprintf("%d call(s), all from the tabled methods", n))
	}
}

// checkDeferredSuccessBroadcast: the method defers, before anything else can return, a closure
// that broadcasts on cond when the named result `success` is true, and the removal path returns true.
func checkDeferredSuccessBroadcast(r *Reporter, p *Prog, pkg, typ, method, cond string, removal func(ast.Node) bool) {
	key := fmt.Sprintf("%s.%s.%s removal -> %s", pkg, typ, method, cond)
	fd := p.FuncDecl(pkg, typ, method)
	if fd == nil || fd.Body == nil {
		r.Unresolved("cond/wake-obligation", key, "method not found")
		return
	}
	info := p.Pkg(pkg).TypesInfo
	f := newFuncCFG(p, info, fd.Body, funcKey(pkg, fd))
	// the named bool results of the method (the success flag the deferred wake-up is guarded by)
	resultFlags := map[types.Object]bool{}
	if fd.Type.Results != nil {
		for _, fl := range fd.Type.Results.List {
			for _, nm := range fl.Names {
				if o := info.Defs[nm]; o != nil {
					if bt, ok := o.Type().Underlying().(*types.Basic); ok && bt.Kind() == types.Bool {
						resultFlags[o] = true
					}
				}
			}
		}
	}
	// a deferred wake-up: a deferred function literal, or a deferred unexported helper that gets
	// a pointer to the flag, whose body broadcasts on cond under `if <flag>` / `if *<pointer>`
	isDeferredWake := func(n ast.Node) bool {
		ds, ok := n.(*ast.DeferStmt)
		if !ok {
			return false
		}
		body, _ := callableBody(p, info, ds.Call.Fun)
		if body == nil {
			return false
		}
		flagExprOK := func(e ast.Expr) bool {
			e = ast.Unparen(e)
			if id, ok := e.(*ast.Ident); ok {
				return resultFlags[info.Uses[id]]
			}
			if st, ok := e.(*ast.StarExpr); ok {
				// *param where the defer passes &<result flag> for that parameter
				po := objOfIdent(info, st.X)
				if po == nil {
					return false
				}
				if fn, _ := info.Uses[selIdent(ds.Call.Fun)].(*types.Func); fn != nil {
					if hd := p.decls().byFunc[fn.Origin()]; hd != nil {
						i := 0
						for _, fl := range hd.Type.Params.List {
							for _, nm := range fl.Names {
								if info.Defs[nm] == po && i < len(ds.Call.Args) {
									if ue, ok := ast.Unparen(ds.Call.Args[i]).(*ast.UnaryExpr); ok && ue.Op == token.AND {
										return resultFlags[objOfIdent(info, ue.X)]
									}
								}
								i++
							}
						}
					}
				}
			}
			return false
		}
		found := false
		ast.Inspect(body, func(m ast.Node) bool {
			is, ok := m.(*ast.IfStmt)
			if !ok {
				return true
			}
			if flagExprOK(is.Cond) {
				ast.Inspect(is.Body, func(k ast.Node) bool {
					if c, ok := k.(*ast.CallExpr); ok {
						if m2, cf, _, ok := condCall(info, c); ok && m2 == "Broadcast" && cf == cond {
							found = true
						}
					}
					return true
				})
			}
			return true
		})
		return found
	}
	removals := f.Find(removal)
	if len(removals) == 0 {
		r.Fail("cond/wake-obligation", key, p.posStr(fd.Pos()), "no removal found (vacuous)")
		return
	}
	for _, rm := range removals {
		if w, found := f.PathFromEntryAvoiding(rm, isDeferredWake, nil); found {
			r.Fail("cond/wake-obligation", key, f.PosOf(rm), "an element is removed on a path that has not deferred the success-guarded "+cond+".Broadcast: waiters for free space are never woken", w...)
			return
		}
		// the removal returns success == true
		rs, ok := f.nodeAt(rm).(*ast.ReturnStmt)
		if !ok || len(rs.Results) != 2 || exprKey(rs.Results[1]) != "true" {
			r.Fail("cond/wake-obligation", key, f.PosOf(rm), "the removal path does not return success == true, so the deferred broadcast is skipped")
			return
		}
	}
	r.Pass("cond/wake-obligation", key, f.PosOf(removals[0]), "success-guarded broadcast deferred before the removal, which returns success == true")
}

func checkStarvingBookkeeping(r *Reporter, p *Prog) {
	const pkg = "runtime/syncutils"
	info := p.Pkg(pkg).TypesInfo
	// admission: the grant statement is reachable only through edges on which the admission
	// condition is known - whatever helper or spelling the wait loop uses (an unexported
	// single-expression helper such as canWrite() is expanded by the canonical keys)
	type row struct {
		method string
		grant  func(ast.Node) bool
		name   string
		needs  []struct {
			what string
			pick func(f *FuncCFG) []Edge
		}
	}
	factEdges := func(f *FuncCFG, suffix string, pol bool) []Edge {
		var out []Edge
		f.forEachEdgeFact(func(e Edge, b *cfg.Block, ft fact) {
			if ft.Pol == pol && strings.HasSuffix(exprKey(ft.Atom), suffix) {
				if _, isBin := ast.Unparen(ft.Atom).(*ast.BinaryExpr); !isBin {
					out = append(out, e)
				}
			}
		})
		return out
	}
	noWriter := func(f *FuncCFG) []Edge { return factEdges(f, ".writerActive", false) }
	noReaders := func(f *FuncCFG) []Edge {
		return f.RelEdges(func(rel Rel) bool {
			return rel.Op == "==" && (strings.HasSuffix(rel.L, ".readersActive") && rel.R == "0" || strings.HasSuffix(rel.R, ".readersActive") && rel.L == "0")
		})
	}
	type need = struct {
		what string
		pick func(f *FuncCFG) []Edge
	}
	rows := []row{
		{"Lock", func(n ast.Node) bool {
			as, ok := n.(*ast.AssignStmt)
			return ok && len(as.Lhs) == 1 && fieldSel(info, as.Lhs[0], "writerActive") && exprKey(as.Rhs[0]) == "true"
		}, "writerActive = true", []need{{"no writer is active", noWriter}, {"no reader is active", noReaders}}},
		{"RLock", func(n ast.Node) bool {
			s, ok := n.(*ast.IncDecStmt)
			return ok && s.Tok == token.INC && fieldSel(info, s.X, "readersActive")
		}, "readersActive++", []need{{"no writer is active", noWriter}}},
	}
	for _, rw := range rows {
		key := pkg + ".StarvingMutex." + rw.method + " " + rw.name
		f := p.CFGOf(pkg, "StarvingMutex", rw.method)
		if f == nil {
			r.Unresolved("excl/bookkeeping", key, "method not found")
			continue
		}
		grants := f.Find(rw.grant)
		if len(grants) != 1 {
			r.Fail("excl/bookkeeping", key, f.P.posStr(f.Body.Pos()), fmt.Sprintf("expected exactly one grant statement, found %d", len(grants)))
			continue
		}
		ok := true
		for _, nd := range rw.needs {
			if w, only := f.OnlyThroughEdges(grants[0], nd.pick(f)); !only {
				ok = false
				r.Fail("excl/bookkeeping", key, f.PosOf(grants[0]), "the lock is granted on a path that has not observed that "+nd.what+" (the wait loop's admission condition)", w...)
				break
			}
		}
		if ok {
			r.Pass("excl/bookkeeping", key, f.PosOf(grants[0]), "granted only on edges where the admission condition was observed")
		}
	}
	// pendingWriters ++ before the wait loop, -- after, both on every path
	if f := p.CFGOf(pkg, "StarvingMutex", "Lock"); f != nil {
		inc := f.Find(func(n ast.Node) bool {
			s, ok := n.(*ast.IncDecStmt)
			return ok && s.Tok == token.INC && fieldSel(info, s.X, "pendingWriters")
		})
		dec := func(n ast.Node) bool {
			s, ok := n.(*ast.IncDecStmt)
			return ok && s.Tok == token.DEC && fieldSel(info, s.X, "pendingWriters")
		}
		isWait := func(n ast.Node) bool {
			c, ok := n.(*ast.CallExpr)
			if !ok {
				return false
			}
			m, _, _, ok := condCall(info, c)
			return ok && m == "Wait"
		}
		key := pkg + ".StarvingMutex.Lock pendingWriters paired"
		waits := f.Find(isWait)
		switch {
		case len(inc) != 1 || len(waits) != 1:
			r.Fail("excl/bookkeeping", key, f.P.posStr(f.Body.Pos()), "expected one pendingWriters++ and one Wait")
		default:
			_, waitBeforeInc := f.PathFromEntryAvoiding(waits[0], func(n ast.Node) bool { return n == f.nodeAt(inc[0]) }, nil)
			_, missDec := f.PathToExitAvoiding(inc[0], dec)
			if waitBeforeInc {
				r.Fail("excl/bookkeeping", key, f.PosOf(waits[0]), "a writer can wait without having announced itself in pendingWriters: releasers see no pending writer and wake readers instead")
			} else if missDec {
				r.Fail("excl/bookkeeping", key, f.PosOf(inc[0]), "pendingWriters is not decremented on every path after the wait")
			} else {
				r.Pass("excl/bookkeeping", key, f.PosOf(inc[0]), "++ before the wait loop, -- on every path after it")
			}
		}
	}
}

// checkPanicGuard: the state change is dominated by an edge on which the state is known to be
// held (relation or boolean atom), and the opposite edge leads to panic.
func checkPanicGuard(r *Reporter, p *Prog, pkg, typ, method string, change func(ast.Node) bool, name string, heldRel func(Rel) bool, heldAtom func(ast.Expr) bool) {
	key := fmt.Sprintf("%s.%s.%s %s", pkg, typ, method, name)
	f := p.CFGOf(pkg, typ, method)
	if f == nil {
		r.Unresolved("excl/unlock-not-held-panics", key, "method not found")
		return
	}
	changes := f.Find(change)
	if len(changes) == 0 {
		r.Fail("excl/unlock-not-held-panics", key, f.P.posStr(f.Body.Pos()), "state change not found (vacuous)")
		return
	}
	var held []Edge
	if heldRel != nil {
		held = f.RelEdges(heldRel)
	}
	if heldAtom != nil {
		t, _ := f.CondEdges(heldAtom)
		held = append(held, t...)
	}
	for _, ch := range changes {
		if w, only := f.OnlyThroughEdges(ch, held); !only {
			r.Fail("excl/unlock-not-held-panics", key, f.PosOf(ch), "the holder state is released without first checking that it is held: unlocking something that is not held silently succeeds instead of panicking", w...)
			return
		}
	}
	// the failing edge of each guarding test (the sibling of a held-edge from which the change is
	// reachable) must not reach a normal exit
	for _, e := range held {
		reachesChange := false
		for _, ch := range changes {
			if pathExists(f, Point{e.From.Succs[e.Succ], 0}, ch) {
				reachesChange = true
			}
		}
		if !reachesChange || len(e.From.Succs) != 2 {
			continue
		}
		other := e.From.Succs[1-e.Succ]
		if w, found := f.reach(Point{other, 0}, nil, func(pt Point, atExit bool) bool { return atExit }); found {
			r.Fail("excl/unlock-not-held-panics", key, f.PosOf(changes[0]), "the not-held branch can return normally instead of panicking", w...)
			return
		}
	}
	r.Pass("excl/unlock-not-held-panics", key, f.PosOf(changes[0]), "guarded by a held-check whose failing edge panics")
}

func checkDAGMutex(r *Reporter, p *Prog) {
	const pkg = "runtime/syncutils"
	info := p.Pkg(pkg).TypesInfo
	// no blocking StarvingMutex acquisition under the registry mutex
	n := 0
	var bad []string
	// a blocking acquisition is a direct Lock/RLock of an entity mutex, or a call of a function
	// parameter to which some caller hands such an acquisition ((*StarvingMutex).RLock as a method
	// expression or method value): the call of the parameter is where the goroutine blocks
	blockingParam := map[types.Object]bool{}
	for _, fd := range p.Methods(pkg, "DAGMutex") {
		if fd.Body == nil {
			continue
		}
		ast.Inspect(fd.Body, func(nd ast.Node) bool {
			c, ok := nd.(*ast.CallExpr)
			if !ok {
				return true
			}
			fn := staticCallee(info, c)
			if fn == nil {
				return true
			}
			hd := p.decls().byFunc[fn.Origin()]
			if hd == nil || p.decls().infoOf[hd] != info {
				return true
			}
			hp := paramObjs(info, hd)
			for ai, a := range c.Args {
				se, isSel := ast.Unparen(a).(*ast.SelectorExpr)
				if !isSel || (se.Sel.Name != "Lock" && se.Sel.Name != "RLock") || ai >= len(hp) || hp[ai] == nil {
					continue
				}
				if strings.HasSuffix(strings.Trim(typeName(info.TypeOf(se.X)), "*()"), "StarvingMutex") || strings.Contains(rawKey(se.X), "StarvingMutex") {
					blockingParam[hp[ai]] = true
				}
			}
			return true
		})
	}
	for _, fd := range p.Methods(pkg, "DAGMutex") {
		if fd.Body == nil {
			continue
		}
		seen := map[ast.Node]bool{}
		AnalyzeLocks(fd.Body, LockSet{}, &FlowOpts{Info: info}, func(nd ast.Node, stack []ast.Node, held LockSet) {
			c, ok := nd.(*ast.CallExpr)
			if !ok || seen[c] {
				return
			}
			if id, isId := ast.Unparen(c.Fun).(*ast.Ident); isId && blockingParam[info.Uses[id]] {
				seen[c] = true
				n++
				if len(held) > 0 {
					bad = append(bad, fmt.Sprintf("%s: the blocking acquisition handed in as %s is called while holding %s (every other entity is blocked behind the registry)", p.posStr(c.Pos()), id.Name, held))
				}
				return
			}
			se, ok := ast.Unparen(c.Fun).(*ast.SelectorExpr)
			if !ok || (se.Sel.Name != "Lock" && se.Sel.Name != "RLock") || shortTypeName(typeName(info.TypeOf(se.X))) != "StarvingMutex" {
				return
			}
			seen[c] = true
			n++
			if len(held) > 0 {
				bad = append(bad, fmt.Sprintf("%s: blocking %s on an entity mutex while holding %s (every other entity is blocked behind the registry)", p.posStr(c.Pos()), se.Sel.Name, held))
			}
		})
	}
	if n < 2 {
		r.Fail("dag/no-blocking-under-registry", pkg+".DAGMutex", "-", fmt.Sprintf("expected 2 blocking acquisitions, found %d", n))
	} else if len(bad) > 0 {
		r.Fail("dag/no-blocking-under-registry", pkg+".DAGMutex", "-", bad[0], bad...)
	} else {
		r.Pass("dag/no-blocking-under-registry", pkg+".DAGMutex", "-", fmt.Sprintf("%d blocking acquisitions, all with the registry mutex released", n))
	}
	// Lock: registered before blocking
	if f := p.CFGOf(pkg, "DAGMutex", "Lock"); f == nil {
		r.Unresolved("dag/register-before-block", pkg+".DAGMutex.Lock", "method not found")
	} else {
		blocks := f.Find(func(nd ast.Node) bool {
			c, ok := nd.(*ast.CallExpr)
			if !ok {
				return false
			}
			se, ok := ast.Unparen(c.Fun).(*ast.SelectorExpr)
			return ok && se.Sel.Name == "Lock" && shortTypeName(typeName(info.TypeOf(se.X))) == "StarvingMutex"
		})
		isReg := func(nd ast.Node) bool {
			c, ok := nd.(*ast.CallExpr)
			return ok && selectorCall(info, c, "", "registerMutex")
		}
		if len(blocks) != 1 {
			r.Fail("dag/register-before-block", pkg+".DAGMutex.Lock", f.P.posStr(f.Body.Pos()), "expected one blocking acquisition")
		} else if _, found := f.PathFromEntryAvoiding(blocks[0], isReg, nil); found {
			r.Fail("dag/register-before-block", pkg+".DAGMutex.Lock", f.PosOf(blocks[0]), "the entity mutex is acquired without registering the consumer first")
		} else {
			r.Pass("dag/register-before-block", pkg+".DAGMutex.Lock", f.PosOf(blocks[0]), "registerMutex precedes the blocking Lock")
		}
	}
	// registerMutex: consumer count incremented on every path, mutex created when absent
	if f := p.CFGOf(pkg, "DAGMutex", "registerMutex"); f != nil {
		isInc := func(nd ast.Node) bool {
			c, ok := nd.(*ast.CallExpr)
			if !ok || len(c.Args) != 2 {
				return false
			}
			se, ok := ast.Unparen(c.Fun).(*ast.SelectorExpr)
			if !ok || se.Sel.Name != "Set" || !fieldSel(info, se.X, "consumerCounter") {
				return false
			}
			pt, okp := f.PointOf(c)
			k := ""
			if okp {
				k = f.KeyAt(c.Args[1], pt)
			}
			// the stored value is the current count of this entity plus one (any local name)
			return strings.Contains(k, ".consumerCounter.Get(") && strings.HasSuffix(k, "+1)")
		}
		if _, found := f.reach(f.entry(), &searchOpts{AvoidNode: isInc}, func(pt Point, atExit bool) bool { return atExit }); found {
			r.Fail("dag/consumer-count", pkg+".DAGMutex.registerMutex", f.P.posStr(f.Body.Pos()), "a path registers without incrementing the consumer count")
		} else {
			r.Pass("dag/consumer-count", pkg+".DAGMutex.registerMutex", f.P.posStr(f.Body.Pos()), "consumer count +1 on every path")
		}
	} else {
		r.Unresolved("dag/consumer-count", pkg+".DAGMutex.registerMutex", "method not found")
	}
	// unregisterMutex: entries removed only for the last consumer; absent -> panic; otherwise count-1
	if f := p.CFGOf(pkg, "DAGMutex", "unregisterMutex"); f == nil {
		r.Unresolved("dag/consumer-count", pkg+".DAGMutex.unregisterMutex", "method not found")
	} else {
		isCount := func(k string) bool {
			return strings.Contains(k, ".consumerCounter.Get(") && !strings.ContainsAny(k, "+-")
		}
		last := f.RelEdgesAt(func(rel Rel) bool {
			return rel.Op == "==" && ((rel.L == "1" && isCount(rel.R)) || (isCount(rel.L) && rel.R == "1"))
		})
		dels := f.Find(func(nd ast.Node) bool {
			c, ok := nd.(*ast.CallExpr)
			if !ok {
				return false
			}
			se, ok := ast.Unparen(c.Fun).(*ast.SelectorExpr)
			return ok && se.Sel.Name == "Delete" && (fieldSel(info, se.X, "consumerCounter") || fieldSel(info, se.X, "mutexes"))
		})
		okDel := len(dels) == 2
		for _, d := range dels {
			if _, only := f.OnlyThroughEdges(d, last); !only {
				okDel = false
			}
		}
		if okDel {
			r.Pass("dag/consumer-count", pkg+".DAGMutex.unregisterMutex last-consumer", f.P.posStr(f.Body.Pos()), "both registry entries are dropped only when count == 1")
		} else {
			r.Fail("dag/consumer-count", pkg+".DAGMutex.unregisterMutex last-consumer", f.P.posStr(f.Body.Pos()), "registry entries must be removed exactly when the last consumer leaves (count == 1)")
		}
		var absent []Edge
		f.forEachEdgeFact(func(e Edge, b *cfg.Block, ft fact) {
			if ft.Pol {
				return
			}
			if c, idx := f.AtomCall(ft.Atom, Point{b, len(b.Nodes) - 1}); c != nil && idx == 1 && strings.HasSuffix(rawKey(c.Fun), ".mutexes.Get") {
				absent = append(absent, e)
			}
		})
		okPanic := len(absent) > 0
		for _, e := range absent {
			if _, found := f.reach(Point{e.From.Succs[e.Succ], 0}, nil, func(pt Point, atExit bool) bool { return atExit }); found {
				okPanic = false
			}
		}
		if okPanic {
			r.Pass("dag/consumer-count", pkg+".DAGMutex.unregisterMutex absent-panics", f.P.posStr(f.Body.Pos()), "unlocking an unknown entity panics")
		} else {
			r.Fail("dag/consumer-count", pkg+".DAGMutex.unregisterMutex absent-panics", f.P.posStr(f.Body.Pos()), "unlocking an entity that is not registered must panic")
		}
		isDec := func(nd ast.Node) bool {
			c, ok := nd.(*ast.CallExpr)
			if !ok || len(c.Args) != 2 {
				return false
			}
			se, ok := ast.Unparen(c.Fun).(*ast.SelectorExpr)
			if !ok || se.Sel.Name != "Set" || !fieldSel(info, se.X, "consumerCounter") {
				return false
			}
			pt, okp := f.PointOf(c)
			k := ""
			if okp {
				k = f.KeyAt(c.Args[1], pt)
			}
			return strings.Contains(k, ".consumerCounter.Get(") && strings.HasSuffix(k, "-1)")
		}
		notLast := f.RelEdgesAt(func(rel Rel) bool {
			return rel.Op == "!=" && ((rel.L == "1" && isCount(rel.R)) || (isCount(rel.L) && rel.R == "1"))
		})
		bad := len(notLast) == 0
		for _, e := range notLast {
			if _, found := f.reach(Point{e.From.Succs[e.Succ], 0}, &searchOpts{AvoidNode: isDec}, func(pt Point, atExit bool) bool { return atExit }); found {
				bad = true
			}
		}
		if bad {
			r.Fail("dag/consumer-count", pkg+".DAGMutex.unregisterMutex decrement", f.P.posStr(f.Body.Pos()), "a consumer that is not the last one leaves without decrementing the count")
		} else {
			r.Pass("dag/consumer-count", pkg+".DAGMutex.unregisterMutex decrement", f.P.posStr(f.Body.Pos()), "count-1 on every normal path of the not-last branch")
		}
	}
}

// checkWritesOnBehalfOf: every function that stores into typ.field is one of the root methods, or an
// unexported method of typ that is (transitively) called only by them - so the wake-up obligations
// attached to the roots cover every change of the field.
func checkWritesOnBehalfOf(r *Reporter, p *Prog, pkg, typ, field string, roots []string) {
	info := p.Pkg(pkg).TypesInfo
	isRoot := map[string]bool{}
	for _, a := range roots {
		isRoot[a] = true
	}
	writers := map[*ast.FuncDecl][]string{}
	callers := map[*types.Func][]*ast.FuncDecl{}
	declOfFn := map[*types.Func]*ast.FuncDecl{}
	for _, fd := range p.AllFuncDecls(pkg) {
		if fd.Body == nil || strings.HasSuffix(p.Fset.Position(fd.Pos()).Filename, "_test.go") {
			continue
		}
		if fn, _ := info.Defs[fd.Name].(*types.Func); fn != nil {
			declOfFn[fn] = fd
		}
		ast.Inspect(fd.Body, func(nd ast.Node) bool {
			switch x := nd.(type) {
			case *ast.AssignStmt:
				for _, l := range x.Lhs {
					if se, ok := ast.Unparen(l).(*ast.SelectorExpr); ok && fieldSel(info, l, field) && shortTypeName(typeName(info.TypeOf(se.X))) == typ {
						writers[fd] = append(writers[fd], p.posStr(l.Pos()))
					}
				}
			case *ast.IncDecStmt:
				if se, ok := ast.Unparen(x.X).(*ast.SelectorExpr); ok && fieldSel(info, x.X, field) && shortTypeName(typeName(info.TypeOf(se.X))) == typ {
					writers[fd] = append(writers[fd], p.posStr(x.X.Pos()))
				}
			case *ast.CallExpr:
				if fn := staticCallee(info, x); fn != nil {
					callers[fn.Origin()] = append(callers[fn.Origin()], fd)
				}
			case *ast.SelectorExpr:
				// a method value counts as a use by this function
				if fn, _ := info.Uses[x.Sel].(*types.Func); fn != nil {
					callers[fn.Origin()] = append(callers[fn.Origin()], fd)
				}
			}
			return true
		})
	}
	key := fmt.Sprintf("%s.%s.%s written only on behalf of %v", pkg, typ, field, roots)
	var bad []string
	var onBehalf func(fd *ast.FuncDecl, seen map[*ast.FuncDecl]bool) bool
	onBehalf = func(fd *ast.FuncDecl, seen map[*ast.FuncDecl]bool) bool {
		if recvTypeName(fd) == typ && isRoot[fd.Name.Name] {
			return true
		}
		if seen[fd] || recvTypeName(fd) != typ || fd.Name.IsExported() {
			return false
		}
		seen[fd] = true
		fn, _ := info.Defs[fd.Name].(*types.Func)
		cs := callers[fn]
		if fn == nil || len(cs) == 0 {
			return false
		}
		for _, c := range cs {
			if !onBehalf(c, seen) {
				return false
			}
		}
		return true
	}
	n := 0
	for fd, sites := range writers {
		n += len(sites)
		if !onBehalf(fd, map[*ast.FuncDecl]bool{}) {
			bad = append(bad, strings.Join(sites, ", ")+" in "+funcKey(pkg, fd))
		}
	}
	sort.Strings(bad)
	if n == 0 {
		r.Fail("who/writes", key, "-", "no write found (vacuous)")
	} else if len(bad) > 0 {
		r.Fail("who/writes", key, "-", "written by a function that is not (only) reached from the tabled operations, to which the wake-up obligations are attached: "+strings.Join(bad, "; "))
	} else {
		r.Pass("who/writes", key, "-", fmt.Sprintf("%d write(s), all in the operations or in unexported helpers only they call", n))
	}
}

// checkStackWakeRows: the queue of the worker pool - an element added wakes a waiting consumer, a
// successful removal wakes the waiters for "empty"/"below". (Also an obligation of the properties that
// are built on the pool's queue.)
func checkStackWakeRows(r *Reporter, p *Prog) {
	const pkg = "runtime/syncutils"
	pk := p.Pkg(pkg)
	if pk == nil {
		r.Unresolved("cond/wake-obligation", pkg+".Stack", "package not loaded")
		return
	}
	info := pk.TypesInfo
	isListMut := func(name string) func(ast.Node) bool {
		return func(n ast.Node) bool {
			c, ok := n.(*ast.CallExpr)
			if !ok {
				return false
			}
			se, ok := ast.Unparen(c.Fun).(*ast.SelectorExpr)
			return ok && se.Sel.Name == name && fieldSel(info, se.X, "elements")
		}
	}
	checkWakeRow(r, p, pkg, "Stack", "Push", wakeRow{Name: "element added", Change: isListMut("PushBack"), Conds: []string{"elementAdded"}})
	for _, m := range []string{"Pop", "PopOrWait"} {
		checkDeferredSuccessBroadcast(r, p, pkg, "Stack", m, "elementRemoved", isListMut("Remove"))
	}
}
