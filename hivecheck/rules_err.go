package main

// R-ERR (DESIGN §2): every error result produced inside the scoped functions is, on every
// path, compared with nil / returned / classified (errors.Is/As) / handed off before the
// function exits or the variable is overwritten. Wrapping alone is not a check.

import (
	"fmt"
	"go/ast"
	"go/token"
	"go/types"
	"strings"
)

var errorType = types.Universe.Lookup("error").Type()

func lastResultIsError(info *types.Info, call *ast.CallExpr) (n int, ok bool) {
	t := info.TypeOf(call)
	if t == nil {
		return 0, false
	}
	if tup, isTup := t.(*types.Tuple); isTup {
		if tup.Len() == 0 {
			return 0, false
		}
		return tup.Len(), types.Identical(tup.At(tup.Len()-1).Type(), errorType)
	}
	return 1, types.Identical(t, errorType)
}

type errScope struct {
	Pkg       string
	Funcs     []*ast.FuncDecl
	Tolerated map[string]string // "funcKey: callee" -> reason (dropped on purpose)
}

func checkErrChecked(r *Reporter, p *Prog, rule string, sc errScope) {
	pk := p.Pkg(sc.Pkg)
	if pk == nil {
		r.Unresolved(rule, sc.Pkg, "package not loaded")
		return
	}
	info := pk.TypesInfo
	for _, fd := range sc.Funcs {
		if fd == nil || fd.Body == nil {
			continue
		}
		fkey := funcKey(sc.Pkg, fd)
		type unit struct {
			body    *ast.BlockStmt
			results *ast.FieldList
		}
		units := []unit{{fd.Body, fd.Type.Results}}
		ast.Inspect(fd.Body, func(n ast.Node) bool {
			if lit, ok := n.(*ast.FuncLit); ok {
				units = append(units, unit{lit.Body, lit.Type.Results})
			}
			return true
		})
		for _, u := range units {
			f := newFuncCFG(p, info, u.body, fkey)
			named := map[types.Object]bool{}
			if u.results != nil {
				for _, fl := range u.results.List {
					for _, nm := range fl.Names {
						if o := info.Defs[nm]; o != nil {
							named[o] = true
						}
					}
				}
			}
			for _, b := range f.G.Blocks {
				if !b.Live {
					continue
				}
				for i, n := range b.Nodes {
					switch st := n.(type) {
					case *ast.AssignStmt:
						if len(st.Rhs) != 1 {
							continue
						}
						call, ok := ast.Unparen(st.Rhs[0]).(*ast.CallExpr)
						if !ok {
							continue
						}
						nres, isErr := lastResultIsError(info, call)
						if !isErr || len(st.Lhs) != nres {
							continue
						}
						callee := calleeShort(info, call)
						key := fmt.Sprintf("error of %s in %s", callee, fkey)
						lhs := st.Lhs[nres-1]
						id, isIdent := ast.Unparen(lhs).(*ast.Ident)
						if !isIdent {
							r.Pass(rule, key, p.posStr(call.Pos()), "error stored into a non-local location (handed off)")
							continue
						}
						if id.Name == "_" {
							if reason, ok := sc.Tolerated[fkey+": "+callee]; ok {
								r.Advise(rule + ": discarded error of " + callee + " in " + fkey + " tolerated: " + reason)
								continue
							}
							r.Fail(rule, key, p.posStr(call.Pos()), "error result explicitly discarded with _")
							continue
						}
						v := objOfIdent(info, id)
						if v == nil {
							continue
						}
						if isErrorConstructor(callee) {
							continue // constructs an error value, nothing to check
						}
						if v.Pos() < u.body.Pos() || v.Pos() > u.body.End() {
							if !named[v] {
								r.Pass(rule, key, p.posStr(call.Pos()), "stored into a variable of the enclosing function (handed off)")
								continue
							}
						}
						// where the search starts: after the assignment - or, when the callee is a helper
						// spliced into this graph, at each of its returns that can hand back a non-nil error
						// (a return of the literal nil needs no check; the result correlation of the splice
						// keeps the continuations of the different returns apart)
						starts := []Point{{b, i + 1}}
						if reg := f.regionByCall(call); reg != nil && len(reg.rets) > 0 {
							starts = nil
							for _, rt := range reg.rets {
								if len(rt.results) == 0 || isNil(info, rt.results[len(rt.results)-1]) {
									continue
								}
								starts = append(starts, rt.pt)
							}
						}
						var w []string
						bad := false
						for _, from := range starts {
							w2, bad2 := f.reach(from, &searchOpts{AvoidNode: func(c ast.Node) bool { return isErrCheck(info, c, v, named) }},
								func(pt Point, atExit bool) bool {
									if atExit {
										return true
									}
									if as, ok := f.nodeAt(pt).(*ast.AssignStmt); ok && as != st {
										for _, l := range as.Lhs {
											if objOfIdent(info, l) == v && !mentionsObj(info, as.Rhs, v) {
												return true // overwritten unchecked
											}
										}
									}
									return false
								})
							if bad2 {
								w, bad = w2, true
								break
							}
						}
						if bad {
							r.Fail(rule, key, p.posStr(call.Pos()), fmt.Sprintf("error variable %q can reach an exit or be overwritten without being compared to nil, returned or classified", id.Name), w...)
						} else {
							r.Pass(rule, key, p.posStr(call.Pos()), "checked / propagated on every path")
						}
					case *ast.ExprStmt:
						call, ok := ast.Unparen(st.X).(*ast.CallExpr)
						if !ok {
							continue
						}
						if _, isErr := lastResultIsError(info, call); !isErr {
							continue
						}
						callee := calleeShort(info, call)
						key := fmt.Sprintf("error of %s in %s", callee, fkey)
						if reason, ok := sc.Tolerated[fkey+": "+callee]; ok {
							r.Advise(rule + ": dropped error of " + callee + " in " + fkey + " tolerated: " + reason)
							continue
						}
						r.Fail(rule, key, p.posStr(call.Pos()), "call result (error) dropped")
					}
				}
			}
		}
	}
}

// isNonNilErrorConstructor: the constructors that return a non-nil error whatever they are given (all of
// them end in fmt.Errorf / errors.New). Join, Chain and WithStack are NOT among them: they hand back nil
// for nil input - `return ierrors.WithStack(err)` is a failure return only where err is non-nil.
// (checkErrorConstructorsNonNil verifies this list against the bodies in hive.go/ierrors.)
func isNonNilErrorConstructor(callee string) bool {
	for _, s := range []string{"Wrap", "Wrapf", "Errorf", "New", "WithMessage", "WithMessagef"} {
		if callee == "ierrors."+s || callee == "errors."+s || callee == "fmt."+s {
			return true
		}
	}
	return false
}

// errorPassthrough: WithStack(err) has the nil-ness of err.
func errorPassthrough(info *types.Info, e ast.Expr) ast.Expr {
	for {
		c, ok := ast.Unparen(e).(*ast.CallExpr)
		if !ok || len(c.Args) != 1 {
			return e
		}
		if k := calleeShort(info, c); k != "ierrors.WithStack" && k != "errors.WithStack" {
			return e
		}
		e = c.Args[0]
	}
}

func isErrorConstructor(callee string) bool {
	for _, s := range []string{"Wrap", "Wrapf", "Errorf", "New", "WithStack", "WithMessage", "WithMessagef", "Join", "Chain"} {
		if callee == "ierrors."+s || callee == "errors."+s || callee == "fmt."+s {
			return true
		}
	}
	return false
}

func mentionsObj(info *types.Info, es []ast.Expr, v types.Object) bool {
	hit := false
	for _, e := range es {
		ast.Inspect(e, func(n ast.Node) bool {
			if id, ok := n.(*ast.Ident); ok && info.Uses[id] == v {
				hit = true
			}
			return !hit
		})
	}
	return hit
}

// isErrCheck: does node c discharge the obligation on error variable v?
func isErrCheck(info *types.Info, c ast.Node, v types.Object, named map[types.Object]bool) bool {
	switch x := c.(type) {
	case *ast.BinaryExpr:
		if x.Op == token.NEQ || x.Op == token.EQL {
			if (isNil(info, x.Y) && objOfIdent(info, x.X) == v) || (isNil(info, x.X) && objOfIdent(info, x.Y) == v) {
				return true
			}
		}
	case *ast.ReturnStmt:
		if len(x.Results) == 0 {
			return named[v]
		}
		for _, res := range x.Results {
			if objOfIdent(info, res) == v {
				return true
			}
		}
	case *ast.CallExpr:
		name := ""
		switch f := ast.Unparen(x.Fun).(type) {
		case *ast.Ident:
			name = f.Name
		case *ast.SelectorExpr:
			name = f.Sel.Name
		}
		switch {
		case name == "Is" || name == "As" || name == "panic" || strings.HasPrefix(name, "PanicOnErr") || strings.HasPrefix(name, "Must"):
			for _, a := range x.Args {
				if objOfIdent(info, a) == v {
					return true
				}
			}
		}
	case *ast.TypeAssertExpr:
		return objOfIdent(info, x.X) == v
	case *ast.AssignStmt:
		// hand-off: other = v
		for i, rhs := range x.Rhs {
			if objOfIdent(info, rhs) == v && i < len(x.Lhs) && objOfIdent(info, x.Lhs[i]) != v {
				return true
			}
		}
	case *ast.SendStmt:
		return objOfIdent(info, x.Value) == v
	case *ast.KeyValueExpr:
		return objOfIdent(info, x.Value) == v
	}
	return false
}

// calleeShort renders a callee as written (receiver expression type + method), stable under
// line changes: e.g. "KVStore.Set", "t.vToBytes", "binary.Read".
func calleeShort(info *types.Info, call *ast.CallExpr) string {
	fun := ast.Unparen(call.Fun)
	switch f := fun.(type) {
	case *ast.IndexExpr:
		fun = f.X
	case *ast.IndexListExpr:
		fun = f.X
	}
	switch f := fun.(type) {
	case *ast.Ident:
		return f.Name
	case *ast.SelectorExpr:
		if sel := info.Selections[f]; sel != nil {
			if sel.Kind() == types.FieldVal {
				return "field " + f.Sel.Name
			}
			return shortTypeName(typeName(sel.Recv())) + "." + f.Sel.Name
		}
		if id, ok := f.X.(*ast.Ident); ok {
			return id.Name + "." + f.Sel.Name
		}
		return f.Sel.Name
	}
	return "func-value"
}
