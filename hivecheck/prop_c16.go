package main

import (
	"fmt"
	"go/ast"
	"go/token"
	"go/types"
	"golang.org/x/tools/go/cfg"
	"os"
	"strings"
)

func init() {
	register(&property{
		ID:    "C16",
		Run:   runC16,
		Modes: []string{"deadlock"},
		Meta: propMeta{
			Explanation: "Static protocol clauses of runtime/workerpool (with syncutils Counter/Stack) on all CFG paths: (1) submit atomicity: the running check that licenses a submission and the count+enqueue it licenses lie in one critical section of the pool mutex that Shutdown holds when it flips the flag; counting precedes publishing; (2) task conservation at every hand-over: a task popped with success is sent to the dispatch channel on every path, a task received with ok is run (or, on shutdown, run or marked done by option), run marks done after the function on every path, markDone invokes the done callback on every path, the done callback given in Submit is decreasePendingTasks, increase/decrease map to Counter.Increase/Decrease; (3) shutdown protocol: Shutdown clears the flag, sends exactly workerCount signals on a channel of that capacity and signals the queue; the dispatcher closes the dispatch channel only after the pending counter reached zero and loops while running or queue non-empty; ShutdownComplete.Add precedes each go worker and Done is deferred first; isRunning only under the mutex; (4) condition-variable protocol of Counter and Stack (wait loops, signal after the Locker's critical section); (5) Group maps exactly the 0->n and n->0 transitions of child counters to Increase/Decrease. The child subscription adjusts the counter of the creating group.",
			NotDecided:  "termination and exactly-once over all interleavings (needs schedule exploration); restart interleavings",
			Assumptions: []string{"sync primitives behave as documented"},
		},
	})
}

func runC16(c *Ctx) {
	p := c.Load("runtime")
	if p == nil {
		return
	}
	r := c.R
	const pkg = "runtime/workerpool"
	pk := p.Pkg(pkg)
	if pk == nil {
		r.Unresolved("load", pkg, "package not loaded")
		return
	}
	info := pk.TypesInfo
	// the constructor sizes the shutdown-signal channel from the worker-count option inside the init
	// function it hands to options.Apply
	checkOptionsApplyOrder(r, p)
	callNamed := func(name string) func(ast.Node) bool {
		return func(n ast.Node) bool {
			c, ok := n.(*ast.CallExpr)
			if !ok {
				return false
			}
			se, ok := ast.Unparen(c.Fun).(*ast.SelectorExpr)
			return ok && se.Sel.Name == name
		}
	}
	fieldCallN := func(field, name string) func(ast.Node) bool {
		return func(n ast.Node) bool {
			c, ok := n.(*ast.CallExpr)
			if !ok {
				return false
			}
			se, ok := ast.Unparen(c.Fun).(*ast.SelectorExpr)
			return ok && se.Sel.Name == name && fieldSel(info, se.X, field)
		}
	}
	// (1) submit atomicity
	if fd := p.FuncDecl(pkg, "WorkerPool", "Submit"); fd == nil {
		r.Unresolved("submit/atomic-with-shutdown", pkg+".WorkerPool.Submit", "method not found")
	} else {
		key := pkg + ".WorkerPool.Submit"
		recvObj := info.Defs[recvIdentOf(fd)]
		recvPath := fmt.Sprintf("%s@%d", recvObj.Name(), recvObj.Pos())
		var bad []string
		n := 0
		seen := map[ast.Node]bool{}
		AnalyzeLocks(fd.Body, LockSet{}, &FlowOpts{Info: info}, func(nd ast.Node, stack []ast.Node, held LockSet) {
			cl, ok := nd.(*ast.CallExpr)
			if !ok || seen[cl] {
				return
			}
			if !(callNamed("increasePendingTasks")(cl) || fieldCallN("Queue", "Push")(cl)) {
				return
			}
			seen[cl] = true
			n++
			if held[recvPath+".mutex"] < ModeR {
				bad = append(bad, fmt.Sprintf("%s: %s executes outside the pool mutex: Shutdown can complete between the running check and this step, the task is then counted/queued after the dispatcher left its loop, never runs, and WaitIsZero/ShutdownComplete block forever", p.posStr(cl.Pos()), exprKey(cl.Fun)))
			}
		})
		if n < 2 {
			r.Fail("submit/atomic-with-shutdown", key, p.posStr(fd.Pos()), "count and enqueue steps not found (vacuous)")
		} else if len(bad) > 0 {
			r.Fail("submit/atomic-with-shutdown", key, p.posStr(fd.Pos()), bad[0], bad...)
		} else {
			r.Pass("submit/atomic-with-shutdown", key, p.posStr(fd.Pos()), "running check, count and enqueue in one critical section of the pool mutex")
		}
		f := newFuncCFG(p, info, fd.Body, key)
		// licensed by a running check
		runTrue, _ := f.CondEdges(func(e ast.Expr) bool {
			return callNamed("IsRunning")(e) || fieldSel(info, e, "isRunning")
		})
		pushes := f.Find(fieldCallN("Queue", "Push"))
		if len(pushes) != 1 {
			r.Fail("submit/licensed-by-running", key, p.posStr(fd.Pos()), "expected one Queue.Push")
		} else {
			if w, only := f.OnlyThroughEdges(pushes[0], runTrue); only {
				r.Pass("submit/licensed-by-running", key, f.PosOf(pushes[0]), "enqueue only on the running edge")
			} else {
				r.Fail("submit/licensed-by-running", key, f.PosOf(pushes[0]), "a task can be enqueued without the pool having been observed running", w...)
			}
			if w, found := f.PathFromEntryAvoiding(pushes[0], callNamed("increasePendingTasks"), nil); found {
				r.Fail("submit/count-before-publish", key, f.PosOf(pushes[0]), "the task is published before it is counted: it can finish and decrement first, and waiters for zero see a transiently wrong count", w...)
			} else {
				r.Pass("submit/count-before-publish", key, f.PosOf(pushes[0]), "increasePendingTasks precedes Queue.Push on every path")
			}
			// a counted task is handed over or un-counted on EVERY way out of Submit - a panic that the
			// caller may recover included: a count that stays behind keeps WaitIsZero, the dispatcher's
			// final wait and ShutdownComplete waiting for ever
			{
				incs := f.Find(callNamed("increasePendingTasks"))
				balanced := ""
				var bw []string
				for _, a := range incs {
					if w, found := f.reach(Point{a.B, a.I + 1}, &searchOpts{AvoidNode: func(n ast.Node) bool {
						return fieldCallN("Queue", "Push")(n) || callNamed("decreasePendingTasks")(n)
					}}, func(pt Point, atExit bool) bool {
						if atExit {
							return true
						}
						isPanic := false
						inspectNoLit(f.nodeAt(pt), func(m ast.Node) bool {
							if cl, ok := m.(*ast.CallExpr); ok && rawKey(cl.Fun) == "panic" {
								isPanic = true
							}
							return !isPanic
						})
						return isPanic
					}); found {
						balanced, bw = f.PosOf(a)+": after the pending counter was increased Submit can be left (by a return or a panic) without the task having been queued or the increase having been taken back: the counter never reaches zero again", w
					}
				}
				if len(incs) == 0 {
					r.Fail("submit/count-balanced", key, p.posStr(fd.Pos()), "no increasePendingTasks in Submit (vacuous)")
				} else if balanced != "" {
					r.Fail("submit/count-balanced", key, p.posStr(fd.Pos()), balanced, bw...)
				} else {
					r.Pass("submit/count-balanced", key, p.posStr(fd.Pos()), "every way out after the increase queues the task or decrements again")
				}
			}
			// done callback
			okCb := false
			ast.Inspect(fd.Body, func(n ast.Node) bool {
				if cl, ok := n.(*ast.CallExpr); ok && exprKey(cl.Fun) == "newTask" && len(cl.Args) >= 2 {
					if se, ok := ast.Unparen(cl.Args[1]).(*ast.SelectorExpr); ok && se.Sel.Name == "decreasePendingTasks" && isRecvIdent(info, fd, se.X) {
						okCb = true
					}
				}
				return true
			})
			if okCb {
				r.Pass("conserve/done-callback", key, p.posStr(fd.Pos()), "the task's done callback is the pool's decreasePendingTasks")
			} else {
				r.Fail("conserve/done-callback", key, p.posStr(fd.Pos()), "the task must carry decreasePendingTasks of this pool as its done callback")
			}
		}
	}
	for _, row := range []struct{ helper, counter string }{{"increasePendingTasks", "Increase"}, {"decreasePendingTasks", "Decrease"}} {
		fd := p.FuncDecl(pkg, "WorkerPool", row.helper)
		key := pkg + ".WorkerPool." + row.helper
		if fd == nil {
			r.Unresolved("conserve/counter-pairing", key, "method not found")
			continue
		}
		n := 0
		other := false
		ast.Inspect(fd.Body, func(nd ast.Node) bool {
			if fieldCallN("PendingTasksCounter", row.counter)(nd) {
				n++
			} else if cl, ok := nd.(*ast.CallExpr); ok {
				if se, ok := ast.Unparen(cl.Fun).(*ast.SelectorExpr); ok && fieldSel(info, se.X, "PendingTasksCounter") {
					other = true
				}
			}
			return true
		})
		if n == 1 && !other {
			r.Pass("conserve/counter-pairing", key, p.posStr(fd.Pos()), "exactly one PendingTasksCounter."+row.counter)
		} else {
			r.Fail("conserve/counter-pairing", key, p.posStr(fd.Pos()), "must call PendingTasksCounter."+row.counter+" exactly once and nothing else on the counter")
		}
	}
	// (2) conservation
	if f := p.CFGOf(pkg, "WorkerPool", "dispatcher"); f == nil {
		r.Unresolved("conserve/dispatcher", pkg+".WorkerPool.dispatcher", "method not found")
	} else {
		key := pkg + ".WorkerPool.dispatcher"
		_, notOK := f.CondEdges(func(e ast.Expr) bool { return exprKey(e) == "success" })
		exempt := map[Edge]bool{}
		for _, e := range notOK {
			exempt[e] = true
		}
		isSend := func(n ast.Node) bool {
			s, ok := n.(*ast.SendStmt)
			return ok && fieldSel(info, s.Chan, "dispatcherChan") && exprKey(s.Value) == "task"
		}
		isPop := fieldCallN("Queue", "PopOrWait")
		pops := f.Find(isPop)
		bad := len(pops) == 0 || len(notOK) == 0
		for _, pp := range pops {
			// from the pop, every path to the next pop / the exit passes the send, unless it crosses an
			// edge on which the pop is known to have failed
			if _, found := f.reach(Point{pp.B, pp.I + 1}, &searchOpts{AvoidNode: isSend, AvoidEdge: func(e Edge) bool { return exempt[e] }}, func(pt Point, atExit bool) bool {
				if atExit {
					return true
				}
				hit := false
				inspectNoLit(f.nodeAt(pt), func(n ast.Node) bool {
					if isPop(n) {
						hit = true
					}
					return !hit
				})
				return hit
			}); found {
				bad = true
			}
		}
		if bad {
			r.Fail("conserve/dispatcher", key, f.P.posStr(f.Body.Pos()), "a task popped successfully is not sent to the dispatch channel on every path: it is dropped while still counted as pending")
		} else {
			r.Pass("conserve/dispatcher", key, f.P.posStr(f.Body.Pos()), "every successfully popped task is sent to dispatcherChan")
		}
		// loop condition and close-after-zero
		fd := p.FuncDecl(pkg, "WorkerPool", "dispatcher")
		// the loop that pops (in the dispatcher or in a stage helper of it) is left only when the pool
		// is known not to be running AND the queue is known to be empty: what holds on the exit edge
		// of its condition, whatever its spelling
		cond := "no loop around the pop"
		okDrain := false
		for _, l := range f.Loops() {
			inLoop := false
			for _, pp := range pops {
				if f.InLoopBody(l, pp) {
					inLoop = true
				}
			}
			fs, isFor := l.Stmt.(*ast.ForStmt)
			if !inLoop || !isFor || fs.Cond == nil {
				continue
			}
			cond = exprKey(fs.Cond)
			notRunning, empty, other := false, false, false
			for _, ft := range f.EdgeFacts(l.Head, false) {
				if cl, isCall := ast.Unparen(ft.Atom).(*ast.CallExpr); isCall && !ft.Pol && strings.HasSuffix(exprKey(cl.Fun), ".IsRunning") {
					notRunning = true
					continue
				}
				if rel, isRel := relOf(ft.Atom); isRel {
					if !ft.Pol {
						rel = negRel(rel)
					}
					if strings.HasSuffix(rel.L, ".Queue.Size()") && ((rel.Op == "<=" && rel.R == "0") || (rel.Op == "==" && rel.R == "0") || (rel.Op == "<" && rel.R == "1")) {
						empty = true
						continue
					}
					if strings.HasSuffix(rel.R, ".Queue.Size()") && ((rel.Op == ">=" && rel.L == "0") || (rel.Op == "==" && rel.L == "0") || (rel.Op == ">" && rel.L == "1")) {
						empty = true
						continue
					}
				}
				other = true
			}
			okDrain = notRunning && empty && !other
		}
		_ = fd
		if okDrain {
			r.Pass("shutdown/dispatcher-drains", key, p.posStr(fd.Pos()), "loops while running or the queue is non-empty")
		} else {
			r.Fail("shutdown/dispatcher-drains", key, p.posStr(fd.Pos()), "the dispatcher must keep popping while the pool is running or tasks are queued; found "+cond)
		}
		closes := f.Find(func(n ast.Node) bool {
			cl, ok := n.(*ast.CallExpr)
			return ok && exprKey(cl.Fun) == "close" && len(cl.Args) == 1 && fieldSel(info, cl.Args[0], "dispatcherChan")
		})
		if len(closes) != 1 {
			r.Fail("shutdown/close-after-zero", key, p.posStr(fd.Pos()), "expected one close(dispatcherChan)")
		} else if w, found := f.PathFromEntryAvoiding(closes[0], fieldCallN("PendingTasksCounter", "WaitIsZero"), nil); found {
			r.Fail("shutdown/close-after-zero", key, f.PosOf(closes[0]), "the dispatch channel is closed before the pending counter reached zero: tasks submitted by running tasks are stranded and workers exit early", w...)
		} else {
			r.Pass("shutdown/close-after-zero", key, f.PosOf(closes[0]), "WaitIsZero precedes close(dispatcherChan)")
		}
	}
	// the worker, with its loop helpers (if any) in place: every task received from the dispatch channel
	// is run or marked done before the next receive or the exit; tasks are cancelled only under the
	// cancel-on-shutdown option and that option never runs one
	if f := p.CFGOf(pkg, "WorkerPool", "worker"); f == nil {
		r.Unresolved("conserve/worker", pkg+".WorkerPool.worker", "method not found")
	} else {
		key := pkg + ".WorkerPool.worker"
		isRecv := func(n ast.Node) bool {
			u, ok := n.(*ast.UnaryExpr)
			return ok && u.Op.String() == "<-" && fieldSel(info, u.X, "dispatcherChan")
		}
		// the comma-ok results of the receives: their false edges carry no task
		exempt := map[Edge]bool{}
		nOK := 0
		for _, b := range f.G.Blocks {
			if !b.Live {
				continue
			}
			for _, nd := range b.Nodes {
				as, ok := nd.(*ast.AssignStmt)
				if !ok || len(as.Lhs) != 2 || len(as.Rhs) != 1 || !isRecv(ast.Unparen(as.Rhs[0])) {
					continue
				}
				if okv := objOfIdent(info, as.Lhs[1]); okv != nil {
					_, fE := f.VarEdges(okv)
					for _, e := range fE {
						if !exempt[e] {
							exempt[e] = true
							nOK++
						}
					}
				}
			}
		}
		// ... also when the receive lives in a helper that hands (task, ok) back: a tested variable all of
		// whose origins are that ok or the constant false
		okVars := map[types.Object]bool{}
		for _, b := range f.G.Blocks {
			if !b.Live {
				continue
			}
			for _, nd := range b.Nodes {
				if as, ok := nd.(*ast.AssignStmt); ok && len(as.Lhs) == 2 && len(as.Rhs) == 1 && isRecv(ast.Unparen(as.Rhs[0])) {
					if okv := objOfIdent(info, as.Lhs[1]); okv != nil {
						okVars[okv] = true
					}
				}
			}
		}
		f.forEachEdgeFact(func(e Edge, b *cfg.Block, ft fact) {
			id, isId := ast.Unparen(ft.Atom).(*ast.Ident)
			if !isId || ft.Pol || exempt[e] || okVars[objOfIdent(info, id)] {
				return
			}
			os := f.Origins(id, Point{b, len(b.Nodes) - 1})
			if len(os) == 0 {
				return
			}
			fromOK := false
			for _, o := range os {
				switch {
				case okVars[objOfIdent(info, o.E)], isRecv(ast.Unparen(o.E)):
					fromOK = true
				case rawKey(o.E) == "false":
				default:
					return
				}
			}
			if fromOK {
				exempt[e] = true
				nOK++
			}
		})
		handled := func(n ast.Node) bool { return callNamed("run")(n) || callNamed("markDone")(n) }
		recvs := f.AfterComm(isRecv)
		var rangeLoops []loopInfo
		for _, l := range f.Loops() {
			if b := f.LoopBound(l); strings.HasPrefix(b, "chan:") && strings.HasSuffix(b, ".dispatcherChan") {
				if _, isRange := l.Stmt.(*ast.RangeStmt); isRange {
					rangeLoops = append(rangeLoops, l)
				}
			}
		}
		isRangeHead := func(b *cfg.Block) bool {
			for _, l := range rangeLoops {
				if l.Head == b {
					return true
				}
			}
			return false
		}
		bad := len(recvs)+len(rangeLoops) < 2 || (len(recvs) > 0 && nOK == 0)
		for _, l := range rangeLoops {
			if _, skips := f.IterationSkips(l, handled); skips {
				bad = true
			}
		}
		nextRecv := func(pt Point, atExit bool) bool {
			if atExit {
				return true
			}
			hit := false
			inspectNoLit(f.nodeAt(pt), func(n ast.Node) bool {
				if isRecv(n) {
					hit = true
				}
				return !hit
			})
			return hit
		}
		for _, rp := range recvs {
			if _, found := f.reach(rp, &searchOpts{AvoidNode: handled, AvoidEdge: func(e Edge) bool { return exempt[e] }}, nextRecv); found {
				bad = true
			}
		}
		if os.Getenv("HC_DEBUG") != "" {
			fmt.Fprintf(os.Stderr, "worker: recvs=%d rangeLoops=%d nOK=%d okVars=%d bad=%v\n", len(recvs), len(rangeLoops), nOK, len(okVars), bad)
		}
		if bad {
			r.Fail("conserve/worker", key, f.P.posStr(f.Body.Pos()), "a task received from the dispatch channel is neither run nor marked done on every path: it is lost and its pending count never returns to zero")
		} else {
			r.Pass("conserve/worker", key, f.P.posStr(f.Body.Pos()), fmt.Sprintf("every task received (%d receive(s), %d range loop(s) over the dispatch channel) reaches run or markDone", len(recvs), len(rangeLoops)))
		}
		// the option
		tE, fE := f.CondEdges(func(e ast.Expr) bool { return fieldSel(info, e, "optCancelPendingTasksOnShutdown") })
		ok := len(tE) > 0 && len(fE) > 0
		// (a task that is run marks itself done when it has finished: what run does inside is not the
		// worker's decision)
		insideRun := func(pt Point) bool {
			for reg := f.regionOf[pt.B]; reg != nil; reg = reg.parent {
				if reg.call != nil && callNamed("run")(reg.call) {
					return true
				}
			}
			return false
		}
		for _, pt := range f.Find(callNamed("markDone")) {
			if insideRun(pt) {
				continue
			}
			if _, only := f.OnlyThroughEdges(pt, tE); !only {
				ok = false
			}
		}
		// within one task's handling (up to the next receive) the cancel branch never runs the task and
		// the other branch never cancels it
		within := func(e Edge, what func(ast.Node) bool) bool {
			_, found := f.reach(Point{e.From.Succs[e.Succ], 0}, &searchOpts{AvoidNode: isRecv, AvoidEdge: func(x Edge) bool { return isRangeHead(x.From.Succs[x.Succ]) }}, func(pt Point, atExit bool) bool {
				return !atExit && !insideRun(pt) && containsMatch(f.nodeAt(pt), what)
			})
			return found
		}
		for _, e := range tE {
			if within(e, callNamed("run")) {
				ok = false
			}
		}
		for _, e := range fE {
			if within(e, callNamed("markDone")) {
				ok = false
			}
			if !within(e, callNamed("run")) {
				ok = false
			}
		}
		if os.Getenv("HC_DEBUG") != "" {
			fmt.Fprintf(os.Stderr, "worker option: tE=%d fE=%d markDone=%d ok=%v\n", len(tE), len(fE), len(f.Find(callNamed("markDone"))), ok)
			for _, e := range tE {
				fmt.Fprintf(os.Stderr, "  tE run=%v\n", within(e, callNamed("run")))
			}
			for _, e := range fE {
				fmt.Fprintf(os.Stderr, "  fE markDone=%v run=%v\n", within(e, callNamed("markDone")), within(e, callNamed("run")))
			}
		}
		if ok {
			r.Pass("conserve/worker", key+" option", f.P.posStr(f.Body.Pos()), "pending tasks are cancelled only under the cancel-on-shutdown option and run otherwise")
		} else {
			r.Fail("conserve/worker", key+" option", f.P.posStr(f.Body.Pos()), "cancel/run of pending tasks must follow optCancelPendingTasksOnShutdown")
		}
	}
	// Task.run / markDone
	if f := p.CFGOf(pkg, "Task", "run"); f == nil {
		r.Unresolved("conserve/task", pkg+".Task.run", "method not found")
	} else {
		fn := f.Find(func(n ast.Node) bool {
			cl, ok := n.(*ast.CallExpr)
			return ok && fieldSel(info, cl.Fun, "workerFunc")
		})
		if len(fn) != 1 {
			r.Fail("conserve/task", pkg+".Task.run", f.P.posStr(f.Body.Pos()), "expected exactly one invocation of the task function")
		} else if w, found := f.PathToExitAvoiding(fn[0], callNamed("markDone")); found {
			r.Fail("conserve/task", pkg+".Task.run", f.PosOf(fn[0]), "the task function can return without markDone: the pending counter never returns to zero", w...)
		} else if n := len(f.Find(callNamed("markDone"))); n != 1 {
			r.Fail("conserve/task", pkg+".Task.run", f.PosOf(fn[0]), fmt.Sprintf("markDone must be called exactly once, found %d sites", n))
		} else {
			r.Pass("conserve/task", pkg+".Task.run", f.PosOf(fn[0]), "function runs once, markDone follows on every path")
		}
	}
	if f := p.CFGOf(pkg, "Task", "markDone"); f == nil {
		r.Unresolved("conserve/task", pkg+".Task.markDone", "method not found")
	} else {
		isCb := func(n ast.Node) bool {
			cl, ok := n.(*ast.CallExpr)
			return ok && fieldSel(info, cl.Fun, "doneCallback")
		}
		n := len(f.Find(isCb))
		if _, found := f.reach(f.entry(), &searchOpts{AvoidNode: isCb}, func(pt Point, atExit bool) bool { return atExit }); found || n != 1 {
			r.Fail("conserve/task", pkg+".Task.markDone", f.P.posStr(f.Body.Pos()), "markDone must invoke the done callback exactly once on every path")
		} else {
			r.Pass("conserve/task", pkg+".Task.markDone", f.P.posStr(f.Body.Pos()), "done callback invoked once on every path")
		}
	}
	// (3) shutdown protocol
	if f := p.CFGOf(pkg, "WorkerPool", "Shutdown"); f == nil {
		r.Unresolved("shutdown/protocol", pkg+".WorkerPool.Shutdown", "method not found")
	} else {
		key := pkg + ".WorkerPool.Shutdown"
		fd := p.FuncDecl(pkg, "WorkerPool", "Shutdown")
		// (the flag may be a plain bool under the mutex or an atomic.Bool: assignment, Store, or the
		// success edge of CompareAndSwap(true, false))
		clears := f.flagSetPoints("isRunning", "false")
		if len(clears) != 1 {
			r.Fail("shutdown/protocol", key, p.posStr(fd.Pos()), "Shutdown must clear isRunning exactly once")
		} else {
			if w, found := f.reach(clears[0], &searchOpts{AvoidNode: fieldCallN("Queue", "SignalShutdown")}, func(_ Point, atExit bool) bool { return atExit }); found {
				r.Fail("shutdown/protocol", key+" signals queue", f.PosOf(clears[0]), "after clearing the flag a path returns without waking the dispatcher", w...)
			} else {
				r.Pass("shutdown/protocol", key+" signals queue", f.PosOf(clears[0]), "Queue.SignalShutdown follows the flag flip on every path")
			}
			// exactly workerCount signals
			okSig := false
			// a loop (any form) counting up to workerCount whose every iteration sends one signal
			isSend := func(n ast.Node) bool {
				s, ok := n.(*ast.SendStmt)
				return ok && fieldSel(info, s.Chan, "shutdownSignal")
			}
			for _, l := range f.Loops() {
				if b := f.LoopBound(l); strings.HasPrefix(b, "count:") && strings.HasSuffix(b, ".workerCount") {
					sends := 0
					for _, sp := range f.Find(isSend) {
						if f.InLoopBody(l, sp) {
							sends++
						}
					}
					if _, skips := f.IterationSkips(l, isSend); sends == 1 && !skips {
						okSig = true
					}
				}
			}
			capOK := false
			for _, ofd := range p.AllFuncDecls(pkg) {
				if ofd.Body == nil {
					continue
				}
				ast.Inspect(ofd.Body, func(n ast.Node) bool {
					if as, ok := n.(*ast.AssignStmt); ok && len(as.Lhs) == 1 && fieldSel(info, as.Lhs[0], "shutdownSignal") {
						if cl, ok := ast.Unparen(as.Rhs[0]).(*ast.CallExpr); ok && exprKey(cl.Fun) == "make" && len(cl.Args) == 2 && fieldSel(info, cl.Args[1], "workerCount") {
							capOK = true
						}
					}
					return true
				})
			}
			if okSig && capOK {
				r.Pass("shutdown/protocol", key+" one signal per worker", f.PosOf(clears[0]), "workerCount signals on a channel of capacity workerCount (never blocks, every worker gets one)")
			} else {
				r.Fail("shutdown/protocol", key+" one signal per worker", f.PosOf(clears[0]), fmt.Sprintf("Shutdown must send exactly workerCount signals on a channel created with that capacity (loop=%v capacity=%v)", okSig, capOK))
			}
		}
	}
	checkGoWaitGroup(r, p, "wg/add-before-go", pkg, p.FuncDecl(pkg, "WorkerPool", "startWorkers"), 1)
	checkDoneOnAllExits(r, p, "wg/done-on-exit", pkg, p.FuncDecl(pkg, "WorkerPool", "worker"), "ShutdownComplete")
	checkGuards(r, p, "lock/guarded-by", []GuardRow{{Pkg: pkg, Type: "WorkerPool", Mutex: "mutex", Fields: []string{"isRunning"}}})
	checkLockBalance(r, p, "lock/balance", []string{pkg}, nil, nil)
	// Start: the test of the running flag and its setting are ONE step for every other Start - either no
	// release of the pool mutex lies between them, or a mutex of the pool other than the pool mutex is
	// held for the whole call (Lock + top-level deferred Unlock as the first statements). Otherwise two
	// overlapping Start calls both find the pool stopped and both start dispatcher and workers.
	if f := p.CFGOf(pkg, "WorkerPool", "Start"); f == nil {
		r.Unresolved("start/test-and-set-one-section", pkg+".WorkerPool.Start", "method not found")
	} else {
		key := pkg + ".WorkerPool.Start"
		// the flag as a plain field or as an atomic.Bool (Load / Store(true))
		flagCall := func(e ast.Node, method string) *ast.CallExpr {
			c, ok := e.(*ast.CallExpr)
			if !ok {
				return nil
			}
			se, ok := ast.Unparen(c.Fun).(*ast.SelectorExpr)
			if !ok || se.Sel.Name != method || !fieldSel(info, se.X, "isRunning") {
				return nil
			}
			return c
		}
		_, notRunning := f.CondEdges(func(e ast.Expr) bool {
			return fieldSel(info, e, "isRunning") || flagCall(ast.Unparen(e), "Load") != nil
		})
		sets := f.Find(func(n ast.Node) bool {
			if c := flagCall(n, "Store"); c != nil && len(c.Args) == 1 && exprKey(c.Args[0]) == "true" {
				return true
			}
			as, ok := n.(*ast.AssignStmt)
			return ok && len(as.Lhs) == 1 && len(as.Rhs) == 1 && fieldSel(info, as.Lhs[0], "isRunning") && exprKey(as.Rhs[0]) == "true"
		})
		isSet := func(n ast.Node) bool {
			for _, sp := range sets {
				if f.nodeAt(sp) == n || containsNode(f.nodeAt(sp), n) || containsNode(n, f.nodeAt(sp)) {
					return true
				}
			}
			return false
		}
		releasePath := func(n ast.Node) string {
			c, ok := n.(*ast.CallExpr)
			if !ok {
				return ""
			}
			if op, path := lockOp(info, c); op == "Unlock" || op == "RUnlock" {
				return path
			}
			return ""
		}
		isRelease := func(n ast.Node) bool { return releasePath(n) != "" }
		// a serialiser: first statements `x.Lock(); defer x.Unlock()` on a mutex that is not the pool mutex
		serialised := ""
		if fd := p.FuncDecl(pkg, "WorkerPool", "Start"); fd != nil && len(fd.Body.List) >= 2 {
			if es, ok := fd.Body.List[0].(*ast.ExprStmt); ok {
				if c, isCall := es.X.(*ast.CallExpr); isCall {
					if op, path := lockOp(info, c); op == "Lock" {
						if ds, isDefer := fd.Body.List[1].(*ast.DeferStmt); isDefer {
							if op2, path2 := lockOp(info, ds.Call); op2 == "Unlock" && path2 == path {
								n := 0
								ast.Inspect(fd.Body, func(m ast.Node) bool {
									if c2, ok := m.(*ast.CallExpr); ok {
										if op3, path3 := lockOp(info, c2); op3 == "Unlock" && path3 == path {
											n++
										}
									}
									return true
								})
								if n == 1 {
									serialised = path
								}
							}
						}
					}
				}
			}
		}
		switch {
		case len(notRunning) == 0 || len(sets) == 0:
			r.Unresolved("start/test-and-set-one-section", key, fmt.Sprintf("expected a test of isRunning and an assignment isRunning = true in Start (found %d / %d)", len(notRunning), len(sets)))
		default:
			bad := ""
			var wit []string
			for _, e := range notRunning {
				// a release reachable from the not-running edge before the flag is set, from which the set is still reachable
				for _, rp := range f.Find(isRelease) {
					if _, isDefer := f.nodeAt(rp).(*ast.DeferStmt); isDefer {
						continue
					}
					if _, toRel := f.reach(Point{e.From.Succs[e.Succ], 0}, &searchOpts{AvoidNode: isSet}, func(pt Point, atExit bool) bool { return !atExit && pt == rp }); !toRel {
						continue
					}
					if w, toSet := f.reach(Point{rp.B, rp.I + 1}, nil, func(pt Point, atExit bool) bool { return !atExit && isSet(f.nodeAt(pt)) }); toSet {
						if releasePath(f.nodeAt(rp)) == serialised {
							// the would-be serialiser itself is released in between
							serialised = ""
						}
						bad, wit = f.PosOf(rp), w
					}
				}
			}
			if bad != "" && serialised == "" {
				r.Fail("start/test-and-set-one-section", key, bad, "the pool mutex is released between the test of isRunning and isRunning = true, and no other mutex serialises Start: two overlapping Start calls both find the pool stopped, both start a dispatcher and a full set of workers (twice the workers, a second dispatcher on a replaced channel)", wit...)
			} else if bad != "" {
				r.Pass("start/test-and-set-one-section", key, bad, "the pool mutex is released between test and set, but "+serialised[strings.LastIndex(serialised, ".")+1:]+" is held for the whole call: starters are serialised")
			} else {
				r.Pass("start/test-and-set-one-section", key, f.PosOf(sets[0]), "no release of the pool mutex between the test of isRunning and isRunning = true")
			}
		}
	}
	// Start: dispatcherChan created before the goroutines, under the lock
	if f := p.CFGOf(pkg, "WorkerPool", "startDispatcher"); f != nil {
		gos := f.Find(func(n ast.Node) bool { _, ok := n.(*ast.GoStmt); return ok })
		isMake := func(n ast.Node) bool {
			as, ok := n.(*ast.AssignStmt)
			return ok && len(as.Lhs) == 1 && fieldSel(info, as.Lhs[0], "dispatcherChan")
		}
		if len(gos) == 1 {
			if _, found := f.PathFromEntryAvoiding(gos[0], isMake, nil); found {
				r.Fail("start/channel-before-go", pkg+".WorkerPool.startDispatcher", f.PosOf(gos[0]), "the dispatcher goroutine is started before the dispatch channel exists")
			} else {
				r.Pass("start/channel-before-go", pkg+".WorkerPool.startDispatcher", f.PosOf(gos[0]), "channel created before go dispatcher()")
			}
		}
	}
	// (4) cond protocol of Counter / Stack
	const su = "runtime/syncutils"
	conds := discoverConds(p, su)
	checkCondProtocol(r, p, su, conds, 7, 10)
	// (5) group aggregation
	for _, m := range []string{"CreatePool", "CreateGroup"} {
		fd := p.FuncDecl(pkg, "Group", m)
		key := pkg + ".Group." + m
		if fd == nil {
			r.Unresolved("group/transitions", key, "method not found")
			continue
		}
		// the subscriber: a function literal or a method value / named function of the package
		var subBody *ast.BlockStmt
		var subPos token.Pos
		var subParams []string
		// (looked for on the graph with the helpers in place: the subscription may be shared by both)
		gf := newFuncCFG(p, info, fd.Body, key)
		var subCall *ast.CallExpr
		for _, cl := range gf.Calls(func(cl *ast.CallExpr) bool { return callNamed("Subscribe")(cl) && len(cl.Args) == 1 }) {
			{
				if b, pos := callableBody(p, info, cl.Args[0]); b != nil {
					subBody, subPos = b, pos
					subCall = cl
					var ft *ast.FuncType
					switch x := ast.Unparen(cl.Args[0]).(type) {
					case *ast.FuncLit:
						ft = x.Type
					default:
						if fn, _ := info.Uses[selIdent(x.(ast.Expr))].(*types.Func); fn != nil {
							if hd := p.decls().byFunc[fn.Origin()]; hd != nil {
								ft = hd.Type
							}
						}
					}
					if ft != nil {
						for _, fl := range ft.Params.List {
							for _, nm := range fl.Names {
								subParams = append(subParams, nm.Name)
							}
						}
					}
				}
			}
		}
		if subBody == nil || len(subParams) != 2 {
			r.Fail("group/transitions", key, p.posStr(fd.Pos()), "the child counter is not subscribed with a (old, new) callback")
			continue
		}
		lit := struct {
			Body *ast.BlockStmt
			pos  token.Pos
		}{subBody, subPos}
		checkMirrorSubscriptionLives(r, p, pkg, info, fd, key)
		lf := newFuncCFG(p, info, lit.Body, key+"$subscriber")
		oldZero := lf.RelEdges(func(rel Rel) bool { return rel.Op == "==" && rel.L == "0" && rel.R == subParams[0] })
		newZero := lf.RelEdges(func(rel Rel) bool { return rel.Op == "==" && rel.L == "0" && rel.R == subParams[1] })
		incs := lf.Find(fieldCallN("PendingChildrenCounter", "Increase"))
		decs := lf.Find(fieldCallN("PendingChildrenCounter", "Decrease"))
		ok := len(incs) == 1 && len(decs) == 1
		if ok {
			if _, only := lf.OnlyThroughEdges(incs[0], oldZero); !only {
				ok = false
			}
			if _, only := lf.OnlyThroughEdges(decs[0], newZero); !only {
				ok = false
			}
			// and reached on every path of those edges
			for _, e := range oldZero {
				if _, found := lf.reach(Point{e.From.Succs[e.Succ], 0}, &searchOpts{AvoidNode: fieldCallN("PendingChildrenCounter", "Increase")}, func(pt Point, atExit bool) bool { return atExit }); found {
					ok = false
				}
			}
		}
		// ... and it is THIS group's counter: the group the child was created in, not its root or any
		// other group (an intermediate group that is skipped reports zero pending children while its
		// sub-tree is busy, so its WaitChildren returns early and its Shutdown cancels queued tasks)
		ownCounter := true
		if ok {
			self := recvObj(info, fd)
			spt, _ := gf.PointOf(subCall)
			for _, cp := range append(append([]Point{}, incs...), decs...) {
				inspectNoLit(lf.nodeAt(cp), func(n ast.Node) bool {
					c, isCall := n.(*ast.CallExpr)
					if !isCall || !(fieldCallN("PendingChildrenCounter", "Increase")(c) || fieldCallN("PendingChildrenCounter", "Decrease")(c)) {
						return true
					}
					cse := ast.Unparen(c.Fun).(*ast.SelectorExpr)
					owner, _ := ast.Unparen(cse.X).(*ast.SelectorExpr)
					if owner == nil {
						ownCounter = false
						return true
					}
					ro := objOfIdent(info, owner.X)
					// the subscriber is a method of a link struct handed over as a method value: the group is
					// a field of the struct, initialised where the struct is built
					if ro == nil {
						for _, cb := range callbacksIn(p, info, subCall.Args[0]) {
							if cap := cb.Captured(p, info, owner.X, fd.Body); cap != nil {
								if co := objOfIdent(info, cap); co != nil && (co == self || gf.IsVar(cap, spt, self)) {
									ro = self
								}
							}
						}
					}
					switch {
					case ro == nil:
						ownCounter = false
					case ro == self:
					default:
						good := false
						// the receiver of the helper the subscription is made in, or of the method handed over
						if arg, apt, found := gf.paramArg(ro, spt); found && (objOfIdent(info, arg) == self || gf.IsVar(arg, apt, self)) {
							good = true
						}
						if mv, isSel := ast.Unparen(subCall.Args[0]).(*ast.SelectorExpr); isSel && !good {
							if fn, _ := info.Uses[mv.Sel].(*types.Func); fn != nil {
								if hd := p.decls().byFunc[fn.Origin()]; hd != nil && recvObj(info, hd) == ro && (objOfIdent(info, mv.X) == self || gf.IsVar(mv.X, spt, self)) {
									good = true
								}
							}
						}
						if !good {
							ownCounter = false
						}
					}
					return true
				})
			}
		}
		if ok && !ownCounter {
			r.Fail("group/transitions", key, p.posStr(lit.pos), "the subscriber adjusts the pending-children counter of a group other than the one the child is created in (e.g. the root): the creating group never learns that its child is busy")
		} else if ok {
			r.Pass("group/transitions", key, p.posStr(lit.pos), "0->n increases and n->0 decreases the group's pending-children counter, nothing else does")
		} else {
			r.Fail("group/transitions", key, p.posStr(lit.pos), "the subscriber must map exactly oldValue==0 to Increase and newValue==0 to Decrease")
		}
	}
	if fd := p.FuncDecl(pkg, "Group", "WaitChildren"); fd != nil {
		n := 0
		ast.Inspect(fd.Body, func(nd ast.Node) bool {
			if fieldCallN("PendingChildrenCounter", "WaitIsZero")(nd) {
				n++
			}
			return true
		})
		if n == 1 {
			r.Pass("group/transitions", pkg+".Group.WaitChildren", p.posStr(fd.Pos()), "waits for the pending-children counter to reach zero")
		} else {
			r.Fail("group/transitions", pkg+".Group.WaitChildren", p.posStr(fd.Pos()), "WaitChildren must wait for PendingChildrenCounter to reach zero")
		}
	}
	_ = strings.Contains
}

// checkMirrorSubscriptionLives: the subscription that mirrors a child's pending counter into the
// group's PendingChildrenCounter must stay attached for as long as the child can still reach
// zero: its 0->n transition has been counted, the n->0 transition must be delivered. The
// unsubscribe handle returned by Subscribe is therefore either dropped, or - if it is kept - never
// invoked anywhere in the package (directly, or after being stored in a field of the group and
// read back). A detach of a replaced pool with a task in flight leaves the group counter > 0 for
// ever: WaitChildren / Shutdown hang although every task finished.
func checkMirrorSubscriptionLives(r *Reporter, p *Prog, pkg string, info *types.Info, fd *ast.FuncDecl, key string) {
	var handle types.Object
	dropped := false
	isCounterSubscribe := func(cl *ast.CallExpr) bool {
		se, ok := ast.Unparen(cl.Fun).(*ast.SelectorExpr)
		return ok && se.Sel.Name == "Subscribe" && strings.HasSuffix(strings.TrimPrefix(typeName(info.TypeOf(se.X)), "*"), "syncutils.Counter")
	}
	// the function the subscription is made in: the operation itself, or an unexported helper it
	// shares with its sibling (found on the graph with the helpers in place)
	for _, cl := range newFuncCFG(p, info, fd.Body, key).Calls(isCounterSubscribe) {
		for _, g := range p.AllFuncDecls(pkg) {
			if g.Body != nil && g.Body.Pos() <= cl.Pos() && cl.End() <= g.Body.End() {
				fd = g
			}
		}
	}
	ast.Inspect(fd.Body, func(n ast.Node) bool {
		switch x := n.(type) {
		case *ast.ExprStmt:
			if cl, ok := x.X.(*ast.CallExpr); ok && isCounterSubscribe(cl) {
				dropped = true
			}
		case *ast.AssignStmt:
			if len(x.Rhs) == 1 && len(x.Lhs) == 1 {
				if cl, ok := ast.Unparen(x.Rhs[0]).(*ast.CallExpr); ok && isCounterSubscribe(cl) {
					if id, isId := x.Lhs[0].(*ast.Ident); isId && id.Name != "_" {
						handle = objOfIdent(info, id)
					} else {
						dropped = true
					}
				}
			}
		}
		return true
	})
	rule := "group/mirror-subscription-lives"
	if handle == nil {
		if dropped {
			r.Pass(rule, key, p.posStr(fd.Pos()), "the unsubscribe handle is dropped: the mirror lives as long as the child")
		} else {
			r.Fail(rule, key, p.posStr(fd.Pos()), "the mirroring Subscribe call was not found")
		}
		return
	}
	// fields of the receiver that the handle is stored into
	tainted := map[string]bool{}
	var calls []string
	ast.Inspect(fd.Body, func(n ast.Node) bool {
		cl, ok := n.(*ast.CallExpr)
		if !ok {
			return true
		}
		if id, isId := ast.Unparen(cl.Fun).(*ast.Ident); isId && info.Uses[id] == handle {
			calls = append(calls, p.posStr(cl.Pos())+": "+id.Name+"() in "+key)
		}
		for _, a := range cl.Args {
			if objOfIdent(info, a) == handle {
				if se, ok := ast.Unparen(cl.Fun).(*ast.SelectorExpr); ok {
					if inner, ok := ast.Unparen(se.X).(*ast.SelectorExpr); ok {
						tainted[inner.Sel.Name] = true
					}
				}
			}
		}
		return true
	})
	ast.Inspect(fd.Body, func(n ast.Node) bool {
		if as, ok := n.(*ast.AssignStmt); ok {
			for i, rhs := range as.Rhs {
				if objOfIdent(info, rhs) == handle && i < len(as.Lhs) {
					if se, ok := ast.Unparen(as.Lhs[i]).(*ast.SelectorExpr); ok {
						tainted[se.Sel.Name] = true
					}
					if ix, ok := ast.Unparen(as.Lhs[i]).(*ast.IndexExpr); ok {
						if se, ok := ast.Unparen(ix.X).(*ast.SelectorExpr); ok {
							tainted[se.Sel.Name] = true
						}
					}
				}
			}
		}
		return true
	})
	// anywhere in the package: a call of a func value that was read from a tainted field
	mentionsTainted := func(e ast.Expr) bool {
		hit := false
		ast.Inspect(e, func(m ast.Node) bool {
			if se, ok := m.(*ast.SelectorExpr); ok && tainted[se.Sel.Name] {
				hit = true
			}
			return !hit
		})
		return hit
	}
	for _, g := range p.AllFuncDecls(pkg) {
		if g.Body == nil || strings.HasSuffix(p.Fset.Position(g.Pos()).Filename, "_test.go") {
			continue
		}
		fromTainted := map[types.Object]bool{}
		ast.Inspect(g.Body, func(n ast.Node) bool {
			switch x := n.(type) {
			case *ast.AssignStmt:
				for _, rhs := range x.Rhs {
					if mentionsTainted(rhs) {
						for _, l := range x.Lhs {
							if o := objOfIdent(info, l); o != nil {
								fromTainted[o] = true
							}
						}
					}
				}
			case *ast.RangeStmt:
				if mentionsTainted(x.X) {
					for _, l := range []ast.Expr{x.Key, x.Value} {
						if l != nil {
							if o := objOfIdent(info, l); o != nil {
								fromTainted[o] = true
							}
						}
					}
				}
			}
			return true
		})
		ast.Inspect(g.Body, func(n ast.Node) bool {
			cl, ok := n.(*ast.CallExpr)
			if !ok {
				return true
			}
			if id, isId := ast.Unparen(cl.Fun).(*ast.Ident); isId && fromTainted[info.Uses[id]] {
				calls = append(calls, p.posStr(cl.Pos())+": "+id.Name+"() in "+funcKey(pkg, g))
			}
			if len(cl.Args) == 0 && mentionsTainted(cl.Fun) {
				if _, isSig := info.TypeOf(cl.Fun).(*types.Signature); isSig {
					if se, ok := ast.Unparen(cl.Fun).(*ast.SelectorExpr); !ok || info.Selections[se] == nil || info.Selections[se].Kind() != types.MethodVal {
						calls = append(calls, p.posStr(cl.Pos())+": "+exprKey(cl.Fun)+"() in "+funcKey(pkg, g))
					}
				}
			}
			return true
		})
	}
	if len(calls) > 0 {
		r.Fail(rule, key, p.posStr(fd.Pos()), "the subscription that mirrors the child's pending counter into the group can be cancelled ("+calls[0]+"): a child whose 0->n transition was already counted then never delivers n->0 and the group's pending-children counter stays above zero for ever", calls...)
	} else {
		r.Pass(rule, key, p.posStr(fd.Pos()), "the unsubscribe handle is kept but never invoked in this package")
	}
}
