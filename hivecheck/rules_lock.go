package main

import (
	"fmt"
	"go/ast"
	"go/token"
	"go/types"
	"sort"
	"strings"
)

// GuardRow: fields of struct Type (declared in Pkg) guarded by the mutex reached through
// field chain Mutex from the same struct value.
type GuardRow struct {
	Pkg, Type string
	Mutex     string              // e.g. "mutex", "RWMutex" (embedded), relative to the struct
	Fields    []string            // guarded fields
	Mutators  map[string][]string // field -> methods on the field's value that mutate it (need W)
	CH        map[string]LockMode // caller-holds helpers: method name of Type -> required mode
	Exempt    map[string]string   // "Type.method" or "func" -> reason (access tabled as outside the statement)
	ReadsOK   map[string]string   // field -> reason: unlocked *reads* of this field are tolerated (writes still need W)
	WOnly     bool                // only writes are checked (self-synchronising value; see DESIGN)
	WriteMode LockMode            // mode a write needs (default W); R for a self-synchronising value whose guard only excludes whole-structure operations
	// ViaRecvType: the guarded struct has no mutex of its own; its fields are protected by the mutex
	// <receiver>.<Mutex> of the enclosing method, whose receiver must be of this type (e.g. the
	// chain pointers of orderedmap.Element are guarded by OrderedMap.mutex).
	ViaRecvType string
	// CondLock: the tabled conditional-lock idiom. A function that takes the mutex under a branch
	// whose condition contains one of these keys (e.g. ".unsubscribeFromWeightUpdates!=nil": "not
	// the initial, synchronous invocation - that one runs inside the registering function's own
	// critical section") is treated as holding it afterwards. Keyed by the condition, not by the
	// function, so that moving the code into a named method does not change the verdict.
	CondLock map[string]string
}

type guardedField struct {
	row   *GuardRow
	field string
}

// checkGuards applies R-LOCK rows to every function of the rows' packages.
func checkGuards(r *Reporter, p *Prog, rule string, rows []GuardRow) {
	defer func() { fieldAlias = map[string]string{} }()
	byVar := map[*types.Var]guardedField{}
	pkgs := map[string]bool{}
	for i := range rows {
		row := &rows[i]
		named, st := p.NamedStruct(row.Pkg, row.Type)
		if st == nil {
			r.Unresolved(rule, row.Pkg+"."+row.Type, "struct type not found")
			continue
		}
		_ = named
		// mutex chain must resolve to a mutex type
		if row.ViaRecvType != "" {
			_, ost := p.NamedStruct(row.Pkg, row.ViaRecvType)
			if ost == nil || !resolveMutexChain(ost, row.Mutex) {
				r.Unresolved(rule, row.Pkg+"."+row.ViaRecvType+"."+row.Mutex, "owner type or its mutex not found")
				continue
			}
		} else if !resolveMutexChain(st, row.Mutex) {
			// the mutex was renamed (an embedded sync.RWMutex turned into a named field, say): the struct's
			// one and only mutex field is the guard
			alt := ""
			nMu := 0
			for j := 0; j < st.NumFields(); j++ {
				if isMutexType(st.Field(j).Type()) {
					nMu++
					alt = st.Field(j).Name()
				}
			}
			if nMu != 1 {
				r.Unresolved(rule, row.Pkg+"."+row.Type+"."+row.Mutex, "mutex field chain does not resolve to a mutex type")
				continue
			}
			r.Advise(fmt.Sprintf("%s: %s.%s: tabled mutex %s not found, using the struct's only mutex field %s", rule, row.Pkg, row.Type, row.Mutex, alt))
			row.Mutex = alt
		}
		for _, f := range row.Fields {
			var fv *types.Var
			for j := 0; j < st.NumFields(); j++ {
				if st.Field(j).Name() == f {
					fv = st.Field(j)
				}
			}
			if fv == nil {
				r.Unresolved(rule, row.Pkg+"."+row.Type+"."+f, "guarded field not found")
				continue
			}
			byVar[fv] = guardedField{row, f}
		}
		for m := range row.CH {
			if p.FuncDecl(row.Pkg, row.Type, m) == nil {
				// nothing to check under this name; a renamed or re-shaped helper is found by inference
				r.Advise(fmt.Sprintf("%s: tabled caller-holds helper %s.%s.%s does not exist (inference covers whatever replaced it)", rule, row.Pkg, row.Type, m))
			}
		}
		pkgs[row.Pkg] = true
	}
	var pkgList []string
	for k := range pkgs {
		pkgList = append(pkgList, k)
	}
	sort.Strings(pkgList)

	type aggKey struct{ fn, field, mode string }
	type agg struct {
		n     int
		bad   []string
		first string
	}
	var aggs map[aggKey]*agg
	var touched map[string]int // Type.field -> accesses seen

	// Caller-holds helpers are inferred, not only tabled: an UNEXPORTED method of the guarded type
	// whose only unprotected accesses go through its own receiver is accepted as a helper that
	// must be called with the lock held, and the obligation moves to every call site (checked by
	// the same rule, transitively). It must be called directly (no method value, no go/defer) and
	// have at least one call site. Extracting the body of a critical section into such a helper
	// is therefore behaviour-neutral for this rule, while a call site without the lock is reported.
	inferred := map[*GuardRow]map[string]LockMode{}
	for i := range rows {
		inferred[&rows[i]] = map[string]LockMode{}
	}
	chOf := func(row *GuardRow, m string) (LockMode, bool) {
		if v, ok := row.CH[m]; ok {
			return v, true
		}
		v, ok := inferred[row][m]
		return v, ok
	}
	type fnNeed struct {
		row      *GuardRow
		mode     LockMode
		recvOnly bool
		chain    string // the mutex relative to the function's receiver (".mutex", or ".inner.mutex" for a method of an embedding type)
	}
	// caller-holds helpers that are methods of a type EMBEDDING the guarded type: "Recv.method" -> what
	// the caller must hold, relative to the receiver
	type embCH struct {
		row   *GuardRow
		mode  LockMode
		chain string
	}
	ech := map[string]embCH{}
	// helpers of a type whose fields are guarded by its OWNER's mutex (GuardRow.ViaRecvType): "Type.method"
	// -> what the calling owner method must hold; ownerLock is the pseudo path of that mutex inside them
	const ownerLock = "<owner>."
	ownerCH := map[string]embCH{}
	var ownerNeeds map[string]embCH
	// recvRel: is `want` a mutex reached from the function's own receiver through fields? (chain, ok)
	recvRel := func(want, recvPath, mutex string) (string, bool) {
		if recvPath == "" || !strings.HasPrefix(want, recvPath+".") || !strings.HasSuffix(want, "."+mutex) {
			return "", false
		}
		return want[len(recvPath):], true
	}
	var needs map[string]*fnNeed          // funcKey -> unprotected receiver accesses
	var callSites map[string]int          // "Type.method" -> direct call sites seen
	var escapes map[string]string         // "Type.method" -> why it cannot be a helper
	fnDecls := map[string]*ast.FuncDecl{} // funcKey -> decl
	pseudoFns := map[string]string{}      // funcKey of a package-level function with a receiver-role parameter -> that parameter's type
	handledLits := map[string]map[*ast.FuncLit]bool{}
	for _, pkg := range pkgList {
		handledLits[pkg] = handledFactoryLits(p, pkg)
	}
	for round := 0; ; round++ {
		aggs = map[aggKey]*agg{}
		touched = map[string]int{}
		needs = map[string]*fnNeed{}
		ownerNeeds = map[string]embCH{}
		callSites = map[string]int{}
		escapes = map[string]string{}
		for _, pkg := range pkgList {
			pk := p.Pkg(pkg)
			info := pk.TypesInfo
			for _, fd := range p.AllFuncDecls(pkg) {
				if fd.Body == nil || strings.HasSuffix(p.Fset.Position(fd.Pos()).Filename, "_test.go") {
					continue
				}
				fkey := funcKey(pkg, fd)
				fnDecls[fkey] = fd
				recvT := recvTypeName(fd)
				entry := LockSet{}
				var recvPath string
				if fd.Recv != nil && len(fd.Recv.List) > 0 && len(fd.Recv.List[0].Names) > 0 {
					if obj := info.Defs[fd.Recv.List[0].Names[0]]; obj != nil {
						recvPath = fmt.Sprintf("%s@%d", obj.Name(), obj.Pos())
					}
				}
				// an unexported package-level function operating on one object of a type of this package
				// (a former method): that parameter plays the receiver's role
				if fd.Recv == nil && !fd.Name.IsExported() {
					if id := pseudoRecvIdent(fd, ""); id != nil {
						if pt := pseudoRecvType(fd); pt != "" && p.FuncDecl(pkg, pt, fd.Name.Name) == fd {
							if _, st := p.NamedStruct(pkg, pt); st != nil {
								if obj := info.Defs[id]; obj != nil {
									recvT = pt
									recvPath = fmt.Sprintf("%s@%d", obj.Name(), obj.Pos())
									pseudoFns[fkey] = pt
								}
							}
						}
					}
				}
				for i := range rows {
					row := &rows[i]
					if row.Pkg == pkg && (row.Type == recvT || (row.ViaRecvType != "" && row.ViaRecvType == recvT)) {
						if m, ok := chOf(row, fd.Name.Name); ok && recvPath != "" {
							entry = entry.with(recvPath+"."+row.Mutex, m)
						}
					}
				}
				if e, ok := ech[recvT+"."+fd.Name.Name]; ok && recvPath != "" {
					entry = entry.with(recvPath+e.chain, e.mode)
				}
				if e, ok := ownerCH[recvT+"."+fd.Name.Name]; ok {
					entry = entry.with(ownerLock+e.row.Mutex, e.mode)
				}
				// conditional-lock idiom (GuardRow.CondLock): function-like scopes (the declaration or
				// a function literal) that take the mutex under a tabled condition
				type condScope struct {
					from, to token.Pos
					path     string
				}
				var condScopes []condScope
				{
					var lits []*ast.FuncLit
					ast.Inspect(fd.Body, func(n ast.Node) bool {
						if l, ok := n.(*ast.FuncLit); ok {
							lits = append(lits, l)
						}
						return true
					})
					for i := range rows {
						row := &rows[i]
						if row.Pkg != pkg || len(row.CondLock) == 0 {
							continue
						}
						ast.Inspect(fd.Body, func(n ast.Node) bool {
							is, ok := n.(*ast.IfStmt)
							if !ok {
								return true
							}
							ck := exprKey(is.Cond)
							for sub := range row.CondLock {
								if !strings.Contains(ck, sub) {
									continue
								}
								for _, st := range is.Body.List {
									if es, ok := st.(*ast.ExprStmt); ok {
										if c, ok := es.X.(*ast.CallExpr); ok {
											if op, path := lockOp(info, c); op == "Lock" && strings.HasSuffix(path, "."+row.Mutex) {
												from, to := fd.Body.Pos(), fd.Body.End()
												for _, l := range lits {
													if l.Pos() <= is.Pos() && is.End() <= l.End() && l.Pos() >= from {
														from, to = l.Pos(), l.End()
													}
												}
												condScopes = append(condScopes, condScope{from, to, path})
											}
										}
									}
								}
							}
							return true
						})
					}
				}
				condLocked := func(pos token.Pos, want string) bool {
					for _, cs := range condScopes {
						if cs.from <= pos && pos <= cs.to && cs.path == want {
							return true
						}
					}
					return false
				}
				fresh := freshLocals(info, fd.Body)
				seen := map[ast.Node]bool{}
				fieldAlias = computeFieldAliases(info, fd.Body)
				opts := &FlowOpts{Info: info, SyncCallee: syncCalleeDefault(info), SkipLit: func(l *ast.FuncLit) bool { return handledLits[pkg][l] }}
				var chCore func(x ast.Node, rtName, rtPkgPath, fnName string, recvX ast.Expr, embChain string, stack []ast.Node, held LockSet)
				chCall := func(x ast.Node, se *ast.SelectorExpr, stack []ast.Node, held LockSet) {
					sel := info.Selections[se]
					if sel == nil || sel.Kind() != types.MethodVal {
						return
					}
					fn, _ := sel.Obj().(*types.Func)
					if fn == nil {
						return
					}
					fn = fn.Origin()
					rt := namedOfRecv(fn)
					if rt == nil || rt.Obj().Pkg() == nil {
						return
					}
					chCore(x, rt.Obj().Name(), rt.Obj().Pkg().Path(), funcName(fn), se.X, embeddedChain(sel, len(sel.Index())-1), stack, held)
				}
				// a call of a package-level function with a receiver-role parameter: a call of that
				// "method" on the argument
				chFuncCall := func(x *ast.CallExpr, stack []ast.Node, held LockSet) {
					fn := staticCallee(info, x)
					if fn == nil || fn.Pkg() == nil {
						return
					}
					if sig, _ := fn.Type().(*types.Signature); sig == nil || sig.Recv() != nil {
						return
					}
					hd := p.decls().byFunc[fn]
					if hd == nil || hd.Recv != nil || hd.Name.IsExported() {
						return
					}
					id := pseudoRecvIdent(hd, "")
					pt := pseudoRecvType(hd)
					if id == nil || pt == "" {
						return
					}
					idx, k := -1, 0
					for _, fl := range hd.Type.Params.List {
						for _, nm := range fl.Names {
							if nm == id {
								idx = k
							}
							k++
						}
					}
					if idx < 0 || idx >= len(x.Args) {
						return
					}
					arg := ast.Unparen(x.Args[idx])
					if u, isAddr := arg.(*ast.UnaryExpr); isAddr && u.Op == token.AND {
						arg = ast.Unparen(u.X)
					}
					chCore(x, pt, fn.Pkg().Path(), funcName(fn), arg, "", stack, held)
				}
				chCore = func(x ast.Node, rtName, rtPkgPath, fnName string, recvX ast.Expr, embChain string, stack []ast.Node, held LockSet) {
					if !seen[x] {
						mk := rtName + "." + fnName
						callSites[mk]++
						if len(stack) >= 1 {
							switch stack[len(stack)-1].(type) {
							case *ast.GoStmt:
								escapes[mk] = "started with go at " + p.posStr(x.Pos())
							case *ast.DeferStmt:
								// a deferred helper runs at the exit of this function, before every defer
								// registered earlier: a lock held at the defer statement is still held then,
								// unless this function also releases it explicitly later on
								explicit := false
								ast.Inspect(fd.Body, func(m ast.Node) bool {
									if es, ok := m.(*ast.ExprStmt); ok && es.Pos() > x.Pos() {
										if c2, ok := es.X.(*ast.CallExpr); ok {
											if op, _ := lockOp(info, c2); op == "Unlock" || op == "RUnlock" {
												explicit = true
											}
										}
									}
									return true
								})
								if explicit {
									escapes[mk] = "deferred at " + p.posStr(x.Pos()) + " in a function that unlocks explicitly afterwards"
								}
							}
						}
					}
					if e, isOwner := ownerCH[rtName+"."+fnName]; isOwner && !seen[x] {
						seen[x] = true
						k := aggKey{fkey, rtName + "." + fnName + "()", "CH-owner-" + e.mode.String()}
						a := aggs[k]
						if a == nil {
							a = &agg{first: p.posStr(x.Pos())}
							aggs[k] = a
						}
						a.n++
						want := ""
						switch {
						case recvT == e.row.ViaRecvType && recvPath != "":
							want = recvPath + "." + e.row.Mutex
						case recvT == e.row.Type:
							want = ownerLock + e.row.Mutex
							if held[want] < e.mode {
								if cur, has := ownerNeeds[fkey]; !has || cur.mode < e.mode {
									ownerNeeds[fkey] = embCH{e.row, e.mode, ""}
								}
							}
						default:
							a.bad = append(a.bad, fmt.Sprintf("%s: %s.%s (which touches fields guarded by the mutex of %s) is called outside a method of %s", p.posStr(x.Pos()), rtName, fnName, e.row.ViaRecvType, e.row.ViaRecvType))
							return
						}
						if held[want] < e.mode && !condLocked(x.Pos(), want) {
							if recvT == e.row.ViaRecvType {
								// an unexported method of the owner that relies on its own caller: the usual inference
								fnN := needs[fkey]
								if fnN == nil {
									fnN = &fnNeed{row: e.row, recvOnly: true}
									needs[fkey] = fnN
								}
								if e.mode > fnN.mode {
									fnN.mode = e.mode
								}
								fnN.chain = "." + e.row.Mutex
							}
							a.bad = append(a.bad, fmt.Sprintf("%s: call of %s.%s needs %s held %s, held: %s", p.posStr(x.Pos()), rtName, fnName, displayPath(want), e.mode, held))
						}
						return
					}
					if e, isEmb := ech[rtName+"."+fnName]; isEmb && !seen[x] {
						seen[x] = true
						k := aggKey{fkey, rtName + "." + fnName + "()", "CH-" + e.mode.String()}
						a := aggs[k]
						if a == nil {
							a = &agg{first: p.posStr(x.Pos())}
							aggs[k] = a
						}
						a.n++
						if ro := rootObj(info, recvX); ro != nil && fresh[ro] {
							// not yet shared - unless the mutex asked for belongs to shared state the fresh
							// object merely points to (`v := &visitor{m: m}`: v.m.mutex is m.mutex)
							if bp, okb := pathOf(info, recvX); !okb || strings.HasPrefix(canonPath(bp+embChain+e.chain), fmt.Sprintf("%s@%d", ro.Name(), ro.Pos())) {
								return
							}
						}
						base, okp := pathOf(info, recvX)
						if !okp {
							a.bad = append(a.bad, fmt.Sprintf("%s: receiver of caller-holds helper is not an access path", p.posStr(x.Pos())))
							return
						}
						base += embChain
						want := canonPath(base + e.chain)
						if held[want] < e.mode && !condLocked(x.Pos(), want) {
							fnN := needs[fkey]
							if fnN == nil {
								fnN = &fnNeed{row: e.row, recvOnly: true}
								needs[fkey] = fnN
							}
							if e.mode > fnN.mode {
								fnN.mode = e.mode
							}
							if chain, rel := recvRel(want, recvPath, e.row.Mutex); !rel || fnN.row.Mutex != e.row.Mutex || fnN.row.Pkg != e.row.Pkg || (fnN.chain != "" && fnN.chain != chain) {
								fnN.recvOnly = false
							} else {
								fnN.chain = chain
							}
							a.bad = append(a.bad, fmt.Sprintf("%s: call of caller-holds helper %s needs %s held %s, held: %s", p.posStr(x.Pos()), fnName, displayPath(want), e.mode, held))
						}
						return
					}
					for i := range rows {
						row := &rows[i]
						if fullPath(row.Pkg) != rtPkgPath || (row.Type != rtName && row.ViaRecvType != rtName) {
							continue
						}
						need, ok := chOf(row, fnName)
						if !ok {
							continue
						}
						if seen[x] {
							return
						}
						seen[x] = true
						k := aggKey{fkey, row.Type + "." + fnName + "()", "CH-" + need.String()}
						a := aggs[k]
						if a == nil {
							a = &agg{first: p.posStr(x.Pos())}
							aggs[k] = a
						}
						a.n++
						if ro := rootObj(info, recvX); ro != nil && fresh[ro] {
							if bp, okb := pathOf(info, recvX); !okb || strings.HasPrefix(canonPath(bp+embChain+"."+row.Mutex), fmt.Sprintf("%s@%d", ro.Name(), ro.Pos())) {
								return
							}
						}
						exKey2 := fd.Name.Name
						if recvT != "" {
							exKey2 = recvT + "." + fd.Name.Name
						}
						if _, ex := row.Exempt[exKey2]; ex {
							return
						}
						base, okp := pathOf(info, recvX)
						if !okp {
							a.bad = append(a.bad, fmt.Sprintf("%s: receiver of caller-holds helper is not an access path", p.posStr(x.Pos())))
							return
						}
						base += embChain
						want := canonPath(base + "." + row.Mutex)
						if held[want] < need && !condLocked(x.Pos(), want) {
							// a helper that calls a caller-holds helper on its own receiver is itself a
							// candidate caller-holds helper
							fnN := needs[fkey]
							if fnN == nil {
								fnN = &fnNeed{row: row, recvOnly: true}
								needs[fkey] = fnN
							}
							if need > fnN.mode {
								fnN.mode = need
							}
							if chain, rel := recvRel(want, recvPath, row.Mutex); !rel || (chain == "."+row.Mutex && recvT != row.Type && recvT != row.ViaRecvType) || fnN.row.Mutex != row.Mutex || fnN.row.Pkg != row.Pkg || (fnN.chain != "" && fnN.chain != chain) {
								fnN.recvOnly = false
							} else {
								fnN.chain = chain
							}
							a.bad = append(a.bad, fmt.Sprintf("%s: call of caller-holds helper %s needs %s held %s, held: %s", p.posStr(x.Pos()), fnName, displayPath(want), need, held))
						}
					}
				}
				fieldAccess := func(x *ast.SelectorExpr, sel *types.Selection, fv *types.Var, hops int, viaMethod string, stack []ast.Node, held LockSet) {
					gf, ok := byVar[fv.Origin()]
					if !ok {
						return
					}
					if seen[x] {
						return
					}
					seen[x] = true
					touched[gf.row.Type+"."+gf.field]++
					if ro := rootObj(info, x.X); ro != nil && fresh[ro] {
						if bp, okb := pathOf(info, x.X); !okb || strings.HasPrefix(canonPath(bp+embeddedChain(sel, hops)+"."+gf.row.Mutex), fmt.Sprintf("%s@%d", ro.Name(), ro.Pos())) {
							return
						}
					}
					muts := map[string]bool{}
					for _, m := range gf.row.Mutators[gf.field] {
						muts[m] = true
					}
					write := isWriteAccess(x, stack, muts)
					if viaMethod != "" {
						write = muts[viaMethod]
					}
					if !write && gf.row.WOnly {
						return
					}
					exKey := fd.Name.Name
					if recvT != "" {
						exKey = recvT + "." + fd.Name.Name
					}
					if _, ex := gf.row.Exempt[exKey]; ex {
						return
					}
					if _, ok := gf.row.ReadsOK[gf.field]; ok && !write {
						return
					}
					need := ModeR
					modeS := "R"
					if write {
						need = ModeW
						modeS = "W"
						if gf.row.WriteMode != ModeNone {
							need = gf.row.WriteMode // the structure synchronises itself; the guard only orders it against whole-structure operations
						}
					}
					k := aggKey{fkey, gf.row.Type + "." + gf.field, modeS}
					a := aggs[k]
					if a == nil {
						a = &agg{first: p.posStr(x.Pos())}
						aggs[k] = a
					}
					a.n++
					base, okp := pathOf(info, x.X)
					if !okp {
						a.bad = append(a.bad, fmt.Sprintf("%s: base of access is not an access path; cannot identify its mutex", p.posStr(x.Pos())))
						return
					}
					base += embeddedChain(sel, hops)
					want := canonPath(base + "." + gf.row.Mutex)
					if gf.row.ViaRecvType != "" {
						switch {
						case recvT == gf.row.ViaRecvType && recvPath != "":
							want = recvPath + "." + gf.row.Mutex
						case recvT == gf.row.Type && !fd.Name.IsExported():
							// an unexported helper of the guarded type itself (a link/unlink primitive of the
							// element): it runs under the OWNER's mutex, which its callers - methods of the
							// owner - must hold; inferred like any caller-holds helper
							want = ownerLock + gf.row.Mutex
							if held[want] < need {
								if cur, has := ownerNeeds[fkey]; !has || cur.mode < need {
									ownerNeeds[fkey] = embCH{gf.row, need, ""}
								}
							}
						default:
							// a function that is not a method of the owner but reaches one through its own
							// state (`r.notifier.mutex.Lock()` in a method of a handle that records its
							// owner): the owner's mutex it takes is the one wanted
							if w := ownerMutexTaken(info, fd, gf.row); w != "" {
								want = w
							} else {
								a.bad = append(a.bad, fmt.Sprintf("%s: %s.%s is accessed outside a method of %s, whose mutex guards it", p.posStr(x.Pos()), gf.row.Type, gf.field, gf.row.ViaRecvType))
								return
							}
						}
					}
					if held[want] >= need && len(stack) >= 1 {
						// the guarded container itself (map, slice, channel) handed out by a method that
						// takes the lock on its own: the caller walks or changes it after the unlock
						if _, isRet := stack[len(stack)-1].(*ast.ReturnStmt); isRet {
							switch fv.Type().Underlying().(type) {
							case *types.Map, *types.Slice:
								a.bad = append(a.bad, fmt.Sprintf("%s: %s is returned by reference from inside the critical section of %s: the caller reads or ranges over the guarded %s after the lock is released", p.posStr(x.Pos()), displayPath(base)+"."+gf.field, displayPath(want), map[bool]string{true: "map", false: "slice"}[isMapType(fv.Type())]))
							}
						}
					}
					if held[want] < need && !condLocked(x.Pos(), want) {
						a.bad = append(a.bad, fmt.Sprintf("%s: %s of %s needs %s held %s, held: %s", p.posStr(x.Pos()), map[bool]string{true: "write", false: "read"}[write], displayPath(base)+"."+gf.field, displayPath(want), need.String(), held))
						fnN := needs[fkey]
						if fnN == nil {
							fnN = &fnNeed{row: gf.row, recvOnly: true}
							needs[fkey] = fnN
						}
						if need > fnN.mode {
							fnN.mode = need
						}
						if chain, rel := recvRel(want, recvPath, gf.row.Mutex); !rel || (chain == "."+gf.row.Mutex && recvT != gf.row.Type && recvT != gf.row.ViaRecvType) || fnN.row.Mutex != gf.row.Mutex || fnN.row.Pkg != gf.row.Pkg || (fnN.chain != "" && fnN.chain != chain) {
							fnN.recvOnly = false
						} else {
							fnN.chain = chain
						}
					}
				}
				AnalyzeLocks(fd.Body, entry, opts, func(n ast.Node, stack []ast.Node, held LockSet) {
					switch x := n.(type) {
					case *ast.SelectorExpr:
						sel := info.Selections[x]
						if sel != nil && sel.Kind() == types.MethodVal {
							// a method promoted from an embedded guarded field (`s.Set(k)` for `s.Map.Set(k)`):
							// an access to that field through the method
							if idx := sel.Index(); len(idx) > 1 {
								t := sel.Recv()
								for h := 0; h < len(idx)-1; h++ {
									st := structOf(t)
									if st == nil {
										break
									}
									fld := st.Field(idx[h])
									if _, guarded := byVar[fld.Origin()]; guarded {
										fieldAccess(x, sel, fld, h, x.Sel.Name, stack, held)
									}
									t = fld.Type()
								}
							}
							// a method value that is not called on the spot escapes
							isCallee := false
							for i := len(stack) - 1; i >= 0; i-- {
								if _, isParen := stack[i].(*ast.ParenExpr); isParen {
									continue
								}
								if c, ok := stack[i].(*ast.CallExpr); ok && ast.Unparen(c.Fun) == ast.Expr(x) {
									isCallee = true
								}
								break
							}
							// handed to a locking wrapper (lockwrap.go): a call of the method with the wrapper's
							// lock held, not an escape
							if !isCallee {
								for i := len(stack) - 1; i >= 0; i-- {
									if _, isParen := stack[i].(*ast.ParenExpr); isParen {
										continue
									}
									if c, ok := stack[i].(*ast.CallExpr); ok {
										for ai, a := range c.Args {
											if ast.Unparen(a) == ast.Expr(x) {
												if ns, isWrap := wrapperLocksAt(info, c, ai, held); isWrap {
													chCall(x, x, nil, ns)
													return
												}
												// handed to a callee that runs its function argument before it returns
												// (the policy for function literals): a call with the current lockset
												if opts.SyncCallee != nil && opts.SyncCallee(c) {
													if _, isGo := stackHasGoOrDefer(stack, c); !isGo {
														chCall(x, x, nil, held)
														return
													}
												}
											}
										}
									}
									break
								}
							}
							if fn, _ := sel.Obj().(*types.Func); fn != nil && !isCallee {
								if rt := namedOfRecv(fn.Origin()); rt != nil {
									escapes[rt.Obj().Name()+"."+funcName(fn)] = "used as a method value at " + p.posStr(x.Pos())
								}
							}
							return
						}
						if sel == nil || sel.Kind() != types.FieldVal {
							return
						}
						// a field reached through an embedded guarded field (`s.Map` for `s.inner.Map`)
						if idx := sel.Index(); len(idx) > 1 {
							t := sel.Recv()
							for h := 0; h < len(idx)-1; h++ {
								st := structOf(t)
								if st == nil {
									break
								}
								fld := st.Field(idx[h])
								if _, guarded := byVar[fld.Origin()]; guarded {
									fieldAccess(x, sel, fld, h, "", stack, held)
								}
								t = fld.Type()
							}
						}
						fv, _ := sel.Obj().(*types.Var)
						if fv == nil {
							return
						}
						fieldAccess(x, sel, fv, len(sel.Index())-1, "", stack, held)
					case *ast.CallExpr:
						// call of a caller-holds helper
						se, ok := x.Fun.(*ast.SelectorExpr)
						if !ok {
							chFuncCall(x, stack, held)
							return
						}
						chCall(x, se, stack, held)
					case *ast.Ident:
						// a receiver-role function used as a value escapes
						if fn, isFn := info.Uses[x].(*types.Func); isFn {
							if hd := p.decls().byFunc[fn.Origin()]; hd != nil && hd.Recv == nil && !hd.Name.IsExported() {
								if pt := pseudoRecvType(hd); pt != "" {
									isCallee := false
									for i := len(stack) - 1; i >= 0; i-- {
										switch y := stack[i].(type) {
										case *ast.ParenExpr, *ast.IndexExpr, *ast.IndexListExpr:
											continue
										case *ast.CallExpr:
											if staticCallee(info, y) == fn.Origin() {
												f0 := ast.Unparen(y.Fun)
												switch z := f0.(type) {
												case *ast.IndexExpr:
													f0 = z.X
												case *ast.IndexListExpr:
													f0 = z.X
												}
												isCallee = ast.Unparen(f0) == ast.Expr(x)
											}
										}
										break
									}
									if !isCallee {
										escapes[pt+"."+funcName(fn)] = "used as a function value at " + p.posStr(x.Pos())
									}
								}
							}
						}
					}
				})
			}
		}
		// infer further caller-holds helpers from this round's failures
		changed := false
		for fkey, on := range ownerNeeds {
			fd := fnDecls[fkey]
			if fd == nil || (fd.Recv == nil && pseudoFns[fkey] == "") {
				continue
			}
			mk := recvTypeName(fd) + pseudoFns[fkey] + "." + fd.Name.Name
			if escapes[mk] != "" || callSites[mk] == 0 {
				continue
			}
			if cur, ok := ownerCH[mk]; !ok || cur.mode < on.mode {
				ownerCH[mk] = on
				changed = true
			}
		}
		for fkey, fnN := range needs {
			fd := fnDecls[fkey]
			if fd == nil || !fnN.recvOnly || fd.Name.IsExported() || (fd.Recv == nil && pseudoFns[fkey] == "") {
				continue
			}
			mk := recvTypeName(fd) + pseudoFns[fkey] + "." + fd.Name.Name
			if _, tabled := fnN.row.CH[fd.Name.Name]; tabled {
				continue
			}
			if escapes[mk] != "" || callSites[mk] == 0 {
				continue
			}
			rt := recvTypeName(fd) + pseudoFns[fkey]
			if fnN.chain != "" && fnN.chain != "."+fnN.row.Mutex {
				// a method of a type that embeds the guarded type
				if cur, ok := ech[mk]; !ok || cur.mode < fnN.mode {
					ech[mk] = embCH{fnN.row, fnN.mode, fnN.chain}
					changed = true
				}
				continue
			}
			// the helper holds for every row of this receiver type that is guarded by the same mutex
			for i := range rows {
				row := &rows[i]
				if row.Pkg != fnN.row.Pkg || row.Mutex != fnN.row.Mutex || (row.Type != rt && row.ViaRecvType != rt) {
					continue
				}
				if cur, ok := inferred[row][fd.Name.Name]; !ok || cur < fnN.mode {
					inferred[row][fd.Name.Name] = fnN.mode
					changed = true
				}
			}
		}
		if !changed || round > 20 {
			break
		}
	}
	for row, m := range inferred {
		for name, mode := range m {
			r.Advise(fmt.Sprintf("%s: %s.%s.%s inferred as caller-holds helper (%s.%s held %s at every call site)", rule, row.Pkg, row.Type, name, row.Type, row.Mutex, mode))
		}
	}
	var keys []aggKey
	for k := range aggs {
		keys = append(keys, k)
	}
	sort.Slice(keys, func(i, j int) bool {
		if keys[i].fn != keys[j].fn {
			return keys[i].fn < keys[j].fn
		}
		if keys[i].field != keys[j].field {
			return keys[i].field < keys[j].field
		}
		return keys[i].mode < keys[j].mode
	})
	for _, k := range keys {
		a := aggs[k]
		r.Count(a.n - 1)
		key := fmt.Sprintf("%s in %s [%s]", k.field, k.fn, k.mode)
		if len(a.bad) == 0 {
			r.Pass(rule, key, a.first, fmt.Sprintf("%d access(es) under the tabled mutex", a.n))
		} else {
			r.Fail(rule, key, a.first, a.bad[0], a.bad...)
		}
	}
	// per-row non-vacuity: every guarded field must be accessed somewhere
	for i := range rows {
		for _, f := range rows[i].Fields {
			if touched[rows[i].Type+"."+f] == 0 {
				r.Fail(rule, rows[i].Pkg+"."+rows[i].Type+"."+f, "-", "guarded field is never accessed: row matches nothing (vacuous)")
			}
		}
	}
}

func namedOfRecv(fn *types.Func) *types.Named {
	sig, _ := fn.Type().(*types.Signature)
	if sig == nil || sig.Recv() == nil {
		return nil
	}
	t := sig.Recv().Type()
	if p, ok := t.(*types.Pointer); ok {
		t = p.Elem()
	}
	n, _ := types.Unalias(t).(*types.Named)
	if n != nil {
		n = n.Origin()
	}
	return n
}

func resolveMutexChain(st *types.Struct, chain string) bool {
	parts := strings.Split(chain, ".")
	cur := st
	for i, part := range parts {
		var f *types.Var
		for j := 0; j < cur.NumFields(); j++ {
			if cur.Field(j).Name() == part {
				f = cur.Field(j)
			}
		}
		if f == nil {
			return false
		}
		if i == len(parts)-1 {
			return isMutexType(f.Type())
		}
		cur = structOf(f.Type())
		if cur == nil {
			return false
		}
	}
	return false
}

// asyncCallees: callees that do NOT run a function-literal argument synchronously inside
// the call. Everything else inherits the caller's lockset (ForEach, Range, Compute, Do,
// sort.Slice, lo.Map ... run their argument before returning).
func syncCalleeDefault(info *types.Info) func(*ast.CallExpr) bool {
	return func(call *ast.CallExpr) bool {
		name := calleeName(info, call)
		switch {
		case strings.HasSuffix(name, ".Submit"), strings.HasSuffix(name, ".DebounceFunc"),
			strings.HasSuffix(name, ".Hook"), strings.HasSuffix(name, ".OnTrigger"), strings.HasSuffix(name, ".OnUpdate"),
			strings.HasSuffix(name, ".OnUpdateOnce"), strings.HasSuffix(name, ".OnUpdateWithContext"),
			strings.HasSuffix(name, ".ExecuteAfter"), strings.HasSuffix(name, ".ExecuteAt"),
			strings.HasSuffix(name, ".OnSuccess"), strings.HasSuffix(name, ".OnError"), strings.HasSuffix(name, ".OnComplete"),
			strings.HasSuffix(name, ".AfterFunc"), strings.HasSuffix(name, ".Subscribe"), strings.HasSuffix(name, ".WithValue"),
			strings.HasSuffix(name, ".BackgroundWorker"), strings.HasSuffix(name, ".Callback"), strings.HasSuffix(name, ".NewTicker"):
			return false
		}
		return true
	}
}

// calleeName returns "pkgpath.Func" or "pkgpath.Type.Method" (or just the selector name).
func calleeName(info *types.Info, call *ast.CallExpr) string {
	var id *ast.Ident
	switch f := call.Fun.(type) {
	case *ast.Ident:
		id = f
	case *ast.SelectorExpr:
		id = f.Sel
	case *ast.IndexExpr:
		switch g := f.X.(type) {
		case *ast.Ident:
			id = g
		case *ast.SelectorExpr:
			id = g.Sel
		}
	case *ast.IndexListExpr:
		switch g := f.X.(type) {
		case *ast.Ident:
			id = g
		case *ast.SelectorExpr:
			id = g.Sel
		}
	}
	if id == nil {
		return ""
	}
	obj := info.Uses[id]
	if fn, ok := obj.(*types.Func); ok {
		fn = fn.Origin()
		if rt := namedOfRecv(fn); rt != nil {
			pp := ""
			if rt.Obj().Pkg() != nil {
				pp = rt.Obj().Pkg().Path()
			}
			return pp + "." + rt.Obj().Name() + "." + funcName(fn)
		}
		if sig, ok := fn.Type().(*types.Signature); ok && sig.Recv() != nil {
			// interface method
			return "iface." + funcName(fn)
		}
		if fn.Pkg() != nil {
			return fn.Pkg().Path() + "." + funcName(fn)
		}
		return funcName(fn)
	}
	return "." + id.Name
}

// ---- lock balance (no leaked lock at any exit) ----------------------------------------------

// checkLockBalance: in every function of pkgs, no mutex acquired in the function may still be
// held at a normal exit (may-analysis; deferred unlocks count as released). except: funcKey -> reason.
func checkLockBalance(r *Reporter, p *Prog, rule string, pkgs []string, except map[string]string, only func(fkey string) bool) {
	checkValueReceiverWrites(r, p, pkgs, only)
	for _, pkg := range pkgs {
		pk := p.Pkg(pkg)
		if pk == nil {
			r.Unresolved(rule, pkg, "package not loaded")
			continue
		}
		info := pk.TypesInfo
		for _, fd := range p.AllFuncDecls(pkg) {
			if fd.Body == nil || strings.HasSuffix(p.Fset.Position(fd.Pos()).Filename, "_test.go") {
				continue
			}
			fkey := funcKey(pkg, fd)
			if only != nil && !only(fkey) {
				continue
			}
			hasLock := false
			ast.Inspect(fd.Body, func(n ast.Node) bool {
				if c, ok := n.(*ast.CallExpr); ok {
					if op, _ := lockOp(info, c); op != "" {
						hasLock = true
					}
				}
				return true
			})
			if !hasLock {
				continue
			}
			if _, ok := except[fkey]; ok {
				r.Advise(rule + ": " + fkey + " exempt: " + except[fkey])
				continue
			}
			var bad []string
			checkBody := func(body *ast.BlockStmt) {
				opts := &FlowOpts{Info: info, May: true}
				opts.OnExit = func(pos token.Pos, held LockSet) {
					if len(held) > 0 {
						bad = append(bad, fmt.Sprintf("%s: exit with %s possibly still held", p.posStr(pos), held))
					}
				}
				AnalyzeLocks(body, LockSet{}, opts, func(ast.Node, []ast.Node, LockSet) {})
			}
			checkBody(fd.Body)
			// function literals are separate functions for balance purposes
			ast.Inspect(fd.Body, func(n ast.Node) bool {
				if lit, ok := n.(*ast.FuncLit); ok {
					checkBody(lit.Body)
				}
				return true
			})
			sort.Strings(bad)
			bad = dedupe(bad)
			if len(bad) == 0 {
				r.Pass(rule, fkey, p.posStr(fd.Pos()), "every acquired mutex is released on all exits")
			} else {
				r.Fail(rule, fkey, p.posStr(fd.Pos()), bad[0], bad...)
			}
		}
	}
}

func dedupe(s []string) []string {
	var out []string
	for i, x := range s {
		if i == 0 || x != s[i-1] {
			out = append(out, x)
		}
	}
	return out
}

// ---- lock order -----------------------------------------------------------------------------

// lockClassOf names the lock class (owner type + field chain) of a mutex operation.
func lockClassOf(info *types.Info, call *ast.CallExpr) string {
	se, ok := call.Fun.(*ast.SelectorExpr)
	if !ok {
		return ""
	}
	sel := info.Selections[se]
	if sel == nil {
		return ""
	}
	chain := embeddedChain(sel, len(sel.Index())-1)
	if chain != "" {
		return typeName(info.TypeOf(se.X)) + chain
	}
	// se.X is itself the mutex expression
	switch x := ast.Unparen(se.X).(type) {
	case *ast.SelectorExpr:
		s2 := info.Selections[x]
		if s2 != nil && s2.Kind() == types.FieldVal {
			owner := typeName(info.TypeOf(x.X))
			return owner + embeddedChain(s2, len(s2.Index())-1) + "." + x.Sel.Name
		}
	case *ast.Ident:
		return "var " + x.Name
	}
	return "?"
}

func typeName(t types.Type) string {
	if t == nil {
		return "?"
	}
	for {
		if p, ok := t.(*types.Pointer); ok {
			t = p.Elem()
			continue
		}
		break
	}
	t = types.Unalias(t)
	if n, ok := t.(*types.Named); ok {
		pp := ""
		if n.Obj().Pkg() != nil {
			pp = n.Obj().Pkg().Name() + "."
		}
		return pp + n.Obj().Name()
	}
	return t.String()
}

type acq struct {
	class string
	rel   string // path relative to the function's receiver (".mutex"), "" if not receiver-rooted
	mode  LockMode
	where string
}

type lockOrderOpts struct {
	Pkgs           []string
	AllowSameClass map[string]string // class -> reason why nesting two instances of this class is by design
	Ignore         map[string]string // funcKey -> reason
}

// checkLockOrder builds the lock-class order graph of the packages (with transitive callee
// summaries) and reports re-acquisition of a held mutex and class cycles.
func checkLockOrder(r *Reporter, p *Prog, rule string, o lockOrderOpts) {
	type fnInfo struct {
		pkg      string
		fd       *ast.FuncDecl
		info     *types.Info
		recvRoot string
		direct   []acq
		calls    []*types.Func
		summary  map[string]acq // key class|rel|mode
	}
	fns := map[*types.Func]*fnInfo{}
	var order []*types.Func
	for _, pkg := range o.Pkgs {
		pk := p.Pkg(pkg)
		if pk == nil {
			r.Unresolved(rule, pkg, "package not loaded")
			continue
		}
		for _, fd := range p.AllFuncDecls(pkg) {
			if fd.Body == nil || strings.HasSuffix(p.Fset.Position(fd.Pos()).Filename, "_test.go") {
				continue
			}
			obj, _ := pk.TypesInfo.Defs[fd.Name].(*types.Func)
			if obj == nil {
				continue
			}
			fi := &fnInfo{pkg: pkg, fd: fd, info: pk.TypesInfo, summary: map[string]acq{}}
			if fd.Recv != nil && len(fd.Recv.List) > 0 && len(fd.Recv.List[0].Names) > 0 {
				if ro := pk.TypesInfo.Defs[fd.Recv.List[0].Names[0]]; ro != nil {
					fi.recvRoot = fmt.Sprintf("%s@%d", ro.Name(), ro.Pos())
				}
			}
			fns[obj] = fi
			order = append(order, obj)
		}
	}
	relOf := func(fi *fnInfo, path string) string {
		if fi.recvRoot != "" && strings.HasPrefix(path, fi.recvRoot+".") {
			return strings.TrimPrefix(path, fi.recvRoot)
		}
		return ""
	}
	// pass 1: direct acquisitions and static callees (closures included, attributed to the parent)
	for _, obj := range order {
		fi := fns[obj]
		ast.Inspect(fi.fd.Body, func(n ast.Node) bool {
			if _, isGo := n.(*ast.GoStmt); isGo {
				return false // runs on another goroutine: not part of this function's synchronous lock footprint
			}
			c, ok := n.(*ast.CallExpr)
			if !ok {
				return true
			}
			if op, path := lockOp(fi.info, c); op == "Lock" || op == "RLock" {
				m := ModeW
				if op == "RLock" {
					m = ModeR
				}
				a := acq{class: lockClassOf(fi.info, c), rel: relOf(fi, path), mode: m, where: p.posStr(c.Pos())}
				fi.direct = append(fi.direct, a)
				fi.summary[a.class+"|"+a.rel+"|"+a.mode.String()] = a
				return true
			}
			if callee := staticCallee(fi.info, c); callee != nil {
				if _, ok := fns[callee]; ok {
					fi.calls = append(fi.calls, callee)
				}
			}
			return true
		})
	}
	// calleeAcqs translates a callee's summary to the caller's frame
	translateSel := func(fi *fnInfo, se *ast.SelectorExpr, callee *types.Func) []acq {
		var out []acq
		cs := fns[callee]
		recvPath := ""
		if se != nil {
			if sel := fi.info.Selections[se]; sel != nil && sel.Kind() == types.MethodVal {
				if bp, ok := pathOf(fi.info, se.X); ok {
					recvPath = bp + embeddedChain(sel, len(sel.Index())-1)
				}
			}
		}
		for _, a := range cs.summary {
			b := a
			if a.rel != "" && recvPath != "" {
				b.rel = canonPath(recvPath + a.rel) // absolute in caller frame
			} else {
				b.rel = ""
			}
			out = append(out, b)
		}
		sort.Slice(out, func(i, j int) bool { return out[i].class+out[i].rel < out[j].class+out[j].rel })
		return out
	}
	translate := func(fi *fnInfo, c *ast.CallExpr, callee *types.Func) []acq {
		se, _ := c.Fun.(*ast.SelectorExpr)
		return translateSel(fi, se, callee)
	}
	// a method value handed to a callee that runs its function argument before returning (the policy
	// for literals): the method it denotes, or nil
	syncMethodValue := func(fi *fnInfo, opts *FlowOpts, se *ast.SelectorExpr, stack []ast.Node) *types.Func {
		sel := fi.info.Selections[se]
		if sel == nil || sel.Kind() != types.MethodVal {
			return nil
		}
		fn, _ := sel.Obj().(*types.Func)
		if fn == nil || fns[fn.Origin()] == nil {
			return nil
		}
		for i := len(stack) - 1; i >= 0; i-- {
			if _, isParen := stack[i].(*ast.ParenExpr); isParen {
				continue
			}
			c, ok := stack[i].(*ast.CallExpr)
			if !ok || ast.Unparen(c.Fun) == ast.Expr(se) {
				return nil
			}
			for _, a := range c.Args {
				if ast.Unparen(a) == ast.Expr(se) && opts.SyncCallee != nil && opts.SyncCallee(c) {
					if _, isGo := stackHasGoOrDefer(stack, c); !isGo {
						return fn.Origin()
					}
				}
			}
			return nil
		}
		return nil
	}
	// fixpoint of summaries (receiver-relative where the call is on the receiver)
	for changed, rounds := true, 0; changed && rounds < 50; rounds++ {
		changed = false
		for _, obj := range order {
			fi := fns[obj]
			ast.Inspect(fi.fd.Body, func(n ast.Node) bool {
				if _, isGo := n.(*ast.GoStmt); isGo {
					return false
				}
				c, ok := n.(*ast.CallExpr)
				if !ok {
					return true
				}
				merge := func(as []acq) {
					for _, a := range as {
						b := acq{class: a.class, mode: a.mode, where: a.where}
						if a.rel != "" {
							b.rel = relOf(fi, a.rel)
						}
						k := b.class + "|" + b.rel + "|" + b.mode.String()
						if _, ok := fi.summary[k]; !ok {
							fi.summary[k] = b
							changed = true
						}
					}
				}
				// method values among the arguments of a synchronous callee run inside this call
				sync := syncCalleeDefault(fi.info)
				for _, a := range c.Args {
					if mse, isSel := ast.Unparen(a).(*ast.SelectorExpr); isSel && sync(c) {
						if sel := fi.info.Selections[mse]; sel != nil && sel.Kind() == types.MethodVal {
							if mfn, _ := sel.Obj().(*types.Func); mfn != nil && fns[mfn.Origin()] != nil {
								merge(translateSel(fi, mse, mfn.Origin()))
							}
						}
					}
				}
				callee := staticCallee(fi.info, c)
				if callee == nil || fns[callee] == nil {
					return true
				}
				merge(translate(fi, c, callee))
				return true
			})
		}
	}
	// pass 2: edges
	type edge struct{ from, to string }
	edges := map[edge]string{}
	classOfPath := map[string]string{}
	nEdgesSites := 0
	for _, obj := range order {
		fi := fns[obj]
		fkey := funcKey(fi.pkg, fi.fd)
		if _, ok := o.Ignore[fkey]; ok {
			continue
		}
		opts := &FlowOpts{Info: fi.info, SyncCallee: syncCalleeDefault(fi.info)}
		// first learn path->class for this function
		ast.Inspect(fi.fd.Body, func(n ast.Node) bool {
			if c, ok := n.(*ast.CallExpr); ok {
				if op, path := lockOp(fi.info, c); op != "" {
					classOfPath[path] = lockClassOf(fi.info, c)
				}
			}
			return true
		})
		seen := map[ast.Node]bool{}
		fresh := freshLocals(fi.info, fi.fd.Body)
		fieldAlias = computeFieldAliases(fi.info, fi.fd.Body)
		AnalyzeLocks(fi.fd.Body, LockSet{}, opts, func(n ast.Node, stack []ast.Node, held LockSet) {
			var c *ast.CallExpr
			var news []acq
			var site ast.Node
			viaName := ""
			// mutexes of an object still private to this function are not ordered against anything - but
			// a mutex the fresh object merely points to (a field aliased to shared state) is
			dropFresh := func(recvX ast.Expr, as []acq) []acq {
				ro := rootObj(fi.info, recvX)
				if ro == nil || !fresh[ro] {
					return as
				}
				tok := fmt.Sprintf("%s@%d", ro.Name(), ro.Pos())
				var out []acq
				for _, a := range as {
					if a.rel != "" && !strings.HasPrefix(a.rel, tok) {
						out = append(out, a)
					}
				}
				return out
			}
			switch x := n.(type) {
			case *ast.SelectorExpr:
				if len(held) == 0 || seen[x] {
					return
				}
				mfn := syncMethodValue(fi, opts, x, stack)
				if mfn == nil {
					return
				}
				seen[x] = true
				news = dropFresh(x.X, translateSel(fi, x, mfn))
				site, viaName = x, mfn.Name()
			case *ast.CallExpr:
				c = x
				if len(held) == 0 || seen[c] {
					return
				}
				if len(stack) > 0 {
					if _, isDefer := stack[len(stack)-1].(*ast.DeferStmt); isDefer {
						return
					}
				}
				seen[c] = true
				site, viaName = c, calleeOrLock(fi.info, c)
				if op, path := lockOp(fi.info, c); op == "Lock" || op == "RLock" {
					m := ModeW
					if op == "RLock" {
						m = ModeR
					}
					news = append(news, acq{class: lockClassOf(fi.info, c), rel: path, mode: m, where: p.posStr(c.Pos())})
				} else if callee := staticCallee(fi.info, c); callee != nil && fns[callee] != nil {
					news = translate(fi, c, callee)
					if se, ok := c.Fun.(*ast.SelectorExpr); ok {
						news = dropFresh(se.X, news)
					}
				}
			default:
				return
			}
			for _, a := range news {
				for hp, hm := range held {
					hc := classOfPath[hp]
					if hc == "" {
						hc = "path " + displayPath(hp)
					}
					nEdgesSites++
					if a.rel != "" && a.rel == hp {
						// same mutex instance re-acquired
						if a.mode == ModeW || hm == ModeW || (a.mode == ModeR && hm == ModeR) {
							kind := "re-acquisition of a held mutex (self-deadlock)"
							if a.mode == ModeR && hm == ModeR {
								kind = "recursive read lock (deadlocks when a writer queues between the two acquisitions)"
							}
							r.Fail(rule, fmt.Sprintf("reacquire %s in %s via %s", hc, fkey, viaName), p.posStr(site.Pos()),
								fmt.Sprintf("%s: %s already held %s, acquired again %s at %s", kind, displayPath(hp), hm, a.mode, a.where))
						}
						continue
					}
					e := edge{hc, a.class}
					if _, ok := edges[e]; !ok {
						edges[e] = fmt.Sprintf("%s (%s holds %s, acquires %s at %s)", p.posStr(site.Pos()), fkey, displayPath(hp), a.class, a.where)
					}
				}
			}
		})
		fieldAlias = map[string]string{}
	}
	r.Count(nEdgesSites)
	// cycles
	adj := map[string][]string{}
	var es []edge
	for e := range edges {
		es = append(es, e)
	}
	sort.Slice(es, func(i, j int) bool { return es[i].from+es[i].to < es[j].from+es[j].to })
	for _, e := range es {
		if e.from == e.to {
			if reason, ok := o.AllowSameClass[e.from]; ok {
				r.Advise(rule + ": same-class nesting " + e.from + " tolerated: " + reason)
				continue
			}
			r.Fail(rule, "same-class nesting "+e.from, edges[e], "two instances of one lock class are nested (AB-BA between instances, or self-deadlock when they alias): "+edges[e])
			continue
		}
		adj[e.from] = append(adj[e.from], e.to)
	}
	// report each edge as discharged unless it lies on a cycle
	onCycle := map[edge]bool{}
	for _, e := range es {
		if e.from == e.to {
			continue
		}
		if reaches(adj, e.to, e.from, map[string]bool{}) {
			onCycle[e] = true
		}
	}
	for _, e := range es {
		if e.from == e.to {
			continue
		}
		key := "order " + e.from + " -> " + e.to
		if onCycle[e] {
			r.Fail(rule, key, edges[e], "lock-class cycle: "+e.to+" is also acquired before "+e.from+"; witness: "+edges[e])
		} else {
			r.Pass(rule, key, edges[e], "edge lies on no cycle")
		}
	}
	r.Pass(rule, "graph "+strings.Join(o.Pkgs, ","), "-", fmt.Sprintf("%d functions, %d lock-order edges examined", len(order), len(es)))
}

func calleeOrLock(info *types.Info, c *ast.CallExpr) string {
	if op, _ := lockOp(info, c); op != "" {
		return op
	}
	if f := staticCallee(info, c); f != nil {
		return f.Name()
	}
	return "call"
}

func reaches(adj map[string][]string, from, to string, seen map[string]bool) bool {
	if from == to {
		return true
	}
	if seen[from] {
		return false
	}
	seen[from] = true
	for _, n := range adj[from] {
		if reaches(adj, n, to, seen) {
			return true
		}
	}
	return false
}

// staticCallee resolves a call to a declared function/method (generic origin), or nil.
func staticCallee(info *types.Info, c *ast.CallExpr) *types.Func {
	var id *ast.Ident
	fun := ast.Unparen(c.Fun)
	switch f := fun.(type) {
	case *ast.IndexExpr:
		fun = f.X
	case *ast.IndexListExpr:
		fun = f.X
	}
	switch f := fun.(type) {
	case *ast.Ident:
		id = f
	case *ast.SelectorExpr:
		id = f.Sel
	}
	if id == nil {
		return nil
	}
	if fn, ok := info.Uses[id].(*types.Func); ok {
		return fn.Origin()
	}
	return nil
}

func isMapType(t types.Type) bool {
	_, ok := t.Underlying().(*types.Map)
	return ok
}

// stackHasGoOrDefer: is call c the call of a go or defer statement on the stack?
func stackHasGoOrDefer(stack []ast.Node, c *ast.CallExpr) (ast.Node, bool) {
	for _, n := range stack {
		switch x := n.(type) {
		case *ast.GoStmt:
			if x.Call == c {
				return x, true
			}
		case *ast.DeferStmt:
			if x.Call == c {
				return x, true
			}
		}
	}
	return nil, false
}

// checkValueReceiverWrites: state/value-receiver-write. A method declared with a VALUE receiver that
// assigns a field of its receiver (or increments it) updates a copy; unless the method hands the
// modified copy on (returns it, stores it, passes it as an argument - the builder idiom
// `func (ts T) WithX(x) T { ts.x = x; return ts }`), the update is lost: the object the caller holds is
// unchanged. Every property about state that must change (a lease that must be emptied, an error that
// must be recorded, an entry that must be removed) has this as a necessary condition of the methods
// of the anchored packages; struct-with-method conversions of closures are where it goes wrong.
func checkValueReceiverWrites(r *Reporter, p *Prog, pkgs []string, only func(fkey string) bool) {
	for _, pkg := range pkgs {
		pk := p.Pkg(pkg)
		if pk == nil {
			continue
		}
		info := pk.TypesInfo
		n := 0
		var bad []string
		for _, fd := range p.AllFuncDecls(pkg) {
			if fd.Body == nil || fd.Recv == nil || len(fd.Recv.List) != 1 || strings.HasSuffix(p.Fset.Position(fd.Pos()).Filename, "_test.go") {
				continue
			}
			if _, isPtr := fd.Recv.List[0].Type.(*ast.StarExpr); isPtr {
				continue
			}
			ro := recvObj(info, fd)
			if ro == nil {
				continue
			}
			// reference-like receivers (maps, slices, channels, pointers, interfaces, funcs) are not copies
			switch ro.Type().Underlying().(type) {
			case *types.Struct, *types.Array:
			default:
				continue
			}
			n++
			var writes []string
			handedOn := false
			var stack []ast.Node
			ast.Inspect(fd.Body, func(m ast.Node) bool {
				if m == nil {
					stack = stack[:len(stack)-1]
					return true
				}
				stack = append(stack, m)
				switch x := m.(type) {
				case *ast.AssignStmt:
					for _, l := range x.Lhs {
						if se, ok := ast.Unparen(l).(*ast.SelectorExpr); ok && rootObj(info, se.X) == ro {
							if sel := info.Selections[se]; sel != nil && sel.Kind() == types.FieldVal && !throughPointer(info, se.X) {
								writes = append(writes, p.posStr(l.Pos())+" "+exprKey(l))
							}
						}
						if ix, ok := ast.Unparen(l).(*ast.IndexExpr); ok && objOfIdent(info, ix.X) == ro {
							if _, isArr := ro.Type().Underlying().(*types.Array); isArr {
								writes = append(writes, p.posStr(l.Pos())+" "+exprKey(l))
							}
						}
					}
				case *ast.IncDecStmt:
					if se, ok := ast.Unparen(x.X).(*ast.SelectorExpr); ok && rootObj(info, se.X) == ro && !throughPointer(info, se.X) {
						if sel := info.Selections[se]; sel != nil && sel.Kind() == types.FieldVal {
							writes = append(writes, p.posStr(x.Pos())+" "+exprKey(x.X)+x.Tok.String())
						}
					}
				case *ast.Ident:
					// the receiver as a whole value: returned, stored, passed on, or its address taken
					if info.Uses[x] != ro || len(stack) < 2 {
						return true
					}
					switch par := stack[len(stack)-2].(type) {
					case *ast.SelectorExpr:
						// a field or method of it: not a use of the whole value (pointer-receiver method
						// calls on the addressable copy are writes to the copy as well, but they do not
						// hand the copy on)
						_ = par
					default:
						handedOn = true
					}
				}
				return true
			})
			if len(writes) > 0 && !handedOn {
				bad = append(bad, fmt.Sprintf("%s.%s has a value receiver and assigns %s: the caller's object is not changed", recvTypeName(fd), fd.Name.Name, writes[0]))
			}
		}
		if len(bad) > 0 {
			r.Fail("state/value-receiver-write", pkg, "-", bad[0], bad...)
		} else {
			r.Pass("state/value-receiver-write", pkg, "-", fmt.Sprintf("%d method(s) with a struct value receiver: none assigns a field of a receiver copy it does not hand on", n))
		}
	}
}

// throughPointer: the path from the root variable to e passes a pointer (the write lands in the shared
// pointee, not in the copy).
func throughPointer(info *types.Info, e ast.Expr) bool {
	for {
		switch x := ast.Unparen(e).(type) {
		case *ast.SelectorExpr:
			if t := info.TypeOf(x); t != nil {
				if _, isPtr := t.Underlying().(*types.Pointer); isPtr {
					return true
				}
			}
			e = x.X
		case *ast.StarExpr:
			return true
		case *ast.IndexExpr:
			if t := info.TypeOf(x.X); t != nil {
				switch t.Underlying().(type) {
				case *types.Slice, *types.Map, *types.Pointer:
					return true
				}
			}
			e = x.X
		default:
			return false
		}
	}
}

// ownerMutexTaken: the one mutex of row's owner type (GuardRow.ViaRecvType) that fd locks itself,
// as a canonical path ("" if it locks none or several).
func ownerMutexTaken(info *types.Info, fd *ast.FuncDecl, row *GuardRow) string {
	found := map[string]bool{}
	ast.Inspect(fd.Body, func(n ast.Node) bool {
		if _, isLit := n.(*ast.FuncLit); isLit {
			return false
		}
		c, ok := n.(*ast.CallExpr)
		if !ok {
			return true
		}
		op, path := lockOp(info, c)
		if op != "Lock" && op != "RLock" {
			return true
		}
		se, ok := ast.Unparen(c.Fun).(*ast.SelectorExpr)
		if !ok {
			return true
		}
		mx, ok := ast.Unparen(se.X).(*ast.SelectorExpr)
		if !ok || mx.Sel.Name != row.Mutex {
			return true
		}
		if t := info.TypeOf(mx.X); t != nil && shortTypeName(typeName(t)) == row.ViaRecvType {
			found[canonPath(path)] = true
		}
		return true
	})
	if len(found) != 1 {
		return ""
	}
	for k := range found {
		return k
	}
	return ""
}
