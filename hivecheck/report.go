package main

import (
	"crypto/sha1"
	"encoding/json"
	"fmt"
	"os"
	"path/filepath"
	"sort"
	"strings"
	"time"
)

var verifRoot = envOr("HIVECHECK_VERIF", "/verif")

// Obligation is one rule instance applied to one construct.
type Obligation struct {
	Rule   string   `json:"rule"`
	Key    string   `json:"key"` // stable construct key (never a line number)
	Pos    string   `json:"pos"`
	OK     bool     `json:"ok"`
	Detail string   `json:"detail,omitempty"`
	Path   []string `json:"path,omitempty"`
	Known  bool     `json:"known_finding,omitempty"`
}

type Reporter struct {
	Prop       string
	Obls       []Obligation
	Evals      int            // constructs examined (call sites, accesses, paths, cases)
	instances  map[string]int // rule instance -> matched constructs
	Analysed   map[string]any
	Advisory   []string
	seenKey    map[string]bool
	Floors     map[string]int
	floorFails []string
}

func newReporter(prop string) *Reporter {
	return &Reporter{Prop: prop, instances: map[string]int{}, Analysed: map[string]any{}, seenKey: map[string]bool{}, Floors: map[string]int{}}
}

// Obl records an obligation. Duplicate (rule,key) pairs get a numeric suffix in
// source order so that keys stay unique and stable.
func (r *Reporter) Obl(rule, key, pos string, ok bool, detail string, path ...string) {
	k := rule + "|" + key
	if r.seenKey[k] {
		for i := 2; ; i++ {
			k2 := fmt.Sprintf("%s#%d", key, i)
			if !r.seenKey[rule+"|"+k2] {
				key = k2
				k = rule + "|" + k2
				break
			}
		}
	}
	r.seenKey[k] = true
	r.Obls = append(r.Obls, Obligation{Rule: rule, Key: key, Pos: pos, OK: ok, Detail: detail, Path: path})
	r.instances[rule]++
	r.Evals++
}

func (r *Reporter) Pass(rule, key, pos, detail string) { r.Obl(rule, key, pos, true, detail) }
func (r *Reporter) Fail(rule, key, pos, detail string, path ...string) {
	r.Obl(rule, key, pos, false, detail, path...)
}

// Anchor failure: a table row that does not resolve is never a silent pass.
func (r *Reporter) Unresolved(rule, key, what string) {
	r.Obl(rule, key, "-", false, "anchor unresolved: "+what)
}

// Count adds examined constructs that are not obligations themselves.
func (r *Reporter) Count(n int) { r.Evals += n }

// Floor demands that a rule matched at least n constructs (non-vacuity).
func (r *Reporter) Floor(rule string, n int) { r.Floors[rule] = n }

func (r *Reporter) Advise(s string) { r.Advisory = append(r.Advisory, s) }

// ---- known findings -----------------------------------------------------------------

type KnownFinding struct {
	Property string `json:"property"`
	Rule     string `json:"rule"`
	Key      string `json:"key"`
	What     string `json:"what"`
	Status   string `json:"status"` // "known" or "fixed"
	Commit   string `json:"commit,omitempty"`
}

func loadKnown() ([]KnownFinding, error) {
	b, err := os.ReadFile(filepath.Join(verifRoot, "known_findings.json"))
	if err != nil {
		if os.IsNotExist(err) {
			return nil, nil
		}
		return nil, err
	}
	var out struct {
		Findings []KnownFinding `json:"findings"`
	}
	if err := json.Unmarshal(b, &out); err != nil {
		return nil, err
	}
	return out.Findings, nil
}

// ---- finishing ------------------------------------------------------------------------

type propMeta struct {
	Explanation string
	NotDecided  string
	Assumptions []string
}

func (r *Reporter) Finish(tier string, seed int, meta propMeta, started time.Time) int {
	for rule, n := range r.Floors {
		if r.instances[rule] < n {
			r.Obl("non-vacuity", rule, "-", false, fmt.Sprintf("rule %s matched %d constructs, at least %d confirmed by hand on the pinned tree", rule, r.instances[rule], n))
		}
	}
	known, kerr := loadKnown()
	if kerr != nil {
		r.Obl("known-findings-file", "known_findings.json", "-", false, kerr.Error())
	}
	sort.SliceStable(r.Obls, func(i, j int) bool {
		if r.Obls[i].Rule != r.Obls[j].Rule {
			return r.Obls[i].Rule < r.Obls[j].Rule
		}
		return r.Obls[i].Key < r.Obls[j].Key
	})
	if verbose {
		for _, o := range r.Obls {
			st := "ok  "
			if !o.OK {
				st = "FAIL"
			}
			fmt.Printf("  [%s] %s | %s | %s | %s\n", st, o.Rule, o.Key, o.Pos, o.Detail)
		}
	}
	violations := 0
	discharged := 0
	var knownMatched []string
	os.MkdirAll(filepath.Join(verifRoot, "replays"), 0o755)
	for i := range r.Obls {
		o := &r.Obls[i]
		if o.OK {
			discharged++
			continue
		}
		matched := false
		for _, k := range known {
			if k.Status == "known" && k.Property == r.Prop && k.Rule == o.Rule && k.Key == stripConfig(o.Key) {
				matched = true
				fmt.Printf("KNOWN-FINDING: property=%s %s %s at %s: %s\n", r.Prop, o.Rule, o.Key, o.Pos, k.What)
				knownMatched = append(knownMatched, o.Rule+" "+o.Key)
			}
		}
		if matched {
			o.Known = true
			continue
		}
		violations++
		h := sha1.Sum([]byte(o.Rule + "|" + o.Key))
		replay := filepath.Join(verifRoot, "replays", fmt.Sprintf("%s-%x.json", r.Prop, h[:6]))
		rb, _ := json.MarshalIndent(map[string]any{
			"property": r.Prop, "rule": o.Rule, "construct": o.Key, "position": o.Pos, "detail": o.Detail, "path": o.Path,
			"how_to_reproduce": fmt.Sprintf("cd /verif && ./check %s %s   # re-analyses /repo; this obligation is reported again while the construct is unchanged", r.Prop, tier),
		}, "", " ")
		os.WriteFile(replay, append(rb, '\n'), 0o644)
		fmt.Printf("  FAILED %s %s at %s: %s\n", o.Rule, o.Key, o.Pos, o.Detail)
		for _, p := range o.Path {
			fmt.Printf("      %s\n", p)
		}
		fmt.Printf("VIOLATION property=%s replay=%s\n", r.Prop, replay)
	}
	// evidence
	var samples []any
	perRule := map[string]int{}
	for _, o := range r.Obls {
		if perRule[o.Rule] < 2 && len(samples) < 40 {
			perRule[o.Rule]++
			samples = append(samples, o)
		}
	}
	inst := map[string]int{}
	for k, v := range r.instances {
		inst[k] = v
	}
	cov := map[string]any{
		"explanation":            meta.Explanation,
		"not_decided":            meta.NotDecided,
		"obligations":            len(r.Obls),
		"discharged":             discharged,
		"evaluations":            r.Evals,
		"distinct_nontrivial":    len(r.instances),
		"rule":                   "an evaluation is one construct examined by a rule (call site, field access, CFG path, switch case, sibling step); distinct_nontrivial counts distinct rule kinds that matched at least one construct; every obligation is keyed rule+construct",
		"samples":                samples,
		"obligation_list":        oblList(r.Obls),
		"rule_instances":         inst,
		"analysed":               r.Analysed,
		"known_findings_matched": knownMatched,
		"advisory":               r.Advisory,
		"exhaustive":             true,
		"checker_cmd":            fmt.Sprintf("./check %s %s", r.Prop, tier),
	}
	ev := map[string]any{
		"property_id": r.Prop, "tier": tier, "seed": seed, "level": "other", "coverage": cov,
		"assumptions": meta.Assumptions, "wall_s": time.Since(started).Seconds(), "violations": violations,
	}
	os.MkdirAll(filepath.Join(verifRoot, "evidence"), 0o755)
	eb, _ := json.MarshalIndent(ev, "", " ")
	if err := os.WriteFile(filepath.Join(verifRoot, "evidence", r.Prop+".json"), append(eb, '\n'), 0o644); err != nil {
		fmt.Printf("cannot write evidence: %v\n", err)
		return 2
	}
	fmt.Printf("%s %s: %d obligations, %d discharged, %d known findings, %d violations, %d constructs examined (%.1fs)\n",
		r.Prop, tier, len(r.Obls), discharged, len(knownMatched), violations, r.Evals, time.Since(started).Seconds())
	if violations > 0 {
		return 1
	}
	return 0
}

func oblList(obls []Obligation) []string {
	out := make([]string, 0, len(obls))
	for _, o := range obls {
		st := "discharged"
		if o.Known {
			st = "known-finding"
		} else if !o.OK {
			st = "VIOLATED"
		}
		out = append(out, o.Rule+" | "+o.Key+" | "+o.Pos+" | "+st)
	}
	return out
}

// stripConfig removes the "[tags=...] " prefix of obligations from non-default build configurations.
func stripConfig(k string) string {
	if strings.HasPrefix(k, "[tags=") {
		if i := strings.Index(k, "] "); i >= 0 {
			return k[i+2:]
		}
	}
	return k
}

var verbose bool

func joinNonEmpty(sep string, parts ...string) string {
	var out []string
	for _, p := range parts {
		if p != "" {
			out = append(out, p)
		}
	}
	return strings.Join(out, sep)
}
