package main

import (
	"fmt"
	"go/ast"
	"go/token"
	"go/types"
	"golang.org/x/tools/go/cfg"
	"strings"
)

func init() {
	register(&property{
		ID:    "C15",
		Run:   runC15,
		Modes: []string{"deadlock"},
		Meta: propMeta{
			Explanation: "Static clauses of runtime/event, runtime/promise and runtime/valuenotifier on all CFG paths: (1) the generated Trigger family (Event, Event1..N) agrees with one template and with the property's rows: event-level count check returns, the per-hook check unhooks that hook and continues, both pre-trigger functions and the hook's trigger receive all arguments in order, pooled hooks are submitted and others called inline, the iteration never stops early, LinkTo links to the own Trigger; (2) trigger counting decides on the result of one atomic Add (no separate Load) and only when a limit is set; (3) linkTo unhooks the previous link before hooking the new target, under the link mutex; hook ids come from an atomic counter and Unhook deletes by that id; (4) promise events: Trigger swaps the callback map for nil (and stores the value) under the mutex and calls the snapshot outside it; OnTrigger registers under the mutex or calls inline when already triggered; unsubscribe deletes by its own unique id; sibling agreement Event/Event1; (5) value notifier: listeners and counts under the mutex; close(channel) only together with removing the entry in the same exclusive section (no double close); deregistration acts only on the entry the listener was registered with (identity guard) and never closes the entry's channel (closing is the success signal of Wait; the deregistration operation is found by role: the function that decrements an entry's count); a function that Trigger hands to sync.Once.Do is analysed as part of Trigger, and callbacks invoked inside it are reported. Also: OrderedMap.Delete leaves the removed element's own links intact (rule shared with C11), which Trigger's walk over the hook map relies on while hooks unhook.",
			NotDecided:  "exactly-once delivery over interleavings; timing of pooled execution",
			Assumptions: []string{"OrderedMap/ShrinkingMap behave per C11", "sync/atomic semantics"},
		},
	})
}

func runC15(c *Ctx) {
	p := c.Load("runtime")
	if p == nil {
		return
	}
	r := c.R
	const ev = "runtime/event"
	pk := p.Pkg(ev)
	if pk == nil {
		r.Unresolved("load", ev, "package not loaded")
		return
	}
	info := pk.TypesInfo
	// (0) the hook registry: Trigger walks an OrderedMap with ForEach while hooks unhook themselves
	// (max trigger count) or are unhooked concurrently; the walk survives that only if a removed
	// element keeps its own links
	if pds := c.Load("ds"); pds != nil {
		checkOmapRemovedKeepsLinks(r, pds)
	}
	// pooled hooks are queued on the worker pool's Stack: what is pushed there wakes a consumer and is
	// handed out again by Pop / PopOrWait (a queue the rules cannot relate to its model fails closed)
	checkStackWakeRows(r, p)
	// (1) Trigger family
	nTrig := 0
	for _, fd := range p.AllFuncDecls(ev) {
		if fd.Recv == nil || fd.Body == nil || fd.Name.Name != "Trigger" || !strings.HasPrefix(recvTypeName(fd), "Event") {
			continue
		}
		nTrig++
		checkTriggerTemplate(r, p, ev, fd)
	}
	if nTrig < 4 {
		r.Fail("sibling/trigger-template", ev+".EventN.Trigger", "-", fmt.Sprintf("expected the generated Trigger family, found %d members", nTrig))
	}
	for _, fd := range p.AllFuncDecls(ev) {
		if fd.Recv == nil || fd.Body == nil || fd.Name.Name != "LinkTo" || !strings.HasPrefix(recvTypeName(fd), "Event") {
			continue
		}
		key := ev + "." + recvTypeName(fd) + ".LinkTo"
		s, _ := srcNorm(p, ev, recvTypeName(fd), "LinkTo")
		if s == "$.linkTo($1,$.Trigger)" {
			r.Pass("sibling/trigger-template", key, p.posStr(fd.Pos()), "links the target to this event's own Trigger")
		} else {
			r.Fail("sibling/trigger-template", key, p.posStr(fd.Pos()), "LinkTo must be e.linkTo(target, e.Trigger); found "+s)
		}
	}
	// (2) counting
	if s, fd := srcOf(p, ev, "triggerSettings", "currentTriggerExceedsMaxTriggerCount"); fd == nil {
		r.Unresolved("atomic/rmw-decision", ev+".triggerSettings.currentTriggerExceedsMaxTriggerCount", "method not found")
	} else {
		// one atomic Add per call, no separate Load, and the returned decision is - with temporaries
		// and single-expression helpers resolved - the conjunction of `limit set` and
		// `limit < value returned by that Add` (in any spelling and order)
		_ = s
		f := newFuncCFG(p, info, fd.Body, "currentTriggerExceedsMaxTriggerCount")
		nAdd := len(f.Calls(func(c *ast.CallExpr) bool { return strings.HasSuffix(rawKey(c.Fun), ".triggerCount.Add") }))
		nLoad := len(f.Calls(func(c *ast.CallExpr) bool { return strings.HasSuffix(rawKey(c.Fun), ".triggerCount.Load") }))
		okCmp := false
		recv := recvIdentOf(fd).Name
		for _, pt := range f.Find(func(n ast.Node) bool { _, ok := n.(*ast.ReturnStmt); return ok }) {
			rs := f.nodeAt(pt).(*ast.ReturnStmt)
			if len(rs.Results) != 1 {
				continue
			}
			re, rpt := f.Resolve(rs.Results[0], pt)
			var conj func(e ast.Expr) []ast.Expr
			conj = func(e ast.Expr) []ast.Expr {
				e = ast.Unparen(e)
				if under, ok := astSubst[e]; ok {
					return conj(under)
				}
				if be, ok := e.(*ast.BinaryExpr); ok && be.Op == token.LAND {
					return append(conj(be.X), conj(be.Y)...)
				}
				return []ast.Expr{e}
			}
			got := map[string]bool{}
			for _, c := range conj(re) {
				if rel, ok := relOfWith(c, func(x ast.Expr) string { return f.KeyAt(x, rpt) }); ok {
					got[rel.String()] = true
				} else {
					got["?"+f.KeyAt(c, rpt)] = true
				}
			}
			want1 := Rel{recv + ".maxTriggerCount", "<", recv + ".triggerCount.Add(1)"}.String()
			want2 := Rel{"0", "!=", recv + ".maxTriggerCount"}.String()
			if len(got) == 2 && got[want1] && got[want2] {
				okCmp = true
			}
		}
		if nAdd == 1 && nLoad == 0 && okCmp {
			r.Pass("atomic/rmw-decision", ev+".triggerSettings.currentTriggerExceedsMaxTriggerCount", p.posStr(fd.Pos()), "one atomic Add per trigger; the decision uses its result and applies only when a limit is set")
		} else {
			r.Fail("atomic/rmw-decision", ev+".triggerSettings.currentTriggerExceedsMaxTriggerCount", p.posStr(fd.Pos()), "the limit decision must compare the value returned by the single triggerCount.Add(1) with maxTriggerCount (and maxTriggerCount != 0); a separate Load lets concurrent triggers both pass or both fail: "+s)
		}
	}
	// (3) link + hooks
	checkGuards(r, p, "lock/guarded-by", []GuardRow{{Pkg: ev, Type: "event", Mutex: "linkMutex", Fields: []string{"link"}}})
	// unhooking the previous link, hooking the target and storing the new link are one critical
	// section: two overlapping LinkTo calls otherwise both hook their target and one hook is lost track of
	checkAtomicOperations(r, p, "atomic/one-section-per-operation", ev, "event", "linkMutex")
	if f := p.CFGOf(ev, "event", "linkTo"); f == nil {
		r.Unresolved("link/unhook-before-hook", ev+".event.linkTo", "method not found")
	} else {
		hooks := f.Find(func(n ast.Node) bool {
			cl, ok := n.(*ast.CallExpr)
			return ok && exprKey(cl.Fun) == "target.Hook"
		})
		// the link field itself, or the value loaded from it when it is an atomic pointer
		isLinkKey := func(k string) bool {
			return strings.HasSuffix(k, ".link") || strings.HasSuffix(k, ".link.Load()")
		}
		// Unhook of the current link, however the link value travels (a temporary, the result of a
		// swap helper): the receiver resolves to the link field
		unhooks := map[*ast.CallExpr]bool{}
		for _, c := range f.Calls(func(c *ast.CallExpr) bool {
			se, ok := ast.Unparen(c.Fun).(*ast.SelectorExpr)
			return ok && se.Sel.Name == "Unhook" && len(c.Args) == 0
		}) {
			if cpt, found := f.PointOf(c); found && isLinkKey(f.KeyAt(ast.Unparen(c.Fun).(*ast.SelectorExpr).X, cpt)) {
				unhooks[c] = true
			}
		}
		isUnhook := func(n ast.Node) bool {
			cl, ok := n.(*ast.CallExpr)
			return ok && unhooks[cl]
		}
		hadLink := f.RelEdgesAt(func(rel Rel) bool {
			return rel.Op == "!=" && (isLinkKey(rel.L) && rel.R == "nil" || isLinkKey(rel.R) && rel.L == "nil")
		})
		bad := len(hooks) != 1 || len(hadLink) == 0
		// ... and the hook is not created at all before the link was either found nil or unhooked (a
		// test of the link that only comes after the hook does not help)
		noLink := f.RelEdgesAt(func(rel Rel) bool {
			return rel.Op == "==" && (isLinkKey(rel.L) && rel.R == "nil" || isLinkKey(rel.R) && rel.L == "nil")
		})
		isNoLink := func(e Edge) bool {
			for _, n := range noLink {
				if n == e {
					return true
				}
			}
			return false
		}
		for _, h := range hooks {
			if _, found := f.PathFromEntryAvoiding(h, isUnhook, isNoLink); found {
				bad = true
			}
		}
		for _, e := range hadLink {
			for _, h := range hooks {
				if _, found := f.reach(Point{e.From.Succs[e.Succ], 0}, &searchOpts{AvoidNode: isUnhook}, func(pt Point, atExit bool) bool { return !atExit && f.At(pt, h) }); found {
					bad = true
				}
			}
			// and also when the new target is nil the previous link is unhooked: every path from the had-link edge to exit passes Unhook
			if _, found := f.reach(Point{e.From.Succs[e.Succ], 0}, &searchOpts{AvoidNode: isUnhook}, func(pt Point, atExit bool) bool { return atExit }); found {
				bad = true
			}
		}
		if bad {
			r.Fail("link/unhook-before-hook", ev+".event.linkTo", f.P.posStr(f.Body.Pos()), "an existing link must be unhooked before the event is hooked to the new target (otherwise the event keeps firing for a former target)")
		} else {
			r.Pass("link/unhook-before-hook", ev+".event.linkTo", f.P.posStr(f.Body.Pos()), "previous link unhooked on every path before the new hook is created")
		}
	}
	if fd := p.FuncDecl(ev, "event", "Hook"); fd != nil {
		// the hook is registered under the id it was created with, and that id is a fresh value of
		// the atomic counter - whatever the locals are called
		f := newFuncCFG(p, info, fd.Body, ev+".event.Hook")
		okHook, n := true, 0
		for _, c := range f.Calls(func(c *ast.CallExpr) bool {
			se, ok := ast.Unparen(c.Fun).(*ast.SelectorExpr)
			return ok && se.Sel.Name == "Set" && len(c.Args) == 2 && fieldSel(info, se.X, "hooks")
		}) {
			n++
			cpt, _ := f.PointOf(c)
			made, mpt := f.ResolveToCall(c.Args[1], cpt)
			mc, isCall := ast.Unparen(made).(*ast.CallExpr)
			if !isCall || rawKey(mc.Fun) != "newHook" || len(mc.Args) == 0 || !strings.HasSuffix(f.KeyAt(mc.Args[0], mpt), ".hooksCounter.Add(1)") {
				okHook = false
				continue
			}
			ks, isSel := ast.Unparen(c.Args[0]).(*ast.SelectorExpr)
			if !isSel || ks.Sel.Name != "id" || objOfIdent(info, ks.X) == nil || objOfIdent(info, ks.X) != objOfIdent(info, c.Args[1]) {
				okHook = false
			}
		}
		if okHook && n == 1 {
			r.Pass("ident/unique-hook-id", ev+".event.Hook", p.posStr(fd.Pos()), "hook id from the atomic counter; registered under that id")
		} else {
			s, _ := srcOf(p, ev, "event", "Hook")
			r.Fail("ident/unique-hook-id", ev+".event.Hook", p.posStr(fd.Pos()), "hooks must be keyed by a fresh id from hooksCounter.Add(1): "+s)
		}
	}
	if s, fd := srcNorm(p, ev, "Hook", "Unhook"); fd != nil {
		if s == "$.event.hooks.Delete($.id)" {
			r.Pass("ident/unique-hook-id", ev+".Hook.Unhook", p.posStr(fd.Pos()), "deletes exactly its own id")
		} else {
			r.Fail("ident/unique-hook-id", ev+".Hook.Unhook", p.posStr(fd.Pos()), "Unhook must delete the hook's own id: "+s)
		}
	}
	_ = info
	checkPromiseEvents(r, p)
	checkValueNotifier(r, p)
}

// checkTriggerTemplate: one member of the generated Trigger family.
func checkTriggerTemplate(r *Reporter, p *Prog, pkg string, fd *ast.FuncDecl) {
	info := p.Pkg(pkg).TypesInfo
	key := pkg + "." + recvTypeName(fd) + ".Trigger"
	params := paramObjs(info, fd)
	argsAreAllParams := func(cl *ast.CallExpr) bool {
		if len(cl.Args) != len(params) {
			return false
		}
		for i, a := range cl.Args {
			if objOfIdent(info, a) != params[i] {
				return false
			}
		}
		return true
	}
	var bad []string
	// event-level guard is the first statement and returns
	if len(fd.Body.List) < 2 {
		r.Fail("sibling/trigger-template", key, p.posStr(fd.Pos()), "unexpected body shape")
		return
	}
	if is, ok := fd.Body.List[0].(*ast.IfStmt); !ok || rawKey(is.Cond) != "e.currentTriggerExceedsMaxTriggerCount()" || len(is.Body.List) != 1 {
		bad = append(bad, "the event-level max-trigger-count check must come first and return")
	} else if _, isRet := is.Body.List[0].(*ast.ReturnStmt); !isRet {
		bad = append(bad, "the event-level max-trigger-count check must return")
	}
	var lit *ast.FuncLit
	ast.Inspect(fd.Body, func(n ast.Node) bool {
		if cl, ok := n.(*ast.CallExpr); ok && exprKey(cl.Fun) == "e.hooks.ForEach" && len(cl.Args) == 1 {
			lit, _ = cl.Args[0].(*ast.FuncLit)
		}
		return true
	})
	if lit == nil {
		r.Fail("sibling/trigger-template", key, p.posStr(fd.Pos()), "Trigger must iterate e.hooks.ForEach")
		return
	}
	lf := newFuncCFG(p, info, lit.Body, key)
	// every return of the iteration callback is `true`
	ast.Inspect(lit.Body, func(n ast.Node) bool {
		if _, isLit := n.(*ast.FuncLit); isLit && n != ast.Node(lit) {
			return false
		}
		if rs, ok := n.(*ast.ReturnStmt); ok && (len(rs.Results) != 1 || exprKey(rs.Results[0]) != "true") {
			bad = append(bad, "the hook iteration stops early (a hook callback returns something other than true): later hooks are not triggered")
		}
		return true
	})
	// per-hook count check: true edge -> Unhook, and never reaches the trigger
	exceeded, within := lf.RawCondEdges(func(e ast.Expr) bool { return rawKey(e) == "hook.currentTriggerExceedsMaxTriggerCount()" })
	isTrig := func(n ast.Node) bool {
		cl, ok := n.(*ast.CallExpr)
		return ok && (exprKey(cl.Fun) == "hook.trigger" || exprKey(cl.Fun) == "workerPool.Submit")
	}
	isUnhook := func(n ast.Node) bool {
		cl, ok := n.(*ast.CallExpr)
		return ok && exprKey(cl.Fun) == "hook.Unhook"
	}
	if len(exceeded) == 0 {
		bad = append(bad, "the per-hook max-trigger-count check is missing")
	}
	for _, e := range exceeded {
		if _, found := lf.reach(Point{e.From.Succs[e.Succ], 0}, nil, func(pt Point, atExit bool) bool { return !atExit && containsMatch(lf.nodeAt(pt), isTrig) }); found {
			bad = append(bad, "an exhausted hook is still triggered")
		}
		if _, found := lf.reach(Point{e.From.Succs[e.Succ], 0}, &searchOpts{AvoidNode: isUnhook}, func(pt Point, atExit bool) bool { return atExit }); found {
			bad = append(bad, "an exhausted hook is not unhooked")
		}
	}
	// the trigger is reached on every path of the within-limit edge
	for _, e := range within {
		if _, found := lf.reach(Point{e.From.Succs[e.Succ], 0}, &searchOpts{AvoidNode: isTrig}, func(pt Point, atExit bool) bool { return atExit }); found {
			bad = append(bad, "a hook within its limit is not triggered on some path")
		}
	}
	// argument forwarding at the four call sites
	sites := map[string]int{}
	ast.Inspect(lit.Body, func(n ast.Node) bool {
		cl, ok := n.(*ast.CallExpr)
		if !ok {
			return true
		}
		k := exprKey(cl.Fun)
		switch k {
		case "e.preTriggerFunc", "hook.preTriggerFunc", "hook.trigger":
			sites[k]++
			if !argsAreAllParams(cl) {
				bad = append(bad, fmt.Sprintf("%s does not receive all %d trigger arguments in order (%s)", k, len(params), exprKey(cl)))
			}
		}
		return true
	})
	if sites["e.preTriggerFunc"] != 1 || sites["hook.preTriggerFunc"] != 1 || sites["hook.trigger"] != 2 {
		bad = append(bad, fmt.Sprintf("expected event pre-trigger, hook pre-trigger and the trigger (pooled + inline); found %v", sites))
	}
	// pooled vs inline
	pooled, inline := lf.RelEdges(func(rel Rel) bool {
		return rel.Op == "!=" && (rel.L == "nil" && rel.R == "workerPool" || rel.R == "nil" && rel.L == "workerPool")
	}), lf.RelEdges(func(rel Rel) bool {
		return rel.Op == "==" && (rel.L == "nil" && rel.R == "workerPool" || rel.R == "nil" && rel.L == "workerPool")
	})
	for _, pt := range lf.Find(func(n ast.Node) bool {
		cl, ok := n.(*ast.CallExpr)
		return ok && exprKey(cl.Fun) == "workerPool.Submit"
	}) {
		if _, only := lf.OnlyThroughEdges(pt, pooled); !only {
			bad = append(bad, "Submit on a path where no worker pool is configured")
		}
	}
	for _, pt := range lf.Find(func(n ast.Node) bool {
		es, ok := n.(*ast.ExprStmt)
		if !ok {
			return false
		}
		cl, ok := es.X.(*ast.CallExpr)
		return ok && exprKey(cl.Fun) == "hook.trigger"
	}) {
		if _, only := lf.OnlyThroughEdges(pt, inline); !only {
			bad = append(bad, "a hook with a worker pool is also triggered inline")
		}
	}
	if len(bad) > 0 {
		r.Fail("sibling/trigger-template", key, p.posStr(fd.Pos()), bad[0], bad...)
	} else {
		r.Pass("sibling/trigger-template", key, p.posStr(fd.Pos()), fmt.Sprintf("arity %d: guards, unhook-and-continue, all arguments in order at the 4 call sites, pooled xor inline, never stops early", len(params)))
	}
}

func checkPromiseEvents(r *Reporter, p *Prog) {
	const pkg = "runtime/promise"
	pk := p.Pkg(pkg)
	if pk == nil {
		r.Unresolved("promise/swap-and-call-outside", pkg, "package not loaded")
		return
	}
	info := pk.TypesInfo
	rows := []GuardRow{}
	var types_ []string
	for _, t := range []string{"Event", "Event1", "Event2", "Event3"} {
		if _, st := p.NamedStruct(pkg, t); st != nil {
			types_ = append(types_, t)
			fields := []string{"callbacks", "callbackIDs"}
			rows = append(rows, GuardRow{Pkg: pkg, Type: t, Mutex: "mutex", Fields: fields, Mutators: map[string][]string{"callbacks": {"Set", "Delete"}, "callbackIDs": {"Next"}}})
		}
	}
	if len(types_) < 2 {
		r.Fail("promise/swap-and-call-outside", pkg, "-", "expected promise Event and Event1")
		return
	}
	checkGuards(r, p, "lock/guarded-by", rows)
	checkLockBalance(r, p, "lock/balance", []string{pkg}, nil, nil)
	for _, t := range types_ {
		fd := p.FuncDecl(pkg, t, "Trigger")
		key := pkg + "." + t + ".Trigger"
		if fd == nil {
			r.Unresolved("promise/swap-and-call-outside", key, "method not found")
			continue
		}
		// Judged on Trigger's graph with the locked section in place, whether that section is a literal
		// invoked on the spot, a local closure or a named helper.
		recvObj := info.Defs[recvIdentOf(fd)]
		mu := fmt.Sprintf("%s@%d.mutex", recvObj.Name(), recvObj.Pos())
		// the graphs the operation consists of: Trigger itself and, when a part of it runs as the
		// function handed to a sync.Once (`e.once.Do(func() {...})`: run synchronously, at most once,
		// with the Once held), that function's body
		type trigGraph struct {
			f      *FuncCFG
			held   func(Point) LockSet
			inOnce bool
		}
		f := newFuncCFG(p, info, fd.Body, key)
		graphs := []trigGraph{{f, f.LocksHeld(nil), false}}
		for _, c := range f.Calls(func(c *ast.CallExpr) bool {
			fn := staticCallee(info, c)
			return fn != nil && fn.Pkg() != nil && fn.Pkg().Path() == "sync" && funcName(fn) == "Do" && len(c.Args) == 1
		}) {
			for _, cb := range callbacksIn(p, info, c.Args[0]) {
				g := newFuncCFG(p, info, cb.Body, key+"$once")
				graphs = append(graphs, trigGraph{g, g.LocksHeld(nil), true})
			}
		}
		isSwap := func(n ast.Node) bool {
			as, ok := n.(*ast.AssignStmt)
			return ok && len(as.Lhs) == 1 && len(as.Rhs) == 1 && fieldSel(info, as.Lhs[0], "callbacks") && isNil(info, as.Rhs[0])
		}
		isValueStore := func(n ast.Node) bool {
			as, ok := n.(*ast.AssignStmt)
			return ok && len(as.Lhs) == 1 && fieldSel(info, as.Lhs[0], "value")
		}
		var bad []string
		nSnaps, nSwaps, nInv, nAcq := 0, 0, 0, 0
		for _, tg := range graphs {
			f, held := tg.f, tg.held
			// the snapshot: Values() of the callback map
			var snaps []Point
			for _, c := range f.Calls(func(c *ast.CallExpr) bool {
				se, ok := ast.Unparen(c.Fun).(*ast.SelectorExpr)
				return ok && se.Sel.Name == "Values" && len(c.Args) == 0
			}) {
				cpt, found := f.PointOf(c)
				if !found {
					continue
				}
				if strings.HasSuffix(f.KeyAt(ast.Unparen(c.Fun).(*ast.SelectorExpr).X, cpt), ".callbacks") {
					snaps = append(snaps, cpt)
				}
			}
			// the invocations: calls through a function-typed local (a registered callback)
			var invocations []Point
			for _, c := range f.Calls(func(c *ast.CallExpr) bool {
				id, isId := ast.Unparen(c.Fun).(*ast.Ident)
				if !isId {
					return false
				}
				v, isVar := info.Uses[id].(*types.Var)
				if !isVar || v.IsField() {
					return false
				}
				_, isFn := v.Type().Underlying().(*types.Signature)
				return isFn
			}) {
				if f.regionByCall(c) != nil {
					continue // a local closure that was spliced in, not a registered callback
				}
				if cpt, found := f.PointOf(c); found {
					invocations = append(invocations, cpt)
				}
			}
			swaps := f.Find(isSwap)
			nSnaps, nSwaps, nInv = nSnaps+len(snaps), nSwaps+len(swaps), nInv+len(invocations)
			for _, sp := range swaps {
				if held(sp)[mu] < ModeW {
					bad = append(bad, f.PosOf(sp)+": the callback map is swapped for nil outside the exclusive section")
				}
			}
			for _, sn := range snaps {
				if held(sn)[mu] < ModeW {
					bad = append(bad, f.PosOf(sn)+": the snapshot of the callbacks is taken outside the exclusive section")
				}
				// the section that hands the snapshot out also consumes the map (before or after taking it)
				_, before := f.PathFromEntryAvoiding(sn, isSwap, nil)
				_, after := f.PathToExitAvoiding(sn, isSwap)
				if before && after {
					bad = append(bad, "the callbacks are handed out without swapping the map for nil: a second Trigger (or a late OnTrigger) runs them again / registers into a consumed map")
				}
				if t != "Event" {
					_, before := f.PathFromEntryAvoiding(sn, isValueStore, nil)
					_, after := f.PathToExitAvoiding(sn, isValueStore)
					if before && after {
						bad = append(bad, "the triggered value is not stored in the section that consumes the callbacks: a late OnTrigger reads a nil value")
					}
				}
			}
			if t != "Event" {
				for _, vp := range f.Find(isValueStore) {
					if held(vp)[mu] < ModeW {
						bad = append(bad, f.PosOf(vp)+": the triggered value is stored outside the exclusive section")
					}
				}
			}
			// one critical section: snapshot, swap and value belong together
			nAcq += len(f.Find(func(n ast.Node) bool {
				c, ok := n.(*ast.CallExpr)
				if !ok {
					return false
				}
				op, path := lockOp(info, c)
				return (op == "Lock" || op == "RLock") && strings.HasSuffix(path, ".mutex")
			}))
			for _, ip := range invocations {
				if h := held(ip); h[mu] > 0 {
					bad = append(bad, fmt.Sprintf("%s: the registered callbacks are invoked while holding %s: a callback that registers, unsubscribes or triggers on this event dead-locks, and registrations block until all callbacks have finished", f.PosOf(ip), h))
				}
				if tg.inOnce {
					bad = append(bad, fmt.Sprintf("%s: the registered callbacks are invoked inside sync.Once.Do, which is not re-entrant: a callback that triggers this event again dead-locks, and every concurrent Trigger blocks until all callbacks have finished", f.PosOf(ip)))
				}
			}
		}
		switch {
		case nSnaps == 0:
			bad = append([]string{"no locked snapshot section that swaps the callback map"}, bad...)
		case nSwaps == 0:
			bad = append([]string{"Trigger never swaps the callback map for nil"}, bad...)
		case nInv == 0:
			bad = append([]string{"the registered callbacks are never invoked (vacuous)"}, bad...)
		}
		if nAcq != 1 && len(bad) == 0 {
			bad = append(bad, fmt.Sprintf("%d acquisitions of the event mutex in Trigger: snapshot and swap must be one critical section", nAcq))
		}
		if len(bad) > 0 {
			r.Fail("promise/swap-and-call-outside", key, p.posStr(fd.Pos()), bad[0], bad...)
		} else {
			r.Pass("promise/swap-and-call-outside", key, p.posStr(fd.Pos()), "snapshot and nil-swap (plus value) under the mutex, callbacks called outside")
		}
		checkPromiseOnTrigger(r, p, pkg, t)
	}
}

// checkPromiseOnTrigger: a callback is registered under the event mutex with a fresh id, exactly
// when the event has not been triggered yet (callbacks != nil, tested in the same section);
// otherwise it is called inline, once, outside the lock; the unsubscribe handle deletes that id
// under the mutex.
func checkPromiseOnTrigger(r *Reporter, p *Prog, pkg, t string) {
	info := p.Pkg(pkg).TypesInfo
	fdo := p.FuncDecl(pkg, t, "OnTrigger")
	okey := pkg + "." + t + ".OnTrigger"
	if fdo == nil {
		r.Unresolved("promise/register-or-call-inline", okey, "method not found")
		return
	}
	f := newFuncCFG(p, info, fdo.Body, okey)
	recvObj := info.Defs[recvIdentOf(fdo)]
	mu := fmt.Sprintf("%s@%d.mutex", recvObj.Name(), recvObj.Pos())
	held := f.LocksHeld(nil)
	params := paramObjs(info, fdo)
	var bad []string
	if len(params) != 1 || params[0] == nil {
		r.Fail("promise/register-or-call-inline", okey, p.posStr(fdo.Pos()), "expected one callback parameter")
		return
	}
	cb := params[0]
	isNilRel := func(rel Rel, op string) bool {
		return rel.Op == op && ((strings.HasSuffix(rel.L, ".callbacks") && rel.R == "nil") || (strings.HasSuffix(rel.R, ".callbacks") && rel.L == "nil"))
	}
	var nilEdges, setEdges []Edge
	f.forEachEdgeFact(func(e Edge, b *cfg.Block, ft fact) {
		pt := Point{b, len(b.Nodes) - 1}
		rel, ok := relOfWith(ft.Atom, func(x ast.Expr) string { return f.KeyAt(x, pt) })
		if !ok {
			return
		}
		if !ft.Pol {
			rel = negRel(rel)
		}
		if !isNilRel(rel, "==") && !isNilRel(rel, "!=") {
			return
		}
		if held(pt)[mu] < ModeW {
			bad = append(bad, f.PosOf(pt)+": the triggered test (callbacks == nil) is evaluated outside the exclusive section: a Trigger in between loses the callback")
		}
		if isNilRel(rel, "==") {
			nilEdges = append(nilEdges, e)
		} else {
			setEdges = append(setEdges, e)
		}
	})
	isRegister := func(n ast.Node) bool {
		c, ok := n.(*ast.CallExpr)
		if !ok || len(c.Args) != 2 {
			return false
		}
		se, ok := ast.Unparen(c.Fun).(*ast.SelectorExpr)
		return ok && se.Sel.Name == "Set" && fieldSel(info, se.X, "callbacks")
	}
	isInline := func(n ast.Node) bool {
		c, ok := n.(*ast.CallExpr)
		if !ok {
			return false
		}
		if objOfIdent(info, c.Fun) == cb {
			return true
		}
		if _, isId := ast.Unparen(c.Fun).(*ast.Ident); !isId {
			return false
		}
		cpt, found := f.PointOf(c)
		return found && f.IsVar(c.Fun, cpt, cb)
	}
	regs := f.Find(isRegister)
	inl := f.Find(isInline)
	var idObj types.Object
	switch {
	case len(nilEdges) == 0 || len(setEdges) == 0:
		bad = append(bad, "no test of the callback map against nil (triggered?)")
	case len(regs) != 1:
		bad = append(bad, fmt.Sprintf("expected one registration callbacks.Set(id, callback), found %d", len(regs)))
	case len(inl) != 1:
		bad = append(bad, fmt.Sprintf("expected one inline call of the callback, found %d", len(inl)))
	default:
		rp, ip := regs[0], inl[0]
		var reg *ast.CallExpr
		inspectNoLit(f.nodeAt(rp), func(n ast.Node) bool {
			if isRegister(n) {
				reg = n.(*ast.CallExpr)
			}
			return true
		})
		if held(rp)[mu] < ModeW {
			bad = append(bad, f.PosOf(rp)+": the callback is registered outside the exclusive section")
		}
		if !f.IsVar(reg.Args[1], rp, cb) {
			bad = append(bad, f.PosOf(rp)+": what is registered is not the callback parameter")
		}
		// a fresh id: the result of callbackIDs.Next(), taken in the same section
		idObj = objOfIdent(info, reg.Args[0])
		src, spt := f.ResolveToCall(reg.Args[0], rp)
		okID := false
		if c, isCall := ast.Unparen(src).(*ast.CallExpr); isCall {
			if se, isSel := ast.Unparen(c.Fun).(*ast.SelectorExpr); isSel && se.Sel.Name == "Next" && fieldSel(info, se.X, "callbackIDs") && held(spt)[mu] >= ModeW {
				okID = true
			}
		}
		if !okID {
			bad = append(bad, f.PosOf(rp)+": the registration id is not a fresh callbackIDs.Next() taken under the mutex")
		}
		if w, only := f.OnlyThroughEdges(rp, setEdges); !only {
			bad = append(bad, "the callback is registered on a path that did not see callbacks != nil: "+strings.Join(w, " -> "))
		}
		if w, only := f.OnlyThroughEdges(ip, nilEdges); !only {
			bad = append(bad, "the callback is called inline on a path that did not see the event triggered (it will be called again by Trigger): "+strings.Join(w, " -> "))
		}
		if h := held(ip); h[mu] > 0 {
			bad = append(bad, fmt.Sprintf("%s: the callback is called inline while holding %s", f.PosOf(ip), h))
		}
		for _, e := range nilEdges {
			e := e
			if w, found := f.reach(Point{e.From.Succs[e.Succ], 0}, &searchOpts{FromEdge: &e, AvoidNode: isInline}, func(pt Point, atExit bool) bool { return atExit }); found {
				bad = append(bad, "an already triggered event can return without calling the callback: "+strings.Join(w, " -> "))
			}
		}
		for _, e := range setEdges {
			e := e
			if w, found := f.reach(Point{e.From.Succs[e.Succ], 0}, &searchOpts{FromEdge: &e, AvoidNode: isRegister}, func(pt Point, atExit bool) bool { return atExit }); found {
				bad = append(bad, "a pending event can return without registering the callback: "+strings.Join(w, " -> "))
			}
		}
	}
	// the unsubscribe handle: a literal - in OnTrigger or in a registration helper of it - that deletes
	// the registered id under the mutex (directly or through a removal helper it calls)
	if len(bad) == 0 {
		okUnsub := false
		seenLit := map[*ast.FuncLit]bool{}
		for _, b := range f.G.Blocks {
			for _, bn := range b.Nodes {
				ast.Inspect(bn, func(n ast.Node) bool {
					lit, isLit := n.(*ast.FuncLit)
					if !isLit || seenLit[lit] || len(lit.Type.Params.List) != 0 {
						return true
					}
					seenLit[lit] = true
					lf := newFuncCFG(p, info, lit.Body, okey+"$unsubscribe")
					lheld := lf.LocksHeld(nil)
					for _, c := range lf.Calls(func(c *ast.CallExpr) bool {
						se, ok := ast.Unparen(c.Fun).(*ast.SelectorExpr)
						return ok && se.Sel.Name == "Delete" && len(c.Args) == 1 && fieldSel(info, se.X, "callbacks")
					}) {
						cpt, found := lf.PointOf(c)
						if !found || idObj == nil {
							continue
						}
						if !(objOfIdent(info, c.Args[0]) == idObj || lf.IsVar(c.Args[0], cpt, idObj)) {
							continue
						}
						// the mutex of the event, in whatever frame the lock was taken
						for path, m := range lheld(cpt) {
							if strings.HasSuffix(path, ".mutex") && m >= ModeW {
								okUnsub = true
							}
						}
					}
					return true
				})
			}
		}
		if !okUnsub {
			bad = append(bad, "no unsubscribe handle that deletes the registered id under the mutex")
		}
	}
	if len(bad) == 0 {
		r.Pass("promise/register-or-call-inline", okey, p.posStr(fdo.Pos()), "registered under the mutex with a unique id, or called inline exactly when the event was already triggered; unsubscribe deletes its own id")
	} else {
		r.Fail("promise/register-or-call-inline", okey, p.posStr(fdo.Pos()), "a callback must be registered under the mutex (unique id) or, iff the event was already triggered, called inline exactly once: "+bad[0], bad...)
	}
}

func checkValueNotifier(r *Reporter, p *Prog) {
	const pkg = "runtime/valuenotifier"
	pk := p.Pkg(pkg)
	if pk == nil {
		r.Unresolved("notifier/close-with-delete", pkg, "package not loaded")
		return
	}
	info := pk.TypesInfo
	checkGuards(r, p, "lock/guarded-by", []GuardRow{
		{Pkg: pkg, Type: "Notifier", Mutex: "mutex", Fields: []string{"listeners"}, Mutators: map[string][]string{"listeners": {"Set", "Delete"}}},
		{Pkg: pkg, Type: "listener", Mutex: "mutex", ViaRecvType: "Notifier", Fields: []string{"count"}},
	})
	checkLockBalance(r, p, "lock/balance", []string{pkg}, nil, nil)
	// roles: the deregistration operation is the function of the package that decrements an entry's
	// reference count (today Notifier.removeListener); the closers are that function and the
	// exported operations that close an entry's channel (today Notify)
	isEntry := func(t types.Type) bool { return t != nil && shortTypeName(typeName(t)) == "listener" }
	isCountDec := func(n ast.Node) bool {
		switch x := n.(type) {
		case *ast.IncDecStmt:
			return x.Tok == token.DEC && fieldSel(info, x.X, "count")
		case *ast.AssignStmt:
			return len(x.Lhs) == 1 && x.Tok == token.SUB_ASSIGN && fieldSel(info, x.Lhs[0], "count")
		}
		return false
	}
	closesEntryChannel := func(cl *ast.CallExpr) bool {
		if rawKey(cl.Fun) != "close" || len(cl.Args) != 1 {
			return false
		}
		se, ok := ast.Unparen(cl.Args[0]).(*ast.SelectorExpr)
		return ok && isEntry(info.TypeOf(se.X))
	}
	fnKey := func(fd *ast.FuncDecl) string {
		if rt := recvTypeName(fd); rt != "" {
			return pkg + "." + rt + "." + fd.Name.Name
		}
		return pkg + "." + fd.Name.Name
	}
	var deregFds []*ast.FuncDecl
	for _, fd := range p.AllFuncDecls(pkg) {
		if fd.Body == nil {
			continue
		}
		has := false
		ast.Inspect(fd.Body, func(n ast.Node) bool {
			has = has || (n != nil && isCountDec(n))
			return !has
		})
		if has {
			deregFds = append(deregFds, fd)
		}
	}
	var deregFd *ast.FuncDecl
	if len(deregFds) == 1 {
		deregFd = deregFds[0]
	}
	// close(channel) <-> listeners.Delete in one exclusive section
	var closers []*ast.FuncDecl
	if deregFd != nil {
		closers = append(closers, deregFd)
	}
	for _, fd := range p.AllFuncDecls(pkg) {
		if fd.Body == nil || fd == deregFd || !fd.Name.IsExported() || fd.Recv == nil {
			continue
		}
		f := newFuncCFG(p, info, fd.Body, fnKey(fd))
		if len(f.Calls(closesEntryChannel)) > 0 {
			closers = append(closers, fd)
		}
	}
	// closing an entry's channel is the success signal of Wait: only the notifying operation may do
	// it. The deregistration path - any function from which the count decrement is reachable - must
	// leave the channel open: a Wait of the deregistering listener that has passed its
	// `deregistered` check but has not parked yet would find both its channels closed and report
	// success although Notify was never called.
	if deregFd == nil {
		r.Unresolved("notifier/close-means-notified", pkg+".Notifier.removeListener", "method not found")
	} else {
		key := fnKey(deregFd)
		f := newFuncCFG(p, info, deregFd.Body, key)
		if cl := f.Calls(closesEntryChannel); len(cl) > 0 {
			r.Fail("notifier/close-means-notified", key, p.posStr(cl[0].Pos()), "the deregistration path closes the shared notification channel: a Wait racing with the deregistration of the last listener returns success without any Notify")
		} else {
			r.Pass("notifier/close-means-notified", key, p.posStr(deregFd.Pos()), "deregistration removes the entry and leaves its channel open; only Notify closes it")
		}
		closers = closers[1:]
	}
	if len(closers) < 1 {
		r.Fail("notifier/close-with-delete", pkg, "-", "expected Notify to close entry channels, found no closing operation (vacuous)")
	}
	for _, fd := range closers {
		key := fnKey(fd)
		f := newFuncCFG(p, info, fd.Body, key)
		isDelete := func(n ast.Node) bool {
			cl, ok := n.(*ast.CallExpr)
			return ok && strings.HasSuffix(exprKey(cl.Fun), ".listeners.Delete")
		}
		// on the graph with the helpers in place: the close may live in a helper shared by both
		closes := f.Calls(closesEntryChannel)
		bad := ""
		held := f.LocksHeld(nil)
		for _, cl := range closes {
			cpt, found := f.PointOf(cl)
			exclusive := false
			if found {
				for k, m := range held(cpt) {
					if m == ModeW && strings.HasSuffix(k, ".mutex") {
						exclusive = true
					}
				}
			}
			if !exclusive {
				bad = "the listener channel is closed outside the exclusive section"
			}
		}
		if len(closes) == 0 {
			bad = "no close of the listener channel found (vacuous)"
		}
		for _, cl := range closes {
			pt, _ := f.PointOf(cl)
			if _, found := f.PathToExitAvoiding(pt, isDelete); found {
				bad = "the channel is closed on a path that leaves the entry in the map: a later Notify/deregistration closes it a second time (panic), and new listeners join a dead channel"
			}
		}
		if bad != "" {
			r.Fail("notifier/close-with-delete", key, p.posStr(fd.Pos()), bad)
		} else {
			r.Pass("notifier/close-with-delete", key, p.posStr(fd.Pos()), "close(channel) and removal of the entry happen in the same exclusive section")
		}
	}
	// identity guard
	if deregFd == nil {
		r.Unresolved("ident/unregister-own-entry", pkg+".Notifier.removeListener", "method not found")
	} else {
		fd := deregFd
		key := fnKey(fd)
		f := newFuncCFG(p, info, fd.Body, key)
		// the listener's own entry: a parameter of the entry type, or a field of that type of the
		// receiver (a handle that records the entry it was registered with)
		var ownNames []string
		for _, po := range paramObjs(info, fd) {
			if po != nil && isEntry(po.Type()) {
				ownNames = append(ownNames, po.Name())
			}
		}
		if ro := recvObj(info, fd); ro != nil {
			if st := structOf(ro.Type()); st != nil {
				for i := 0; i < st.NumFields(); i++ {
					if isEntry(st.Field(i).Type()) {
						ownNames = append(ownNames, ro.Name()+"."+st.Field(i).Name())
					}
				}
			}
		}
		same := f.RelEdges(func(rel Rel) bool {
			if rel.Op != "==" {
				return false
			}
			for _, on := range ownNames {
				if rel.L == on || rel.R == on {
					return true
				}
			}
			return false
		})
		decs := f.Find(isCountDec)
		switch {
		case len(decs) == 0:
			r.Fail("ident/unregister-own-entry", key, p.posStr(fd.Pos()), "no reference-count decrement found (vacuous)")
		case len(ownNames) == 0:
			r.Fail("ident/unregister-own-entry", key, p.posStr(fd.Pos()), "deregistration identifies its entry only by the (reusable) value: a listener of an earlier, already notified generation decrements - and can close - the entry of a later one, whose Wait then succeeds without any Notify")
		default:
			ok := true
			for _, d := range decs {
				if _, only := f.OnlyThroughEdges(d, same); !only {
					ok = false
				}
			}
			if ok {
				r.Pass("ident/unregister-own-entry", key, p.posStr(fd.Pos()), "the count is decremented only if the current entry is the one the listener was registered with")
			} else {
				r.Fail("ident/unregister-own-entry", key, p.posStr(fd.Pos()), "the decrement is not guarded by an identity comparison between the current entry and the listener's own entry")
			}
		}
	}
	// the closures hand over their own entry
	if fd := p.FuncDecl(pkg, "Notifier", "Listener"); fd != nil {
		// every listener handed out is counted: on every path to newListener(...) the shared entry
		// was either created here (with its count initialised) or its count was incremented
		lfn := newFuncCFG(p, info, fd.Body, pkg+".Notifier.Listener")
		// the deregistration closures handed to newListener (here or in a helper that builds the handle)
		n, ok := 0, true
		for _, hc := range lfn.Calls(func(cl *ast.CallExpr) bool { return rawKey(cl.Fun) == "newListener" }) {
			for _, a := range hc.Args {
				// a literal, or a method of a registration struct handed over as a method value
				cbs := callbacksIn(p, info, a)
				if len(cbs) != 1 {
					continue
				}
				lit := cbs[0]
				if deregFd != nil && lit.Decl == deregFd && lit.RecvX != nil {
					// the deregistration operation itself, bound to a handle: the handle records an entry
					n++
					rl, _ := recvLiteral(p, info, lit.RecvX, fd.Body)
					has := false
					if rl != nil {
						for _, el := range rl.Elts {
							v := el
							if kv, isKV := el.(*ast.KeyValueExpr); isKV {
								v = kv.Value
							}
							has = has || isEntry(info.TypeOf(v))
						}
					}
					if !has {
						ok = false
					}
					continue
				}
				ast.Inspect(lit.Body, func(nd ast.Node) bool {
					cl, isCall := nd.(*ast.CallExpr)
					if !isCall {
						return true
					}
					fn := staticCallee(info, cl)
					if fn == nil || deregFd == nil || p.decls().byFunc[fn.Origin()] != deregFd {
						return true
					}
					n++
					has := false
					for _, ca := range cl.Args {
						has = has || isEntry(info.TypeOf(ca))
					}
					if !has {
						ok = false
					}
					return true
				})
			}
		}
		counted := func(nd ast.Node) bool {
			switch x := nd.(type) {
			case *ast.IncDecStmt:
				return x.Tok == token.INC && fieldSel(info, x.X, "count")
			case *ast.AssignStmt:
				return len(x.Lhs) == 1 && fieldSel(info, x.Lhs[0], "count") && (x.Tok == token.ADD_ASSIGN)
			case *ast.CompositeLit:
				return shortTypeName(typeName(info.TypeOf(x))) == "listener"
			}
			return false
		}
		uncounted := ""
		for _, pt := range lfn.Find(func(nd ast.Node) bool {
			cl, isCall := nd.(*ast.CallExpr)
			return isCall && rawKey(cl.Fun) == "newListener"
		}) {
			if w, found := lfn.PathFromEntryAvoiding(pt, counted, nil); found {
				uncounted = lfn.PosOf(pt) + ": a listener is handed out without being counted on its entry (" + strings.Join(w, " -> ") + "): the first listener that leaves closes the channel under the others"
			}
		}
		if uncounted != "" {
			r.Fail("notifier/listener-counted", pkg+".Notifier.Listener", p.posStr(fd.Pos()), uncounted)
		} else {
			r.Pass("notifier/listener-counted", pkg+".Notifier.Listener", p.posStr(fd.Pos()), "joining an entry increments its count, creating one initialises it")
		}
		if n >= 1 && ok {
			r.Pass("ident/unregister-own-entry", pkg+".Notifier.Listener", p.posStr(fd.Pos()), "every deregistration closure passes the entry it was registered with")
		} else {
			r.Fail("ident/unregister-own-entry", pkg+".Notifier.Listener", p.posStr(fd.Pos()), "each deregistration closure must hand its own entry to the deregistration operation")
		}
	}
	// Wait reports success only after a receive from the notification channel: every return of a nil
	// error in Wait is reached only through a receive from the handle's channel that Deregister does
	// NOT close (the other channel field of the handle is the deregistration signal)
	if fd := p.FuncDecl(pkg, "Listener", "Wait"); fd == nil {
		r.Unresolved("notifier/wait-success-only-on-notify", pkg+".Listener.Wait", "method not found")
	} else {
		key := pkg + ".Listener.Wait"
		deregSignal := map[types.Object]bool{}
		if dfd := p.FuncDecl(pkg, "Listener", "Deregister"); dfd != nil {
			df := newFuncCFG(p, info, dfd.Body, pkg+".Listener.Deregister")
			for _, c := range df.Calls(func(c *ast.CallExpr) bool { return rawKey(c.Fun) == "close" && len(c.Args) == 1 }) {
				if se, ok := ast.Unparen(c.Args[0]).(*ast.SelectorExpr); ok {
					if sel := info.Selections[se]; sel != nil && sel.Kind() == types.FieldVal {
						deregSignal[sel.Obj()] = true
					}
				}
			}
		}
		f := newFuncCFG(p, info, fd.Body, key)
		self := recvObj(info, fd)
		selves := f.selfAliases(self)
		isNotifyRecv := func(n ast.Node) bool {
			u, ok := n.(*ast.UnaryExpr)
			if !ok || u.Op != token.ARROW {
				return false
			}
			se, ok := ast.Unparen(u.X).(*ast.SelectorExpr)
			if !ok || !selves[objOfIdent(info, se.X)] || self == nil {
				return false
			}
			sel := info.Selections[se]
			return sel != nil && sel.Kind() == types.FieldVal && !deregSignal[sel.Obj()]
		}
		notified := f.AfterComm(isNotifyRecv)
		afterNodes := map[ast.Node]bool{}
		for _, np := range notified {
			if np.I > 0 {
				afterNodes[np.B.Nodes[np.I-1]] = true
			}
		}
		nSucc, bad, stale := 0, "", ""
		_, notDeregistered := f.CondEdges(func(e ast.Expr) bool {
			c, ok := ast.Unparen(e).(*ast.CallExpr)
			if !ok {
				return false
			}
			se, ok := ast.Unparen(c.Fun).(*ast.SelectorExpr)
			if !ok || se.Sel.Name != "Load" {
				return false
			}
			fs, ok := ast.Unparen(se.X).(*ast.SelectorExpr)
			if !ok || !selves[objOfIdent(info, fs.X)] {
				return false
			}
			sel := info.Selections[fs]
			if sel == nil || sel.Kind() != types.FieldVal {
				return false
			}
			return strings.HasSuffix(typeName(sel.Obj().Type()), "atomic.Bool")
		})
		for _, rpt := range f.FindOwn(func(n ast.Node) bool { _, ok := n.(*ast.ReturnStmt); return ok }) {
			rs, ok := f.nodeAt(rpt).(*ast.ReturnStmt)
			if !ok || len(rs.Results) != 1 {
				continue
			}
			success := isNil(info, rs.Results[0])
			// a result variable (single-exit form): the paths on which it was given an error are not
			// success paths; every other path to the return is
			var resVar types.Object
			if !success {
				if id, isId := ast.Unparen(rs.Results[0]).(*ast.Ident); isId {
					if v, isVar := info.Uses[id].(*types.Var); isVar && !v.IsField() && v.Pkg() != nil && v.Parent() != v.Pkg().Scope() {
						resVar, success = v, true
					}
				}
			}
			if !success {
				continue
			}
			nSucc++
			setsError := func(n ast.Node) bool {
				as, ok := n.(*ast.AssignStmt)
				if !ok || resVar == nil || len(as.Lhs) != len(as.Rhs) {
					return false
				}
				for i, l := range as.Lhs {
					if objOfIdent(info, l) == resVar && !isNil(info, as.Rhs[i]) {
						return true
					}
				}
				return false
			}
			// a result variable that is known to hold an error on the path (handed back by a spliced
			// helper together with its other results) is not a success either
			thisRet := rs
			if w, found := f.reach(f.entry(), &searchOpts{AvoidNode: func(n ast.Node) bool { return afterNodes[n] || setsError(n) }, AvoidEdge: func(e Edge) bool {
				for _, np := range notified {
					if np.I == 0 && e.From.Succs[e.Succ] == np.B {
						return true
					}
				}
				return false
			}, AvoidRet: func(r2 *ast.ReturnStmt, val func(ast.Expr) int8) bool {
				return r2 == thisRet && resVar != nil && val(r2.Results[0]) == 1
			}}, func(pt Point, atExit bool) bool { return !atExit && f.At(pt, rpt) }); found {
				bad = fmt.Sprintf("%s: Wait returns success on a path that did not receive from the notification channel (%s): a cancelled context or a deregistration is reported as a notification", f.PosOf(rpt), strings.Join(w, " -> "))
			}
			// ... and after that receive the deregistration flag is looked at again: when the listener
			// was deregistered before the value was notified both channels are closed and select picks
			// one at random, so the receive alone does not show that the notification came first
			for _, np := range notified {
				if w, found := f.reach(np, &searchOpts{AvoidNode: setsError, AvoidEdge: func(e Edge) bool {
					for _, fe := range notDeregistered {
						if fe == e {
							return true
						}
					}
					return false
				}, AvoidRet: func(r2 *ast.ReturnStmt, val func(ast.Expr) int8) bool {
					return r2 == thisRet && resVar != nil && val(r2.Results[0]) == 1
				}}, func(pt Point, atExit bool) bool { return !atExit && f.At(pt, rpt) }); found {
					stale = fmt.Sprintf("%s: after the receive from the notification channel Wait returns success without looking at the deregistration flag again (%s): a listener that was deregistered before Notify finds both channels closed and reports success half of the time", f.PosOf(rpt), strings.Join(w, " -> "))
				}
			}
		}
		// A Wait that gives up (context done) leaves the entry of the value - and the channel of that entry
		// is shared with the other listeners: a later Notify for them closes it. The listener must
		// therefore be FLAGGED deregistered on every way out that is not a success, or a later Wait on it
		// reports the others' notification as its own. Every non-success return is reached only through a
		// point at which the flag is known set (the flag was read true, the deregistration signal was
		// received, a call that sets the flag) or runs a deferred call that sets it.
		{
			var setsFlagBody func(body ast.Node, depth int) bool
			setsFlagBody = func(body ast.Node, depth int) bool {
				hit := false
				ast.Inspect(body, func(n ast.Node) bool {
					c, ok := n.(*ast.CallExpr)
					if !ok || hit {
						return !hit
					}
					if se, isSel := ast.Unparen(c.Fun).(*ast.SelectorExpr); isSel {
						if (se.Sel.Name == "Swap" || se.Sel.Name == "Store") && len(c.Args) == 1 && rawKey(c.Args[0]) == "true" && strings.HasSuffix(typeName(info.TypeOf(se.X)), "atomic.Bool") {
							hit = true
							return false
						}
						if fn, _ := info.Uses[se.Sel].(*types.Func); fn != nil && depth > 0 {
							if cd := p.decls().byFunc[fn.Origin()]; cd != nil && cd.Body != nil && p.decls().infoOf[cd] == info && recvTypeName(cd) == "Listener" && setsFlagBody(cd.Body, depth-1) {
								hit = true
								return false
							}
						}
					}
					return true
				})
				return hit
			}
			setsFlag := func(n ast.Node) bool {
				c, ok := n.(*ast.CallExpr)
				return ok && setsFlagBody(c, 2)
			}
			// a deferred setter at the top level of Wait covers every return after it
			var deferredSetter *ast.DeferStmt
			for _, st := range fd.Body.List {
				if ds, ok := st.(*ast.DeferStmt); ok && setsFlagBody(ds.Call, 2) && deferredSetter == nil {
					deferredSetter = ds
				}
			}
			isDeregRecv := func(n ast.Node) bool {
				u, ok := n.(*ast.UnaryExpr)
				if !ok || u.Op != token.ARROW {
					return false
				}
				se, ok := ast.Unparen(u.X).(*ast.SelectorExpr)
				if !ok || !selves[objOfIdent(info, se.X)] {
					return false
				}
				sel := info.Selections[se]
				return sel != nil && sel.Kind() == types.FieldVal && deregSignal[sel.Obj()]
			}
			signalled := f.AfterComm(isDeregRecv)
			flagTrue, _ := f.CondEdges(func(e ast.Expr) bool {
				c, ok := ast.Unparen(e).(*ast.CallExpr)
				if !ok {
					return false
				}
				se, ok := ast.Unparen(c.Fun).(*ast.SelectorExpr)
				return ok && se.Sel.Name == "Load" && strings.HasSuffix(typeName(info.TypeOf(se.X)), "atomic.Bool")
			})
			nFail, unflagged := 0, ""
			var uw []string
			for _, rpt := range f.FindOwn(func(n ast.Node) bool { _, ok := n.(*ast.ReturnStmt); return ok }) {
				rs, ok := f.nodeAt(rpt).(*ast.ReturnStmt)
				if !ok || len(rs.Results) != 1 || isNil(info, rs.Results[0]) {
					continue
				}
				nFail++
				if deferredSetter != nil && deferredSetter.Pos() < rs.Pos() {
					continue
				}
				thisRet := rs
				w, found := f.reach(f.entry(), &searchOpts{AvoidNode: func(n ast.Node) bool {
					if setsFlag(n) {
						return true
					}
					for _, sp := range signalled {
						if sp.I > 0 && sp.B.Nodes[sp.I-1] == n {
							return true
						}
					}
					return false
				}, AvoidEdge: func(e Edge) bool {
					for _, fe := range flagTrue {
						if fe == e {
							return true
						}
					}
					for _, sp := range signalled {
						if sp.I == 0 && e.From.Succs[e.Succ] == sp.B {
							return true
						}
					}
					return false
				}, AvoidRet: func(r2 *ast.ReturnStmt, val func(ast.Expr) int8) bool {
					// a result variable that is known nil on the path is a success return, judged above
					return r2 == thisRet && val(r2.Results[0]) == -1
				}}, func(pt Point, atExit bool) bool { return !atExit && f.At(pt, rpt) })
				if found {
					unflagged, uw = f.PosOf(rpt)+": Wait gives up without the listener being flagged deregistered: its entry's channel is shared, a later Notify for the remaining listeners closes it and the next Wait on this listener reports success for a notification it was deregistered before", w
				}
			}
			switch {
			case nFail == 0:
				r.Fail("notifier/giving-up-flags-listener", key, p.posStr(fd.Pos()), "Wait has no failure return (vacuous)")
			case unflagged != "":
				r.Fail("notifier/giving-up-flags-listener", key, p.posStr(fd.Pos()), unflagged, uw...)
			default:
				r.Pass("notifier/giving-up-flags-listener", key, p.posStr(fd.Pos()), fmt.Sprintf("%d failure return(s), each with the deregistration flag known set", nFail))
			}
		}
		switch {
		case len(deregSignal) == 0 || len(notified) == 0:
			r.Fail("notifier/wait-success-only-on-notify", key, p.posStr(fd.Pos()), fmt.Sprintf("expected a receive from the notification channel in Wait and a deregistration signal closed by Deregister (found %d / %d) (vacuous)", len(notified), len(deregSignal)))
		case nSucc == 0:
			r.Fail("notifier/wait-success-only-on-notify", key, p.posStr(fd.Pos()), "Wait never returns success (vacuous)")
		case bad != "":
			r.Fail("notifier/wait-success-only-on-notify", key, p.posStr(fd.Pos()), bad)
		case stale != "":
			r.Fail("notifier/wait-success-only-on-notify", key, p.posStr(fd.Pos()), stale)
		default:
			r.Pass("notifier/wait-success-only-on-notify", key, p.posStr(fd.Pos()), fmt.Sprintf("%d success return(s), each reached only through the receive from the notification channel followed by a fresh look at the deregistration flag", nSucc))
		}
	}
	// Deregister is single-shot (atomic swap) and Wait defers it
	if fd := p.FuncDecl(pkg, "Listener", "Deregister"); fd != nil {
		// single-shot: the channel is closed and the entry deregistered only on the edge on which the
		// atomic Swap(true) reported that nobody did it before, and on that edge always
		f := newFuncCFG(p, info, fd.Body, pkg+".Listener.Deregister")
		var first []Edge
		f.forEachEdgeFact(func(e Edge, b *cfg.Block, ft fact) {
			cl, ok := ast.Unparen(ft.Atom).(*ast.CallExpr)
			if !ok || ft.Pol || len(cl.Args) != 1 || rawKey(cl.Args[0]) != "true" {
				return
			}
			if se, isSel := ast.Unparen(cl.Fun).(*ast.SelectorExpr); isSel && se.Sel.Name == "Swap" && fieldSel(info, se.X, "deregistered") {
				first = append(first, e)
			}
		})
		isClose := func(n ast.Node) bool {
			c, ok := n.(*ast.CallExpr)
			return ok && rawKey(c.Fun) == "close" && len(c.Args) == 1 && fieldSel(info, c.Args[0], "deregisteredChan")
		}
		isDereg := func(n ast.Node) bool {
			c, ok := n.(*ast.CallExpr)
			if !ok {
				return false
			}
			// the deregistration callback: a field of function type of the handle - called directly, or
			// handed to a sync.Once of the handle (`l.releaseOnce.Do(l.deregister)`)
			se, isSel := ast.Unparen(c.Fun).(*ast.SelectorExpr)
			if !isSel {
				return false
			}
			if se.Sel.Name == "Do" && len(c.Args) == 1 && strings.HasSuffix(typeName(info.TypeOf(se.X)), "sync.Once") {
				if as, ok := ast.Unparen(c.Args[0]).(*ast.SelectorExpr); ok {
					if asel := info.Selections[as]; asel != nil && asel.Kind() == types.FieldVal {
						if _, isSig := asel.Obj().Type().Underlying().(*types.Signature); isSig {
							return true
						}
					}
				}
				return false
			}
			sel := info.Selections[se]
			if sel == nil || sel.Kind() != types.FieldVal {
				return false
			}
			_, isSig := sel.Obj().Type().Underlying().(*types.Signature)
			return isSig
		}
		okOnce := len(first) > 0
		for _, pred := range []func(ast.Node) bool{isClose, isDereg} {
			pts := f.Find(pred)
			if len(pts) != 1 {
				okOnce = false
				continue
			}
			if _, only := f.OnlyThroughEdges(pts[0], first); !only {
				okOnce = false
			}
			for _, e := range first {
				if _, found := f.reach(Point{e.From.Succs[e.Succ], 0}, &searchOpts{AvoidNode: pred}, func(pt Point, atExit bool) bool { return atExit }); found {
					okOnce = false
				}
			}
		}
		if okOnce {
			r.Pass("notifier/deregister-once", pkg+".Listener.Deregister", p.posStr(fd.Pos()), "single-shot through an atomic swap")
		} else {
			s, _ := srcOf(p, pkg, "Listener", "Deregister")
			r.Fail("notifier/deregister-once", pkg+".Listener.Deregister", p.posStr(fd.Pos()), "Deregister must be single-shot (atomic Swap): "+s)
		}
	}
}
