package main

import (
	"fmt"
	"go/ast"
	"go/token"
	"go/types"
	"golang.org/x/tools/go/cfg"
	"regexp"
	"strings"
)

func init() {
	register(&property{
		ID:    "C12",
		Run:   runC12,
		Modes: []string{"deadlock"},
		Meta: propMeta{
			Explanation: "Only the clauses of the remaining containers that are visible in code shape, on all CFG paths: (1) every container with a mutex touches its state only under it (writes under the write lock; private helpers caller-holds), locks balanced, thread-safe stack decorator complete; (2) coupled state: TimeHeap heap<->total (Add, Clear, windowed removal), generalheap slot<->index, RandomMap rawMap<->keys<->keyIndex (insert appends with index = previous size, delete swaps the last key into the hole and truncates), BytesFilter known set<->FIFO slice (evict-oldest at capacity), Queue/RingBuffer cursor advance modulo capacity with size bookkeeping, SubscriptionManager per-client count<->global topic count (with the cleanup observer never run between the two), OnChangeMap change<->callback; (3) bulk operations do not exit early (Walker.PushAll/PushFront); (4) comparator directions (timeAscending/Descending, PopUntil bound, timeHeap.Less); (5) SubscriptionManager fires events only outside its lock. One Subscribe/Unsubscribe moves the global topic count by exactly one.",
			NotDecided:  "observational equivalence with the abstract models over operation histories; randomness of RandomMap picks; shrinking thresholds",
			Assumptions: []string{"container/heap, container/list behave as documented"},
		},
	})
}

func runC12(c *Ctx) {
	r := c.R
	p := c.Load("ds")
	if p == nil {
		return
	}
	// (1) locks in ds
	checkGuards(r, p, "lock/guarded-by", []GuardRow{
		{Pkg: "ds/randommap", Type: "RandomMap", Mutex: "mutex", Fields: []string{"rawMap", "keys"},
			Mutators: map[string][]string{"rawMap": {"Set", "Delete", "Clear"}}, CH: map[string]LockMode{"randomKey": ModeR, "forEach": ModeR}},
		{Pkg: "ds/randommap", Type: "randomMapEntry", Mutex: "mutex", ViaRecvType: "RandomMap", Fields: []string{"value", "keyIndex"}},
		{Pkg: "ds/priorityqueue", Type: "PriorityQueue", Mutex: "mutex", Fields: []string{"heap"}},
		{Pkg: "ds/queue", Type: "Queue", Mutex: "mutex", Fields: []string{"ringBuffer", "read", "write", "size", "capacity"}, CH: map[string]LockMode{"poll": ModeW}},
		{Pkg: "ds/ringbuffer", Type: "RingBuffer", Mutex: "mutex", Fields: []string{"buffer", "pos", "size"}},
		{Pkg: "ds/stack", Type: "threadSafeStack", Mutex: "mutex", Fields: []string{"stack"}, Mutators: map[string][]string{"stack": {"Push", "Pop", "Clear"}}},
		{Pkg: "ds/bytesfilter", Type: "BytesFilter", Mutex: "mutex", Fields: []string{"knownIdentifiers", "identifiers"},
			Mutators: map[string][]string{"knownIdentifiers": {"Set", "Delete"}}, CH: map[string]LockMode{"addIdentifier": ModeW}},
		{Pkg: "ds/timeheap", Type: "TimeHeap", Mutex: "lock", Fields: []string{"heap", "total"}, Mutators: map[string][]string{"heap": {"Pop", "Push"}}},
		{Pkg: "ds/onchangemap", Type: "OnChangeMap", Mutex: "mutex", Fields: []string{"m"}, Mutators: map[string][]string{"m": {"Set", "Delete", "Clear"}},
			CH: map[string]LockMode{"executeChangedCallback": ModeR, "executeItemCallback": ModeR}},
	})
	checkLockBalance(r, p, "lock/balance", []string{"ds/randommap", "ds/priorityqueue", "ds/queue", "ds/ringbuffer", "ds/stack", "ds/bytesfilter", "ds/timeheap", "ds/onchangemap"}, nil, nil)
	checkOverride(r, p, "decorator/declares-all", "ds/stack", "threadSafeStack", "Stack")
	checkForwarding(r, p, "fwd/delegates", fwdOpts{Pkg: "ds/stack", Type: "threadSafeStack", Field: "stack", MinMethods: 6})

	checkTimeHeap(r, p)
	checkGeneralHeap(r, c)
	if pd := c.Load("ds"); pd != nil {
		checkHeapFieldDiscipline(r, pd, "heap/only-through-container-heap", "ds/priorityqueue", "PriorityQueue", "heap")
	}
	checkRandomMap(r, p)
	checkBytesFilter(r, p)
	checkRings(r, p)
	checkWalkerBulk(r, p)
	// the Walker keeps its pushed elements in an OrderedMap (Set's "existed before" result decides
	// whether an element is a repeat, Clear implements Reset)
	checkOrderedMapCoupling(r, p)
	checkOnChangeMap(r, p)
	checkPriorityQueueBound(r, p)

	// core/memstorage
	if pc := c.Load("core"); pc != nil {
		checkGuards(r, pc, "lock/guarded-by", []GuardRow{{Pkg: "core/memstorage", Type: "IndexedStorage", Mutex: "mutex", Fields: []string{"cache"},
			Mutators: map[string][]string{"cache": {"Set", "Delete", "Clear"}}}})
		checkLockBalance(r, pc, "lock/balance", []string{"core/memstorage"}, nil, nil)
	}
	// runtime/timed comparators
	if pr := c.Load("runtime"); pr != nil {
		checkTimeComparators(r, pr)
	}
	// web/subscriptionmanager
	if pw := c.Load("web"); pw != nil {
		checkSubscriptionManager(r, pw)
	}
}

func srcOf(p *Prog, pkg, recv, m string) (string, *ast.FuncDecl) {
	fd := p.FuncDecl(pkg, recv, m)
	if fd == nil || fd.Body == nil {
		return "", nil
	}
	var parts []string
	ast.Inspect(fd.Body, func(n ast.Node) bool {
		switch x := n.(type) {
		case *ast.AssignStmt:
			var l, rr []string
			for _, e := range x.Lhs {
				l = append(l, exprKey(e))
			}
			for _, e := range x.Rhs {
				rr = append(rr, exprKey(e))
			}
			parts = append(parts, strings.Join(l, ",")+x.Tok.String()+strings.Join(rr, ","))
		case *ast.IncDecStmt:
			parts = append(parts, exprKey(x.X)+x.Tok.String())
		case *ast.ReturnStmt:
			var rr []string
			for _, e := range x.Results {
				rr = append(rr, exprKey(e))
			}
			parts = append(parts, "return "+strings.Join(rr, ","))
		case *ast.ExprStmt:
			parts = append(parts, exprKey(x.X))
		}
		return true
	})
	return strings.Join(parts, "; "), fd
}

// srcNorm is srcOf with the receiver rendered as "$" and the i-th parameter as "$i": the few rules
// that still compare a statement skeleton do not depend on how the receiver and the parameters
// are named. (Locals keep their names; pure temporaries are substituted by exprKey anyway.)
func srcNorm(p *Prog, pkg, recv, m string) (string, *ast.FuncDecl) {
	fd := p.FuncDecl(pkg, recv, m)
	if fd == nil || fd.Body == nil || p.Pkg(pkg) == nil {
		return "", nil
	}
	info := p.Pkg(pkg).TypesInfo
	env := map[types.Object]string{}
	if fd.Recv != nil && len(fd.Recv.List) == 1 && len(fd.Recv.List[0].Names) == 1 {
		if o := info.Defs[recvIdentOf(fd)]; o != nil {
			env[o] = "$"
		}
	}
	for i, po := range paramObjs(info, fd) {
		if po != nil {
			env[po] = fmt.Sprintf("$%d", i+1)
		}
	}
	var tmp []ast.Node
	ast.Inspect(fd.Body, func(n ast.Node) bool {
		if id, ok := n.(*ast.Ident); ok {
			if s, ok := env[info.Uses[id]]; ok {
				if _, exists := keySubst[id]; !exists {
					keySubst[id] = s
					tmp = append(tmp, id)
				}
			}
		}
		return true
	})
	s, _ := srcOf(p, pkg, recv, m)
	for _, n := range tmp {
		delete(keySubst, n)
	}
	return s, fd
}

func hasAll(s string, subs ...string) bool {
	for _, x := range subs {
		if !strings.Contains(s, x) {
			return false
		}
	}
	return true
}

func checkTimeHeap(r *Reporter, p *Prog) {
	const pkg = "ds/timeheap"
	pk := p.Pkg(pkg)
	if pk == nil {
		r.Unresolved("pair/heap-total", pkg, "package not loaded")
		return
	}
	info := pk.TypesInfo
	totalWrite := func(tok token.Token) func(ast.Node) bool {
		return func(n ast.Node) bool {
			as, ok := n.(*ast.AssignStmt)
			return ok && len(as.Lhs) == 1 && fieldSel(info, as.Lhs[0], "total") && as.Tok == tok
		}
	}
	heapOp := func(name string) func(ast.Node) bool {
		return func(n ast.Node) bool {
			cl, ok := n.(*ast.CallExpr)
			if !ok {
				return false
			}
			k := exprKey(cl.Fun)
			if k == "heap."+name && len(cl.Args) >= 1 && strings.HasSuffix(exprKey(cl.Args[0]), ".heap") {
				return true
			}
			return strings.HasSuffix(k, ".heap."+name)
		}
	}
	// Add: push => total +=
	if f := p.CFGOf(pkg, "TimeHeap", "Add"); f == nil {
		r.Unresolved("pair/heap-total", pkg+".TimeHeap.Add", "method not found")
	} else {
		pushes := f.Find(heapOp("Push"))
		if len(pushes) != 1 {
			r.Fail("pair/heap-total", pkg+".TimeHeap.Add", f.P.posStr(f.Body.Pos()), "expected one heap.Push")
		} else if w, found := f.PathToExitAvoiding(pushes[0], totalWrite(token.ADD_ASSIGN)); found {
			r.Fail("pair/heap-total", pkg+".TimeHeap.Add", f.PosOf(pushes[0]), "an entry is pushed without adding its count to total", w...)
		} else {
			r.Pass("pair/heap-total", pkg+".TimeHeap.Add", f.PosOf(pushes[0]), "push is followed by total += count on every path")
		}
	}
	// Clear: pops everything => total reset
	if f := p.CFGOf(pkg, "TimeHeap", "Clear"); f == nil {
		r.Unresolved("pair/heap-total", pkg+".TimeHeap.Clear", "method not found")
	} else {
		reset := func(n ast.Node) bool {
			as, ok := n.(*ast.AssignStmt)
			return ok && len(as.Lhs) == 1 && fieldSel(info, as.Lhs[0], "total") && as.Tok == token.ASSIGN && exprKey(as.Rhs[0]) == "0"
		}
		if w, found := f.reach(f.entry(), &searchOpts{AvoidNode: func(n ast.Node) bool { return reset(n) || totalWrite(token.SUB_ASSIGN)(n) }}, func(pt Point, atExit bool) bool { return atExit }); found {
			r.Fail("pair/heap-total", pkg+".TimeHeap.Clear", f.P.posStr(f.Body.Pos()), "Clear empties the heap but leaves the running total untouched: the windowed sum still counts cleared entries", w...)
		} else {
			r.Pass("pair/heap-total", pkg+".TimeHeap.Clear", f.P.posStr(f.Body.Pos()), "total is reset when the heap is cleared")
		}
	}
	// AveragePerSecond: a popped entry is either pushed back or subtracted
	if f := p.CFGOf(pkg, "TimeHeap", "AveragePerSecond"); f == nil {
		r.Unresolved("pair/heap-total", pkg+".TimeHeap.AveragePerSecond", "method not found")
	} else {
		pops := f.Find(heapOp("Pop"))
		ok := len(pops) == 1
		if ok {
			if _, found := f.reach(Point{pops[0].B, pops[0].I + 1}, &searchOpts{AvoidNode: func(n ast.Node) bool {
				return heapOp("Push")(n) || totalWrite(token.SUB_ASSIGN)(n)
			}}, func(pt Point, atExit bool) bool { return atExit || f.At(pt, pops[0]) }); found {
				ok = false
			}
		}
		if ok {
			r.Pass("pair/heap-total", pkg+".TimeHeap.AveragePerSecond", f.P.posStr(f.Body.Pos()), "every popped entry is pushed back or subtracted from total")
		} else {
			r.Fail("pair/heap-total", pkg+".TimeHeap.AveragePerSecond", f.P.posStr(f.Body.Pos()), "an expired entry must be subtracted from total (and a fresh one pushed back) on every path")
		}
	}
	// min-heap by timestamp
	if fd := p.FuncDecl(pkg, "timeHeap", "Less"); fd == nil {
		r.Unresolved("cmp/direction", pkg+".timeHeap.Less", "method not found")
	} else if dir := lessByTime(p, pkg, fd); dir == "first-older" {
		r.Pass("cmp/direction", pkg+".timeHeap.Less", p.posStr(fd.Pos()), "oldest entry first")
	} else {
		r.Fail("cmp/direction", pkg+".timeHeap.Less", p.posStr(fd.Pos()), "the time heap must order by oldest timestamp first; found "+dir)
	}
}

// lessByTime decides what a heap's Less(i, j) orders by when it compares two time stamps: every
// value it can return is `<elem i>.Before(<elem j>)` or `<elem j>.After(<elem i>)` ("first-older"),
// the opposite ("first-newer"), or something else - whatever temporaries or helpers it is
// spelled with. An element is recognised by the index parameter it is selected with.
func lessByTime(p *Prog, pkg string, fd *ast.FuncDecl) string {
	info := p.Pkg(pkg).TypesInfo
	params := paramObjs(info, fd)
	if len(params) != 2 || params[0] == nil || params[1] == nil {
		return "not a Less(i, j)"
	}
	f := newFuncCFG(p, info, fd.Body, "less")
	mentions := func(e ast.Expr, pt Point, po types.Object) bool {
		hit := false
		var walk func(e ast.Expr, pt Point, depth int)
		walk = func(e ast.Expr, pt Point, depth int) {
			ast.Inspect(e, func(n ast.Node) bool {
				if hit {
					return false
				}
				id, ok := n.(*ast.Ident)
				if !ok {
					return true
				}
				if f.IsVar(id, pt, po) {
					hit = true
					return false
				}
				if depth > 0 {
					if re, rpt := f.Resolve(id, pt); re != ast.Expr(id) {
						walk(re, rpt, depth-1)
					}
				}
				return true
			})
		}
		walk(e, pt, 4)
		return hit
	}
	verdict := ""
	n := 0
	for _, pt := range f.FindOwn(func(n ast.Node) bool { _, ok := n.(*ast.ReturnStmt); return ok }) {
		rs := f.nodeAt(pt).(*ast.ReturnStmt)
		if len(rs.Results) != 1 {
			return "unexpected return"
		}
		for _, o := range f.Origins(rs.Results[0], pt) {
			n++
			cl, ok := ast.Unparen(o.E).(*ast.CallExpr)
			if !ok || len(cl.Args) != 1 {
				return "returns " + exprKey(o.E)
			}
			se, ok := ast.Unparen(cl.Fun).(*ast.SelectorExpr)
			if !ok || (se.Sel.Name != "Before" && se.Sel.Name != "After") {
				return "returns " + exprKey(o.E)
			}
			xi, xj := mentions(se.X, o.At, params[0]), mentions(se.X, o.At, params[1])
			ai, aj := mentions(cl.Args[0], o.At, params[0]), mentions(cl.Args[0], o.At, params[1])
			d := ""
			switch {
			case xi && !xj && aj && !ai: // elem i . op ( elem j )
				d = map[string]string{"Before": "first-older", "After": "first-newer"}[se.Sel.Name]
			case xj && !xi && ai && !aj:
				d = map[string]string{"Before": "first-newer", "After": "first-older"}[se.Sel.Name]
			default:
				return "compares " + exprKey(o.E)
			}
			if verdict != "" && verdict != d {
				return "mixed directions"
			}
			verdict = d
		}
	}
	if n == 0 {
		return "no return value found"
	}
	return verdict
}

func checkRandomMap(r *Reporter, p *Prog) {
	const pkg = "ds/randommap"
	pk := p.Pkg(pkg)
	if pk == nil {
		r.Unresolved("pair/randommap", pkg, "package not loaded")
		return
	}
	info := pk.TypesInfo
	if f := p.CFGOf(pkg, "RandomMap", "Set"); f == nil {
		r.Unresolved("pair/randommap", pkg+".RandomMap.Set", "method not found")
	} else {
		_, absent := f.CondEdges(func(e ast.Expr) bool { return exprKey(e) == "exists" })
		isRawSet := func(n ast.Node) bool {
			cl, ok := n.(*ast.CallExpr)
			return ok && strings.HasSuffix(exprKey(cl.Fun), ".rawMap.Set")
		}
		isAppend := func(n ast.Node) bool {
			as, ok := n.(*ast.AssignStmt)
			return ok && len(as.Lhs) == 1 && fieldSel(info, as.Lhs[0], "keys") && strings.HasPrefix(exprKey(as.Rhs[0]), "append(")
		}
		bad := len(absent) == 0
		for _, e := range absent {
			for _, pred := range []func(ast.Node) bool{isRawSet, isAppend} {
				if _, found := f.reach(Point{e.From.Succs[e.Succ], 0}, &searchOpts{AvoidNode: pred}, func(pt Point, atExit bool) bool { return atExit }); found {
					bad = true
				}
			}
		}
		for _, pt := range append(f.Find(isRawSet), f.Find(isAppend)...) {
			if _, only := f.OnlyThroughEdges(pt, absent); !only {
				bad = true
			}
		}
		// key index of a new entry = number of keys before the insertion
		idxOK := false
		ast.Inspect(f.Body, func(n ast.Node) bool {
			if kv, ok := n.(*ast.KeyValueExpr); ok && exprKey(kv.Key) == "keyIndex" {
				v := exprKey(kv.Value)
				idxOK = strings.HasSuffix(v, ".rawMap.Size()") || strings.HasPrefix(v, "len(") && strings.HasSuffix(v, ".keys)")
			}
			return true
		})
		if bad || !idxOK {
			r.Fail("pair/randommap", pkg+".RandomMap.Set", f.P.posStr(f.Body.Pos()), fmt.Sprintf("a new key must be stored in the map with keyIndex = previous size AND appended to the key slice, and an existing key must touch neither (paths ok=%v, index ok=%v)", !bad, idxOK))
		} else {
			r.Pass("pair/randommap", pkg+".RandomMap.Set", f.P.posStr(f.Body.Pos()), "new key: map entry with keyIndex = previous size + key appended; existing key: value replaced only")
		}
	}
	if f := p.CFGOf(pkg, "RandomMap", "Delete"); f == nil {
		r.Unresolved("pair/randommap", pkg+".RandomMap.Delete", "method not found")
	} else {
		// swap-last removal, judged on resolved values (temporaries and helpers looked through):
		//  (a) the back-index of the entry of the LAST key is set to the deleted entry's index,
		//  (b) the slot at the deleted entry's index receives the last key,
		//  (c) the key slice is cut by one, (d) the map entry is deleted.
		info := p.Pkg(pkg).TypesInfo
		lastKey := func(k string) bool {
			return strings.HasSuffix(k, ".keys[(len(") == false && strings.Contains(k, ".keys[(len(") && strings.Contains(k, ".keys)-1)]")
		}
		var okA, okB, okC, okD bool
		var seen []string
		for _, b := range f.G.Blocks {
			if !b.Live {
				continue
			}
			for i, nd := range b.Nodes {
				pt := Point{b, i}
				switch x := nd.(type) {
				case *ast.AssignStmt:
					if len(x.Lhs) != 1 || len(x.Rhs) != 1 {
						continue
					}
					lhs, rhs := f.KeyAt(x.Lhs[0], pt), f.KeyAt(x.Rhs[0], pt)
					seen = append(seen, lhs+" = "+rhs)
					switch {
					case strings.HasSuffix(lhs, ".keyIndex") && fieldSel(info, x.Lhs[0], "keyIndex"):
						// <entry of last key>.keyIndex = <deleted entry>.keyIndex
						if strings.Contains(lhs, ".rawMap.Get(") && lastKey(lhs) && strings.HasSuffix(rhs, ".rawMap.Get(key).keyIndex") {
							okA = true
						}
					case strings.Contains(lhs, ".keys[") && strings.HasSuffix(lhs, ".rawMap.Get(key).keyIndex]"):
						if lastKey(rhs) {
							okB = true
						}
					case strings.HasSuffix(lhs, ".keys") && strings.Contains(rhs, ".keys[:(len(") && strings.HasSuffix(rhs, ".keys)-1)]"):
						okC = true
					}
				}
				inspectNoLit(nd, func(n ast.Node) bool {
					if cl, ok := n.(*ast.CallExpr); ok && strings.HasSuffix(exprKey(cl.Fun), ".rawMap.Delete") && len(cl.Args) == 1 && f.KeyAt(cl.Args[0], pt) == "key" {
						okD = true
					}
					return true
				})
			}
		}
		if okA && okB && okC && okD {
			r.Pass("pair/randommap", pkg+".RandomMap.Delete", f.P.posStr(f.Body.Pos()), "swap-last: moved entry gets the hole's index, the hole gets the moved key, slice truncated, map entry deleted")
		} else {
			r.Fail("pair/randommap", pkg+".RandomMap.Delete", f.P.posStr(f.Body.Pos()), fmt.Sprintf("delete must move the last key into the hole (back-index updated: %v, slot filled: %v), truncate the key slice (%v) and delete the map entry (%v); resolved stores: %s", okA, okB, okC, okD, strings.Join(seen, "; ")))
		}
	}
	if f := p.CFGOf(pkg, "RandomMap", "RandomKey"); f != nil {
		// (zero, false) exactly on the edge where the map is known to be empty; a key otherwise
		empty := f.RelEdgesAt(func(rel Rel) bool {
			return rel.Op == "==" && rel.L == "0" && (strings.HasSuffix(rel.R, ".keys)") && strings.HasPrefix(rel.R, "len(") || strings.HasSuffix(rel.R, ".rawMap.Size()"))
		})
		okAbsent, okPresent, nF, nT := true, true, 0, 0
		for _, pt := range f.Find(func(n ast.Node) bool { _, ok := n.(*ast.ReturnStmt); return ok }) {
			rs := f.nodeAt(pt).(*ast.ReturnStmt)
			if len(rs.Results) != 2 {
				continue
			}
			switch rawKey(rs.Results[1]) {
			case "false":
				nF++
				if _, only := f.OnlyThroughEdges(pt, empty); !only {
					okAbsent = false
				}
			case "true":
				nT++
				for _, e := range empty {
					if _, found := f.reach(Point{e.From.Succs[e.Succ], 0}, nil, func(q Point, atExit bool) bool { return !atExit && f.At(q, pt) }); found {
						okPresent = false
					}
				}
			}
		}
		if okAbsent && okPresent && nF > 0 && nT > 0 && len(empty) > 0 {
			r.Pass("pair/randommap", pkg+".RandomMap.RandomKey", f.P.posStr(f.Body.Pos()), "empty map yields (zero, false); a key is drawn only when the map is non-empty")
		} else {
			r.Fail("pair/randommap", pkg+".RandomMap.RandomKey", f.P.posStr(f.Body.Pos()), fmt.Sprintf("RandomKey must report absence exactly for an empty map (empty-test edges %d, absent returns %d only-on-empty=%v, present returns %d never-on-empty=%v)", len(empty), nF, okAbsent, nT, okPresent))
		}
	}
}

func checkBytesFilter(r *Reporter, p *Prog) {
	const pkg = "ds/bytesfilter"
	f := p.CFGOf(pkg, "BytesFilter", "addIdentifier")
	key := pkg + ".BytesFilter.addIdentifier"
	if f == nil {
		r.Unresolved("pair/bytesfilter", key, "method not found")
		return
	}
	info := f.Info
	known, _ := f.CondEdges(func(e ast.Expr) bool { return exprKey(e) == "exists" })
	full := f.RelEdges(func(rel Rel) bool {
		return rel.Op == "==" && ((strings.HasSuffix(rel.L, ".size") && strings.HasPrefix(rel.R, "len(")) || (strings.HasSuffix(rel.R, ".size") && strings.HasPrefix(rel.L, "len(")))
	})
	isEvict := func(n ast.Node) bool {
		cl, ok := n.(*ast.CallExpr)
		return ok && strings.HasSuffix(exprKey(cl.Fun), ".knownIdentifiers.Delete") && len(cl.Args) == 1 && strings.HasSuffix(exprKey(cl.Args[0]), ".identifiers[0]")
	}
	isShift := func(n ast.Node) bool {
		as, ok := n.(*ast.AssignStmt)
		return ok && len(as.Lhs) == 1 && fieldSel(info, as.Lhs[0], "identifiers") && strings.Contains(exprKey(as.Rhs[0]), ".identifiers[1:]")
	}
	isRemember := func(n ast.Node) bool {
		cl, ok := n.(*ast.CallExpr)
		return ok && strings.HasSuffix(exprKey(cl.Fun), ".knownIdentifiers.Set")
	}
	isAppendAny := func(n ast.Node) bool {
		as, ok := n.(*ast.AssignStmt)
		return ok && len(as.Lhs) == 1 && fieldSel(info, as.Lhs[0], "identifiers") && strings.HasPrefix(exprKey(as.Rhs[0]), "append(")
	}
	bad := ""
	for _, e := range known {
		if _, found := f.reach(Point{e.From.Succs[e.Succ], 0}, nil, func(pt Point, atExit bool) bool {
			return !atExit && (isRemember(f.nodeAt(pt)) || containsMatch(f.nodeAt(pt), isAppendAny))
		}); found {
			bad = "a known identifier is recorded again"
		}
	}
	if len(known) == 0 || len(full) == 0 {
		bad = "membership test or capacity test missing"
	}
	for _, e := range full {
		for _, pred := range []func(ast.Node) bool{isEvict, isShift} {
			if _, found := f.reach(Point{e.From.Succs[e.Succ], 0}, &searchOpts{AvoidNode: pred}, func(pt Point, atExit bool) bool { return atExit }); found {
				bad = "at capacity the oldest identifier must be evicted from both the set and the FIFO slice"
			}
		}
	}
	// every non-known path remembers the identifier in both structures
	_, unknown := f.CondEdges(func(e ast.Expr) bool { return exprKey(e) == "exists" })
	for _, e := range unknown {
		for _, pred := range []func(ast.Node) bool{isRemember, isAppendAny} {
			if _, found := f.reach(Point{e.From.Succs[e.Succ], 0}, &searchOpts{AvoidNode: pred}, func(pt Point, atExit bool) bool { return atExit }); found {
				bad = "a new identifier is not recorded in both the set and the FIFO slice on every path"
			}
		}
	}
	if bad != "" {
		r.Fail("pair/bytesfilter", key, f.P.posStr(f.Body.Pos()), bad)
	} else {
		r.Pass("pair/bytesfilter", key, f.P.posStr(f.Body.Pos()), "known -> no change; at capacity evict identifiers[0] from set and slice; then record in both")
	}
}

func containsMatch(n ast.Node, pred func(ast.Node) bool) bool {
	if n == nil {
		return false
	}
	hit := false
	inspectNoLit(n, func(c ast.Node) bool {
		if pred(c) {
			hit = true
		}
		return !hit
	})
	return hit
}

func checkRings(r *Reporter, p *Prog) {
	for _, row := range []struct {
		pkg, typ, m string
		want        []string
		what        string
	}{
		{"ds/queue", "Queue", "Offer", []string{"$.ringBuffer[$.write]=element", "$.write=(($.write+1)%$.capacity)", "$.size++", "return false", "return true"}, "store at write, advance write modulo capacity, size++; full queue rejects"},
		{"ds/queue", "Queue", "ForceOffer", []string{"$.ringBuffer[$.read]=", "$.ringBuffer[$.write]=element", "$.write=(($.write+1)%$.capacity)", "$.size++"}, "evict oldest when full, then store/advance/size++"},
		{"ds/queue", "Queue", "Poll", []string{"=$.ringBuffer[$.read]", "$.read=(($.read+1)%$.capacity)", "$.size--"}, "read at read cursor, advance modulo capacity, size--"},
		{"ds/ringbuffer", "RingBuffer", "Add", []string{"$.buffer[$.pos]=element", "$.pos=(($.pos+1)%$.capacity)", "$.size=($.size+1)"}, "store at pos, advance modulo capacity, size grows up to capacity"},
	} {
		// judged on the exported operation with its helpers expanded and operands resolved
		f := p.CFGOf(row.pkg, row.typ, row.m)
		key := row.pkg + "." + row.typ + "." + row.m
		if f == nil {
			r.Unresolved("pair/ring-cursor", key, "method not found")
			continue
		}
		s := strings.Join(f.Effects(), "; ")
		// the receiver's name is not part of the contract
		if fd := p.FuncDecl(row.pkg, row.typ, row.m); fd != nil && fd.Recv != nil && len(fd.Recv.List) == 1 && len(fd.Recv.List[0].Names) == 1 {
			s = regexp.MustCompile(`\b`+regexp.QuoteMeta(recvIdentOf(fd).Name)+`\.`).ReplaceAllString(s, "$$.")
		}
		if hasAll(s, row.want...) {
			r.Pass("pair/ring-cursor", key, f.P.posStr(f.Body.Pos()), row.what)
		} else {
			r.Fail("pair/ring-cursor", key, f.P.posStr(f.Body.Pos()), "expected: "+row.what+"; found: "+s)
		}
	}
	// full / empty guards
	if f := p.CFGOf("ds/queue", "Queue", "Offer"); f != nil {
		full := f.RelEdges(func(rel Rel) bool {
			return rel.Op == "==" && ((strings.HasSuffix(rel.L, ".capacity") && strings.HasSuffix(rel.R, ".size")) || (strings.HasSuffix(rel.R, ".capacity") && strings.HasSuffix(rel.L, ".size")))
		})
		notFull := f.RelEdges(func(rel Rel) bool {
			return (rel.Op == "!=" || rel.Op == "<") && strings.Contains(rel.L+rel.R, ".capacity") && strings.Contains(rel.L+rel.R, ".size")
		})
		stores := f.Find(func(n ast.Node) bool {
			as, ok := n.(*ast.AssignStmt)
			return ok && len(as.Lhs) == 1 && strings.HasSuffix(exprKey(as.Lhs[0]), ".ringBuffer[queue.write]")
		})
		ok := len(full) > 0 && len(stores) == 1
		if ok {
			_, only := f.OnlyThroughEdges(stores[0], notFull)
			ok = only
		}
		if ok {
			r.Pass("pair/ring-cursor", "ds/queue.Queue.Offer bounded", f.P.posStr(f.Body.Pos()), "stores only when size != capacity")
		} else {
			r.Fail("pair/ring-cursor", "ds/queue.Queue.Offer bounded", f.P.posStr(f.Body.Pos()), "Offer must reject when size == capacity (otherwise it overwrites unread elements)")
		}
	}
}

func checkWalkerBulk(r *Reporter, p *Prog) {
	const pkg = "ds/walker"
	for _, m := range []string{"PushAll", "PushFront"} {
		fd := p.FuncDecl(pkg, "Walker", m)
		key := pkg + ".Walker." + m
		if fd == nil {
			r.Unresolved("bulk/no-early-exit", key, "method not found")
			continue
		}
		bad := ""
		n := 0
		ast.Inspect(fd.Body, func(nd ast.Node) bool {
			rs, ok := nd.(*ast.RangeStmt)
			if !ok {
				return true
			}
			n++
			ast.Inspect(rs.Body, func(m ast.Node) bool {
				switch x := m.(type) {
				case *ast.FuncLit:
					return false
				case *ast.ReturnStmt:
					bad = p.posStr(x.Pos()) + ": return inside the per-element loop drops the remaining elements (a skip must be `continue`)"
				case *ast.BranchStmt:
					if x.Tok == token.BREAK {
						bad = p.posStr(x.Pos()) + ": break inside the per-element loop drops the remaining elements"
					}
				}
				return true
			})
			return true
		})
		if n == 0 {
			r.Fail("bulk/no-early-exit", key, p.posStr(fd.Pos()), "no per-element loop found (vacuous)")
		} else if bad != "" {
			r.Fail("bulk/no-early-exit", key, p.posStr(fd.Pos()), bad)
		} else {
			r.Pass("bulk/no-early-exit", key, p.posStr(fd.Pos()), "the per-element loop has no early exit")
		}
	}
	// Push: skip repeats unless revisiting; queue order
	if fd := p.FuncDecl(pkg, "Walker", "Push"); fd != nil {
		// the element is appended at the back, and only on paths where it was not pushed before or
		// revisiting is enabled: the skip edge (pushed before AND not revisiting) leads to no append
		info := p.Pkg(pkg).TypesInfo
		f := newFuncCFG(p, info, fd.Body, pkg+".Walker.Push")
		params := paramObjs(info, fd)
		appends := f.Find(func(n ast.Node) bool {
			c, ok := n.(*ast.CallExpr)
			if !ok || len(c.Args) != 1 || len(params) != 1 {
				return false
			}
			// the call itself, or a call of a function parameter of a spliced helper that is bound to
			// the method value (`w.enqueue(e, w.stack.PushBack)` ... `insert(e)`)
			fun := ast.Unparen(c.Fun)
			cpt, okp := f.PointOf(c)
			if _, isSel := fun.(*ast.SelectorExpr); !isSel && okp {
				if re, _ := f.Resolve(fun, cpt); re != nil {
					fun = ast.Unparen(re)
				}
			}
			se, ok := fun.(*ast.SelectorExpr)
			if !ok || se.Sel.Name != "PushBack" || !fieldSel(info, se.X, "stack") {
				return false
			}
			return objOfIdent(info, c.Args[0]) == params[0] || (okp && f.IsVar(c.Args[0], cpt, params[0]))
		})
		okPush := len(appends) == 1
		nSkip := 0
		if okPush {
			// edges on which the element is known to have been pushed before and revisiting is off
			for _, b := range f.G.Blocks {
				if !b.Live || condOf(b) == nil {
					continue
				}
				for si := range b.Succs {
					seenBefore, noRevisit := false, false
					for _, ft := range f.EdgeFacts(b, si == 0) {
						k := f.KeyAt(ft.Atom, Point{b, len(b.Nodes) - 1})
						if ft.Pol && strings.Contains(k, ".pushedElements.Set(") {
							seenBefore = true
						}
						// the membership write behind a small predicate helper (`firstPush := !existedBefore`):
						// what the helper's result stands for, read on the helper's own body
						if c, isCall := ast.Unparen(ft.Atom).(*ast.CallExpr); isCall {
							if inner, negated, ok := boolHelperStandsFor(p, info, c); ok && strings.Contains(exprKey(inner.Fun), ".pushedElements.Set") {
								if ft.Pol != negated {
									seenBefore = true
								}
							}
						}
						if !ft.Pol && strings.HasSuffix(k, ".revisitElements") {
							noRevisit = true
						}
					}
					if seenBefore && noRevisit {
						nSkip++
						if _, reaches := f.reach(Point{b.Succs[si], 0}, nil, func(q Point, atExit bool) bool { return !atExit && f.At(q, appends[0]) }); reaches {
							okPush = false
						}
					}
				}
			}
			// and nothing else keeps the element out: from the entry the append is reachable
			if _, reaches := f.reach(f.entry(), nil, func(q Point, atExit bool) bool { return !atExit && f.At(q, appends[0]) }); !reaches {
				okPush = false
			}
		}
		// every push is remembered: the element is recorded in pushedElements on every path through Push,
		// also when revisiting is enabled (Pushed() must answer true for it afterwards)
		// (a call in the right operand of && / || runs only when the left operand lets it)
		conditional := map[*ast.CallExpr]bool{}
		for _, b := range f.G.Blocks {
			for _, nd := range b.Nodes {
				ast.Inspect(nd, func(m ast.Node) bool {
					if be, ok := m.(*ast.BinaryExpr); ok && (be.Op == token.LAND || be.Op == token.LOR) {
						ast.Inspect(be.Y, func(y ast.Node) bool {
							if c, ok := y.(*ast.CallExpr); ok {
								conditional[c] = true
							}
							return true
						})
					}
					return true
				})
			}
		}
		isRecord := func(n ast.Node) bool {
			c, ok := n.(*ast.CallExpr)
			if !ok || conditional[c] {
				return false
			}
			if strings.HasSuffix(exprKey(c.Fun), ".pushedElements.Set") {
				return true
			}
			inner, _, ok := boolHelperStandsFor(p, info, c)
			return ok && strings.HasSuffix(exprKey(inner.Fun), ".pushedElements.Set")
		}
		if w, found := f.reach(f.entry(), &searchOpts{AvoidNode: isRecord}, func(_ Point, atExit bool) bool { return atExit }); found {
			r.Fail("bulk/records-pushed", pkg+".Walker.Push", p.posStr(fd.Pos()), "a path through Push does not record the element in pushedElements: Pushed() reports it as never pushed", w...)
		} else {
			r.Pass("bulk/records-pushed", pkg+".Walker.Push", p.posStr(fd.Pos()), "the element is recorded in pushedElements on every path")
		}
		s, _ := srcOf(p, pkg, "Walker", "Push")
		if okPush && nSkip >= 1 {
			r.Pass("bulk/no-early-exit", pkg+".Walker.Push", p.posStr(fd.Pos()), "repeat skipped unless revisiting; appended at the back")
		} else {
			r.Fail("bulk/no-early-exit", pkg+".Walker.Push", p.posStr(fd.Pos()), "Push must skip already pushed elements unless revisiting and append at the back: "+s)
		}
	}
}

func checkOnChangeMap(r *Reporter, p *Prog) {
	const pkg = "ds/onchangemap"
	for _, row := range []struct{ m, mut, cb string }{{"Add", "Set", "itemAddedCallback"}, {"Delete", "Delete", "itemDeletedCallback"}} {
		f := p.CFGOf(pkg, "OnChangeMap", row.m)
		key := pkg + ".OnChangeMap." + row.m
		if f == nil {
			r.Unresolved("pair/change-callback", key, "method not found")
			continue
		}
		muts := f.Find(func(n ast.Node) bool {
			cl, ok := n.(*ast.CallExpr)
			return ok && strings.HasSuffix(exprKey(cl.Fun), ".m."+row.mut)
		})
		isCb := func(n ast.Node) bool {
			cl, ok := n.(*ast.CallExpr)
			return ok && strings.HasSuffix(exprKey(cl.Fun), ".executeItemCallback") && len(cl.Args) == 2 && strings.HasSuffix(exprKey(cl.Args[0]), "."+row.cb)
		}
		if len(muts) != 1 {
			r.Fail("pair/change-callback", key, f.P.posStr(f.Body.Pos()), "expected one mutation of the map")
		} else if w, found := f.PathToExitAvoiding(muts[0], isCb); found {
			r.Fail("pair/change-callback", key, f.PosOf(muts[0]), "the map is changed on a path that does not run the matching callback: callbacks no longer mirror every change", w...)
		} else {
			r.Pass("pair/change-callback", key, f.PosOf(muts[0]), "mutation is followed by the "+row.cb+" on every path")
		}
	}
}

func checkPriorityQueueBound(r *Reporter, p *Prog) {
	const pkg = "ds/priorityqueue"
	fd := p.FuncDecl(pkg, "PriorityQueue", "PopUntil")
	if fd == nil {
		r.Unresolved("cmp/direction", pkg+".PriorityQueue.PopUntil", "method not found")
		return
	}
	// the popping loop continues exactly while the heap is non-empty and the head's key compares
	// <= the bound: what holds on the continue edge of the loop, whatever its spelling
	cond := "no popping loop"
	okCond := false
	{
		info := p.Pkg(pkg).TypesInfo
		f := newFuncCFG(p, info, fd.Body, pkg+".PriorityQueue.PopUntil")
		params := paramObjs(info, fd)
		for _, l := range f.Loops() {
			fs, isFor := l.Stmt.(*ast.ForStmt)
			if !isFor || fs.Cond == nil {
				continue
			}
			cond = exprKey(fs.Cond)
			nonEmpty, inclusive, other := false, false, false
			pt := Point{l.Head, len(l.Head.Nodes) - 1}
			for _, ft := range f.EdgeFacts(l.Head, true) {
				rel, isRel := relOfWith(ft.Atom, func(x ast.Expr) string { return f.KeyAt(x, pt) })
				if !isRel {
					other = true
					continue
				}
				if !ft.Pol {
					rel = negRel(rel)
				}
				switch {
				case strings.HasSuffix(rel.L, ".heap.Len()") && ((rel.Op == "!=" && rel.R == "0") || (rel.Op == ">" && rel.R == "0") || (rel.Op == ">=" && rel.R == "1")):
					nonEmpty = true
				case strings.HasSuffix(rel.R, ".heap.Len()") && ((rel.Op == "!=" && rel.L == "0") || (rel.Op == "<" && rel.L == "0")):
					nonEmpty = true
				case strings.Contains(rel.L, ".heap[0].Key.CompareTo(") && len(params) == 1 && strings.HasSuffix(rel.L, ".CompareTo("+params[0].Name()+")") && ((rel.Op == "<=" && rel.R == "0") || (rel.Op == "<" && rel.R == "1")):
					inclusive = true
				default:
					other = true
				}
			}
			okCond = nonEmpty && inclusive && !other
		}
	}
	if okCond {
		r.Pass("cmp/direction", pkg+".PriorityQueue.PopUntil", p.posStr(fd.Pos()), "pops while the head's key <= bound (inclusive)")
	} else {
		r.Fail("cmp/direction", pkg+".PriorityQueue.PopUntil", p.posStr(fd.Pos()), "PopUntil must pop while heap non-empty and head.Key.CompareTo(bound) <= 0; found "+cond)
	}
	// removal handle is idempotent
	if fdp := p.FuncDecl(pkg, "PriorityQueue", "Push"); fdp != nil {
		ok := false
		// the handle: a literal, or a method of a handle struct returned as a method value
		for _, lit := range callbacksIn(p, p.Pkg(pkg).TypesInfo, fdp.Body) {
			lf := newFuncCFG(p, p.Pkg(pkg).TypesInfo, lit.Body, "remove handle")
			rem := lf.Find(func(m ast.Node) bool {
				cl, isCall := m.(*ast.CallExpr)
				return isCall && exprKey(cl.Fun) == "heap.Remove"
			})
			live := lf.RelEdges(func(rel Rel) bool {
				return rel.Op == "!=" && ((rel.L == "-1" && strings.HasSuffix(rel.R, ".Index()")) || (rel.R == "-1" && strings.HasSuffix(rel.L, ".Index()")))
			})
			if len(rem) == 1 {
				if _, only := lf.OnlyThroughEdges(rem[0], live); only {
					ok = true
				}
			}
		}
		checkFreshPushedElement(r, p, pkg, "PriorityQueue", "Push")
		if ok {
			r.Pass("pair/removal-handle", pkg+".PriorityQueue.Push", p.posStr(fdp.Pos()), "the removal handle removes only while the element's index is not -1 (idempotent)")
		} else {
			r.Fail("pair/removal-handle", pkg+".PriorityQueue.Push", p.posStr(fdp.Pos()), "the removal handle must be guarded by Index() != -1")
		}
	}
}

func checkTimeComparators(r *Reporter, p *Prog) {
	const pkg = "runtime/timed"
	for _, row := range []struct {
		typ           string
		before, after string
	}{{"timeAscending", "-1", "1"}, {"timeDescending", "1", "-1"}} {
		fd := p.FuncDecl(pkg, row.typ, "CompareTo")
		key := pkg + "." + row.typ + ".CompareTo"
		if fd == nil {
			r.Unresolved("cmp/direction", key, "method not found")
			continue
		}
		got := timeCompareDirection(p, pkg, fd, key)
		if got["Before(recv,arg)"] == row.before && got["After(recv,arg)"] == row.after {
			r.Pass("cmp/direction", key, p.posStr(fd.Pos()), fmt.Sprintf("earlier -> %s, later -> %s", row.before, row.after))
		} else {
			r.Fail("cmp/direction", key, p.posStr(fd.Pos()), fmt.Sprintf("expected earlier -> %s and later -> %s, found %v", row.before, row.after, got))
		}
	}
	// constructor picks the matching flavour
	if fd := p.FuncDecl(pkg, "", "NewPriorityQueue"); fd != nil {
		ok := false
		ast.Inspect(fd.Body, func(n ast.Node) bool {
			is, isIf := n.(*ast.IfStmt)
			if !isIf || !strings.Contains(exprKey(is.Cond), "First(ascending)") || strings.HasPrefix(exprKey(is.Cond), "!") {
				return true
			}
			ast.Inspect(is.Body, func(m ast.Node) bool {
				if cl, isCL := m.(*ast.CompositeLit); isCL && strings.HasPrefix(exprKey(cl.Type), "priorityQueueAscending") {
					ok = true
				}
				return true
			})
			return true
		})
		if ok {
			r.Pass("cmp/direction", pkg+".NewPriorityQueue", p.posStr(fd.Pos()), "ascending flag selects the ascending comparator")
		} else {
			r.Fail("cmp/direction", pkg+".NewPriorityQueue", p.posStr(fd.Pos()), "the ascending flag must select the ascending flavour")
		}
	}
}

func checkSubscriptionManager(r *Reporter, p *Prog) {
	const pkg = "web/subscriptionmanager"
	pk := p.Pkg(pkg)
	if pk == nil {
		r.Unresolved("lock/guarded-by", pkg, "package not loaded")
		return
	}
	info := pk.TypesInfo
	checkGuards(r, p, "lock/guarded-by", []GuardRow{{Pkg: pkg, Type: "SubscriptionManager", Mutex: "RWMutex", Fields: []string{"subscribers", "topics"},
		Mutators: map[string][]string{"subscribers": {"Set", "Delete", "Clear"}, "topics": {"Set", "Delete", "Clear"}},
		CH:       map[string]LockMode{"cleanupClientWithoutLocking": ModeW}}})
	checkLockBalance(r, p, "lock/balance", []string{pkg}, nil, nil)
	// events outside the lock
	nTrig := 0
	var bad []string
	for _, fd := range p.Methods(pkg, "SubscriptionManager") {
		if fd.Body == nil {
			continue
		}
		seen := map[ast.Node]bool{}
		entry := LockSet{}
		AnalyzeLocks(fd.Body, entry, &FlowOpts{Info: info}, func(n ast.Node, stack []ast.Node, held LockSet) {
			cl, ok := n.(*ast.CallExpr)
			if !ok || seen[cl] || !strings.HasSuffix(exprKey(cl.Fun), ".Trigger") || !strings.Contains(exprKey(cl.Fun), ".events.") {
				return
			}
			seen[cl] = true
			nTrig++
			if len(held) > 0 {
				bad = append(bad, fmt.Sprintf("%s: event triggered while holding %s (a handler that calls back into the manager dead-locks)", p.posStr(cl.Pos()), held))
			}
		})
	}
	if nTrig < 10 {
		r.Fail("lock/no-callback-under-lock", pkg+".SubscriptionManager events", "-", fmt.Sprintf("expected at least 10 event trigger sites, found %d", nTrig))
	} else if len(bad) > 0 {
		r.Fail("lock/no-callback-under-lock", pkg+".SubscriptionManager events", "-", bad[0], bad...)
	} else {
		r.Pass("lock/no-callback-under-lock", pkg+".SubscriptionManager events", "-", fmt.Sprintf("%d trigger sites, all outside the lock", nTrig))
	}
	checkCleanupSubtractsClientCount(r, p, pkg, info)
	// coupled counts in Subscribe / Unsubscribe (the locked literal)
	for _, row := range []struct {
		m    string
		undo bool
	}{
		{"Subscribe", true},
		{"Unsubscribe", false},
	} {
		fd := p.FuncDecl(pkg, "SubscriptionManager", row.m)
		key := pkg + ".SubscriptionManager." + row.m
		if fd == nil {
			r.Unresolved("pair/client-global-count", key, "method not found")
			continue
		}
		var lit *ast.FuncLit
		ast.Inspect(fd.Body, func(n ast.Node) bool {
			if cl, ok := n.(*ast.CallExpr); ok && lit == nil {
				if l, ok := cl.Fun.(*ast.FuncLit); ok {
					lit = l
				}
			}
			return true
		})
		if lit == nil {
			r.Fail("pair/client-global-count", key, p.posStr(fd.Pos()), "locked section literal not found")
			continue
		}
		lf := newFuncCFG(p, info, lit.Body, key+"$locked")
		// the maps are identified by where they come from, not by the names of the locals:
		//   per-client count  = a Set/Delete(topic...) on the map obtained from s.subscribers.Get(client)
		//   global count      = a Set/Delete(topic...) on s.topics
		mapOp := func(n ast.Node) (kind, op string) {
			cl, ok := n.(*ast.CallExpr)
			if !ok {
				return "", ""
			}
			se, ok := ast.Unparen(cl.Fun).(*ast.SelectorExpr)
			if !ok || (se.Sel.Name != "Set" && se.Sel.Name != "Delete") {
				return "", ""
			}
			pt, okp := lf.PointOf(cl)
			if !okp {
				return "", ""
			}
			rk := lf.KeyAt(se.X, pt)
			switch {
			case strings.HasSuffix(rk, ".topics"):
				return "global", se.Sel.Name
			case strings.Contains(rk, ".subscribers.Get("):
				return "client", se.Sel.Name
			}
			return "", ""
		}
		clientChanges := lf.Find(func(n ast.Node) bool { k, _ := mapOp(n); return k == "client" })
		isGlobal := func(n ast.Node) bool { k, _ := mapOp(n); return k == "global" }
		isUndo := func(n ast.Node) bool { k, op := mapOp(n); return row.undo && k == "client" && op == "Delete" }
		isObserver := func(n ast.Node) bool {
			cl, ok := n.(*ast.CallExpr)
			return ok && strings.HasSuffix(exprKey(cl.Fun), ".cleanupClientWithoutLocking")
		}
		// exempt: the global topic entry is known to be absent (nothing to decrement)
		var noGlobal []Edge
		lf.forEachEdgeFact(func(e Edge, b *cfg.Block, ft fact) {
			if ft.Pol {
				return
			}
			if c, idx := lf.AtomCall(ft.Atom, Point{b, len(b.Nodes) - 1}); c != nil && idx == 1 {
				if se, ok := ast.Unparen(c.Fun).(*ast.SelectorExpr); ok && se.Sel.Name == "Get" && strings.HasSuffix(rawKey(se.X), ".topics") {
					noGlobal = append(noGlobal, e)
				}
			}
		})
		if row.undo {
			// in Subscribe the undo (Delete on the client map) is not itself a count change to match
			var keep []Point
			for _, ch := range clientChanges {
				if _, op := mapOp2(lf, ch, mapOp); op != "Delete" {
					// ... nor is writing the count that was read back unchanged (the undo of an increment)
					restore := false
					inspectNoLit(lf.nodeAt(ch), func(n ast.Node) bool {
						if cl, ok := n.(*ast.CallExpr); ok {
							if k, op := mapOp(n); k == "client" && op == "Set" && len(cl.Args) == 2 {
								vk := lf.KeyAt(cl.Args[1], ch)
								if strings.Contains(vk, ".Get(") && !strings.ContainsAny(vk, "+-") {
									restore = true
								}
							}
						}
						return true
					})
					if !restore {
						keep = append(keep, ch)
					}
				}
			}
			clientChanges = keep
		}
		if len(clientChanges) == 0 {
			r.Fail("pair/client-global-count", key, p.posStr(lit.Pos()), "no per-client count change found (vacuous)")
			continue
		}
		bad := ""
		var wit []string
		for _, ch := range clientChanges {
			undone := false
			// what undoes this change: deleting the entry undoes only the change that created it
			// (`Set(topic, 1)`); after an increment of an existing entry the undo has to write the
			// previous count back - a Delete there drops subscriptions the global count still contains
			created := true
			inspectNoLit(lf.nodeAt(ch), func(n ast.Node) bool {
				if cl, ok := n.(*ast.CallExpr); ok {
					if k, op := mapOp(n); k == "client" && op == "Set" && len(cl.Args) == 2 {
						if lf.KeyAt(cl.Args[1], ch) != "1" {
							created = false
						}
					}
				}
				return true
			})
			isUndo := isUndo
			if !created {
				isUndo = func(n ast.Node) bool {
					cl, ok := n.(*ast.CallExpr)
					if k, op := mapOp(n); !ok || !row.undo || k != "client" || op != "Set" || len(cl.Args) != 2 {
						return false
					}
					pt, okp := lf.PointOf(cl)
					return okp && !strings.Contains(lf.KeyAt(cl.Args[1], pt), "+1")
				}
			}
			// what the branch into the change's block established (`if has { Set(count+1) }`) is known
			// on the paths that start there
			var fromEdge *Edge
			if ps := lf.preds()[ch.B]; len(ps) == 1 && len(ps[0].Succs) == 2 && condOf(ps[0]) != nil {
				for si, sc := range ps[0].Succs {
					if sc == ch.B {
						fromEdge = &Edge{ps[0], si}
					}
				}
			}
			w, found := lf.reach(Point{ch.B, ch.I + 1}, &searchOpts{FromEdge: fromEdge, AvoidNode: func(n ast.Node) bool { return isGlobal(n) || isUndo(n) }}, func(pt Point, atExit bool) bool {
				if atExit {
					return row.m == "Subscribe" // Unsubscribe may stop when the global entry is missing (checked below)
				}
				return containsMatch(lf.nodeAt(pt), isObserver)
			})
			_ = undone
			if found {
				bad = "after the per-client count changed a path reaches the cleanup observer (or the end of the section) before the global topic count was changed to match: the observer subtracts a subscription the global count never contained"
				if !created {
					bad = "after an existing per-client count was incremented a path reaches the cleanup observer (or the end of the section) without the global count having been changed to match or the previous count having been written back (deleting the entry is not the undo of an increment: the client's earlier subscriptions stay in the global count for ever)"
				}
				wit = w
			}
		}
		if row.m == "Unsubscribe" {
			// every path from a client change to exit passes a global change unless it crosses the "global entry absent" edge
			ex := map[Edge]bool{}
			for _, e := range noGlobal {
				ex[e] = true
			}
			for _, ch := range clientChanges {
				if w, found := lf.reach(Point{ch.B, ch.I + 1}, &searchOpts{AvoidNode: isGlobal, AvoidEdge: func(e Edge) bool { return ex[e] }}, func(pt Point, atExit bool) bool { return atExit }); found {
					bad = "the per-client count is decremented on a path that leaves the global topic count unchanged"
					wit = w
				}
			}
		}
		// one call changes one subscription: the global count moves by exactly one (or starts at 1),
		// never by the client's own per-topic count or any other amount
		for _, gp := range lf.Find(func(n ast.Node) bool { k, op := mapOp(n); return k == "global" && op == "Set" }) {
			inspectNoLit(lf.nodeAt(gp), func(n ast.Node) bool {
				cl, ok := n.(*ast.CallExpr)
				if k, op := mapOp(n); !ok || k != "global" || op != "Set" || len(cl.Args) != 2 {
					return true
				}
				vk := lf.KeyAt(cl.Args[1], gp)
				step := map[bool]string{true: "+1)", false: "-1)"}[row.m == "Subscribe"]
				okAmount := (row.m == "Subscribe" && vk == "1") ||
					(strings.HasPrefix(vk, "(") && strings.HasSuffix(vk, step) && strings.Contains(vk, ".topics.Get(") && strings.Count(vk, ".Get(") == 1)
				if !okAmount && bad == "" {
					bad = fmt.Sprintf("%s: the global topic count is set to %s: one %s must move it by exactly one from its current value (with another amount the global count is no longer the sum of the clients' subscriptions, and a topic is removed while clients still hold it)", lf.PosOf(gp), vk, row.m)
				}
				return true
			})
		}
		if bad != "" {
			r.Fail("pair/client-global-count", key, p.posStr(lit.Pos()), bad, wit...)
		} else {
			r.Pass("pair/client-global-count", key, p.posStr(lit.Pos()), fmt.Sprintf("%d per-client change(s), each matched by a global change of exactly one (or undone) before the observer / the end of the section", len(clientChanges)))
		}
	}
}

// checkCleanupSubtractsClientCount: when a client is dropped as a whole, each of its topics
// releases as many global subscriptions as the client held: the value written back to the global
// map is <global count> - <the client's count for the topic>, and the topic is deleted only on
// an edge decided by that difference. Releasing one subscription per topic (as Unsubscribe does)
// leaks the rest: the topic keeps phantom subscribers for ever.
func checkCleanupSubtractsClientCount(r *Reporter, p *Prog, pkg string, info *types.Info) {
	key := pkg + ".SubscriptionManager.cleanupClientWithoutLocking"
	fd := p.FuncDecl(pkg, "SubscriptionManager", "cleanupClientWithoutLocking")
	if fd == nil {
		r.Unresolved("pair/cleanup-subtracts-client-count", key, "method not found")
		return
	}
	var lit *ast.FuncLit
	ast.Inspect(fd.Body, func(n ast.Node) bool {
		if cl, ok := n.(*ast.CallExpr); ok && strings.HasSuffix(exprKey(cl.Fun), ".ForEach") && len(cl.Args) == 1 {
			if l, ok := cl.Args[0].(*ast.FuncLit); ok && l.Type.Params.NumFields() == 2 {
				lit = l
			}
		}
		return true
	})
	if lit == nil {
		r.Fail("pair/cleanup-subtracts-client-count", key, p.posStr(fd.Pos()), "no per-topic callback (topic, count) over the client's subscriptions found")
		return
	}
	var countParam types.Object
	i := 0
	for _, fl := range lit.Type.Params.List {
		for _, nm := range fl.Names {
			if i == 1 {
				countParam = info.Defs[nm]
			}
			i++
		}
	}
	lf := newFuncCFG(p, info, lit.Body, key+"$topic")
	isClientCount := func(e ast.Expr, pt Point) bool {
		re, _ := lf.Resolve(e, pt)
		return countParam != nil && objOfIdent(info, re) == countParam
	}
	nSet, nDel := 0, 0
	var bad []string
	for _, cl := range lf.Calls(func(cl *ast.CallExpr) bool {
		se, ok := ast.Unparen(cl.Fun).(*ast.SelectorExpr)
		if !ok || (se.Sel.Name != "Set" && se.Sel.Name != "Delete") {
			return false
		}
		pt, okp := lf.PointOf(cl)
		return okp && strings.HasSuffix(lf.KeyAt(se.X, pt), ".topics")
	}) {
		pt, _ := lf.PointOf(cl)
		name := ast.Unparen(cl.Fun).(*ast.SelectorExpr).Sel.Name
		if name == "Set" {
			nSet++
			ok := false
			if len(cl.Args) == 2 {
				v, vpt := lf.Resolve(cl.Args[1], pt)
				if be, isBin := ast.Unparen(v).(*ast.BinaryExpr); isBin && be.Op == token.SUB && isClientCount(be.Y, vpt) && strings.Contains(lf.KeyAt(be.X, vpt), ".topics.Get(") {
					ok = true
				}
			}
			if !ok {
				bad = append(bad, lf.PosOf(pt)+": the global count is set to "+lf.KeyAt(cl.Args[len(cl.Args)-1], pt)+", not to <global count> - <the client's count>")
			}
		} else {
			nDel++
			edges := lf.RelEdgesAt(func(rel Rel) bool {
				both := rel.L + " " + rel.R
				return strings.Contains(both, ".topics.Get(") && countParam != nil && strings.Contains(both, "-"+countParam.Name()+")")
			})
			if _, only := lf.OnlyThroughEdges(pt, edges); !only || len(edges) == 0 {
				bad = append(bad, lf.PosOf(pt)+": the topic is deleted without a test of <global count> - <the client's count>")
			}
		}
	}
	switch {
	case nSet == 0 || nDel == 0:
		r.Fail("pair/cleanup-subtracts-client-count", key, p.posStr(lit.Pos()), fmt.Sprintf("expected a Set and a Delete on the global topics map per released topic, found %d/%d", nSet, nDel))
	case len(bad) > 0:
		r.Fail("pair/cleanup-subtracts-client-count", key, p.posStr(lit.Pos()), bad[0], bad...)
	default:
		r.Pass("pair/cleanup-subtracts-client-count", key, p.posStr(lit.Pos()), "global count -= the client's count; topic deleted when that difference is exhausted")
	}
}

// mapOp2 applies a node classifier to the call contained in a block point.
func mapOp2(f *FuncCFG, pt Point, classify func(ast.Node) (string, string)) (kind, op string) {
	inspectNoLit(f.nodeAt(pt), func(n ast.Node) bool {
		if k, o := classify(n); k != "" && kind == "" {
			kind, op = k, o
		}
		return true
	})
	return
}

// timeCompareDirection maps, for a CompareTo(other) method over time values, the facts
// "Before(recv,arg)" / "After(recv,arg)" (operands resolved, time.Time conversions dropped, the
// receiver and the parameter renamed to recv/arg) to the value returned on the paths that can only
// be reached through the TRUE edge of that test - whatever the dispatch form (ifs, switch, helper).
func timeCompareDirection(p *Prog, pkg string, fd *ast.FuncDecl, key string) map[string]string {
	got := map[string]string{}
	f := newFuncCFG(p, p.Pkg(pkg).TypesInfo, fd.Body, key)
	recvName, argName := "", ""
	if fd.Recv != nil && len(fd.Recv.List) == 1 && len(fd.Recv.List[0].Names) == 1 {
		recvName = recvIdentOf(fd).Name
	}
	if len(fd.Type.Params.List) == 1 && len(fd.Type.Params.List[0].Names) == 1 {
		argName = fd.Type.Params.List[0].Names[0].Name
	}
	strip := func(k string) string {
		for strings.HasPrefix(k, "time.Time(") && strings.HasSuffix(k, ")") {
			k = strings.TrimSuffix(strings.TrimPrefix(k, "time.Time("), ")")
		}
		switch k {
		case recvName:
			return "recv"
		case argName:
			return "arg"
		}
		return k
	}
	edgesOf := map[string][]Edge{}
	f.forEachEdgeFact(func(e Edge, b *cfg.Block, ft fact) {
		cl, ok := ast.Unparen(ft.Atom).(*ast.CallExpr)
		if !ok || !ft.Pol || len(cl.Args) != 1 {
			return
		}
		se, ok := ast.Unparen(cl.Fun).(*ast.SelectorExpr)
		if !ok || (se.Sel.Name != "Before" && se.Sel.Name != "After") {
			return
		}
		pt := Point{b, len(b.Nodes) - 1}
		k := se.Sel.Name + "(" + strip(f.KeyAt(se.X, pt)) + "," + strip(f.KeyAt(cl.Args[0], pt)) + ")"
		edgesOf[k] = append(edgesOf[k], e)
	})
	for _, pt := range f.Find(func(n ast.Node) bool { _, ok := n.(*ast.ReturnStmt); return ok }) {
		rs := f.nodeAt(pt).(*ast.ReturnStmt)
		if len(rs.Results) != 1 {
			continue
		}
		for k, edges := range edgesOf {
			if _, only := f.OnlyThroughEdges(pt, edges); only {
				got[k] = exprKey(rs.Results[0])
			}
		}
		// the library's three-way comparison returned as it is: time.Time.Compare yields -1 when its
		// receiver is earlier and +1 when it is later
		if kind, l, rr, neg, ok := threeWayCall(f.Info, rs.Results[0]); ok && kind == "time" && len(edgesOf) == 0 {
			if _, conditional := f.reach(f.entry(), &searchOpts{AvoidNode: func(n ast.Node) bool { return n == ast.Node(rs) }}, func(_ Point, atExit bool) bool { return atExit }); !conditional {
				lk, rk := strip(f.KeyAt(l, pt)), strip(f.KeyAt(rr, pt))
				if lk == "arg" && rk == "recv" {
					neg = !neg
				}
				if (lk == "recv" && rk == "arg") || (lk == "arg" && rk == "recv") {
					got["Before(recv,arg)"], got["After(recv,arg)"] = "-1", "1"
					if neg {
						got["Before(recv,arg)"], got["After(recv,arg)"] = "1", "-1"
					}
				}
			}
		}
	}
	return got
}

// boolHelperStandsFor: c calls an unexported helper of the package whose body is straight-line and
// whose single boolean result is - possibly negated - the boolean result of one inner call
// (`_, existed := m.Set(k, v); return !existed`): that inner call and whether it is negated.
func boolHelperStandsFor(p *Prog, info *types.Info, c *ast.CallExpr) (*ast.CallExpr, bool, bool) {
	fn := staticCallee(info, c)
	if fn == nil {
		return nil, false, false
	}
	hd := p.decls().byFunc[fn.Origin()]
	if hd == nil || hd.Body == nil || hd.Name.IsExported() || p.decls().infoOf[hd] != info || len(hd.Body.List) < 1 || len(hd.Body.List) > 4 {
		return nil, false, false
	}
	rs, ok := hd.Body.List[len(hd.Body.List)-1].(*ast.ReturnStmt)
	if !ok || len(rs.Results) != 1 {
		return nil, false, false
	}
	for _, st := range hd.Body.List[:len(hd.Body.List)-1] {
		if _, isAs := st.(*ast.AssignStmt); !isAs {
			return nil, false, false
		}
	}
	res, neg := ast.Unparen(rs.Results[0]), false
	for {
		u, isNot := res.(*ast.UnaryExpr)
		if !isNot || u.Op != token.NOT {
			break
		}
		neg = !neg
		res = ast.Unparen(u.X)
	}
	hf := newFuncCFGPlain(p, info, hd.Body, hd.Name.Name)
	pts := hf.Find(func(m ast.Node) bool { return m == ast.Node(rs) })
	if len(pts) != 1 {
		return nil, false, false
	}
	inner, idx := hf.AtomCall(res, pts[0])
	if inner == nil {
		return nil, false, false
	}
	// the boolean result of the inner call (its last result)
	if sig, _ := info.TypeOf(inner.Fun).(*types.Signature); sig == nil || idx != sig.Results().Len()-1 {
		return nil, false, false
	}
	return inner, neg, true
}

// checkFreshPushedElement (rule handle/fresh-element): the operation hands out a handle (a removal
// closure, a cancellable element) that refers to the heap element it pushes; that element must belong
// to this call alone. A recycled element (free list, sync.Pool) gives the stale handle of an element
// that already left the queue power over the element's next occupant.
func checkFreshPushedElement(r *Reporter, p *Prog, pkg, typ, method string) {
	key := pkg + "." + typ + "." + method
	fd := p.FuncDecl(pkg, typ, method)
	if fd == nil {
		r.Unresolved("handle/fresh-element", key, "method not found")
		return
	}
	info := p.Pkg(pkg).TypesInfo
	pf := newFuncCFG(p, info, fd.Body, key)
	nPush, reused := 0, ""
	for _, c := range pf.Calls(func(c *ast.CallExpr) bool {
		return qualifiedCallee(info, c) == "container/heap.Push" && len(c.Args) == 2
	}) {
		cpt, found := pf.PointOf(c)
		if !found {
			continue
		}
		nPush++
		if why := notFreshlyAllocated(pf, info, c.Args[1], cpt); why != "" {
			reused = pf.PosOf(cpt) + ": " + why
		}
	}
	if nPush > 0 && reused != "" {
		// the heap element is recycled, but the handle handed back is an object of its own, allocated
		// by this call: a stale handle is then a different object from the element's new handle
		// (whether the operations on a stale handle are inert is the business of the other rules)
		nRet, allFresh := 0, true
		for _, rpt := range pf.FindOwn(func(n ast.Node) bool { _, isRet := n.(*ast.ReturnStmt); return isRet }) {
			rs, _ := pf.nodeAt(rpt).(*ast.ReturnStmt)
			if rs == nil || len(rs.Results) == 0 {
				continue
			}
			res := rs.Results[0]
			if t := info.TypeOf(res); t == nil {
				continue
			} else if _, isPtr := t.Underlying().(*types.Pointer); !isPtr {
				allFresh = false
				continue
			}
			nRet++
			if notFreshlyAllocated(pf, info, res, rpt) != "" {
				allFresh = false
			}
		}
		if nRet > 0 && allFresh {
			r.Pass("handle/fresh-element", key, p.posStr(fd.Pos()), "the heap element may be recycled, but the handle handed back is allocated by this call on every path")
			return
		}
	}
	if nPush == 0 {
		r.Fail("handle/fresh-element", key, p.posStr(fd.Pos()), "no heap.Push of the new element found (vacuous)")
	} else if reused != "" {
		r.Fail("handle/fresh-element", key, p.posStr(fd.Pos()), "the element a handle refers to must be allocated by this call: "+reused+" - the handle of an element that already left the queue then removes or cancels a different, still queued element")
	} else {
		r.Pass("handle/fresh-element", key, p.posStr(fd.Pos()), "the pushed element is a fresh allocation on every path")
	}
}
