package main

import (
	"fmt"
	"go/ast"
	"go/token"
	"go/types"
	"strings"
)

func init() {
	register(&property{
		ID:  "C06",
		Run: runC06,
		Meta: propMeta{
			Explanation: "Static clauses of TypedValue/TypedStore on all CFG paths: (1) every error produced by a codec or store call is compared with nil / returned / classified before exit or overwrite (a mis-tested or swallowed error stores wrong bytes or hides a failure); failure branches return a non-nil error; (2) the cache fields are written only on the success edge of the corresponding store call (cache never ahead of the store), absence is cached only on the ErrKeyNotFound edge; (3) cache fields are accessed only under the TypedValue mutex, writers (Compute/Set/Delete) use one write-locked section spanning read and store, locks are balanced; (4) TypedStore passes exactly the codec outputs to the store and Iterate* stop and report on the first decode error. Also: a finite case split over the three-valued cache state shows that Compute reaches the compute function without reading the store only when the value or the absence is cached.",
			NotDecided:  "equality with the raw-key model over histories; behaviour of user-supplied codecs",
			Assumptions: []string{"KVStore implementations report failures through their error result", "ierrors.Wrap of a non-nil error is non-nil"},
		},
		Modes: []string{"deadlock", "stacktrace"},
	})
}

func runC06(c *Ctx) {
	p := c.Load("kvstore")
	if p == nil {
		return
	}
	r := c.R
	const pkg = "kvstore"
	tv := p.Methods(pkg, "TypedValue")
	ts := p.Methods(pkg, "TypedStore")
	if len(tv) < 6 || len(ts) < 8 {
		r.Unresolved("err/checked", "kvstore.TypedValue/TypedStore", fmt.Sprintf("expected the TypedValue and TypedStore method sets, found %d and %d methods", len(tv), len(ts)))
	}
	// 0. what the typed views are built on: the map store hands out and keeps private copies (a decoder
	// that does not copy its input would otherwise expose - and let a consumer modify - stored bytes)
	checkCopyDiscipline(r, p)
	checkKVStoreTrustedHelpers(r, p)
	// the error-faithfulness clauses follow errors through helpers: what the engine assumes about the
	// error constructors is checked on their bodies
	checkErrorConstructorsNonNil(r, p)
	// a failure branch records the error it is the branch of (TypedStore.Iterate: key vs value decode error)
	checkFailureBranchReportsOwnError(r, p, "kvstore")
	checkAbsentImpliesNoCachedValue(r, p, "kvstore", "TypedValue")
	// 1. error discipline
	checkErrChecked(r, p, "err/checked", errScope{Pkg: pkg, Funcs: append(append([]*ast.FuncDecl{}, tv...), ts...)})
	for _, fd := range append(append([]*ast.FuncDecl{}, tv...), ts...) {
		tolerated := map[string]string{
			"ErrTypedValueNotChanged": "Compute: the compute function asked to keep the current value; documented non-error",
		}
		if fd.Name.Name == "Compute" || !fd.Name.IsExported() {
			// reading the current value for a read-modify-write: an absent key is the value (zero, false),
			// not a failure - in Compute itself or in an unexported stage of it; the exported readers
			// (Get, Has) must still report absence
			tolerated["ErrKeyNotFound"] = "absence of the key is the input (zero, false) of the compute function"
		}
		checkFailureReturnsNonNil(r, p, pkg, fd, tolerated)
	}
	// 2. cache only after store success
	checkTypedValueCache(r, p)
	checkComputeReadsStore(r, p)
	// 3. locks
	checkGuards(r, p, "lock/guarded-by", []GuardRow{{
		Pkg: pkg, Type: "TypedValue", Mutex: "mutex", Fields: []string{"valueCached", "hasCached"},
		CH: map[string]LockMode{"cachedValue": ModeR},
	}, {
		// every access of the raw key happens inside the exclusive section in which the cache is (or may
		// be) updated from it: a value read outside the lock can be installed in the cache after a later
		// Delete/Set has completed. Handing the store itself out (KVStore()) needs no lock.
		Pkg: pkg, Type: "TypedValue", Mutex: "mutex", Fields: []string{"kv"},
		Mutators: map[string][]string{"kv": {"Get", "Has", "Set", "Delete"}},
		ReadsOK:  map[string]string{"kv": "the field is immutable; only operations on the raw key are ordered by the mutex"},
	}})
	checkLockBalance(r, p, "lock/balance", []string{pkg}, nil, func(k string) bool {
		return hasPrefixAny(k, "kvstore.TypedValue.", "kvstore.TypedStore.")
	})
	for _, m := range []string{"Compute", "Set", "Delete"} {
		fd := p.FuncDecl(pkg, "TypedValue", m)
		if fd == nil {
			r.Unresolved("lock/one-write-section", "kvstore.TypedValue."+m, "method not found")
			continue
		}
		checkSingleSection(r, p, pkg, fd, "Lock")
		checkStoreCallsUnderW(r, p, pkg, fd)
	}
	// 4. TypedStore plumbing
	checkTypedStorePlumbing(r, p)
}

func hasPrefixAny(s string, ps ...string) bool {
	for _, p := range ps {
		if len(s) >= len(p) && s[:len(p)] == p {
			return true
		}
	}
	return false
}

// checkSingleSection: exactly one acquisition of the given kind ("Lock"/"RLock"), not in a loop,
// and no explicit (non-deferred) release: the whole method body after it is one critical section.
func checkSingleSection(r *Reporter, p *Prog, pkg string, fd *ast.FuncDecl, kind string) {
	info := p.Pkg(pkg).TypesInfo
	fkey := funcKey(pkg, fd)
	nAcq, nRel, nDeferRel := 0, 0, 0
	var first token.Pos
	var stack []ast.Node
	ast.Inspect(fd.Body, func(n ast.Node) bool {
		if n == nil {
			stack = stack[:len(stack)-1]
			return true
		}
		stack = append(stack, n)
		if c, ok := n.(*ast.CallExpr); ok {
			op, _ := lockOp(info, c)
			_, deferred := stack[len(stack)-2].(*ast.DeferStmt)
			switch {
			case op == "Lock" || op == "RLock":
				nAcq++
				if op != kind {
					nAcq += 100
				}
				if !first.IsValid() {
					first = c.Pos()
				}
			case (op == "Unlock" || op == "RUnlock") && deferred:
				nDeferRel++
			case op == "Unlock" || op == "RUnlock":
				nRel++
			}
		}
		return true
	})
	if nAcq == 1 && nRel == 0 && nDeferRel == 1 {
		r.Pass("lock/one-write-section", fkey, p.posStr(first), "one "+kind+" with a deferred release: read-modify-write happens in a single exclusive section")
	} else {
		r.Fail("lock/one-write-section", fkey, p.posStr(fd.Pos()), fmt.Sprintf("expected exactly one %s released by defer; found acquisitions=%d explicit releases=%d deferred releases=%d (a read-modify-write split over two sections loses updates)", kind, nAcq%100+nAcq/100, nRel, nDeferRel))
	}
}

// checkStoreCallsUnderW: every call on the kv field in fd happens with t.mutex held W.
func checkStoreCallsUnderW(r *Reporter, p *Prog, pkg string, fd *ast.FuncDecl) {
	info := p.Pkg(pkg).TypesInfo
	fkey := funcKey(pkg, fd)
	n := 0
	var bad []string
	seen := map[ast.Node]bool{}
	AnalyzeLocks(fd.Body, LockSet{}, &FlowOpts{Info: info}, func(nd ast.Node, stack []ast.Node, held LockSet) {
		c, ok := nd.(*ast.CallExpr)
		if !ok || seen[c] {
			return
		}
		se, ok := ast.Unparen(c.Fun).(*ast.SelectorExpr)
		if !ok || !fieldSel(info, se.X, "kv") {
			return
		}
		seen[c] = true
		n++
		base, _ := pathOf(info, se.X.(*ast.SelectorExpr).X)
		if held[base+".mutex"] < ModeW {
			bad = append(bad, fmt.Sprintf("%s: store call kv.%s without the write lock (held %s)", p.posStr(c.Pos()), se.Sel.Name, held))
		}
	})
	// the whole read-modify-write is one section: the caller's function (computeFunc) and every
	// helper method of the receiver that takes part in it run under the same write lock
	recv := recvObj(info, fd)
	params := map[types.Object]bool{}
	for _, o := range paramObjs(info, fd) {
		if o != nil {
			if _, isFunc := o.Type().Underlying().(*types.Signature); isFunc {
				params[o] = true
			}
		}
	}
	seen2 := map[ast.Node]bool{}
	AnalyzeLocks(fd.Body, LockSet{}, &FlowOpts{Info: info}, func(nd ast.Node, stack []ast.Node, held LockSet) {
		c, ok := nd.(*ast.CallExpr)
		if !ok || seen2[c] || recv == nil {
			return
		}
		what := ""
		switch f := ast.Unparen(c.Fun).(type) {
		case *ast.Ident:
			if params[info.Uses[f]] {
				what = "the caller's function " + f.Name
			}
		case *ast.SelectorExpr:
			if id, isId := ast.Unparen(f.X).(*ast.Ident); isId && info.Uses[id] == recv {
				if sel := info.Selections[f]; sel != nil && sel.Kind() == types.MethodVal {
					what = "the receiver's method " + f.Sel.Name
				}
			}
		}
		if what == "" {
			return
		}
		seen2[c] = true
		if held[fmt.Sprintf("%s@%d.mutex", recv.Name(), recv.Pos())] < ModeW {
			bad = append(bad, fmt.Sprintf("%s: %s runs outside the write-locked section (held %s): the read of the current value, the computation and the store no longer form one exclusive section, concurrent updates are lost", p.posStr(c.Pos()), what, held))
		}
	})
	// store calls made by unexported helper methods of the receiver that this operation calls (their
	// call sites were just checked to lie in the write-locked section)
	var inHelpers func(body *ast.BlockStmt, depth int) int
	visited := map[*ast.FuncDecl]bool{fd: true}
	inHelpers = func(body *ast.BlockStmt, depth int) int {
		k := 0
		ast.Inspect(body, func(nd ast.Node) bool {
			c, ok := nd.(*ast.CallExpr)
			if !ok {
				return true
			}
			if fn := staticCallee(info, c); fn != nil && depth > 0 {
				if hd := p.decls().byFunc[fn.Origin()]; hd != nil && hd.Recv != nil && hd.Body != nil && !hd.Name.IsExported() && !visited[hd] && recvTypeName(hd) == recvTypeName(fd) {
					visited[hd] = true
					ast.Inspect(hd.Body, func(m ast.Node) bool {
						if c2, ok := m.(*ast.CallExpr); ok {
							if se, ok := ast.Unparen(c2.Fun).(*ast.SelectorExpr); ok && fieldSel(info, se.X, "kv") {
								k++
							}
						}
						return true
					})
					k += inHelpers(hd.Body, depth-1)
				}
			}
			return true
		})
		return k
	}
	n += inHelpers(fd.Body, 2)
	if n == 0 {
		r.Fail("lock/store-under-W", fkey, p.posStr(fd.Pos()), "no store call found (row vacuous)")
	} else if len(bad) > 0 {
		r.Fail("lock/store-under-W", fkey, p.posStr(fd.Pos()), bad[0], bad...)
	} else {
		r.Pass("lock/store-under-W", fkey, p.posStr(fd.Pos()), fmt.Sprintf("%d store call(s) under the write lock", n))
	}
}

// checkFailureReturnsNonNil: every return that is forced through the failure edge of an
// error test (err != nil) returns a non-nil-literal error, unless it is additionally forced
// through an errors.Is(err, X) edge with X tolerated.
func checkFailureReturnsNonNil(r *Reporter, p *Prog, pkg string, fd *ast.FuncDecl, toleratedIs map[string]string) {
	if fd.Body == nil || fd.Type.Results == nil {
		return
	}
	info := p.Pkg(pkg).TypesInfo
	fkey := funcKey(pkg, fd)
	// position of the error result
	nres := 0
	errIdx := -1
	for _, fl := range fd.Type.Results.List {
		k := len(fl.Names)
		if k == 0 {
			k = 1
		}
		for i := 0; i < k; i++ {
			if types.Identical(info.TypeOf(fl.Type), errorType) {
				errIdx = nres
			}
			nres++
		}
	}
	if errIdx < 0 {
		return
	}
	f := newFuncCFG(p, info, fd.Body, fkey)
	// failure edges of all nil tests on error-typed variables
	var failEdges []Edge
	for _, b := range f.G.Blocks {
		if !b.Live {
			continue
		}
		c := condOf(b)
		if c == nil {
			continue
		}
		x, nonNilOnTrue, ok := nilTest(info, c)
		if !ok || !types.Identical(info.TypeOf(x), errorType) {
			continue
		}
		if nonNilOnTrue {
			failEdges = append(failEdges, Edge{b, 0})
		} else {
			failEdges = append(failEdges, Edge{b, 1})
		}
	}
	isEdges, _ := f.CondEdges(func(e ast.Expr) bool {
		c, ok := e.(*ast.CallExpr)
		if !ok || len(c.Args) != 2 {
			return false
		}
		if se, ok := ast.Unparen(c.Fun).(*ast.SelectorExpr); !ok || se.Sel.Name != "Is" {
			return false
		}
		name := ""
		switch a := ast.Unparen(c.Args[1]).(type) {
		case *ast.Ident:
			name = a.Name
		case *ast.SelectorExpr:
			name = a.Sel.Name
		}
		_, ok = toleratedIs[name]
		return ok
	})
	for _, pt := range f.Find(func(n ast.Node) bool { _, ok := n.(*ast.ReturnStmt); return ok }) {
		rs, ok := f.nodeAt(pt).(*ast.ReturnStmt)
		if !ok || len(rs.Results) != nres {
			continue
		}
		if !isNil(info, rs.Results[errIdx]) {
			continue
		}
		// a `return …, nil`: must not be forced through a failure edge
		forced := false
		for _, fe := range failEdges {
			if _, only := f.OnlyThroughEdges(pt, []Edge{fe}); only {
				forced = true
			}
		}
		key := fmt.Sprintf("nil-error return in %s", fkey)
		if !forced {
			r.Pass("err/failure-returns-error", key, p.posStr(rs.Pos()), "return of nil error is not confined to a failure branch")
			continue
		}
		if _, only := f.OnlyThroughEdges(pt, isEdges); only && len(isEdges) > 0 {
			r.Pass("err/failure-returns-error", key, p.posStr(rs.Pos()), "nil error returned on a tolerated errors.Is classification edge")
			continue
		}
		r.Fail("err/failure-returns-error", key, p.posStr(rs.Pos()), "a branch taken only when an error is non-nil returns a nil error: the failure is swallowed")
	}
}

// checkTypedValueCache: R-DOM rows for the cache fields.
func checkTypedValueCache(r *Reporter, p *Prog) {
	const pkg = "kvstore"
	info := p.Pkg(pkg).TypesInfo
	type row struct {
		method  string
		success []string // kv/codec calls whose success edge must dominate "presence" writes
	}
	rows := []row{
		{"Get", []string{"kv.Get", "bytesToV"}},
		{"Has", []string{"kv.Has"}},
		{"Compute", []string{"vToBytes", "kv.Set"}},
		{"Set", []string{"vToBytes", "kv.Set"}},
		{"Delete", []string{"kv.Delete"}},
	}
	matchCall := func(c *ast.CallExpr, what string) bool {
		se, ok := ast.Unparen(c.Fun).(*ast.SelectorExpr)
		if !ok {
			return false
		}
		if len(what) > 3 && what[:3] == "kv." {
			return se.Sel.Name == what[3:] && fieldSel(info, se.X, "kv")
		}
		return se.Sel.Name == what && fieldSel(info, se, what)
	}
	for _, rw := range rows {
		f := p.CFGOf(pkg, "TypedValue", rw.method)
		if f == nil {
			r.Unresolved("cache/after-store-success", "kvstore.TypedValue."+rw.method, "method not found")
			continue
		}
		writes := f.Find(func(n ast.Node) bool {
			as, ok := n.(*ast.AssignStmt)
			if !ok {
				return false
			}
			for _, l := range as.Lhs {
				if fieldSel(info, l, "valueCached") || fieldSel(info, l, "hasCached") {
					return true
				}
			}
			return false
		})
		if len(writes) == 0 {
			r.Fail("cache/after-store-success", "kvstore.TypedValue."+rw.method, "-", "no cache write found (row vacuous)")
			continue
		}
		for _, w := range writes {
			as := f.nodeAt(w).(*ast.AssignStmt)
			field := as.Lhs[0].(*ast.SelectorExpr).Sel.Name
			absence := false
			if u, ok := ast.Unparen(as.Rhs[0]).(*ast.UnaryExpr); ok && u.Op == token.AND {
				if id, ok := u.X.(*ast.Ident); ok && id.Name == "falsePtr" {
					absence = true
				}
			}
			key := fmt.Sprintf("%s write in kvstore.TypedValue.%s", field, rw.method)
			if rw.method == "Get" && absence {
				// only on the Is(getErr, ErrKeyNotFound) true edge
				edges, _ := f.CondEdges(func(e ast.Expr) bool {
					c, ok := e.(*ast.CallExpr)
					if !ok || len(c.Args) != 2 {
						return false
					}
					se, ok := ast.Unparen(c.Fun).(*ast.SelectorExpr)
					if !ok || se.Sel.Name != "Is" {
						return false
					}
					id, ok := ast.Unparen(c.Args[1]).(*ast.Ident)
					if !ok || id.Name != "ErrKeyNotFound" {
						return false
					}
					if dc := f.ReachingCall(c, c.Args[0]); dc != nil && matchCall(dc, "kv.Get") {
						return true
					}
					// ... or every error the tested variable can hold is the store's error, possibly wrapped
					// (errors.Is looks through wrappers) - e.g. handed back by a load helper
					cpt, found := f.PointOf(c)
					if !found {
						return false
					}
					os := f.Origins(c.Args[0], cpt)
					nStore := 0
					for _, o := range os {
						e, at := o.E, o.At
						for depth := 0; depth < 4; depth++ {
							wc, isCall := ast.Unparen(e).(*ast.CallExpr)
							if !isCall || !isErrorConstructor(calleeShort(info, wc)) || len(wc.Args) == 0 {
								break
							}
							if t := info.TypeOf(wc.Args[0]); t == nil || !types.Identical(t, errorType) {
								break
							}
							inner := f.Origins(wc.Args[0], at)
							if len(inner) != 1 {
								break
							}
							e, at = inner[0].E, inner[0].At
						}
						if gc, isCall := ast.Unparen(e).(*ast.CallExpr); isCall && matchCall(gc, "kv.Get") {
							nStore++
						} else if isNil(info, e) {
							continue
						} else if wc, isCall := ast.Unparen(e).(*ast.CallExpr); isCall && isErrorConstructor(calleeShort(info, wc)) {
							continue // an error made here (a decode failure, say): it is not ErrKeyNotFound, Is() is false for it
						} else if _, isCall := ast.Unparen(e).(*ast.CallExpr); isCall {
							continue // the error of another call (the decoder): likewise not the store's not-found
						} else {
							return false
						}
					}
					return nStore > 0
				})
				if wit, ok := f.OnlyThroughEdges(w, edges); ok {
					r.Pass("cache/after-store-success", key+" (absence)", f.PosOf(w), "absence cached only when the store reported ErrKeyNotFound")
				} else {
					r.Fail("cache/after-store-success", key+" (absence)", f.PosOf(w), "absence is cached on a path that did not see ErrKeyNotFound from the store", wit...)
				}
				continue
			}
			// read-through (Compute): before anything is written to the store the cache may record what the
			// store just reported - exactly the pair the computation is told: hasCached = &exists and,
			// only on the edge on which exists is true, valueCached = &currentValue (a cached value means
			// "present" to every reader of the cache), both behind the store read
			if rw.method == "Compute" {
				var cf *ast.CallExpr
				for _, c := range f.Calls(func(c *ast.CallExpr) bool {
					id, ok := ast.Unparen(c.Fun).(*ast.Ident)
					if !ok || len(c.Args) != 2 {
						return false
					}
					v, isVar := info.Uses[id].(*types.Var)
					if !isVar {
						return false
					}
					_, isSig := v.Type().Underlying().(*types.Signature)
					return isSig
				}) {
					cf = c
				}
				if cf != nil {
					valObj, hasObj := objOfIdent(info, cf.Args[0]), objOfIdent(info, cf.Args[1])
					var rhsObj types.Object
					if u, ok := ast.Unparen(as.Rhs[0]).(*ast.UnaryExpr); ok && u.Op == token.AND && len(as.Lhs) == 1 {
						rhsObj = objOfIdent(info, u.X)
					}
					isGet := func(n ast.Node) bool { c, ok := n.(*ast.CallExpr); return ok && matchCall(c, "kv.Get") }
					isSet := func(n ast.Node) bool { c, ok := n.(*ast.CallExpr); return ok && matchCall(c, "kv.Set") }
					_, beforeRead := f.PathFromEntryAvoiding(w, isGet, nil)
					afterWrite := false
					for _, sp := range f.Find(isSet) {
						if _, reaches := f.reach(sp, nil, func(q Point, atExit bool) bool { return !atExit && f.At(q, w) }); reaches {
							afterWrite = true
						}
					}
					cpt, okc := f.PointOf(cf)
					_, toldLater := f.reach(w, nil, func(q Point, atExit bool) bool { return okc && !atExit && f.At(q, cpt) })
					readThrough := rhsObj != nil && hasObj != nil && valObj != nil && !beforeRead && !afterWrite && toldLater
					if readThrough {
						switch {
						case field == "hasCached" && rhsObj == hasObj:
							r.Pass("cache/after-store-success", key+" (read-through)", f.PosOf(w), "records, behind the store read and before any store write, the presence flag the computation is told")
							continue
						case field == "valueCached" && rhsObj == valObj:
							trueEdges, _ := f.VarEdges(hasObj)
							if _, only := f.OnlyThroughEdges(w, trueEdges); only {
								r.Pass("cache/after-store-success", key+" (read-through)", f.PosOf(w), "records, behind the store read and only when the key was found, the value the computation is told")
								continue
							}
						}
					}
				}
			}
			for _, want := range rw.success {
				calls := f.Calls(func(c *ast.CallExpr) bool { return matchCall(c, want) })
				if len(calls) == 0 {
					r.Fail("cache/after-store-success", key+" after "+want, f.PosOf(w), "no call of "+want+" in the method")
					continue
				}
				var succ []Edge
				for _, c := range calls {
					s, _ := f.ErrEdges(c)
					succ = append(succ, s...)
				}
				if wit, ok := f.OnlyThroughEdges(w, succ); ok {
					r.Pass("cache/after-store-success", key+" after "+want, f.PosOf(w), fmt.Sprintf("dominated by the err==nil edge of %s (%d edge(s))", want, len(succ)))
				} else {
					r.Fail("cache/after-store-success", key+" after "+want, f.PosOf(w), "cache written on a path that does not pass the success edge of "+want+" (cache can get ahead of the store or hold an unencodable value)", wit...)
				}
			}
		}
	}
}

// checkTypedStorePlumbing: keys/values reach the store only through the configured codec and
// Iterate* stop on and report the first decode error.
func checkTypedStorePlumbing(r *Reporter, p *Prog) {
	const pkg = "kvstore"
	info := p.Pkg(pkg).TypesInfo
	type row struct {
		method string
		kvCall string
		args   []string // codec field each argument must be encoded with
	}
	for _, rw := range []row{
		{"Get", "Get", []string{"keyToBytes"}},
		{"Has", "Has", []string{"keyToBytes"}},
		{"Set", "Set", []string{"keyToBytes", "valueToBytes"}},
		{"Delete", "Delete", []string{"keyToBytes"}},
	} {
		fd := p.FuncDecl(pkg, "TypedStore", rw.method)
		key := "kvstore.TypedStore." + rw.method
		if fd == nil {
			r.Unresolved("codec/plumbing", key, "method not found")
			continue
		}
		// judged on the operation with its encode/decode helpers in place: every value an argument of
		// the store call can stand for (on a path that reaches the call) is the configured codec applied
		// to the caller's own parameter
		f := newFuncCFG(p, info, fd.Body, key)
		var call *ast.CallExpr
		n := 0
		for _, c := range f.Calls(func(c *ast.CallExpr) bool {
			se, ok := ast.Unparen(c.Fun).(*ast.SelectorExpr)
			return ok && fieldSel(info, se.X, "kv")
		}) {
			n++
			if ast.Unparen(c.Fun).(*ast.SelectorExpr).Sel.Name == rw.kvCall {
				call = c
			}
		}
		if call == nil || n != 1 || len(call.Args) != len(rw.args) {
			r.Fail("codec/plumbing", key, p.posStr(fd.Pos()), fmt.Sprintf("expected exactly one store call kv.%s with %d argument(s); found %d store calls", rw.kvCall, len(rw.args), n))
			continue
		}
		cpt, _ := f.PointOf(call)
		params := paramObjs(info, fd)
		ok := true
		detail := ""
		for i, codec := range rw.args {
			os := f.Origins(call.Args[i], cpt)
			if len(os) == 0 {
				ok, detail = false, fmt.Sprintf("argument %d of kv.%s is not the result of a codec call", i, rw.kvCall)
				break
			}
			for _, o := range os {
				dc, isCall := ast.Unparen(o.E).(*ast.CallExpr)
				if !isCall {
					ok, detail = false, fmt.Sprintf("argument %d of kv.%s can be %s, which is not the result of a codec call", i, rw.kvCall, exprKey(o.E))
					break
				}
				se, isSel := ast.Unparen(dc.Fun).(*ast.SelectorExpr)
				if !isSel || !fieldSel(info, se, codec) || len(dc.Args) != 1 || i >= len(params) || !(objOfIdent(info, dc.Args[0]) == params[i] || f.IsVar(dc.Args[0], o.At, params[i])) {
					ok, detail = false, fmt.Sprintf("argument %d of kv.%s must be %s(<parameter %d>)", i, rw.kvCall, codec, i)
					break
				}
			}
			if !ok {
				break
			}
		}
		if ok {
			r.Pass("codec/plumbing", key, p.posStr(call.Pos()), "store receives exactly the codec output of the caller's key/value")
		} else {
			r.Fail("codec/plumbing", key, p.posStr(call.Pos()), detail)
		}
	}
	// Get returns the decoded store value
	if fd := p.FuncDecl(pkg, "TypedStore", "Get"); fd != nil {
		f := newFuncCFG(p, info, fd.Body, "kvstore.TypedStore.Get")
		okAll, nSucc := true, 0
		// the successful outcomes: return sites (of Get, or of a helper whose call Get returns) whose
		// error result is the literal nil
		type outcome struct {
			v  ast.Expr
			pt Point
		}
		var succ []outcome
		var collect func(results []ast.Expr, pt Point, depth int)
		collect = func(results []ast.Expr, pt Point, depth int) {
			if len(results) == 2 && isNil(info, results[1]) {
				succ = append(succ, outcome{results[0], pt})
				return
			}
			if len(results) == 1 && depth > 0 {
				if c, isCall := ast.Unparen(results[0]).(*ast.CallExpr); isCall {
					if reg := f.regionByCall(c); reg != nil {
						for _, rt := range reg.rets {
							collect(rt.results, rt.pt, depth-1)
						}
					}
				}
			}
		}
		for _, rpt := range f.FindOwn(func(nd ast.Node) bool { _, ok := nd.(*ast.ReturnStmt); return ok }) {
			collect(f.nodeAt(rpt).(*ast.ReturnStmt).Results, rpt, 3)
		}
		isDecodeOfGet := func(e ast.Expr, pt Point) bool {
			dc, isCall := ast.Unparen(e).(*ast.CallExpr)
			if !isCall || len(dc.Args) != 1 {
				return false
			}
			se, ok := ast.Unparen(dc.Fun).(*ast.SelectorExpr)
			if !ok || !fieldSel(info, se, "bytesToValue") {
				return false
			}
			all := true
			os := f.Origins(dc.Args[0], pt)
			for _, so := range os {
				dc2, isCall2 := ast.Unparen(so.E).(*ast.CallExpr)
				if !isCall2 {
					all = false
					continue
				}
				se2, ok := ast.Unparen(dc2.Fun).(*ast.SelectorExpr)
				if !ok || se2.Sel.Name != "Get" || !fieldSel(info, se2.X, "kv") {
					all = false
				}
			}
			return all && len(os) > 0
		}
		for _, oc := range succ {
			for _, o := range f.Origins(oc.v, oc.pt) {
				nSucc++
				if !isDecodeOfGet(o.E, o.At) {
					okAll = false
				}
			}
		}
		if okAll && nSucc > 0 {
			r.Pass("codec/plumbing", "kvstore.TypedStore.Get result", p.posStr(fd.Pos()), "success return is bytesToValue(kv.Get(...))")
		} else {
			r.Fail("codec/plumbing", "kvstore.TypedStore.Get result", p.posStr(fd.Pos()), "the successful return value is not the decoding of the bytes read from the store")
		}
	}
	// Iterate / IterateKeys
	for _, m := range []string{"Iterate", "IterateKeys"} {
		fd := p.FuncDecl(pkg, "TypedStore", m)
		key := "kvstore.TypedStore." + m
		if fd == nil {
			r.Unresolved("iterate/stop-and-report", key, "method not found")
			continue
		}
		checkIterateStopAndReport(r, p, pkg, fd, key)
	}
}

func paramObjs(info *types.Info, fd *ast.FuncDecl) []types.Object {
	var out []types.Object
	for _, fl := range fd.Type.Params.List {
		for _, n := range fl.Names {
			out = append(out, info.Defs[n])
		}
	}
	return out
}

// stopReportOpts adapts checkIterateStopAndReport to another iteration: which call is the
// iteration (default: a method of the kv field), which fallible calls do not count (error
// wrappers), and how many must be found.
type stopReportOpts struct {
	IsIteration func(c *ast.CallExpr) bool
	Skip        func(c *ast.CallExpr) bool
	Min         int
}

// checkIterateStopAndReport: in the consumer literal passed to kv.Iterate*, every decode
// error (a) is stored into an outer variable and (b) leads to `return false`; the outer
// function returns that variable on the path after a successful iteration.
func checkIterateStopAndReport(r *Reporter, p *Prog, pkg string, fd *ast.FuncDecl, key string, opt ...stopReportOpts) {
	info := p.Pkg(pkg).TypesInfo
	var so stopReportOpts
	if len(opt) > 0 {
		so = opt[0]
	}
	// the consumer handed to the store iteration: a function literal, or a method value / named
	// function whose declaration is in this package
	var litBody *ast.BlockStmt
	var litPos token.Pos
	lostWhy := ""
	ast.Inspect(fd.Body, func(n ast.Node) bool {
		if c, ok := n.(*ast.CallExpr); ok {
			if se, ok := ast.Unparen(c.Fun).(*ast.SelectorExpr); ok && ((so.IsIteration == nil && fieldSel(info, se.X, "kv")) || (so.IsIteration != nil && so.IsIteration(c))) {
				for _, a := range c.Args {
					if b, pos := callableBody(p, info, a); b != nil {
						litBody, litPos = b, pos
						if why := valueReceiverLoses(p, info, a); why != "" {
							lostWhy = why
						}
					}
				}
			}
		}
		return true
	})
	if litBody == nil {
		r.Fail("iterate/stop-and-report", key, p.posStr(fd.Pos()), "no consumer (function literal or method value) passed to the store iteration")
		return
	}
	if lostWhy != "" {
		r.Fail("iterate/stop-and-report", key, p.posStr(fd.Pos()), "the error the consumer records never reaches the iterating function: "+lostWhy)
		return
	}
	lit := struct{ Body *ast.BlockStmt }{litBody}
	lf := newFuncCFG(p, info, lit.Body, key+"$consumer")
	outerVars := map[types.Object]bool{} // variables of the enclosing function, or fields, the error is recorded in
	nDecode := 0
	bad := ""
	for _, c := range lf.Calls(func(c *ast.CallExpr) bool {
		_, isErr := lastResultIsError(info, c)
		// the calls inside a spliced helper are judged themselves, not the helper's call
		return isErr && (so.Skip == nil || !so.Skip(c)) && lf.regionByCall(c) == nil
	}) {
		nDecode++
		_, fails := lf.ErrEdges(c)
		// where a failure of c starts: the failure edges of the test of its error, or - when the error
		// is handed back untested by the helper c sits in - the statement after c with the error
		// variable known to be non-nil (the path search carries that to whoever tests it)
		type failStart struct {
			start Point
			edge  *Edge
			init  map[types.Object]bool
		}
		var starts []failStart
		for i := range fails {
			fe := fails[i]
			starts = append(starts, failStart{Point{fe.From.Succs[fe.Succ], 0}, &fe, nil})
		}
		if len(starts) == 0 {
			for _, b := range lf.G.Blocks {
				if !b.Live {
					continue
				}
				for bi, nd := range b.Nodes {
					as, isAs := nd.(*ast.AssignStmt)
					if !isAs || len(as.Rhs) != 1 || ast.Unparen(as.Rhs[0]) != ast.Expr(c) {
						continue
					}
					if v, isVar := objOfIdentRaw(info, as.Lhs[len(as.Lhs)-1]).(*types.Var); isVar && types.Identical(v.Type(), errorType) {
						starts = append(starts, failStart{Point{b, bi + 1}, nil, map[types.Object]bool{v: true}})
					}
				}
			}
		}
		if len(starts) == 0 {
			bad = fmt.Sprintf("%s: decode error is not tested", p.posStr(c.Pos()))
			break
		}
		for _, fs := range starts {
			// from the failure every path to exit must pass `outer = err` and end in `return false`
			start := fs.start
			if w, found := lf.reach(start, &searchOpts{FromEdge: fs.edge, InitFacts: fs.init, AvoidNode: func(n ast.Node) bool {
				as, ok := n.(*ast.AssignStmt)
				if ok && len(as.Lhs) > 1 && len(as.Rhs) == 1 {
					// `k, v, outer = helper(...)`: the error result of the helper lands in the last variable
					as = &ast.AssignStmt{Lhs: as.Lhs[len(as.Lhs)-1:], Tok: as.Tok, Rhs: as.Rhs}
				}
				if !ok || len(as.Lhs) != 1 {
					return false
				}
				var o types.Object
				if se, isSel := ast.Unparen(as.Lhs[0]).(*ast.SelectorExpr); isSel {
					if sel := info.Selections[se]; sel != nil && sel.Kind() == types.FieldVal {
						o = sel.Obj() // a field of the iteration state
						if v, isVar := o.(*types.Var); isVar {
							o = v.Origin()
						}
					}
				} else if st, isStar := ast.Unparen(as.Lhs[0]).(*ast.StarExpr); isStar {
					// `*errOut = err` in a helper that was handed `&outer`: a store into outer
					if npt, okp := lf.PointOf(n); okp {
						if re, _ := lf.Resolve(st.X, npt); re != nil {
							if u, isAddr := ast.Unparen(re).(*ast.UnaryExpr); isAddr && u.Op == token.AND {
								if o = objOfIdent(info, u.X); o != nil && o.Pos() >= lit.Body.Pos() && o.Pos() <= lit.Body.End() {
									o = nil
								}
							}
						}
					}
				} else if o = objOfIdent(info, as.Lhs[0]); o != nil && o.Pos() >= lit.Body.Pos() && o.Pos() <= lit.Body.End() {
					o = nil // a local of the consumer does not outlive it
				}
				if o != nil && types.Identical(o.Type(), errorType) {
					outerVars[o] = true
					return true
				}
				return false
			}}, func(pt Point, atExit bool) bool { return atExit }); found {
				bad = fmt.Sprintf("%s: a failing decode can leave the consumer without recording the error", p.posStr(c.Pos()))
				_ = w
			}
			// ... and the consumer returns false: the literal, or an expression that is false on this
			// path (`return recorded == nil`, the result of a helper that returned false)
			if w, found := lf.reach(start, &searchOpts{FromEdge: fs.edge, InitFacts: fs.init, AvoidRet: func(rs *ast.ReturnStmt, val func(ast.Expr) int8) bool {
				return len(rs.Results) == 1 && val(rs.Results[0]) < 0
			}}, func(pt Point, atExit bool) bool { return atExit }); found {
				bad = fmt.Sprintf("%s: a failing decode does not stop the iteration with `return false` (%s)", p.posStr(c.Pos()), strings.Join(w, " -> "))
			}
		}
	}
	if nDecode == 0 {
		bad = "consumer decodes nothing (row vacuous)"
	}
	if nDecode < so.Min {
		bad = fmt.Sprintf("expected at least %d fallible calls in the consumer, found %d", so.Min, nDecode)
	}
	if bad == "" {
		// outer function must return the recorded error on every path that returns after the iteration succeeded
		f := newFuncCFG(p, info, fd.Body, key)
		okRet := false
		for _, pt := range f.Find(func(n ast.Node) bool { _, ok := n.(*ast.ReturnStmt); return ok }) {
			rs := f.nodeAt(pt).(*ast.ReturnStmt)
			returned := func(e ast.Expr) types.Object {
				if se, isSel := ast.Unparen(e).(*ast.SelectorExpr); isSel {
					if sel := info.Selections[se]; sel != nil && sel.Kind() == types.FieldVal {
						if v, isVar := sel.Obj().(*types.Var); isVar {
							return v.Origin()
						}
					}
					return nil
				}
				return objOfIdent(info, e)
			}
			if len(rs.Results) == 1 && returned(rs.Results[0]) != nil && outerVars[returned(rs.Results[0])] {
				okRet = true
			} else if len(rs.Results) == 1 && isNil(info, rs.Results[0]) {
				bad = fmt.Sprintf("%s: returns nil instead of the error recorded by the consumer", p.posStr(rs.Pos()))
			}
		}
		if !okRet && bad == "" {
			bad = "the error recorded by the consumer is never returned"
		}
	}
	if bad == "" {
		r.Pass("iterate/stop-and-report", key, p.posStr(litPos), fmt.Sprintf("%d decode call(s): error recorded, iteration stopped, error returned", nDecode))
	} else {
		r.Fail("iterate/stop-and-report", key, p.posStr(litPos), bad)
	}
}

// checkComputeReadsStore: a finite case split over the cache states of TypedValue. The cache is
// three-valued - nothing known (hasCached == nil), presence known but no value (hasCached true,
// valueCached == nil: what Has() leaves behind), value known / absence known. Compute may hand
// the cached state to the compute function only when the value or the absence is known: in the
// other two states every path to the call of the compute function (branches decided by the state
// taking only their decided side, helper results followed) must pass the store read. Otherwise the
// function is run on (zero, false) for an existing key and its result overwrites the stored value.
func checkComputeReadsStore(r *Reporter, p *Prog) {
	const pkg, rule = "kvstore", "cache/compute-reads-store"
	fd := p.FuncDecl(pkg, "TypedValue", "Compute")
	key := pkg + ".TypedValue.Compute"
	if fd == nil {
		r.Unresolved(rule, key, "method not found")
		return
	}
	info := p.Pkg(pkg).TypesInfo
	recv := recvObj(info, fd)
	if recv == nil {
		r.Unresolved(rule, key, "receiver not named")
		return
	}
	rn := recv.Name()
	f := newFuncCFG(p, info, fd.Body, key)
	params := map[types.Object]bool{}
	for _, fl := range fd.Type.Params.List {
		for _, nm := range fl.Names {
			if _, isFn := info.TypeOf(fl.Type).Underlying().(*types.Signature); isFn {
				params[info.Defs[nm]] = true
			}
		}
	}
	// calls of the compute function: the parameter itself, or a helper's parameter it was passed to
	computeCalls := map[ast.Node]bool{}
	for _, b := range f.G.Blocks {
		if !b.Live {
			continue
		}
		for i, nd := range b.Nodes {
			pt := Point{b, i}
			inspectNoLit(nd, func(m ast.Node) bool {
				if cl, ok := m.(*ast.CallExpr); ok {
					for po := range params {
						if f.IsVar(cl.Fun, pt, po) {
							computeCalls[cl] = true
						}
					}
				}
				return true
			})
		}
	}
	isCompute := func(n ast.Node) bool { return computeCalls[n] }
	isGet := func(n ast.Node) bool {
		cl, ok := n.(*ast.CallExpr)
		return ok && strings.HasSuffix(exprKey(cl.Fun), ".kv.Get")
	}
	if len(f.Find(isCompute)) == 0 || len(f.Find(isGet)) == 0 {
		r.Fail(rule, key, p.posStr(fd.Pos()), "expected a call of the compute function parameter and a store read (kv.Get)")
		return
	}
	states := []struct {
		name   string
		assign map[string]bool
	}{
		{"nothing cached", map[string]bool{"nil == " + rn + ".hasCached": true, "nil == " + rn + ".valueCached": true}},
		{"presence cached, value not (after Has on an existing key)", map[string]bool{"nil == " + rn + ".hasCached": false, "*" + rn + ".hasCached": true, "nil == " + rn + ".valueCached": true}},
	}
	ok := true
	for _, st := range states {
		if w, found := f.PathUnder(st.assign, isGet, isCompute); found {
			ok = false
			r.Fail(rule, key+" ["+st.name+"]", p.posStr(fd.Pos()), "in the cache state '"+st.name+"' the compute function can be reached without reading the store: it is run on (zero value, false) although the key may exist, and its result overwrites the stored value", w...)
		}
	}
	if ok {
		r.Pass(rule, key, p.posStr(fd.Pos()), "in both cache states without a known value the store is read before the compute function runs")
	}
	// the positive side of the case split must be decidable too: with the value cached the call is reachable
	if _, found := f.PathUnder(map[string]bool{"nil == " + rn + ".hasCached": false, "*" + rn + ".hasCached": false, "nil == " + rn + ".valueCached": true}, nil, isCompute); !found {
		r.Fail(rule, key+" [self-check]", p.posStr(fd.Pos()), "the compute function is not reachable at all under a decided cache state: the case split does not apply to this code shape")
	}
}
