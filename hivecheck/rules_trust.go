package main

import (
	"fmt"
	"go/ast"
	"go/token"
	"go/types"
	"strings"

	"golang.org/x/tools/go/cfg"
)

// trustedHelper: a small function of hive.go whose contract other rules rely on BY NAME (the copy
// discipline accepts `ConcatBytes(v)` as "a private copy of v", the iteration rule hands the result of
// SortSlice to a consumer outside the lock). The contract is checked on the helper's body on every run:
//
//	fresh:        every slice it returns was allocated inside the call (make, append onto a fresh or nil
//	              slice, the bytes of a local buffer, a clone) - never a parameter, a part of one, or
//	              anything that outlives the call (a package-level variable, a pool)
//	argOrFresh:   as above, or the slice parameter itself (an in-place helper)
type trustedHelper struct {
	Pkg, Name string
	ArgOK     bool
}

func checkTrustedHelpers(r *Reporter, p *Prog, rows []trustedHelper) {
	const rule = "trust/helper-returns-private-slice"
	for _, row := range rows {
		key := row.Pkg + "." + row.Name
		pk := p.Pkg(row.Pkg)
		fd := p.FuncDecl(row.Pkg, "", row.Name)
		if pk == nil || fd == nil || fd.Body == nil {
			r.Unresolved(rule, key, "function not found (a rule trusts it by name)")
			continue
		}
		info := pk.TypesInfo
		f := newFuncCFG(p, info, fd.Body, key)
		params := map[types.Object]bool{}
		for _, fl := range fd.Type.Params.List {
			for _, nm := range fl.Names {
				params[info.Defs[nm]] = true
			}
		}
		isLocalVar := func(o types.Object) bool {
			v, ok := o.(*types.Var)
			return ok && !v.IsField() && v.Pkg() != nil && v.Parent() != v.Pkg().Scope() && !params[o]
		}
		// is e, evaluated at pt, a slice allocated inside this call (or nil)?
		visiting := map[types.Object]bool{}
		var fresh func(e ast.Expr, pt Point, depth int) string
		fresh = func(e ast.Expr, pt Point, depth int) string {
			e = ast.Unparen(e)
			if depth <= 0 {
				return "cannot follow " + exprKey(e)
			}
			if isNil(info, e) {
				return ""
			}
			switch x := e.(type) {
			case *ast.CompositeLit:
				return ""
			case *ast.CallExpr:
				k := rawKey(x.Fun)
				switch k {
				case "make":
					return ""
				case "append":
					if len(x.Args) == 0 {
						return "append without arguments"
					}
					return fresh(x.Args[0], pt, depth-1)
				case "bytes.Clone", "slices.Clone", "strings.Clone":
					return ""
				}
				if tv, ok := info.Types[x.Fun]; ok && tv.IsType() && len(x.Args) == 1 {
					// a conversion: []byte(string) allocates; a conversion between slice types does not
					if _, isStr := info.TypeOf(x.Args[0]).Underlying().(*types.Basic); isStr {
						return ""
					}
					return fresh(x.Args[0], pt, depth-1)
				}
				// the accumulated bytes of a local buffer / builder
				if se, ok := ast.Unparen(x.Fun).(*ast.SelectorExpr); ok && (se.Sel.Name == "Bytes" || se.Sel.Name == "String") {
					if o := objOfIdent(info, se.X); o != nil && isLocalVar(o) {
						if t := strings.TrimPrefix(typeName(o.Type()), "*"); t == "bytes.Buffer" || t == "strings.Builder" {
							// the buffer itself must have been created here (not handed in or taken from a pool)
							if defs, _ := f.ReachingDefs(pt, o); len(defs) == 0 {
								return ""
							}
							return "the buffer " + exprKey(se.X) + " is assigned from elsewhere"
						}
					}
				}
				return "the result of " + exprKey(x.Fun) + " is not known to be a new allocation"
			case *ast.Ident:
				o := objOfIdentRaw(info, x)
				if params[o] {
					return "it is the parameter " + x.Name
				}
				if !isLocalVar(o) {
					return exprKey(x) + " outlives the call (package-level)"
				}
				if visiting[o] {
					return "" // `x = append(x, ...)`: judged by the other definitions of x
				}
				visiting[o] = true
				defer delete(visiting, o)
				os := f.Origins(x, pt)
				if len(os) == 0 {
					return "no definition of " + x.Name + " found"
				}
				for _, og := range os {
					if id2, ok := ast.Unparen(og.E).(*ast.Ident); ok && objOfIdentRaw(info, id2) == o {
						// defined by a range clause or updated in place: look at the range operand
						return x.Name + " is an element or an in-place update of something else (range / op=)"
					}
					if w := fresh(og.E, og.At, depth-1); w != "" {
						return w
					}
				}
				return ""
			case *ast.SliceExpr:
				return fresh(x.X, pt, depth-1)
			case *ast.StarExpr:
				return "a dereferenced pointer (" + exprKey(x) + ") may refer to storage that outlives the call"
			case *ast.IndexExpr:
				return "an element of " + exprKey(x.X)
			}
			return exprKey(e) + " is not known to be a new allocation"
		}
		nRet, bad := 0, ""
		for _, rpt := range f.FindOwn(func(n ast.Node) bool { _, ok := n.(*ast.ReturnStmt); return ok }) {
			rs := f.nodeAt(rpt).(*ast.ReturnStmt)
			for _, res := range rs.Results {
				t := info.TypeOf(res)
				if t == nil {
					continue
				}
				if _, isSlice := t.Underlying().(*types.Slice); !isSlice {
					continue
				}
				nRet++
				if row.ArgOK {
					if o := objOfIdentRaw(info, res); o != nil && params[o] {
						// the parameter itself - provided it still is what the caller passed
						if defs, _ := f.ReachingDefs(rpt, o); len(defs) == 0 {
							continue
						}
					}
				}
				if w := fresh(res, rpt, 6); w != "" && bad == "" {
					bad = fmt.Sprintf("%s: %s returns a slice that is not private to the caller (%s): callers treat the result as their own copy (stored in or handed out of shared state, consumed outside the lock)", f.PosOf(rpt), row.Name, w)
				}
			}
		}
		_ = token.NoPos
		switch {
		case nRet == 0:
			r.Fail(rule, key, p.posStr(fd.Pos()), "no slice result found (vacuous)")
		case bad != "":
			r.Fail(rule, key, p.posStr(fd.Pos()), bad)
		default:
			r.Pass(rule, key, p.posStr(fd.Pos()), fmt.Sprintf("%d returned slice(s), each allocated inside the call%s", nRet, map[bool]string{true: " or the caller's own argument", false: ""}[row.ArgOK]))
		}
	}
}

// checkOptionsApplyOrder: constructors size what they build from the options inside the init function
// they hand to options.Apply (the worker pool makes its shutdown-signal channel with capacity
// workerCount there, the timed executor reads maxQueueSize). That is only right while Apply runs every
// option BEFORE every init function: in Apply's graph no call of an init function can be followed by a
// call of an option.
func checkOptionsApplyOrder(r *Reporter, p *Prog) {
	const rule = "options/applied-before-init"
	const pkg = "runtime/options"
	pk := p.Pkg(pkg)
	fd := p.FuncDecl(pkg, "", "Apply")
	if pk == nil || fd == nil || fd.Body == nil {
		r.Unresolved(rule, pkg+".Apply", "function not found (constructors rely on its order)")
		return
	}
	info := pk.TypesInfo
	f := newFuncCFGPlain(p, info, fd.Body, pkg+".Apply")
	var optParam, initParam types.Object
	i := 0
	for _, fl := range fd.Type.Params.List {
		for _, nm := range fl.Names {
			switch i {
			case 1:
				optParam = info.Defs[nm]
			case 2:
				initParam = info.Defs[nm]
			}
			i++
		}
	}
	// a call of an element of the given slice parameter: `for _, f := range param { f(obj) }` or param[i](obj)
	callsElemOf := func(param types.Object) func(ast.Node) bool {
		return func(n ast.Node) bool {
			c, ok := n.(*ast.CallExpr)
			if !ok || param == nil {
				return false
			}
			if ix, isIx := ast.Unparen(c.Fun).(*ast.IndexExpr); isIx {
				return objOfIdent(info, ix.X) == param
			}
			o := objOfIdent(info, c.Fun)
			if o == nil {
				return false
			}
			hit := false
			ast.Inspect(fd.Body, func(m ast.Node) bool {
				if rs, isRange := m.(*ast.RangeStmt); isRange && rs.Value != nil && objOfIdent(info, rs.Value) == o && objOfIdent(info, rs.X) == param {
					hit = true
				}
				return !hit
			})
			return hit
		}
	}
	isOpt, isInit := callsElemOf(optParam), callsElemOf(initParam)
	opts, inits := f.Find(isOpt), f.Find(isInit)
	switch {
	case len(opts) == 0 || len(inits) == 0:
		r.Fail(rule, pkg+".Apply", p.posStr(fd.Pos()), fmt.Sprintf("expected calls of the options and of the init functions in Apply (found %d / %d) (vacuous)", len(opts), len(inits)))
	default:
		bad := ""
		var wit []string
		for _, ip := range inits {
			if w, found := f.reach(Point{ip.B, ip.I + 1}, nil, func(pt Point, atExit bool) bool {
				return !atExit && containsMatch(f.nodeAt(pt), isOpt)
			}); found {
				bad, wit = f.PosOf(ip)+": an option can be applied after an init function has run: constructors that size channels, queues or pools from option values inside their init function (workerpool.New: shutdownSignal of capacity workerCount) see the defaults instead", w
			}
		}
		if bad != "" {
			r.Fail(rule, pkg+".Apply", p.posStr(fd.Pos()), bad, wit...)
		} else {
			r.Pass(rule, pkg+".Apply", p.posStr(fd.Pos()), "every option is applied before any init function runs")
		}
	}
}

// checkIndexResultGuarded: in the given packages, a slice or index expression whose bound is the result
// of strings/bytes Index*/LastIndex* (which is -1 when nothing is found) is reached only through an
// edge on which that result was compared with 0 / -1. Otherwise a missing separator panics with
// "slice bounds out of range [:-1]" - inside whatever critical section the caller holds.
func checkIndexResultGuarded(r *Reporter, p *Prog, rule string, pkgs []string) {
	n := 0
	for _, pkg := range pkgs {
		pk := p.Pkg(pkg)
		if pk == nil {
			r.Unresolved(rule, pkg, "package not loaded")
			continue
		}
		info := pk.TypesInfo
		isIndexCall := func(e ast.Expr) bool {
			c, ok := ast.Unparen(e).(*ast.CallExpr)
			if !ok {
				return false
			}
			q := qualifiedCallee(info, c)
			return (strings.HasPrefix(q, "strings.") || strings.HasPrefix(q, "bytes.")) && (strings.Contains(q, ".Index") || strings.Contains(q, ".LastIndex"))
		}
		for _, fd := range p.AllFuncDecls(pkg) {
			if fd.Body == nil || strings.HasSuffix(p.Fset.Position(fd.Pos()).Filename, "_test.go") {
				continue
			}
			fkey := funcKey(pkg, fd)
			var f *FuncCFG
			ast.Inspect(fd.Body, func(nd ast.Node) bool {
				var bounds []ast.Expr
				switch x := nd.(type) {
				case *ast.SliceExpr:
					bounds = []ast.Expr{x.Low, x.High, x.Max}
				case *ast.IndexExpr:
					if _, isMap := info.TypeOf(x.X).Underlying().(*types.Map); !isMap {
						bounds = []ast.Expr{x.Index}
					}
				default:
					return true
				}
				for _, bd := range bounds {
					if bd == nil {
						continue
					}
					if f == nil {
						f = newFuncCFG(p, info, fd.Body, fkey)
					}
					pt, okp := f.PointOf(nd)
					if !okp {
						continue
					}
					// the bound is, or contains as an operand, an index result (directly or through a temporary)
					var idx ast.Expr
					ast.Inspect(bd, func(m ast.Node) bool {
						e, isExpr := m.(ast.Expr)
						if !isExpr || idx != nil {
							return idx == nil
						}
						if isIndexCall(e) {
							idx = e
							return false
						}
						if id, isId := e.(*ast.Ident); isId {
							if re, _ := f.Resolve(id, pt); isIndexCall(re) {
								idx = id
								return false
							}
						}
						return true
					})
					if idx == nil {
						continue
					}
					n++
					key := fmt.Sprintf("%s in %s", exprKey(nd.(ast.Expr)), fkey)
					ik, ikAt := exprKey(idx), f.KeyAt(idx, pt)
					var guarded []Edge
					f.forEachEdgeFact(func(e Edge, b *cfg.Block, ft fact) {
						ept := Point{b, len(b.Nodes) - 1}
						rel, ok := relOfWith(ft.Atom, func(y ast.Expr) string { return f.KeyAt(y, ept) })
						if !ok {
							return
						}
						if !ft.Pol {
							rel = negRel(rel)
						}
						l, rr := rel.L, rel.R
						isIdx := func(k string) bool { return k == ik || k == ikAt }
						switch {
						case isIdx(rr) && (l == "0" && rel.Op == "<=" || l == "-1" && (rel.Op == "<" || rel.Op == "!=") || l == "0" && rel.Op == "<"):
							guarded = append(guarded, e)
						case isIdx(l) && rr == "-1" && rel.Op == "!=":
							guarded = append(guarded, e)
						}
					})
					// ... or the use sits in the right operand of `guard && use` / `found-nothing || use`: it is
					// evaluated only after the left operand excluded -1 (go/cfg keeps the whole condition as one node)
					shortCircuit := false
					{
						isGuard := func(c ast.Expr, wantFound bool) bool {
							ok := false
							var conj func(e ast.Expr)
							conj = func(e ast.Expr) {
								e = ast.Unparen(e)
								if b, isB := e.(*ast.BinaryExpr); isB && ((wantFound && b.Op == token.LAND) || (!wantFound && b.Op == token.LOR)) {
									conj(b.X)
									conj(b.Y)
									return
								}
								rel, isRel := relOfWith(e, func(y ast.Expr) string { return f.KeyAt(y, pt) })
								if !isRel {
									return
								}
								if !wantFound {
									rel = negRel(rel)
								}
								isIdx := func(k string) bool { return k == ik || k == ikAt }
								switch {
								case isIdx(rel.R) && (rel.L == "0" && (rel.Op == "<=" || rel.Op == "<") || rel.L == "-1" && (rel.Op == "<" || rel.Op == "!=")):
									ok = true
								case isIdx(rel.L) && rel.R == "-1" && rel.Op == "!=":
									ok = true
								}
							}
							conj(c)
							return ok
						}
						ast.Inspect(fd.Body, func(m ast.Node) bool {
							b, isB := m.(*ast.BinaryExpr)
							if !isB || shortCircuit || (b.Op != token.LAND && b.Op != token.LOR) {
								return !shortCircuit
							}
							if b.Y.Pos() <= nd.Pos() && nd.End() <= b.Y.End() && isGuard(b.X, b.Op == token.LAND) {
								shortCircuit = true
							}
							return !shortCircuit
						})
					}
					if w, only := f.OnlyThroughEdges(pt, guarded); only || shortCircuit {
						r.Pass(rule, key, p.posStr(nd.Pos()), "the index result is known to be a position on every path")
					} else {
						r.Fail(rule, key, p.posStr(nd.Pos()), "the result of "+ikAt+" is used as a slice bound / index on a path that has not excluded -1 (nothing found): slice bounds out of range", w...)
					}
				}
				return true
			})
		}
	}
	if n == 0 {
		r.Pass(rule, strings.Join(pkgs, ","), "-", "no slice bound or index is the result of an Index/LastIndex search")
	}
}

// checkErrorConstructorsNonNil: the path engine treats the result of ierrors.New / Errorf / Wrap / Wrapf /
// WithMessage / WithMessagef as a non-nil error (a helper that returns one of them "failed", the caller's
// err == nil edge is not taken after it). That is a fact about hive.go/ierrors, checked here on the
// bodies: every result is fmt.Errorf(...) or errors.New(...), possibly handed through one unexported
// function of the package that returns nil only for nil.
func checkErrorConstructorsNonNil(r *Reporter, p *Prog) {
	const rule = "trust/error-constructors-non-nil"
	pk := p.Pkg("ierrors")
	if pk == nil || len(pk.Syntax) == 0 {
		r.Unresolved(rule, "ierrors", "package not loaded with syntax (the path engine relies on its constructors)")
		return
	}
	info := pk.TypesInfo
	di := p.decls()
	// an unexported pass-through: nil only on the edge on which its parameter is nil
	passesThrough := func(fd *ast.FuncDecl) bool {
		if fd == nil || fd.Body == nil || fd.Type.Params.NumFields() != 1 || len(fd.Type.Params.List[0].Names) != 1 {
			return false
		}
		po := info.Defs[fd.Type.Params.List[0].Names[0]]
		f := newFuncCFGPlain(p, info, fd.Body, "")
		nilParam, _ := f.CondEdges(func(e ast.Expr) bool {
			x, nonNilOnTrue, isTest := nilTest(info, e)
			return isTest && !nonNilOnTrue && objOfIdent(info, x) == po
		})
		ok := true
		for _, rpt := range f.FindOwn(func(n ast.Node) bool { _, isRet := n.(*ast.ReturnStmt); return isRet }) {
			rs := f.nodeAt(rpt).(*ast.ReturnStmt)
			if len(rs.Results) != 1 {
				ok = false
				continue
			}
			if isNil(info, rs.Results[0]) {
				if _, only := f.OnlyThroughEdges(rpt, nilParam); !only {
					ok = false
				}
			}
		}
		return ok
	}
	var isFresh func(e ast.Expr, depth int) bool
	isFresh = func(e ast.Expr, depth int) bool {
		c, ok := ast.Unparen(e).(*ast.CallExpr)
		if !ok || depth <= 0 {
			return false
		}
		switch qualifiedCallee(info, c) {
		case "fmt.Errorf", "errors.New":
			return true
		}
		if fn := staticCallee(info, c); fn != nil && len(c.Args) == 1 {
			if cd := di.byFunc[fn.Origin()]; cd != nil && di.infoOf[cd] == info && !cd.Name.IsExported() && passesThrough(cd) {
				return isFresh(c.Args[0], depth-1)
			}
			if cd := di.byFunc[fn.Origin()]; cd != nil && di.infoOf[cd] == info && !cd.Name.IsExported() {
				// a constructor of the package's own error type
				allNew := cd.Body != nil
				ast.Inspect(cd.Body, func(n ast.Node) bool {
					if rs, isRet := n.(*ast.ReturnStmt); isRet {
						for _, res := range rs.Results {
							if u, isAddr := ast.Unparen(res).(*ast.UnaryExpr); !isAddr || u.Op != token.AND {
								allNew = false
							}
						}
					}
					return true
				})
				return allNew
			}
		}
		return false
	}
	for _, name := range []string{"New", "Errorf", "Wrap", "Wrapf", "WithMessage", "WithMessagef"} {
		fd := p.FuncDecl("ierrors", "", name)
		key := "ierrors." + name
		if fd == nil || fd.Body == nil {
			r.Unresolved(rule, key, "function not found")
			continue
		}
		n, bad := 0, ""
		ast.Inspect(fd.Body, func(nd ast.Node) bool {
			if _, isLit := nd.(*ast.FuncLit); isLit {
				return false
			}
			rs, ok := nd.(*ast.ReturnStmt)
			if !ok || len(rs.Results) != 1 {
				return true
			}
			n++
			if !isFresh(rs.Results[0], 3) && bad == "" {
				bad = p.posStr(rs.Pos()) + ": " + name + " can return something other than a freshly made error (" + exprKey(rs.Results[0]) + "): the path engine would take a failure for a success or prune a feasible path"
			}
			return true
		})
		switch {
		case n == 0:
			r.Fail(rule, key, p.posStr(fd.Pos()), "no return found (vacuous)")
		case bad != "":
			r.Fail(rule, key, p.posStr(fd.Pos()), bad)
		default:
			r.Pass(rule, key, p.posStr(fd.Pos()), fmt.Sprintf("%d return(s), each a freshly made error", n))
		}
	}
}
