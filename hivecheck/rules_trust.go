package main

import (
	"fmt"
	"go/ast"
	"go/token"
	"go/types"
	"strings"
)

// trustedHelper: a small function of hive.go whose contract other rules rely on BY NAME (the copy
// discipline accepts `ConcatBytes(v)` as "a private copy of v", the iteration rule hands the result of
// SortSlice to a consumer outside the lock). The contract is checked on the helper's body on every run:
//
//	fresh:        every slice it returns was allocated inside the call (make, append onto a fresh or nil
//	              slice, the bytes of a local buffer, a clone) - never a parameter, a part of one, or
//	              anything that outlives the call (a package-level variable, a pool)
//	argOrFresh:   as above, or the slice parameter itself (an in-place helper)
type trustedHelper struct {
	Pkg, Name string
	ArgOK     bool
}

func checkTrustedHelpers(r *Reporter, p *Prog, rows []trustedHelper) {
	const rule = "trust/helper-returns-private-slice"
	for _, row := range rows {
		key := row.Pkg + "." + row.Name
		pk := p.Pkg(row.Pkg)
		fd := p.FuncDecl(row.Pkg, "", row.Name)
		if pk == nil || fd == nil || fd.Body == nil {
			r.Unresolved(rule, key, "function not found (a rule trusts it by name)")
			continue
		}
		info := pk.TypesInfo
		f := newFuncCFG(p, info, fd.Body, key)
		params := map[types.Object]bool{}
		for _, fl := range fd.Type.Params.List {
			for _, nm := range fl.Names {
				params[info.Defs[nm]] = true
			}
		}
		isLocalVar := func(o types.Object) bool {
			v, ok := o.(*types.Var)
			return ok && !v.IsField() && v.Pkg() != nil && v.Parent() != v.Pkg().Scope() && !params[o]
		}
		// is e, evaluated at pt, a slice allocated inside this call (or nil)?
		visiting := map[types.Object]bool{}
		var fresh func(e ast.Expr, pt Point, depth int) string
		fresh = func(e ast.Expr, pt Point, depth int) string {
			e = ast.Unparen(e)
			if depth <= 0 {
				return "cannot follow " + exprKey(e)
			}
			if isNil(info, e) {
				return ""
			}
			switch x := e.(type) {
			case *ast.CompositeLit:
				return ""
			case *ast.CallExpr:
				k := rawKey(x.Fun)
				switch k {
				case "make":
					return ""
				case "append":
					if len(x.Args) == 0 {
						return "append without arguments"
					}
					return fresh(x.Args[0], pt, depth-1)
				case "bytes.Clone", "slices.Clone", "strings.Clone":
					return ""
				}
				if tv, ok := info.Types[x.Fun]; ok && tv.IsType() && len(x.Args) == 1 {
					// a conversion: []byte(string) allocates; a conversion between slice types does not
					if _, isStr := info.TypeOf(x.Args[0]).Underlying().(*types.Basic); isStr {
						return ""
					}
					return fresh(x.Args[0], pt, depth-1)
				}
				// the accumulated bytes of a local buffer / builder
				if se, ok := ast.Unparen(x.Fun).(*ast.SelectorExpr); ok && (se.Sel.Name == "Bytes" || se.Sel.Name == "String") {
					if o := objOfIdent(info, se.X); o != nil && isLocalVar(o) {
						if t := strings.TrimPrefix(typeName(o.Type()), "*"); t == "bytes.Buffer" || t == "strings.Builder" {
							// the buffer itself must have been created here (not handed in or taken from a pool)
							if defs, _ := f.ReachingDefs(pt, o); len(defs) == 0 {
								return ""
							}
							return "the buffer " + exprKey(se.X) + " is assigned from elsewhere"
						}
					}
				}
				return "the result of " + exprKey(x.Fun) + " is not known to be a new allocation"
			case *ast.Ident:
				o := objOfIdentRaw(info, x)
				if params[o] {
					return "it is the parameter " + x.Name
				}
				if !isLocalVar(o) {
					return exprKey(x) + " outlives the call (package-level)"
				}
				if visiting[o] {
					return "" // `x = append(x, ...)`: judged by the other definitions of x
				}
				visiting[o] = true
				defer delete(visiting, o)
				os := f.Origins(x, pt)
				if len(os) == 0 {
					return "no definition of " + x.Name + " found"
				}
				for _, og := range os {
					if id2, ok := ast.Unparen(og.E).(*ast.Ident); ok && objOfIdentRaw(info, id2) == o {
						// defined by a range clause or updated in place: look at the range operand
						return x.Name + " is an element or an in-place update of something else (range / op=)"
					}
					if w := fresh(og.E, og.At, depth-1); w != "" {
						return w
					}
				}
				return ""
			case *ast.SliceExpr:
				return fresh(x.X, pt, depth-1)
			case *ast.StarExpr:
				return "a dereferenced pointer (" + exprKey(x) + ") may refer to storage that outlives the call"
			case *ast.IndexExpr:
				return "an element of " + exprKey(x.X)
			}
			return exprKey(e) + " is not known to be a new allocation"
		}
		nRet, bad := 0, ""
		for _, rpt := range f.FindOwn(func(n ast.Node) bool { _, ok := n.(*ast.ReturnStmt); return ok }) {
			rs := f.nodeAt(rpt).(*ast.ReturnStmt)
			for _, res := range rs.Results {
				t := info.TypeOf(res)
				if t == nil {
					continue
				}
				if _, isSlice := t.Underlying().(*types.Slice); !isSlice {
					continue
				}
				nRet++
				if row.ArgOK {
					if o := objOfIdentRaw(info, res); o != nil && params[o] {
						// the parameter itself - provided it still is what the caller passed
						if defs, _ := f.ReachingDefs(rpt, o); len(defs) == 0 {
							continue
						}
					}
				}
				if w := fresh(res, rpt, 6); w != "" && bad == "" {
					bad = fmt.Sprintf("%s: %s returns a slice that is not private to the caller (%s): callers treat the result as their own copy (stored in or handed out of shared state, consumed outside the lock)", f.PosOf(rpt), row.Name, w)
				}
			}
		}
		_ = token.NoPos
		switch {
		case nRet == 0:
			r.Fail(rule, key, p.posStr(fd.Pos()), "no slice result found (vacuous)")
		case bad != "":
			r.Fail(rule, key, p.posStr(fd.Pos()), bad)
		default:
			r.Pass(rule, key, p.posStr(fd.Pos()), fmt.Sprintf("%d returned slice(s), each allocated inside the call%s", nRet, map[bool]string{true: " or the caller's own argument", false: ""}[row.ArgOK]))
		}
	}
}
