package main

// Program loading: every run loads /repo's *current* source. hive.go is 19 modules
// without go.work; sibling imports resolve to pinned pseudo-versions in the module
// cache. To analyse the working tree across module borders we generate, per module, a
// modfile overlay (go.mod + replace directives for every sibling -> /repo/<sib>) under
// /verif/.work and load with -modfile. /repo is never written.

import (
	"fmt"
	"go/ast"
	"go/token"
	"go/types"
	"os"
	"path/filepath"
	"sort"
	"strings"

	"golang.org/x/tools/go/packages"
	"golang.org/x/tools/go/ssa"
	"golang.org/x/tools/go/ssa/ssautil"
)

const hivePrefix = "github.com/iotaledger/hive.go/"

var repoRoot = envOr("HIVECHECK_REPO", "/repo")

func envOr(k, d string) string {
	if v := os.Getenv(k); v != "" {
		return v
	}
	return d
}

type moduleInfo struct {
	Dir  string // directory name under repo root, e.g. "serializer"
	Path string // module path
}

// discoverModules finds every go.mod directly below the repo root.
func discoverModules() ([]moduleInfo, error) {
	ents, err := os.ReadDir(repoRoot)
	if err != nil {
		return nil, err
	}
	var mods []moduleInfo
	for _, e := range ents {
		if !e.IsDir() {
			continue
		}
		b, err := os.ReadFile(filepath.Join(repoRoot, e.Name(), "go.mod"))
		if err != nil {
			continue
		}
		for _, line := range strings.Split(string(b), "\n") {
			line = strings.TrimSpace(line)
			if strings.HasPrefix(line, "module ") {
				mods = append(mods, moduleInfo{Dir: e.Name(), Path: strings.TrimSpace(strings.TrimPrefix(line, "module "))})
				break
			}
		}
	}
	sort.Slice(mods, func(i, j int) bool { return mods[i].Dir < mods[j].Dir })
	return mods, nil
}

// Prog is one loaded module (its packages plus all dependencies, from source).
type Prog struct {
	assignedFields map[*types.Info]map[*types.Var]bool // fieldEverAssigned cache
	callSites      map[*types.Info]map[*types.Func]int // singleCallSite cache
	sentinels      map[*types.Var]bool                 // sentinelError cache
	Module         string
	Tags           string
	Fset           *token.FileSet
	Roots          []*packages.Package
	Pkgs           map[string]*packages.Package // by PkgPath, transitive

	ssaProg *ssa.Program
	ssaPkgs map[string]*ssa.Package
	declIdx *declIndex
	NFuncs  int
}

type Loader struct {
	mods    []moduleInfo
	workDir string
	tags    string
	cache   map[string]*Prog
}

func newLoader(tags string) (*Loader, error) {
	mods, err := discoverModules()
	if err != nil {
		return nil, err
	}
	if len(mods) == 0 {
		return nil, fmt.Errorf("no modules found under %s", repoRoot)
	}
	for _, m := range mods {
		hiveTopDirs[m.Dir] = true
	}
	base := envOr("HIVECHECK_WORK", "/verif/.work")
	if err := os.MkdirAll(base, 0o755); err != nil {
		return nil, err
	}
	wd, err := os.MkdirTemp(base, "ov-")
	if err != nil {
		return nil, err
	}
	return &Loader{mods: mods, workDir: wd, tags: tags, cache: map[string]*Prog{}}, nil
}

func (l *Loader) Close() { os.RemoveAll(l.workDir) }

func (l *Loader) overlay(mod string) (string, error) {
	src, err := os.ReadFile(filepath.Join(repoRoot, mod, "go.mod"))
	if err != nil {
		return "", err
	}
	var sb strings.Builder
	sb.Write(src)
	sb.WriteString("\n// --- hivecheck overlay: resolve siblings to the working tree ---\n")
	for _, m := range l.mods {
		if m.Dir == mod {
			continue
		}
		fmt.Fprintf(&sb, "replace %s => %s\n", m.Path, filepath.Join(repoRoot, m.Dir))
	}
	modFile := filepath.Join(l.workDir, mod+".mod")
	if err := os.WriteFile(modFile, []byte(sb.String()), 0o644); err != nil {
		return "", err
	}
	// union of all go.sum files
	seen := map[string]bool{}
	var sum strings.Builder
	for _, m := range l.mods {
		b, err := os.ReadFile(filepath.Join(repoRoot, m.Dir, "go.sum"))
		if err != nil {
			continue
		}
		for _, ln := range strings.Split(string(b), "\n") {
			if ln != "" && !seen[ln] {
				seen[ln] = true
				sum.WriteString(ln)
				sum.WriteByte('\n')
			}
		}
	}
	if err := os.WriteFile(filepath.Join(l.workDir, mod+".sum"), []byte(sum.String()), 0o644); err != nil {
		return "", err
	}
	return modFile, nil
}

// Load loads ./... of the given module directory (e.g. "kvstore") with all deps from source.
func (l *Loader) Load(mod string) (*Prog, error) {
	if p, ok := l.cache[mod]; ok {
		return p, nil
	}
	found := false
	for _, m := range l.mods {
		if m.Dir == mod {
			found = true
		}
	}
	if !found {
		return nil, fmt.Errorf("module directory %q not found under %s", mod, repoRoot)
	}
	modFile, err := l.overlay(mod)
	if err != nil {
		return nil, err
	}
	flags := []string{"-modfile=" + modFile}
	if l.tags != "" {
		flags = append(flags, "-tags="+l.tags)
	}
	env := []string{}
	for _, e := range os.Environ() {
		if strings.HasPrefix(e, "GOWORK=") || strings.HasPrefix(e, "GOFLAGS=") || strings.HasPrefix(e, "GOPROXY=") ||
			strings.HasPrefix(e, "GOSUMDB=") || strings.HasPrefix(e, "GOTOOLCHAIN=") {
			continue
		}
		env = append(env, e)
	}
	env = append(env, "GOWORK=off", "GOFLAGS=-mod=mod", "GOPROXY=off", "GOSUMDB=off", "GOTOOLCHAIN=local")
	fset := token.NewFileSet()
	cfg := &packages.Config{
		Mode: packages.NeedName | packages.NeedFiles | packages.NeedCompiledGoFiles | packages.NeedImports |
			packages.NeedDeps | packages.NeedTypes | packages.NeedSyntax | packages.NeedTypesInfo | packages.NeedTypesSizes | packages.NeedModule,
		Dir:        filepath.Join(repoRoot, mod),
		Fset:       fset,
		BuildFlags: flags,
		Env:        env,
	}
	roots, err := packages.Load(cfg, "./...")
	if err != nil {
		return nil, fmt.Errorf("load %s: %w", mod, err)
	}
	if len(roots) == 0 {
		return nil, fmt.Errorf("load %s: zero packages", mod)
	}
	// pure renames of unexported helpers and fields are undone through an overlay (anchors.go): the
	// tree is loaded a second time with the recorded names written back
	{
		p0 := &Prog{Module: mod, Tags: l.tags, Fset: fset, Roots: roots, Pkgs: map[string]*packages.Package{}}
		clean := true
		packages.Visit(roots, nil, func(pk *packages.Package) {
			p0.Pkgs[pk.PkgPath] = pk
			if strings.HasPrefix(pk.PkgPath, hivePrefix) && len(pk.Errors) > 0 {
				clean = false
			}
		})
		if clean && genAnchorsPath == "" {
			if edits := detectRenames(p0); len(edits) > 0 {
				if ov, err := applyRenameEdits(edits); err == nil {
					fset = token.NewFileSet()
					cfg.Fset = fset
					cfg.Overlay = ov
					if r2, err2 := packages.Load(cfg, "./..."); err2 == nil && len(r2) > 0 {
						bad := false
						packages.Visit(r2, nil, func(pk *packages.Package) {
							if strings.HasPrefix(pk.PkgPath, hivePrefix) && len(pk.Errors) > 0 {
								bad = true
							}
						})
						if !bad {
							roots = r2
						} else {
							fmt.Fprintln(os.Stderr, "advice: the tree with the recorded names written back does not type-check; analysing it as written")
							fset = p0.Fset
						}
					}
				}
			}
		}
	}
	p := &Prog{Module: mod, Tags: l.tags, Fset: fset, Roots: roots, Pkgs: map[string]*packages.Package{}}
	var errs []string
	packages.Visit(roots, nil, func(pk *packages.Package) {
		p.Pkgs[pk.PkgPath] = pk
		if strings.HasPrefix(pk.PkgPath, hivePrefix) {
			for _, e := range pk.Errors {
				errs = append(errs, e.Error())
			}
			if pk.Module != nil && pk.Module.Replace == nil && !pk.Module.Main {
				errs = append(errs, fmt.Sprintf("package %s resolved to module cache, not the working tree", pk.PkgPath))
			}
		}
	})
	if len(errs) > 0 {
		sort.Strings(errs)
		if len(errs) > 8 {
			errs = errs[:8]
		}
		return nil, fmt.Errorf("load %s: errors in hive.go packages: %s", mod, strings.Join(errs, "; "))
	}
	l.cache[mod] = p
	for _, pk := range p.Pkgs {
		if pk.TypesInfo != nil {
			progOfInfo[pk.TypesInfo] = p
		}
	}
	if genAnchorsPath != "" {
		recordAnchors(p)
	}
	buildKeySubst(p)
	registerUnlockers(p)
	return p, nil
}

// SSA builds (once) the SSA program for this Prog, generic bodies included.
func (p *Prog) SSA() *ssa.Program {
	if p.ssaProg != nil {
		return p.ssaProg
	}
	var all []*packages.Package
	for _, pk := range p.Pkgs {
		all = append(all, pk)
	}
	sort.Slice(all, func(i, j int) bool { return all[i].PkgPath < all[j].PkgPath })
	prog, pkgs := ssautil.Packages(all, ssa.InstantiateGenerics)
	p.ssaPkgs = map[string]*ssa.Package{}
	for i, sp := range pkgs {
		if sp != nil {
			p.ssaPkgs[all[i].PkgPath] = sp
		}
	}
	prog.Build()
	p.ssaProg = prog
	return prog
}

// ---- lookup helpers ---------------------------------------------------------------

var hiveTopDirs = map[string]bool{}

func fullPath(short string) string {
	if strings.HasPrefix(short, "github.com/") {
		return short
	}
	first := short
	if i := strings.Index(short, "/"); i >= 0 {
		first = short[:i]
	}
	if !hiveTopDirs[first] {
		return short // standard library or third party
	}
	if first == "serializer" {
		return hivePrefix + "serializer/v2" + strings.TrimPrefix(short, "serializer")
	}
	return hivePrefix + short
}

func (p *Prog) Pkg(short string) *packages.Package { return p.Pkgs[fullPath(short)] }

// FuncDecl finds a function or method declaration. recv is the bare receiver type name
// ("" for a package-level function).
func (p *Prog) FuncDecl(pkg, recv, name string) *ast.FuncDecl {
	pk := p.Pkg(pkg)
	if pk == nil {
		return nil
	}
	for _, f := range pk.Syntax {
		for _, d := range f.Decls {
			fd, ok := d.(*ast.FuncDecl)
			if !ok || fd.Name.Name != name {
				continue
			}
			if recvTypeName(fd) == recv {
				return fd
			}
		}
	}
	// a pure rename of an unexported helper (anchors.go)
	if fd := p.renamedAnchor(pkg, recv, name); fd != nil {
		return fd
	}
	// a method turned into a package-level function that takes the former receiver as a parameter
	if recv != "" {
		for _, f := range pk.Syntax {
			for _, d := range f.Decls {
				if fd, ok := d.(*ast.FuncDecl); ok && fd.Name.Name == name && fd.Recv == nil && pseudoRecvIdent(fd, recv) != nil {
					return fd
				}
			}
		}
	}
	return nil
}

// typeExprName: the type name a parameter or receiver type expression denotes, pointers and type
// arguments stripped ("" for anything but a plain, unqualified name).
func typeExprName(t ast.Expr) string {
	for {
		switch x := t.(type) {
		case *ast.StarExpr:
			t = x.X
		case *ast.ParenExpr:
			t = x.X
		case *ast.IndexExpr:
			t = x.X
		case *ast.IndexListExpr:
			t = x.X
		case *ast.Ident:
			return x.Name
		default:
			return ""
		}
	}
}

// pseudoRecvIdent: for a package-level function, the one parameter of the named type (of the same
// package) that plays the receiver's role; nil if there is none or several. With typ == "" the
// type is not prescribed: the function must then have exactly one parameter whose type is a plain
// name starting with a lower- or upper-case letter that is not a predeclared type.
func pseudoRecvIdent(fd *ast.FuncDecl, typ string) *ast.Ident {
	if fd.Recv != nil || fd.Type.Params == nil {
		return nil
	}
	byType := map[string][]*ast.Ident{}
	var order []string
	for _, fl := range fd.Type.Params.List {
		tn := typeExprName(fl.Type)
		if tn == "" || (typ != "" && tn != typ) {
			continue
		}
		if typ == "" {
			if types.Universe.Lookup(tn) != nil {
				continue
			}
			if _, isPtr := fl.Type.(*ast.StarExpr); !isPtr {
				continue // a value of a named type: usually an option or a key, not the object operated on
			}
			// type parameters are not receiver types
			isTP := false
			if fd.Type.TypeParams != nil {
				for _, tp := range fd.Type.TypeParams.List {
					for _, nm := range tp.Names {
						if nm.Name == tn {
							isTP = true
						}
					}
				}
			}
			if isTP {
				continue
			}
		}
		if _, seen := byType[tn]; !seen {
			order = append(order, tn)
		}
		byType[tn] = append(byType[tn], fl.Names...)
	}
	// the one parameter that is alone in its type (`l *list, e, at *listElement` -> l)
	// (several such parameters: by convention the former receiver comes first)
	var cands []*ast.Ident
	for _, tn := range order {
		if len(byType[tn]) == 1 {
			cands = append(cands, byType[tn][0])
		}
	}
	switch {
	case len(cands) == 1:
		return cands[0]
	case len(cands) > 1 && len(fd.Type.Params.List[0].Names) > 0 && fd.Type.Params.List[0].Names[0] == cands[0]:
		return cands[0]
	}
	return nil
}

// pseudoRecvType: the type name of the parameter playing the receiver's role ("" if none).
func pseudoRecvType(fd *ast.FuncDecl) string {
	id := pseudoRecvIdent(fd, "")
	if id == nil {
		return ""
	}
	for _, fl := range fd.Type.Params.List {
		for _, nm := range fl.Names {
			if nm == id {
				return typeExprName(fl.Type)
			}
		}
	}
	return ""
}

// Methods returns all method declarations of the named receiver type, sorted by name.
func (p *Prog) Methods(pkg, recv string) []*ast.FuncDecl {
	pk := p.Pkg(pkg)
	if pk == nil {
		return nil
	}
	var out []*ast.FuncDecl
	for _, f := range pk.Syntax {
		for _, d := range f.Decls {
			if fd, ok := d.(*ast.FuncDecl); ok && fd.Recv != nil && recvTypeName(fd) == recv && !inlinedAway[fd] {
				out = append(out, fd)
			} else if ok && fd.Recv == nil && !fd.Name.IsExported() && !inlinedAway[fd] && fd.Body != nil && pseudoRecvIdent(fd, recv) != nil && pseudoRecvType(fd) == recv {
				// an unexported package-level function operating on one object of the type: a method in all but syntax
				out = append(out, fd)
			}
		}
	}
	sort.Slice(out, func(i, j int) bool { return out[i].Name.Name < out[j].Name.Name })
	return out
}

// AllFuncDecls returns every function declaration of the package.
func (p *Prog) AllFuncDecls(pkg string) []*ast.FuncDecl {
	pk := p.Pkg(pkg)
	if pk == nil {
		return nil
	}
	var out []*ast.FuncDecl
	for _, f := range pk.Syntax {
		for _, d := range f.Decls {
			if fd, ok := d.(*ast.FuncDecl); ok && !inlinedAway[fd] {
				out = append(out, fd)
			}
		}
	}
	return out
}

func recvTypeName(fd *ast.FuncDecl) string {
	if fd.Recv == nil || len(fd.Recv.List) == 0 {
		return ""
	}
	t := fd.Recv.List[0].Type
	for {
		switch x := t.(type) {
		case *ast.StarExpr:
			t = x.X
		case *ast.ParenExpr:
			t = x.X
		case *ast.IndexExpr:
			t = x.X
		case *ast.IndexListExpr:
			t = x.X
		case *ast.Ident:
			return x.Name
		default:
			return ""
		}
	}
}

func funcKey(pkg string, fd *ast.FuncDecl) string {
	if r := recvTypeName(fd); r != "" {
		return pkg + "." + r + "." + fd.Name.Name
	}
	return pkg + "." + fd.Name.Name
}

// NamedStruct returns the named type and its struct underlying.
func (p *Prog) NamedStruct(pkg, name string) (*types.Named, *types.Struct) {
	pk := p.Pkg(pkg)
	if pk == nil || pk.Types == nil {
		return nil, nil
	}
	obj := pk.Types.Scope().Lookup(name)
	if obj == nil {
		return nil, nil
	}
	n, _ := obj.Type().(*types.Named)
	if n == nil {
		return nil, nil
	}
	s, _ := n.Underlying().(*types.Struct)
	return n, s
}

func (p *Prog) posStr(pos token.Pos) string {
	if !pos.IsValid() {
		return "-"
	}
	ps := p.Fset.Position(pos)
	fn := ps.Filename
	if rel, err := filepath.Rel(repoRoot, fn); err == nil && !strings.HasPrefix(rel, "..") {
		fn = rel
	}
	return fmt.Sprintf("%s:%d", fn, ps.Line)
}

// SSAFunc finds the SSA function (generic origin for generic code) for a declaration.
func (p *Prog) SSAFunc(pkg, recv, name string) *ssa.Function {
	prog := p.SSA()
	pk := p.Pkg(pkg)
	if pk == nil {
		return nil
	}
	if recv == "" {
		if fn, ok := pk.Types.Scope().Lookup(name).(*types.Func); ok {
			return prog.FuncValue(fn)
		}
		return nil
	}
	obj := pk.Types.Scope().Lookup(recv)
	if obj == nil {
		return nil
	}
	n, _ := obj.Type().(*types.Named)
	if n == nil {
		return nil
	}
	for i := 0; i < n.NumMethods(); i++ {
		if m := n.Method(i); m.Name() == name {
			return prog.FuncValue(m)
		}
	}
	return nil
}

// recvIdentOf: the identifier naming the object a function operates on - the receiver of a method,
// or the receiver-role parameter of a package-level function (a former method). Never nil: an
// anonymous or absent receiver yields a blank identifier that denotes no object.
func recvIdentOf(fd *ast.FuncDecl) *ast.Ident {
	if fd.Recv != nil {
		if len(fd.Recv.List) > 0 && len(fd.Recv.List[0].Names) > 0 {
			return fd.Recv.List[0].Names[0]
		}
		return &ast.Ident{Name: "_"}
	}
	if id := pseudoRecvIdent(fd, ""); id != nil {
		return id
	}
	return &ast.Ident{Name: "_"}
}
