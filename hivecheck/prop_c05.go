package main

import (
	"fmt"
	"go/ast"
	"go/types"
)

func init() {
	register(&property{
		ID:  "C05",
		Run: runC05,
		Meta: propMeta{
			Explanation: "Static lock discipline of kvstore/mapdb on all CFG paths: the shared map is only touched under its RWMutex (writes under the write lock), batch maps under the batch mutex; iteration takes its snapshot in exactly one read-locked section and invokes the consumer only after releasing it; every acquired mutex is released on every exit; the lock-class order graph of the package (with transitive callee summaries) is acyclic and no held mutex is re-acquired; the closed flag is touched only through atomic methods and realm is never written after construction. These are necessary conditions of linearizability/deadlock freedom/race freedom for every schedule; linearizability of histories as such is not decided. Also: no guarded map or slice is returned by reference from inside its critical section; stored values cross the map boundary only through copying calls (rule shared with C04). The view operations never use their consumer while a mutex is held.",
			NotDecided:  "linearizability of histories; Go memory model beyond 'every shared access is under the tabled lock or an atomic'",
			Assumptions: []string{"sync.RWMutex/atomic.Bool behave as documented", "lock identity is by access path (receiver + field chain); receivers and bases are single-assignment in the analysed functions"},
		},
		Modes: []string{"deadlock"},
	})
}

var mapdbGuardRows = []GuardRow{
	{Pkg: "kvstore/mapdb", Type: "syncedKVMap", Mutex: "RWMutex", Fields: []string{"m"}},
	{Pkg: "kvstore/mapdb", Type: "batchedMutations", Mutex: "Mutex", Fields: []string{"setOperations", "deleteOperations"}},
}

func runC05(c *Ctx) {
	p := c.Load("kvstore")
	if p == nil {
		return
	}
	r := c.R
	const pkg = "kvstore/mapdb"
	// 0. keys are never built in the realm's own backing array (readers hold only the read lock)
	checkNoAppendToSharedField(r, p, pkg)
	// 1. guarded-by
	checkGuards(r, p, "lock/guarded-by", mapdbGuardRows)
	// 2. balance + order
	checkLockBalance(r, p, "lock/balance", []string{pkg, "kvstore/flushkv"}, nil, nil)
	checkLockOrder(r, p, "lock/order", lockOrderOpts{Pkgs: []string{pkg}})
	// 3. snapshot atomicity + consumer outside the lock
	for _, name := range []string{"iterate", "iterateKeys"} {
		fd := p.FuncDecl(pkg, "syncedKVMap", name)
		if fd == nil {
			r.Unresolved("snapshot/one-section", pkg+".syncedKVMap."+name, "function not found")
			continue
		}
		checkOneSectionAndCallbackOutside(r, p, pkg, fd, "m")
	}
	// the views take their own mutex around single-key operations; an iteration must not hold it while
	// the consumer runs (directly, or inside the shared map's iterate it is handed to): a consumer that
	// writes through the same view - or waits for someone who does - would never return
	for _, name := range []string{"Iterate", "IterateKeys"} {
		fd := p.FuncDecl(pkg, "mapDB", name)
		if fd == nil {
			r.Unresolved("lock/no-callback-under-lock", pkg+".mapDB."+name, "method not found")
			continue
		}
		checkConsumerNotUnderReceiverLock(r, p, pkg, fd)
	}
	for _, typ := range []string{"syncedKVMap", "mapDB", "batchedMutations"} {
		checkAtomicOperations(r, p, "atomic/one-section-per-operation", pkg, typ)
	}
	// 4. closed only through atomic methods, realm write-once
	// stored values never alias a caller's or a reader's buffer (shared with C04): without the copies a
	// reader outside the lock races with writers and an in-place overwrite tears snapshots
	checkCopyDiscipline(r, p)
	checkKVStoreTrustedHelpers(r, p)
	checkFieldUseDiscipline(r, p, pkg, "mapDB")
	checkFieldUseDiscipline(r, p, pkg, "batchedMutations")
}

// checkOneSectionAndCallbackOutside: in fd (a method whose receiver embeds the RWMutex),
// (a) exactly one acquisition site of the receiver's mutex, not inside a loop, so that all
// guarded reads (already required to be under the lock) lie in ONE critical section;
// (b) calls through function-typed parameters happen with the receiver's mutex not held.
func checkOneSectionAndCallbackOutside(r *Reporter, p *Prog, pkg string, fd *ast.FuncDecl, field string) {
	pk := p.Pkg(pkg)
	info := pk.TypesInfo
	fkey := funcKey(pkg, fd)
	// Judged on the graph of the operation with its helpers and the literals handed to them spliced in:
	// it does not matter whether the locked scan is written inline or as a helper taking a visitor.
	f := newFuncCFG(p, info, fd.Body, fkey)
	isAcquire := func(n ast.Node) bool {
		c, ok := n.(*ast.CallExpr)
		if !ok {
			return false
		}
		op, _ := lockOp(info, c)
		return op == "Lock" || op == "RLock"
	}
	isRelease := func(n ast.Node) bool {
		c, ok := n.(*ast.CallExpr)
		if !ok {
			return false
		}
		op, _ := lockOp(info, c)
		return op == "Unlock" || op == "RUnlock"
	}
	// (a) one acquisition site, outside every loop
	acquires := f.Find(isAcquire)
	inLoop := false
	for _, ap := range acquires {
		for _, l := range f.Loops() {
			if f.InLoopBody(l, ap) {
				inLoop = true
			}
		}
	}
	switch {
	case len(acquires) != 1:
		r.Fail("snapshot/one-section", fkey, p.posStr(fd.Pos()), fmt.Sprintf("%d lock acquisition sites; the snapshot of %s must be taken in exactly one critical section", len(acquires), field))
	case inLoop:
		r.Fail("snapshot/one-section", fkey, f.PosOf(acquires[0]), "lock acquired inside a loop: entries are read in several critical sections")
	default:
		r.Pass("snapshot/one-section", fkey, f.PosOf(acquires[0]), "single acquisition site outside any loop; all reads of "+field+" are lock-checked by lock/guarded-by")
	}
	// (b) the consumer (a function-typed parameter of the operation) is never called between the
	// acquisition and the release. Release points: an explicit Unlock/RUnlock, or - for a release that
	// is deferred inside a spliced helper - the helper's return sites. A deferred release in the
	// operation itself never comes before a call, so every consumer call after the acquisition is bad.
	params := map[types.Object]bool{}
	for _, fl := range fd.Type.Params.List {
		for _, n := range fl.Names {
			if obj := info.Defs[n]; obj != nil {
				if _, ok := obj.Type().Underlying().(*types.Signature); ok {
					params[obj] = true
				}
			}
		}
	}
	consumerCalls := map[ast.Node]bool{}
	for _, b := range f.G.Blocks {
		if !b.Live {
			continue
		}
		for i, nd := range b.Nodes {
			pt := Point{b, i}
			inspectNoLit(nd, func(m ast.Node) bool {
				if c, ok := m.(*ast.CallExpr); ok {
					for po := range params {
						if f.IsVar(c.Fun, pt, po) {
							consumerCalls[c] = true
						}
					}
				}
				return true
			})
		}
	}
	// return sites of helpers that registered a deferred release
	releaseAtRet := map[Point]bool{}
	for _, b := range f.G.Blocks {
		if !b.Live {
			continue
		}
		for _, nd := range b.Nodes {
			if ds, ok := nd.(*ast.DeferStmt); ok && isRelease(ds.Call) {
				if reg := f.regionOf[b]; reg != nil {
					for _, rt := range reg.rets {
						releaseAtRet[rt.pt] = true
					}
				}
			}
		}
	}
	var bad []string
	for _, ap := range acquires {
		if w, found := f.reach(Point{ap.B, ap.I + 1}, &searchOpts{AvoidNode: func(n ast.Node) bool {
			if _, isDefer := n.(*ast.DeferStmt); isDefer {
				return false
			}
			if es, ok := n.(*ast.ExprStmt); ok && isRelease(es.X) {
				return true
			}
			if pt, ok := f.PointOf(n); ok && releaseAtRet[pt] {
				return true
			}
			return false
		}}, func(pt Point, atExit bool) bool {
			return !atExit && containsMatch(f.nodeAt(pt), func(m ast.Node) bool { return consumerCalls[m] })
		}); found {
			bad = append(bad, "the consumer can be invoked while the mutex taken at "+f.PosOf(ap)+" is still held")
			bad = append(bad, w...)
		}
	}
	if len(consumerCalls) == 0 {
		r.Fail("lock/no-callback-under-lock", fkey, p.posStr(fd.Pos()), "no call of the consumer parameter found (row vacuous)")
	} else if len(bad) > 0 {
		r.Fail("lock/no-callback-under-lock", fkey, p.posStr(fd.Pos()), bad[0], bad...)
	} else {
		r.Pass("lock/no-callback-under-lock", fkey, p.posStr(fd.Pos()), fmt.Sprintf("%d consumer call(s), none between the acquisition and the release of the mutex", len(consumerCalls)))
	}
}

// checkConsumerNotUnderReceiverLock: the function-typed parameters of fd are neither called nor
// handed to another function while any mutex is held by fd - whether the lock is taken inline, by
// a deferred unlock, or by a locking wrapper the body runs through (lockwrap.go).
func checkConsumerNotUnderReceiverLock(r *Reporter, p *Prog, pkg string, fd *ast.FuncDecl) {
	info := p.Pkg(pkg).TypesInfo
	fkey := funcKey(pkg, fd)
	params := map[types.Object]bool{}
	for _, po := range paramObjs(info, fd) {
		if po != nil {
			if _, ok := po.Type().Underlying().(*types.Signature); ok {
				params[po] = true
			}
		}
	}
	uses, bad := 0, ""
	seen := map[ast.Node]bool{}
	AnalyzeLocks(fd.Body, LockSet{}, &FlowOpts{Info: info, SyncCallee: syncCalleeDefault(info)}, func(n ast.Node, stack []ast.Node, held LockSet) {
		id, ok := n.(*ast.Ident)
		if !ok || !params[info.Uses[id]] || seen[id] {
			return
		}
		seen[id] = true
		uses++
		if len(held) > 0 && bad == "" {
			bad = fmt.Sprintf("%s: the consumer is used (called or handed on) while %s is held: a consumer that touches the store through this view, or waits for a goroutine that does, dead-locks, and writers are blocked for the whole iteration", p.posStr(id.Pos()), held)
		}
	})
	switch {
	case uses == 0:
		r.Fail("lock/no-callback-under-lock", fkey, p.posStr(fd.Pos()), "the consumer parameter is never used (row vacuous)")
	case bad != "":
		r.Fail("lock/no-callback-under-lock", fkey, p.posStr(fd.Pos()), bad)
	default:
		r.Pass("lock/no-callback-under-lock", fkey, p.posStr(fd.Pos()), fmt.Sprintf("%d use(s) of the consumer, none with a mutex held", uses))
	}
}

// checkFieldUseDiscipline (mapdb): atomic.Bool pointer field `closed` is used only as the
// receiver of Load/Store/Swap/CompareAndSwap or copied into a composite literal; `realm`
// is never assigned (write-once in constructors' composite literals) nor element-written.
func checkFieldUseDiscipline(r *Reporter, p *Prog, pkg, typ string) {
	_, st := p.NamedStruct(pkg, typ)
	if st == nil {
		r.Unresolved("field/discipline", pkg+"."+typ, "type not found")
		return
	}
	pk := p.Pkg(pkg)
	info := pk.TypesInfo
	var closedVar, realmVar *types.Var
	for i := 0; i < st.NumFields(); i++ {
		switch st.Field(i).Name() {
		case "closed":
			closedVar = st.Field(i)
		case "realm":
			realmVar = st.Field(i)
		}
	}
	if closedVar == nil {
		r.Unresolved("field/discipline", pkg+"."+typ+".closed", "field not found")
		return
	}
	if pt, ok := closedVar.Type().(*types.Pointer); !ok || typeName(pt.Elem()) != "atomic.Bool" {
		r.Fail("field/discipline", pkg+"."+typ+".closed type", "-", "closed flag must be a *atomic.Bool shared by all views, found "+closedVar.Type().String())
	}
	nClosed, nRealm := 0, 0
	var bad []string
	for _, fd := range p.AllFuncDecls(pkg) {
		if fd.Body == nil {
			continue
		}
		var stack []ast.Node
		ast.Inspect(fd.Body, func(n ast.Node) bool {
			if n == nil {
				stack = stack[:len(stack)-1]
				return true
			}
			stack = append(stack, n)
			se, ok := n.(*ast.SelectorExpr)
			if !ok {
				return true
			}
			sel := info.Selections[se]
			if sel == nil || sel.Kind() != types.FieldVal {
				return true
			}
			switch sel.Obj() {
			case closedVar:
				nClosed++
				par := stack[len(stack)-2]
				okUse := false
				switch pp := par.(type) {
				case *ast.SelectorExpr: // s.closed.Load()
					if pp.X == se {
						switch pp.Sel.Name {
						case "Load", "Store", "Swap", "CompareAndSwap":
							okUse = true
						}
					}
				case *ast.KeyValueExpr: // closed: s.closed  (shared with a new view)
					okUse = pp.Value == se
				}
				if !okUse {
					bad = append(bad, fmt.Sprintf("%s: closed flag used other than through its atomic methods / sharing with a view (%s)", p.posStr(se.Pos()), funcKey(pkg, fd)))
				}
			case realmVar:
				if realmVar == nil {
					return true
				}
				nRealm++
				if isWriteAccess(se, stack[:len(stack)-1], nil) {
					bad = append(bad, fmt.Sprintf("%s: realm written after construction (%s)", p.posStr(se.Pos()), funcKey(pkg, fd)))
				}
			}
			return true
		})
	}
	r.Count(nClosed + nRealm)
	if nClosed == 0 {
		r.Fail("field/discipline", pkg+"."+typ, "-", "closed flag never used (vacuous)")
		return
	}
	if len(bad) > 0 {
		r.Fail("field/discipline", pkg+"."+typ, "-", bad[0], bad...)
	} else {
		r.Pass("field/discipline", pkg+"."+typ, "-", fmt.Sprintf("%d uses of closed are atomic method calls or view sharing; %d uses of realm, none a write", nClosed, nRealm))
	}
}

// checkAtomicOperations: every method of the given type is ONE atomic step on the state its own
// mutex guards: the number of critical sections it opens on the receiver's own mutex - its own
// acquisition sites plus calls of receiver methods that (transitively) acquire that mutex - is
// at most one, and none of them sits in a loop. A scan under the read lock followed by a write
// section, or a key snapshot followed by per-key locked reads, is not one step any more: writes
// of other goroutines fall between the sections.
// laterCallees: methods that keep their function argument and run it later (schedulers, subscriptions).
var laterCallees = map[string]bool{"ExecuteAt": true, "ExecuteAfter": true, "Submit": true, "AfterFunc": true, "Hook": true, "OnTrigger": true, "OnUpdate": true}

func checkAtomicOperations(r *Reporter, p *Prog, rule, pkg, typ string, mutexField ...string) {
	info := p.Pkg(pkg).TypesInfo
	methods := p.Methods(pkg, typ)
	type site struct {
		pos    string
		what   string
		inLoop bool
	}
	ownAcq := map[string][]site{}   // method -> own acquisition sites
	ownCalls := map[string][]site{} // method -> calls of receiver methods (callee name in what)
	for _, fd := range methods {
		if fd.Body == nil {
			continue
		}
		recv := recvObj(info, fd)
		if recv == nil {
			continue
		}
		recvPath := fmt.Sprintf("%s@%d", recv.Name(), recv.Pos())
		var walk func(n ast.Node, loop bool)
		walk = func(n ast.Node, loop bool) {
			ast.Inspect(n, func(c ast.Node) bool {
				if c == nil || c == n {
					return true
				}
				switch x := c.(type) {
				case *ast.ForStmt:
					// the init statement runs once, before the loop
					if x.Init != nil {
						walk(&ast.BlockStmt{List: []ast.Stmt{x.Init}}, loop)
					}
					rest := &ast.ForStmt{Cond: x.Cond, Post: x.Post, Body: x.Body}
					walk(rest, true)
					return false
				case *ast.RangeStmt:
					// the range operand is evaluated once, before the loop
					if x.X != nil {
						walk(&ast.ExprStmt{X: x.X}, loop)
					}
					if x.Body != nil {
						walk(x.Body, true)
					}
					return false
				case *ast.GoStmt:
					return false // another goroutine: not part of this operation
				case *ast.CallExpr:
					// a function literal handed to a scheduler / subscription runs later, as an operation of its
					// own (the wrapper of TaskExecutor.ExecuteAt): only the other arguments belong to this call
					if se, ok := ast.Unparen(x.Fun).(*ast.SelectorExpr); ok && laterCallees[se.Sel.Name] {
						for _, a := range x.Args {
							if _, isLit := ast.Unparen(a).(*ast.FuncLit); !isLit {
								walk(&ast.ExprStmt{X: a}, loop)
							}
						}
						return false
					}
					if op, path := lockOp(info, x); op == "Lock" || op == "RLock" {
						own := path == recvPath || len(path) > len(recvPath) && path[:len(recvPath)+1] == recvPath+"." && !containsDotAfter(path, len(recvPath)+1, info, x)
						if len(mutexField) > 0 {
							own = path == recvPath+"."+mutexField[0]
						}
						if own {
							ownAcq[fd.Name.Name] = append(ownAcq[fd.Name.Name], site{p.posStr(x.Pos()), op, loop})
						}
						return true
					}
					if se, ok := ast.Unparen(x.Fun).(*ast.SelectorExpr); ok {
						if id, isId := ast.Unparen(se.X).(*ast.Ident); isId && info.Uses[id] == recv {
							if sel := info.Selections[se]; sel != nil && sel.Kind() == types.MethodVal {
								ownCalls[fd.Name.Name] = append(ownCalls[fd.Name.Name], site{p.posStr(x.Pos()), se.Sel.Name, loop})
							}
						}
					}
				}
				return true
			})
		}
		walk(fd.Body, false)
	}
	// methods that open a section on the receiver's mutex, transitively through own calls
	locking := map[string]bool{}
	for m, a := range ownAcq {
		if len(a) > 0 {
			locking[m] = true
		}
	}
	for changed := true; changed; {
		changed = false
		for m, cs := range ownCalls {
			if locking[m] {
				continue
			}
			for _, c := range cs {
				if locking[c.what] {
					locking[m] = true
					changed = true
				}
			}
		}
	}
	n := 0
	for _, fd := range methods {
		if fd.Body == nil {
			continue
		}
		m := fd.Name.Name
		var sections []site
		sections = append(sections, ownAcq[m]...)
		for _, c := range ownCalls[m] {
			if locking[c.what] {
				sections = append(sections, site{c.pos, "call of self-locking " + c.what, c.inLoop})
			}
		}
		if len(sections) == 0 {
			continue
		}
		n++
		key := funcKey(pkg, fd)
		var desc []string
		loop := false
		for _, s := range sections {
			desc = append(desc, s.pos+" "+s.what)
			loop = loop || s.inLoop
		}
		switch {
		case len(sections) > 1:
			r.Fail(rule, key, p.posStr(fd.Pos()), fmt.Sprintf("%d critical sections on the receiver's mutex in one operation (%s): other goroutines' writes fall between them, the operation is not one atomic step", len(sections), joinStrings(desc, "; ")), desc...)
		case loop:
			r.Fail(rule, key, p.posStr(fd.Pos()), "the receiver's mutex is taken inside a loop ("+desc[0]+"): each iteration is its own critical section")
		default:
			r.Pass(rule, key, p.posStr(fd.Pos()), "one critical section: "+desc[0])
		}
	}
	if n == 0 {
		r.Fail(rule, pkg+"."+typ, "-", "no locking method found (row vacuous)")
	}
}

// containsDotAfter reports whether a lock path below the receiver goes through a pointer/field
// to ANOTHER object's mutex (recv.kvStore.RWMutex) rather than an embedded mutex of the receiver.
func containsDotAfter(path string, from int, info *types.Info, call *ast.CallExpr) bool {
	se, ok := call.Fun.(*ast.SelectorExpr)
	if !ok {
		return true
	}
	// recv.Lock() (embedded) or recv.mutex.Lock(): X is the receiver or one field selection deep
	switch x := ast.Unparen(se.X).(type) {
	case *ast.Ident:
		return false
	case *ast.SelectorExpr:
		_, isId := ast.Unparen(x.X).(*ast.Ident)
		if !isId {
			return true
		}
		// a field of mutex type is the receiver's own mutex; a field of another struct type is another object
		if t := info.TypeOf(x); t != nil && isMutexType(t) {
			return false
		}
		return true
	}
	return true
}

func joinStrings(ss []string, sep string) string {
	out := ""
	for i, s := range ss {
		if i > 0 {
			out += sep
		}
		out += s
	}
	return out
}
