package main

// C01, C02, C03: the codec properties. Only the clauses visible in code shape are decided
// (DESIGN §3 C01-C03); value equality after a round trip is not.

import (
	"fmt"
	"go/ast"
	"go/constant"
	"go/token"
	"go/types"
	"os"
	"regexp"
	"sort"
	"strings"

	"golang.org/x/tools/go/cfg"
)

const (
	pkgSer    = "serializer"
	pkgSerix  = "serializer/serix"
	pkgStream = "serializer/stream"
	pkgTypeU  = "serializer/typeutils"
)

func init() {
	register(&property{ID: "C01", Run: runC01, Meta: propMeta{
		Explanation: "Static symmetry clauses of the codecs: (1) the encoder and decoder dispatchers (binary and map form) handle the same set of reflect kinds, and the struct-field loops test the same field predicates and use the matching optional-marker primitive; (2) the length-prefix writer/reader tables of serializer and stream cover every declared prefix constant with the same byte widths (1,2,4,8), numSize/ReadNum agree on widths; (3) array temp copies: the value returned by sliceFromArray is never handed to a decoder that writes into it, and wherever its bytes are filled the array is written back on every success path; arrays of objects are decoded through decodeArrayViaSlice; (4) the stream read helpers never issue a bare Reader.Read (counted reads go through io.ReadFull / io.CopyN / binary.Read), so any chunking reader works; (5) determinism: encodeMap applies ensureOrdering before handing entries to the serializer, ensureOrdering sets both ordering bits, and WriteSliceOfByteSlices sorts before its write loop whenever both bits are set; (6) errors of SerializableOrderedMap and the stream helpers are checked. Also: the decoder never writes into the bytes it decodes (no store through the Deserializer source or a decode function's []byte parameter or an alias of them, and they are not handed to a function that writes its argument); the JSON field key of a byte array behind a pointer is taken from the same settings source by encoder and decoder.",
		NotDecided:  "equality of decoded and original values (numeric conversions, big.Int range, time saturation, reflect semantics), custom Serializable implementations, expressiveness of the JSON form",
		Assumptions: []string{"reflect, encoding/binary, io.ReadFull/CopyN, sort behave as documented"},
	}})
	register(&property{ID: "C02", Run: runC02, Meta: propMeta{
		Explanation: "Static totality/boundedness clauses of the decoders: (1) every slice or index of the Deserializer's source beyond the offset is dominated by the failing-return edge of a remaining-length comparison for the same size; (2) every allocation whose size is not a constant (make) in the Deserializer is dominated by such a guard for that size, and the stream read helpers contain no size-driven make at all and reject sizes that do not fit an int; (3) no unchecked type assertion to a JSON value type and no reflect use of a raw JSON value without a dominating type test in serix map decoding; (4) every loop bounded by a decoded length contains a fallible input-consuming call whose failure leaves the loop; (5) explicit panics in the decode-reachable files are exactly the tabled programmer-error panics; switches over the length-prefix type cover every declared constant. Also: every slice or index expression on an input-derived []byte outside the Deserializer (serix decode functions, element validators) is length-guarded on every path or bounded by the count returned by a decoder that was handed the same slice. (9) reflect copies are bounded by their destination; remaining-length snapshots are valid only while the offset has not moved.",
		NotDecided:  "panics inside reflect for shapes not covered, allocation inside hexutil/encoding/json, zero-size elements in prefix-bounded loops (type dependent)",
		Assumptions: []string{"encoding/json yields only string/float64/bool/nil/map[string]any/[]any"},
	}, Modes: []string{"stacktrace"}})
	register(&property{ID: "C03", Run: runC03, Meta: propMeta{
		Explanation: "Static wire-format clauses: (1) no big-endian or native-endian reference in serializer, serix, stream, typeutils; every binary.Write/Read there passes LittleEndian (the matcher is validated on every run against a package of this repository that does use BigEndian); (2) width tables: length prefixes 1/2/4/8 bytes for the four declared constants on writer and reader, number widths equal the types' sizes and ReadNum uses LittleEndian.UintN of the same width, payload/optional marker is uint32; (3) strict booleans: ReadBool accepts exactly 0 and 1 (error default), WriteBool writes only 0/1; (4) canonical decoding: the reader applies the same validators as the writer (CheckBounds + ElementValidationFunc under the validation bit), decodeMap forces lexical ordering and rejects duplicate keys before inserting, the optional-field length mismatch returns an error; (5) the lexical validators and the sort use bytes.Compare with the tabled relations. Also: a timestamp is saturated only when its seconds exceed MaxNanoTimestampInt64Seconds strictly, on writer and reader; an array is filled only through the edge on which the decoded element count equals the array length. Also: array bounds are checked before every non-failing exit of the sequence reader/writer in validation mode, and every decoding function that creates a Deserializer surfaces its sticky error through Done().",
		NotDecided:  "byte-for-byte equality with an independent reference encoder; Decode∘Encode = id on accepted inputs beyond the listed validators",
		Assumptions: []string{"encoding/binary semantics"},
	}})
}

// ---------------------------------------------------------------------------------------------
// helpers

type switchCase struct {
	Labels []string
	Clause *ast.CaseClause
}

// switchCases returns the cases of the first switch over `tagPred` in fd.
func switchCases(fd *ast.FuncDecl, tagPred func(ast.Expr) bool) []switchCase {
	var out []switchCase
	done := false
	ast.Inspect(fd.Body, func(n ast.Node) bool {
		if done {
			return false
		}
		sw, ok := n.(*ast.SwitchStmt)
		if !ok || sw.Tag == nil || !tagPred(sw.Tag) {
			return true
		}
		done = true
		for _, st := range sw.Body.List {
			cc := st.(*ast.CaseClause)
			sc := switchCase{Clause: cc}
			if cc.List == nil {
				sc.Labels = []string{"default"}
			}
			for _, l := range cc.List {
				sc.Labels = append(sc.Labels, shortTypeName(exprKey(l)))
			}
			out = append(out, sc)
		}
		return false
	})
	return out
}

func kindSet(cases []switchCase) []string {
	var out []string
	for _, c := range cases {
		for _, l := range c.Labels {
			if l != "default" {
				out = append(out, l)
			}
		}
	}
	sort.Strings(out)
	return out
}

func constInt(info *types.Info, e ast.Expr) (int64, bool) {
	tv, ok := info.Types[e]
	if !ok || tv.Value == nil {
		return 0, false
	}
	v, exact := constant.Int64Val(constant.ToInt(tv.Value))
	return v, exact
}

// widthOfConv: uint8(l) -> 1, uint16(l) -> 2, ... ; Read[uint16] -> 2
func widthOfTypeName(n string) int {
	switch n {
	case "uint8", "byte", "int8", "bool":
		return 1
	case "uint16", "int16":
		return 2
	case "uint32", "int32", "float32":
		return 4
	case "uint64", "int64", "float64":
		return 8
	}
	return 0
}

// prefixWidths extracts, for a switch over the length prefix type, constant label -> byte width
// using the given per-clause extractor.
func prefixWidths(cases []switchCase, width func(cc *ast.CaseClause) int) (map[string]int, bool) {
	out := map[string]int{}
	hasDefault := false
	for _, c := range cases {
		for _, l := range c.Labels {
			if l == "default" {
				hasDefault = true
				continue
			}
			out[l] = width(c.Clause)
		}
	}
	return out, hasDefault
}

var prefixConsts = map[string]int{"SeriLengthPrefixTypeAsByte": 1, "SeriLengthPrefixTypeAsUint16": 2, "SeriLengthPrefixTypeAsUint32": 4, "SeriLengthPrefixTypeAsUint64": 8}

func comparePrefixTable(r *Reporter, rule, key, pos string, got map[string]int) {
	var bad []string
	for c, w := range prefixConsts {
		if got[c] != w {
			bad = append(bad, fmt.Sprintf("%s: width %d, want %d", c, got[c], w))
		}
	}
	sort.Strings(bad)
	if len(bad) > 0 {
		r.Fail(rule, key, pos, "length-prefix table disagrees with the declared constants (a missing case panics or is rejected, a wrong width breaks the wire format): "+strings.Join(bad, "; "))
	} else {
		r.Pass(rule, key, pos, "Byte->1, Uint16->2, Uint32->4, Uint64->8")
	}
}

func checkPrefixTables(r *Reporter, p *Prog, rule string) {
	// declared constants
	declared := 0
	for name := range prefixConsts {
		if p.Pkg(pkgSer).Types.Scope().Lookup(name) != nil {
			declared++
		}
	}
	if declared != 4 || p.Pkg(pkgSer).Types.Scope().Lookup("SeriLengthPrefixTypeAsUint128") != nil {
		r.Fail(rule, "declared SeriLengthPrefixType constants", "-", fmt.Sprintf("expected exactly the four tabled constants, found %d of them", declared))
	}
	// For each of the four functions: every node that fixes a byte width (a one-byte write, a
	// binary.Write / generic Write / Read[T] of a sized unsigned integer, a little-endian UintN
	// read, a fixed slice of the source) must lie under the edge `lenType == C` of exactly the
	// constant C with that width, and every constant must have such a node - whatever form the
	// dispatch takes (switch, if chain, helper).
	type fn struct{ pkg, recv, name string }
	for _, w := range []fn{{pkgSer, "Serializer", "writeSliceLength"}, {pkgSer, "Deserializer", "readSliceLength"}, {pkgStream, "", "writeFixedSize"}, {pkgStream, "", "readFixedSize"}} {
		key := w.pkg + "." + joinNonEmpty(".", w.recv, w.name)
		f := p.CFGOf(w.pkg, w.recv, w.name)
		if f == nil {
			r.Unresolved(rule, key, "function not found")
			continue
		}
		info := f.Info
		caseEdges := map[string][]Edge{}
		f.forEachEdgeFact(func(e Edge, _ *cfg.Block, ft fact) {
			rel, ok := relOf(ft.Atom)
			if !ok {
				return
			}
			if !ft.Pol {
				rel = negRel(rel)
			}
			if rel.Op != "==" {
				return
			}
			for c := range prefixConsts {
				if strings.HasSuffix(rel.L, c) || strings.HasSuffix(rel.R, c) {
					caseEdges[c] = append(caseEdges[c], e)
				}
			}
		})
		widthOf := func(n ast.Node) int {
			switch x := n.(type) {
			case *ast.CallExpr:
				k := exprKey(x.Fun)
				switch {
				case strings.HasSuffix(k, ".WriteByte"):
					return 1
				case (k == "binary.Write" && len(x.Args) == 3) || (k == "Write" && len(x.Args) == 2):
					if conv, ok := ast.Unparen(x.Args[len(x.Args)-1]).(*ast.CallExpr); ok {
						return widthOfTypeName(exprKey(conv.Fun))
					}
				case strings.HasPrefix(k, "binary.LittleEndian.Uint"):
					var bits int
					fmt.Sscanf(strings.TrimPrefix(k, "binary.LittleEndian.Uint"), "%d", &bits)
					return bits / 8
				case strings.HasPrefix(k, "binary.LittleEndian.AppendUint"), strings.HasPrefix(k, "binary.LittleEndian.PutUint"):
					var bits int
					fmt.Sscanf(strings.TrimPrefix(strings.TrimPrefix(k, "binary.LittleEndian.AppendUint"), "binary.LittleEndian.PutUint"), "%d", &bits)
					return bits / 8
				}
			case *ast.CompositeLit:
				// []byte{byte(l)}: a one-byte prefix
				if at, ok := x.Type.(*ast.ArrayType); ok && at.Len == nil && exprKey(at.Elt) == "byte" && len(x.Elts) == 1 {
					return 1
				}
			case *ast.IndexExpr:
				// an instantiation of a generic read/write helper with a sized unsigned integer type:
				// Read[uint16], readPrefix[uint32], ...
				if fn, _ := info.Uses[selIdent(x.X)].(*types.Func); fn != nil || exprKey(x.X) == "Read" {
					if wdt := widthOfTypeName(exprKey(x.Index)); wdt > 0 {
						return wdt
					}
				}
				if strings.HasSuffix(exprKey(x.X), ".src") && strings.HasSuffix(exprKey(x.Index), ".offset") {
					return 1
				}
			case *ast.SliceExpr:
				if strings.HasSuffix(exprKey(x.X), ".src") && x.High != nil {
					if hb, ok := ast.Unparen(x.High).(*ast.BinaryExpr); ok && hb.Op == token.ADD {
						if v, isConst := constInt(info, hb.Y); isConst {
							return int(v)
						}
					}
				}
			}
			return 0
		}
		got := map[string]map[int]bool{}
		var stray []string
		// The dispatch may live in a size table: a helper of the package that maps the prefix type to
		// its byte width (`return serializer.UInt16ByteSize` under `lenType == ...AsUint16`), whose
		// result bounds the bytes that are read or written (`buf[:size(lenType)]` handed to a call).
		// The widths are then the constants the helper returns under each case.
		sizeTable := false
		if len(caseEdges) == 0 {
			inspectNoLit(f.Body, func(n ast.Node) bool {
				sl, ok := n.(*ast.SliceExpr)
				if !ok || sl.High == nil || sl.Low != nil {
					return true
				}
				hc, ok := ast.Unparen(sl.High).(*ast.CallExpr)
				if !ok || len(hc.Args) != 1 || !strings.HasSuffix(typeName(info.TypeOf(hc.Args[0])), "SeriLengthPrefixType") {
					return true
				}
				fn := staticCallee(info, hc)
				if fn == nil {
					return true
				}
				hd := p.decls().byFunc[fn.Origin()]
				if hd == nil || hd.Body == nil || hd.Name.IsExported() || p.decls().infoOf[hd] != info {
					return true
				}
				hf := newFuncCFG(p, info, hd.Body, key+"$sizes")
				hcase := map[string][]Edge{}
				hf.forEachEdgeFact(func(e Edge, _ *cfg.Block, ft fact) {
					rel, ok := relOf(ft.Atom)
					if !ok {
						return
					}
					if !ft.Pol {
						rel = negRel(rel)
					}
					if rel.Op != "==" {
						return
					}
					for c := range prefixConsts {
						if strings.HasSuffix(rel.L, c) || strings.HasSuffix(rel.R, c) {
							hcase[c] = append(hcase[c], e)
						}
					}
				})
				for _, rpt := range hf.FindOwn(func(m ast.Node) bool { _, isRet := m.(*ast.ReturnStmt); return isRet }) {
					rs := hf.nodeAt(rpt).(*ast.ReturnStmt)
					if len(rs.Results) != 1 {
						continue
					}
					v, isConst := constInt(info, rs.Results[0])
					if !isConst {
						stray = append(stray, fmt.Sprintf("%s: the size table returns a non-constant width", hf.PosOf(rpt)))
						continue
					}
					owner := ""
					for c, edges := range hcase {
						if _, only := hf.OnlyThroughEdges(rpt, edges); only {
							owner = c
						}
					}
					if owner == "" {
						stray = append(stray, fmt.Sprintf("%s: the size table returns %d outside any `lenType == constant` case", hf.PosOf(rpt), v))
						continue
					}
					if got[owner] == nil {
						got[owner] = map[int]bool{}
					}
					got[owner][int(v)] = true
				}
				sizeTable = true
				return true
			})
		}
		isLocalArray := func(e ast.Expr) bool {
			// a fixed-size scratch buffer of the function itself (not the input)
			if sl, ok := ast.Unparen(e).(*ast.SliceExpr); ok {
				e = sl.X
			}
			o, _ := objOfIdent(info, e).(*types.Var)
			if o == nil || o.IsField() {
				return false
			}
			_, isArr := o.Type().Underlying().(*types.Array)
			return isArr
		}
		for _, b := range f.G.Blocks {
			if !b.Live {
				continue
			}
			for i, nd := range b.Nodes {
				pt := Point{b, i}
				inspectNoLit(nd, func(n ast.Node) bool {
					wd := widthOf(n)
					if wd == 0 {
						return true
					}
					if cl, isCall := n.(*ast.CallExpr); isCall && sizeTable && len(cl.Args) == 1 && isLocalArray(cl.Args[0]) {
						return true // decoding the zero-padded scratch buffer: the width read from the input is the table's
					}
					owner := ""
					for c, edges := range caseEdges {
						if _, only := f.OnlyThroughEdges(pt, edges); only {
							owner = c
						}
					}
					if owner == "" {
						stray = append(stray, fmt.Sprintf("%s: a %d-byte prefix access outside any `lenType == constant` case", f.PosOf(pt), wd))
						return true
					}
					if got[owner] == nil {
						got[owner] = map[int]bool{}
					}
					got[owner][wd] = true
					return true
				})
			}
		}
		var bad []string
		for c, want := range prefixConsts {
			ws := got[c]
			if len(ws) != 1 || !ws[want] {
				var have []int
				for x := range ws {
					have = append(have, x)
				}
				sort.Ints(have)
				bad = append(bad, fmt.Sprintf("%s: widths %v, want [%d]", c, have, want))
			}
		}
		bad = append(bad, stray...)
		sort.Strings(bad)
		if len(bad) > 0 {
			r.Fail(rule, key, f.P.posStr(f.Body.Pos()), "length-prefix table disagrees with the declared constants (a missing case panics or is rejected, a wrong width breaks the wire format): "+strings.Join(bad, "; "))
		} else {
			r.Pass(rule, key, f.P.posStr(f.Body.Pos()), "Byte->1, Uint16->2, Uint32->4, Uint64->8")
		}
		// range check on write: a length that does not fit the prefix must be rejected, not truncated
		if w.name != "writeSliceLength" && w.name != "writeFixedSize" {
			continue
		}
		var rbad []string
		for c, maxName := range map[string]string{"SeriLengthPrefixTypeAsByte": "math.MaxUint8", "SeriLengthPrefixTypeAsUint16": "math.MaxUint16", "SeriLengthPrefixTypeAsUint32": "math.MaxUint32"} {
			fits := f.RelEdges(func(rel Rel) bool { return rel.Op == "<=" && rel.R == maxName && rel.L != "" })
			for _, b := range f.G.Blocks {
				if !b.Live {
					continue
				}
				for i, nd := range b.Nodes {
					pt := Point{b, i}
					isWrite := false
					inspectNoLit(nd, func(n ast.Node) bool {
						if cl, ok := n.(*ast.CallExpr); ok && widthOf(cl) > 0 {
							isWrite = true
						}
						return true
					})
					if !isWrite {
						continue
					}
					if _, only := f.OnlyThroughEdges(pt, caseEdges[c]); !only {
						continue
					}
					if _, only := f.OnlyThroughEdges(pt, fits); !only {
						rbad = append(rbad, fmt.Sprintf("%s: the %s prefix is written without having established length <= %s", f.PosOf(pt), c, maxName))
					}
				}
			}
		}
		sort.Strings(rbad)
		if len(rbad) > 0 {
			r.Fail(rule, key+" range check", f.P.posStr(f.Body.Pos()), "a collection length that does not fit the prefix width would be silently truncated on the wire: "+strings.Join(rbad, "; "))
		} else {
			r.Pass(rule, key+" range check", f.P.posStr(f.Body.Pos()), "lengths above the prefix range are rejected before writing")
		}
	}
}

// checkNumWidths: numSize and ReadNum agree with the types' sizes.
func checkNumWidths(r *Reporter, p *Prog, rule string) {
	info := p.Pkg(pkgSer).TypesInfo
	fd := p.FuncDecl(pkgSer, "", "numSize")
	if fd == nil {
		r.Unresolved(rule, pkgSer+".numSize", "function not found")
		return
	}
	var bad []string
	n := 0
	ast.Inspect(fd.Body, func(nd ast.Node) bool {
		cc, ok := nd.(*ast.CaseClause)
		if !ok || cc.List == nil || len(cc.Body) != 1 {
			return true
		}
		rs, ok := cc.Body[0].(*ast.ReturnStmt)
		if !ok {
			return true
		}
		w, okW := constInt(info, rs.Results[0])
		for _, l := range cc.List {
			tn := strings.TrimPrefix(exprKey(l), "*")
			n++
			if !okW || int(w) != widthOfTypeName(tn) {
				bad = append(bad, fmt.Sprintf("%s -> %d bytes", exprKey(l), w))
			}
		}
		return true
	})
	if n < 18 {
		bad = append(bad, fmt.Sprintf("only %d type labels", n))
	}
	if len(bad) > 0 {
		r.Fail(rule, pkgSer+".numSize", p.posStr(fd.Pos()), "number width table disagrees with the types' sizes: "+strings.Join(bad, "; "))
	} else {
		r.Pass(rule, pkgSer+".numSize", p.posStr(fd.Pos()), fmt.Sprintf("%d type labels, each mapped to its size", n))
	}
	fr := p.FuncDecl(pkgSer, "Deserializer", "ReadNum")
	if fr == nil {
		r.Unresolved(rule, pkgSer+".Deserializer.ReadNum", "function not found")
		return
	}
	bad = nil
	n = 0
	ast.Inspect(fr.Body, func(nd ast.Node) bool {
		cc, ok := nd.(*ast.CaseClause)
		if !ok || cc.List == nil || len(cc.List) != 1 {
			return true
		}
		tn := strings.TrimPrefix(exprKey(cc.List[0]), "*")
		w := widthOfTypeName(tn)
		if w == 0 {
			return true
		}
		n++
		src := ""
		for _, st := range cc.Body {
			ast.Inspect(st, func(m ast.Node) bool {
				if cl, ok := m.(*ast.CallExpr); ok && strings.HasPrefix(exprKey(cl.Fun), "binary.") {
					src = exprKey(cl.Fun)
				}
				return true
			})
		}
		want := fmt.Sprintf("binary.LittleEndian.Uint%d", 8*w)
		if w == 1 {
			want = ""
		}
		if src != want {
			bad = append(bad, fmt.Sprintf("*%s read with %q, want %q", tn, src, want))
		}
		return true
	})
	if n < 10 {
		bad = append(bad, fmt.Sprintf("only %d cases", n))
	}
	if len(bad) > 0 {
		r.Fail(rule, pkgSer+".Deserializer.ReadNum", p.posStr(fr.Pos()), strings.Join(bad, "; "))
	} else {
		r.Pass(rule, pkgSer+".Deserializer.ReadNum", p.posStr(fr.Pos()), fmt.Sprintf("%d number cases, little-endian read of the type's width", n))
	}
}

// ---------------------------------------------------------------------------------------------
// C01

func loadSerializer(c *Ctx) *Prog {
	p := c.Load("serializer")
	if p == nil {
		return nil
	}
	for _, pk := range []string{pkgSer, pkgSerix, pkgStream, pkgTypeU} {
		if p.Pkg(pk) == nil {
			c.R.Unresolved("load", pk, "package not loaded")
			return nil
		}
	}
	return p
}

func runC01(c *Ctx) {
	p := loadSerializer(c)
	if p == nil {
		return
	}
	r := c.R
	isKindSwitch := func(e ast.Expr) bool { return strings.HasSuffix(exprKey(e), ".Kind()") }
	checkSourceReadOnly(r, p)
	checkByteArrayKeySource(r, p)
	checkElementsThroughCodec(r, p)
	checkCountNotComparedWithBytes(r, p)
	checkByteArrayPredicateMirror(r, p)
	checkSettingsMergeMirror(r, p, pkgSerix)
	checkTrustedHelpers(r, p, []trustedHelper{{Pkg: "serializer/byteutils", Name: "ConcatBytes"}})
	// SerializableOrderedMap (and ds.Set on top of it) encodes what OrderedMap.ForEach visits and
	// prefixes it with Size(): chain, dictionary and size of the OrderedMap stay coupled
	if pds := c.Load("ds"); pds != nil {
		checkOrderedMapCoupling(r, pds)
	}
	// (1) dispatch mirror
	for _, pair := range [][2]string{{"encodeBasedOnType", "decodeBasedOnType"}, {"mapEncodeBasedOnType", "mapDecodeBasedOnType"}} {
		enc, dec := p.FuncDecl(pkgSerix, "API", pair[0]), p.FuncDecl(pkgSerix, "API", pair[1])
		key := pkgSerix + "." + pair[0] + " <-> " + pair[1]
		if enc == nil || dec == nil {
			r.Unresolved("mirror/kind-dispatch", key, "dispatcher not found")
			continue
		}
		ek, dk := kindSet(switchCases(enc, isKindSwitch)), kindSet(switchCases(dec, isKindSwitch))
		if strings.Join(ek, ",") == strings.Join(dk, ",") && len(ek) >= 16 {
			r.Pass("mirror/kind-dispatch", key, p.posStr(enc.Pos()), fmt.Sprintf("both dispatch %d kinds: %s", len(ek), strings.Join(ek, " ")))
		} else {
			r.Fail("mirror/kind-dispatch", key, p.posStr(enc.Pos()), fmt.Sprintf("the encoder and the decoder dispatch different kind sets (a kind written by one side is rejected by the other): encoder [%s] decoder [%s]", strings.Join(ek, " "), strings.Join(dk, " ")))
		}
	}
	// struct field predicates
	encF, decF := p.FuncDecl(pkgSerix, "API", "encodeStructFields"), p.FuncDecl(pkgSerix, "API", "decodeStructFields")
	if encF == nil || decF == nil {
		r.Unresolved("mirror/struct-fields", pkgSerix+".encodeStructFields <-> decodeStructFields", "function not found")
	} else {
		// On both sides: the optional-length marker primitive is used exactly on the edges where
		// the field is known to be optional, the recursion into an embedded struct exactly where
		// the field is known to be embedded and not inlined, and both walk api.getStructFields.
		info := p.Pkg(pkgSerix).TypesInfo
		side := func(fd *ast.FuncDecl, marker, recurse string) (problems []string) {
			f := newFuncCFG(p, info, fd.Body, funcKey(pkgSerix, fd))
			atomEdges := func(suffix string, pol bool) []Edge {
				var out []Edge
				f.forEachEdgeFact(func(e Edge, b *cfg.Block, ft fact) {
					if ft.Pol == pol && strings.HasSuffix(exprKey(ft.Atom), suffix) {
						out = append(out, e)
					}
				})
				return out
			}
			optional := atomEdges(".settings.isOptional", true)
			notOptional := atomEdges(".settings.isOptional", false)
			embedded := atomEdges(".isEmbedded", true)
			notInlined := atomEdges(".settings.inlined", false)
			markers := f.Find(func(n ast.Node) bool {
				cl, ok := n.(*ast.CallExpr)
				return ok && strings.HasSuffix(exprKey(cl.Fun), "."+marker)
			})
			recs := f.Find(func(n ast.Node) bool {
				cl, ok := n.(*ast.CallExpr)
				return ok && strings.HasSuffix(exprKey(cl.Fun), "."+recurse)
			})
			if len(markers) == 0 || len(optional) == 0 {
				problems = append(problems, fmt.Sprintf("%s: no %s under an isOptional test", fd.Name.Name, marker))
			}
			for _, m := range markers {
				if _, only := f.OnlyThroughEdges(m, optional); !only {
					problems = append(problems, fmt.Sprintf("%s: %s at %s is reachable for a field that is not optional", fd.Name.Name, marker, f.PosOf(m)))
				}
			}
			// an optional field never reaches the payload bytes without the marker
			payload := f.Find(func(n ast.Node) bool {
				cl, ok := n.(*ast.CallExpr)
				if !ok {
					return false
				}
				k := exprKey(cl.Fun)
				return strings.HasSuffix(k, ".WriteBytes") || strings.HasSuffix(k, ".Skip")
			})
			isMarker := func(n ast.Node) bool {
				cl, ok := n.(*ast.CallExpr)
				return ok && strings.HasSuffix(exprKey(cl.Fun), "."+marker)
			}
			for _, e := range optional {
				for _, pl := range payload {
					if w, found := f.reach(Point{e.From.Succs[e.Succ], 0}, &searchOpts{AvoidNode: isMarker, AvoidEdge: func(x Edge) bool {
						for _, ne := range notOptional {
							if ne == x {
								return true
							}
						}
						return false
					}}, func(pt Point, atExit bool) bool { return !atExit && f.At(pt, pl) }); found {
						problems = append(problems, fmt.Sprintf("%s: the bytes of an optional field are handled without %s: %s", fd.Name.Name, marker, strings.Join(w, " -> ")))
					}
				}
			}
			if len(recs) == 0 {
				problems = append(problems, fd.Name.Name+": no recursion into embedded structs")
			}
			for _, rc := range recs {
				if _, only := f.OnlyThroughEdges(rc, embedded); !only {
					problems = append(problems, fmt.Sprintf("%s: recursion at %s is not limited to embedded fields", fd.Name.Name, f.PosOf(rc)))
				}
				if _, only := f.OnlyThroughEdges(rc, notInlined); !only {
					problems = append(problems, fmt.Sprintf("%s: recursion at %s is not limited to embedded fields that are not inlined", fd.Name.Name, f.PosOf(rc)))
				}
			}
			src, _ := srcOf(p, pkgSerix, "API", fd.Name.Name)
			if !strings.Contains(src, "api.getStructFields(valueType)") {
				problems = append(problems, fd.Name.Name+": does not walk api.getStructFields(valueType)")
			}
			return
		}
		problems := append(side(encF, "WritePayloadLength", "encodeStructFields"), side(decF, "ReadPayloadLength", "decodeStructFields")...)
		if len(problems) == 0 {
			r.Pass("mirror/struct-fields", pkgSerix+".encodeStructFields <-> decodeStructFields", p.posStr(encF.Pos()), "both sides: optional marker exactly on isOptional edges and before the payload, recursion exactly on embedded-and-not-inlined edges, shared field list")
		} else {
			r.Fail("mirror/struct-fields", pkgSerix+".encodeStructFields <-> decodeStructFields", p.posStr(encF.Pos()), "struct field loops disagree: "+problems[0], problems...)
		}
	}
	// (2) tables
	checkPrefixTables(r, p, "table/length-prefix")
	checkNumWidths(r, p, "table/number-width")
	// (3) temp copies, fresh decode targets
	checkArrayTempCopies(r, p)
	checkFreshTargetPerItem(r, p)
	// (4) stream reads
	checkNoBareRead(r, p)
	// (5) determinism
	checkMapDeterminism(r, p)
	// (6) errors
	checkErrChecked(r, p, "err/checked", errScope{Pkg: pkgStream, Funcs: p.AllFuncDecls(pkgStream)})
	if pd := c.Load("ds"); pd != nil {
		const so = "ds/serializableorderedmap"
		checkErrChecked(r, pd, "err/checked", errScope{Pkg: so, Funcs: p2funcs(pd, so)})
	}
}

func p2funcs(p *Prog, pkg string) []*ast.FuncDecl { return p.AllFuncDecls(pkg) }

func checkArrayTempCopies(r *Reporter, p *Prog) {
	info := p.Pkg(pkgSerix).TypesInfo
	n := 0
	for _, fd := range p.AllFuncDecls(pkgSerix) {
		if fd.Body == nil {
			continue
		}
		fname := p.Fset.Position(fd.Pos()).Filename
		decoding := strings.HasSuffix(fname, "decode.go") && !strings.HasSuffix(fname, "encode.go") || strings.Contains(fd.Name.Name, "ecode") && strings.Contains(strings.ToLower(fd.Name.Name), "decode")
		if !strings.Contains(strings.ToLower(fd.Name.Name), "decode") {
			decoding = false
		}
		f := newFuncCFG(p, info, fd.Body, funcKey(pkgSerix, fd))
		ast.Inspect(fd.Body, func(nd ast.Node) bool {
			as, ok := nd.(*ast.AssignStmt)
			if !ok || len(as.Rhs) != 1 || len(as.Lhs) != 1 {
				return true
			}
			cl, ok := ast.Unparen(as.Rhs[0]).(*ast.CallExpr)
			if !ok || exprKey(cl.Fun) != "sliceFromArray" {
				return true
			}
			n++
			tmp := objOfIdent(info, as.Lhs[0])
			arr := exprKey(cl.Args[0])
			key := fmt.Sprintf("sliceFromArray(%s) in %s", arr, funcKey(pkgSerix, fd))
			if !decoding {
				r.Pass("tempcopy/written-back", key, p.posStr(cl.Pos()), "encoder side: the copy is only read")
				return true
			}
			var bad []string
			// uses of tmp
			ast.Inspect(fd.Body, func(m ast.Node) bool {
				c2, ok := m.(*ast.CallExpr)
				if !ok {
					return true
				}
				k := exprKey(c2.Fun)
				for i, a := range c2.Args {
					if objOfIdent(info, a) != tmp {
						continue
					}
					switch {
					case k == "fillArrayFromSlice" && i == 1:
					case strings.HasSuffix(k, "ecodeSlice") || strings.HasSuffix(k, ".decode") || strings.HasSuffix(k, ".mapDecode"):
						bad = append(bad, fmt.Sprintf("%s: the unaddressable copy is handed to %s, which appends to / sets its target (panic) and whose result is never written back into the array", p.posStr(c2.Pos()), k))
					}
				}
				return true
			})
			// fills of tmp.Bytes() must be followed by fillArrayFromSlice(arr, tmp)
			fills := f.Find(func(m ast.Node) bool {
				c2, ok := m.(*ast.CallExpr)
				if !ok {
					return false
				}
				k := exprKey(c2.Fun)
				if !(k == "copy" || strings.HasSuffix(k, ".ReadBytesInPlace")) || len(c2.Args) == 0 {
					return false
				}
				return strings.HasPrefix(exprKey(c2.Args[0]), tmp.Name()+".Bytes()") && firstIdentObj(info, c2.Args[0]) == tmp
			})
			isWriteBack := func(m ast.Node) bool {
				c2, ok := m.(*ast.CallExpr)
				return ok && exprKey(c2.Fun) == "fillArrayFromSlice" && len(c2.Args) == 2 && exprKey(c2.Args[0]) == arr && objOfIdent(info, c2.Args[1]) == tmp
			}
			for _, fl := range fills {
				if w, found := f.reach(Point{fl.B, fl.I + 1}, &searchOpts{AvoidNode: isWriteBack}, func(pt Point, atExit bool) bool {
					if atExit {
						return false
					}
					rs, ok := f.nodeAt(pt).(*ast.ReturnStmt)
					if !ok || len(rs.Results) == 0 {
						return false
					}
					last := rs.Results[len(rs.Results)-1]
					// a success return: nil error or deseri.Done()
					return isNil(info, last) || strings.HasSuffix(exprKey(last), ".Done()") || len(rs.Results) == 1 && strings.HasSuffix(exprKey(last), ".Done()")
				}); found {
					bad = append(bad, fmt.Sprintf("%s: the bytes are decoded into the temporary copy but a success return is reachable without fillArrayFromSlice: the array stays zero", f.PosOf(fl)))
					_ = w
				}
			}
			if len(bad) > 0 {
				r.Fail("tempcopy/written-back", key, p.posStr(cl.Pos()), bad[0], bad...)
			} else {
				r.Pass("tempcopy/written-back", key, p.posStr(cl.Pos()), fmt.Sprintf("%d fill(s), each followed by a write-back; never passed to a decoder", len(fills)))
			}
			return true
		})
	}
	if n < 4 {
		r.Fail("tempcopy/written-back", pkgSerix, "-", fmt.Sprintf("expected at least 4 uses of sliceFromArray, found %d", n))
	}
	// arrays of objects go through decodeArrayViaSlice
	nVia := 0
	for _, fd := range p.AllFuncDecls(pkgSerix) {
		if fd.Body == nil {
			continue
		}
		ast.Inspect(fd.Body, func(nd ast.Node) bool {
			if cl, ok := nd.(*ast.CallExpr); ok && exprKey(cl.Fun) == "decodeArrayViaSlice" {
				nVia++
			}
			return true
		})
	}
	if fd := p.FuncDecl(pkgSerix, "", "decodeArrayViaSlice"); fd == nil || nVia < 3 {
		r.Fail("tempcopy/array-of-objects", pkgSerix+".decodeArrayViaSlice", "-", fmt.Sprintf("arrays of non-byte elements must be decoded through an addressable slice that is copied back (helper present: %v, call sites: %d, want 3)", fd != nil, nVia))
	} else {
		s, _ := srcOf(p, pkgSerix, "", "decodeArrayViaSlice")
		_ = s
		if decodesViaFreshSlice(p, p.Pkg(pkgSerix).TypesInfo, fd) {
			r.Pass("tempcopy/array-of-objects", pkgSerix+".decodeArrayViaSlice", p.posStr(fd.Pos()), fmt.Sprintf("%d call sites; decodes into a fresh addressable slice, checks the length, copies back", nVia))
		} else {
			r.Fail("tempcopy/array-of-objects", pkgSerix+".decodeArrayViaSlice", p.posStr(fd.Pos()), "the helper must decode into reflect.New(sliceType).Elem(), reject a length mismatch and copy back: "+s)
		}
	}
}

func exprKeyOfFirstIf(fd *ast.FuncDecl, skip int) string {
	out := ""
	i := 0
	ast.Inspect(fd.Body, func(n ast.Node) bool {
		if is, ok := n.(*ast.IfStmt); ok {
			if i == skip && out == "" {
				out = exprKey(is.Cond)
			}
			i++
		}
		return true
	})
	return out
}

func checkNoBareRead(r *Reporter, p *Prog) {
	info := p.Pkg(pkgStream).TypesInfo
	var bad []string
	nFull := 0
	for _, fd := range p.AllFuncDecls(pkgStream) {
		if fd.Body == nil || strings.HasSuffix(p.Fset.Position(fd.Pos()).Filename, "_test.go") {
			continue
		}
		// byte_buffer.go implements a reader itself; its own Read method is exempt
		if recvTypeName(fd) != "" && fd.Name.Name == "Read" {
			continue
		}
		ast.Inspect(fd.Body, func(n ast.Node) bool {
			cl, ok := n.(*ast.CallExpr)
			if !ok {
				return true
			}
			se, ok := ast.Unparen(cl.Fun).(*ast.SelectorExpr)
			if !ok {
				return true
			}
			k := exprKey(cl.Fun)
			if k == "io.ReadFull" || k == "io.CopyN" || k == "binary.Read" || k == "io.ReadAll" {
				nFull++
				return true
			}
			if se.Sel.Name != "Read" {
				return true
			}
			t := info.TypeOf(se.X)
			if t == nil {
				return true
			}
			tn := typeName(t)
			if tn == "io.Reader" || tn == "io.ReadSeeker" || tn == "io.ReadCloser" {
				bad = append(bad, fmt.Sprintf("%s: bare %s in %s: a reader may return fewer bytes than requested, so the count check fails for every chunking reader", p.posStr(cl.Pos()), k, funcKey(pkgStream, fd)))
			}
			return true
		})
	}
	if len(bad) > 0 {
		r.Fail("stream/no-bare-read", pkgStream, "-", bad[0], bad...)
	} else if nFull == 0 {
		r.Fail("stream/no-bare-read", pkgStream, "-", "no io.ReadFull/io.CopyN/binary.Read found (vacuous)")
	} else {
		r.Pass("stream/no-bare-read", pkgStream, "-", fmt.Sprintf("no bare Reader.Read; %d full-read primitives", nFull))
	}
}

// Lexical ordering of map entries. A function *forces ordering* if, on every path to an exit that
// is not a failure return of its own, it (a) sets serializer.ArrayValidationModeLexicalOrdering on a
// PRIVATE copy of the array rules (a struct-valued local, or a local pointer obtained from new/&T{}
// - never through the pointer the type settings hold, which every other user of those rules shares)
// and (b) turns the lexical-ordering mode on (WithLexicalOrdering(true) or
// DeSeriModePerformLexicalOrdering or-ed into the mode), or (c) calls a function of the package that
// forces ordering - unconditionally, or under a boolean parameter for which it passes `true` (or
// its own such parameter). encodeMap and decodeMap must force ordering; how many helpers the
// settings travel through on the way does not matter.
type lexSetter struct {
	uncond  bool
	byParam int // index of the boolean parameter that switches it on, -1 if none
	why     string
}

var lexSetterMemo = map[*ast.FuncDecl]*lexSetter{}

func lexSetterOf(p *Prog, fd *ast.FuncDecl, depth int) *lexSetter {
	if ls, ok := lexSetterMemo[fd]; ok {
		return ls
	}
	res := &lexSetter{byParam: -1, why: "no statement forces the ordering bits"}
	lexSetterMemo[fd] = res // recursion guard
	if depth <= 0 || fd.Body == nil {
		return res
	}
	info := p.Pkg(pkgSerix).TypesInfo
	f := newFuncCFGPlain(p, info, fd.Body, funcKey(pkgSerix, fd))
	params := paramObjs(info, fd)
	freshTarget := func(e ast.Expr) bool {
		// X.ValidationMode with X a private copy
		se, ok := ast.Unparen(e).(*ast.SelectorExpr)
		if !ok {
			return false
		}
		o, _ := objOfIdent(info, se.X).(*types.Var)
		if o == nil || o.IsField() {
			return false
		}
		for _, po := range params {
			if po == o {
				if _, isPtr := o.Type().Underlying().(*types.Pointer); isPtr {
					return false // the caller's object
				}
			}
		}
		if _, isPtr := o.Type().Underlying().(*types.Pointer); !isPtr {
			return true // a struct value: a copy by construction
		}
		fresh := true
		n := 0
		ast.Inspect(fd.Body, func(m ast.Node) bool {
			as, ok := m.(*ast.AssignStmt)
			if !ok || len(as.Lhs) != len(as.Rhs) {
				return true
			}
			for i, l := range as.Lhs {
				if objOfIdent(info, l) != o {
					continue
				}
				n++
				switch r := ast.Unparen(as.Rhs[i]).(type) {
				case *ast.CallExpr:
					if rawKey(r.Fun) != "new" {
						fresh = false
					}
				case *ast.UnaryExpr:
					if _, isLit := ast.Unparen(r.X).(*ast.CompositeLit); !(r.Op == token.AND && isLit) {
						if lo, _ := objOfIdent(info, r.X).(*types.Var); !(r.Op == token.AND && lo != nil && !lo.IsField()) {
							fresh = false
						}
					}
				default:
					fresh = false
				}
			}
			return true
		})
		return fresh && n > 0
	}
	mentions := func(e ast.Expr, name string) bool {
		hit := false
		ast.Inspect(e, func(m ast.Node) bool {
			if id, ok := m.(*ast.Ident); ok && id.Name == name {
				hit = true
			}
			return !hit
		})
		return hit
	}
	// the two bits, as predicates over block nodes; a call of another setter provides both
	type cond struct {
		pt    Point
		param int // -2: unconditional at this node; >=0: call passes own bool parameter
	}
	var rule, mode, both []cond
	ruleTargets, modeTargets := map[types.Object]bool{}, map[types.Object]bool{}
	badShared := ""
	for _, b := range f.G.Blocks {
		if !b.Live {
			continue
		}
		for i, nd := range b.Nodes {
			pt := Point{b, i}
			inspectNoLit(nd, func(m ast.Node) bool {
				switch x := m.(type) {
				case *ast.AssignStmt:
					for li, l := range x.Lhs {
						if li >= len(x.Rhs) {
							continue
						}
						if mentions(x.Rhs[li], "ArrayValidationModeLexicalOrdering") && (x.Tok == token.OR_ASSIGN || x.Tok == token.ASSIGN) {
							if freshTarget(l) {
								rule = append(rule, cond{pt, -2})
								if se, ok := ast.Unparen(l).(*ast.SelectorExpr); ok {
									if o := objOfIdent(info, se.X); o != nil {
										ruleTargets[o] = true
									}
								}
							} else {
								badShared = f.P.posStr(x.Pos()) + ": the ordering bit is set through rules that are shared with other users of the type settings"
							}
						}
						if mentions(x.Rhs[li], "DeSeriModePerformLexicalOrdering") && (x.Tok == token.OR_ASSIGN || x.Tok == token.ASSIGN) {
							mode = append(mode, cond{pt, -2})
							if o := objOfIdent(info, l); o != nil {
								modeTargets[o] = true
							}
						}
					}
				case *ast.CallExpr:
					if se, ok := ast.Unparen(x.Fun).(*ast.SelectorExpr); ok && se.Sel.Name == "WithLexicalOrdering" && len(x.Args) == 1 && rawKey(x.Args[0]) == "true" {
						mode = append(mode, cond{pt, -2})
					}
					fn := staticCallee(info, x)
					if fn == nil {
						return true
					}
					hd := p.decls().byFunc[fn.Origin()]
					if hd == nil || hd == fd || p.decls().infoOf[hd] != info {
						return true
					}
					hs := lexSetterOf(p, hd, depth-1)
					switch {
					case hs.uncond:
						both = append(both, cond{pt, -2})
					case hs.byParam >= 0 && hs.byParam < len(x.Args):
						a := x.Args[hs.byParam]
						if rawKey(a) == "true" {
							both = append(both, cond{pt, -2})
						} else if ao := objOfIdent(info, a); ao != nil {
							for pi, po := range params {
								if po == ao {
									both = append(both, cond{pt, pi})
								}
							}
						}
					}
				}
				return true
			})
		}
	}
	if badShared != "" {
		res.why = badShared
		return res
	}
	// a bit that was set is lost again when the variable that carries it is overwritten as a whole
	// afterwards (`*rules = *registered` after `rules.ValidationMode |= bit`): the points after such
	// an overwrite are further starting points from which a setter must still be passed
	var ruleKills, modeKills []Point
	for _, b := range f.G.Blocks {
		if !b.Live {
			continue
		}
		for i, nd := range b.Nodes {
			as, ok := nd.(*ast.AssignStmt)
			if !ok || (as.Tok != token.ASSIGN && as.Tok != token.DEFINE) {
				continue
			}
			for li, l := range as.Lhs {
				var rhs ast.Expr
				if li < len(as.Rhs) && len(as.Lhs) == len(as.Rhs) {
					rhs = as.Rhs[li]
				}
				l = ast.Unparen(l)
				whole := l
				if st, isStar := l.(*ast.StarExpr); isStar {
					whole = ast.Unparen(st.X)
				}
				if o := objOfIdent(info, whole); o != nil {
					if ruleTargets[o] && as.Tok == token.ASSIGN && !(rhs != nil && mentions(rhs, "ArrayValidationModeLexicalOrdering")) {
						ruleKills = append(ruleKills, Point{b, i + 1})
					}
					if modeTargets[o] && as.Tok == token.ASSIGN && !(rhs != nil && mentions(rhs, "DeSeriModePerformLexicalOrdering")) {
						modeKills = append(modeKills, Point{b, i + 1})
					}
				}
				if se, isSel := l.(*ast.SelectorExpr); isSel && se.Sel.Name == "ValidationMode" && as.Tok == token.ASSIGN {
					if o := objOfIdent(info, se.X); o != nil && ruleTargets[o] && !(rhs != nil && mentions(rhs, "ArrayValidationModeLexicalOrdering")) {
						ruleKills = append(ruleKills, Point{b, i + 1})
					}
				}
			}
		}
	}
	// under which condition are the bits set on every non-failing path?
	try := func(param int) bool {
		// edges on which the parameter is true (param >= 0), else no restriction
		var on []Edge
		if param >= 0 {
			on, _ = f.VarEdges(params[param]) // none: the parameter is only handed on
		}
		covered := func(set []cond) func(ast.Node) bool {
			pts := map[ast.Node]bool{}
			for _, c := range set {
				if c.param == -2 || c.param == param {
					pts[f.nodeAt(c.pt)] = true
				}
			}
			return func(n ast.Node) bool { return pts[n] }
		}
		okBit := func(set []cond, kills []Point) bool {
			pred := covered(append(append([]cond{}, set...), both...))
			starts := []Point{f.entry()}
			if param >= 0 && len(on) > 0 {
				starts = nil
				for _, e := range on {
					starts = append(starts, Point{e.From.Succs[e.Succ], 0})
				}
			}
			for _, k := range kills {
				// only overwrites that can follow a setter matter (an initialisation before it does not)
				after := false
				for _, c := range set {
					if _, reaches := f.reach(Point{c.pt.B, c.pt.I + 1}, nil, func(q Point, atExit bool) bool { return !atExit && q.B == k.B && q.I == k.I-1 }); reaches {
						after = true
					}
				}
				if after {
					starts = append(starts, k)
				}
			}
			for _, st := range starts {
				blockNode := func(n ast.Node) bool {
					// the avoid predicate sees sub-nodes; match the statement that holds a setting point
					return pred(n)
				}
				if _, found := f.reach(st, &searchOpts{AvoidNode: blockNode, AvoidRet: func(rs *ast.ReturnStmt, val func(ast.Expr) int8) bool {
					return len(rs.Results) > 0 && val(rs.Results[len(rs.Results)-1]) > 0
				}}, func(pt Point, atExit bool) bool { return atExit }); found {
					return false
				}
			}
			return true
		}
		return okBit(rule, ruleKills) && okBit(mode, modeKills)
	}
	if try(-1) {
		res.uncond, res.why = true, ""
		return res
	}
	for pi, po := range params {
		if po == nil {
			continue
		}
		if bt, ok := po.Type().Underlying().(*types.Basic); ok && bt.Info()&types.IsBoolean != 0 && try(pi) {
			res.byParam, res.why = pi, ""
			return res
		}
	}
	res.why = "a successful path does not set both ordering bits"
	return res
}

// forcesLexicalOrdering returns "" if fd forces lexical ordering unconditionally, else why not.
func forcesLexicalOrdering(p *Prog, fd *ast.FuncDecl) string {
	ls := lexSetterOf(p, fd, 4)
	if ls.uncond {
		return ""
	}
	if ls.byParam >= 0 {
		return "only under one of its own boolean parameters"
	}
	return ls.why
}

func checkMapDeterminism(r *Reporter, p *Prog) {
	info := p.Pkg(pkgSerix).TypesInfo
	if fd := p.FuncDecl(pkgSerix, "API", "encodeMap"); fd == nil {
		r.Unresolved("determinism/map-ordering", pkgSerix+".API.encodeMap", "function not found")
	} else if why := forcesLexicalOrdering(p, fd); why != "" {
		r.Fail("determinism/map-ordering", pkgSerix+".API.encodeMap", p.posStr(fd.Pos()), "map entries collected from MapRange reach the serializer without lexical ordering being forced on a private copy of the rules ("+why+"): the output depends on Go's map iteration order")
	} else {
		r.Pass("determinism/map-ordering", pkgSerix+".API.encodeMap", p.posStr(fd.Pos()), "every successful path forces the lexical-ordering mode and rule bit on a private copy of the settings")
	}
	// toMode maps lexical ordering to the serializer mode bit
	if s, fd := srcOf(p, pkgSerix, "TypeSettings", "toMode"); fd != nil {
		if strings.Contains(s, "DeSeriModePerformLexicalOrdering") {
			r.Pass("determinism/map-ordering", pkgSerix+".TypeSettings.toMode", p.posStr(fd.Pos()), "lexical ordering is translated into DeSeriModePerformLexicalOrdering")
		} else {
			r.Fail("determinism/map-ordering", pkgSerix+".TypeSettings.toMode", p.posStr(fd.Pos()), "toMode must translate lexical ordering into the serializer mode")
		}
	}
	infoS := p.Pkg(pkgSer).TypesInfo
	_ = info
	if f := p.CFGOf(pkgSer, "Serializer", "WriteSliceOfByteSlices"); f == nil {
		r.Unresolved("determinism/sort-before-write", pkgSer+".Serializer.WriteSliceOfByteSlices", "function not found")
	} else {
		isBit := func(e ast.Expr) bool {
			k := exprKey(e)
			return k == "deSeriMode.HasMode(DeSeriModePerformLexicalOrdering)" || k == "sliceRules.ValidationMode.HasMode(ArrayValidationModeLexicalOrdering)"
		}
		var conjuncts func(e ast.Expr) []ast.Expr
		conjuncts = func(e ast.Expr) []ast.Expr {
			e = ast.Unparen(e)
			if be, ok := e.(*ast.BinaryExpr); ok && be.Op == token.LAND {
				return append(conjuncts(be.X), conjuncts(be.Y)...)
			}
			return []ast.Expr{e}
		}
		// an edge on which one of the two ordering bits is known to be clear: the FALSE edge of a
		// condition that is a conjunction of ordering-bit tests only
		bitClear := func(e Edge) bool {
			c := condOf(e.From)
			if c == nil || e.Succ != 1 {
				return false
			}
			for _, cj := range conjuncts(c) {
				if !isBit(cj) {
					return false
				}
			}
			return true
		}
		isSort := func(n ast.Node) bool {
			cl, ok := n.(*ast.CallExpr)
			if !ok {
				return false
			}
			sd := recogniseSort(infoS, cl)
			return sd != nil && exprKey(sd.Target) == "data"
		}
		writes := f.Find(func(n ast.Node) bool {
			cl, ok := n.(*ast.CallExpr)
			return ok && exprKey(cl.Fun) == "s.buf.Write" && len(cl.Args) == 1 && exprKey(cl.Args[0]) == "ele"
		})
		bad := len(writes) != 1
		var wit []string
		for _, w := range writes {
			if path, found := f.PathFromEntryAvoiding(w, isSort, bitClear); found {
				bad = true
				wit = path
			}
		}
		// comparator
		cmpOK := false
		// every sort of the data (any library spelling) is ascending by bytes.Compare on the elements
		nSorts := 0
		cmpOK = true
		ast.Inspect(f.Body, func(n ast.Node) bool {
			if cl, ok := n.(*ast.CallExpr); ok && isSort(cl) {
				nSorts++
				if sd := recogniseSort(infoS, cl); !sd.OK || sd.Kind != "bytes" || sd.Key != "@" || sd.Desc {
					cmpOK = false
				}
			}
			return true
		})
		cmpOK = cmpOK && nSorts > 0
		if bad || !cmpOK {
			r.Fail("determinism/sort-before-write", pkgSer+".Serializer.WriteSliceOfByteSlices", f.P.posStr(f.Body.Pos()), "whenever both ordering bits are set the elements must be sorted ascending by bytes.Compare before the write loop", wit...)
		} else {
			r.Pass("determinism/sort-before-write", pkgSer+".Serializer.WriteSliceOfByteSlices", f.P.posStr(f.Body.Pos()), "sort.Slice(data, bytes.Compare < 0) on the both-bits edge precedes the element writes")
		}
	}
}

// checkByteArrayPredicateMirror: an array is written either as its raw bytes or as a sequence of
// elements; which of the two is decided by a test on the array's type - and the decoder has to decide
// with the SAME test, or a type on which two different tests disagree (an array of a named uint8: its
// kind is Uint8, its slice is not assignable to []byte) is written in one form and read in the other.
// The condition that guards the raw-bytes branch (the one that calls WriteBytes / ReadBytesInPlace) is
// compared on both sides after resolving temporaries.
func checkByteArrayPredicateMirror(r *Reporter, p *Prog) {
	const rule = "mirror/byte-array-predicate"
	info := p.Pkg(pkgSerix).TypesInfo
	side := func(name, prim string) (string, string) {
		fd := p.FuncDecl(pkgSerix, "API", name)
		if fd == nil || fd.Body == nil {
			return "", "function " + name + " not found"
		}
		f := newFuncCFG(p, info, fd.Body, funcKey(pkgSerix, fd))
		// the array parameter is called "value" on both sides by position: normalise its name
		var arr types.Object
		for _, po := range paramObjs(info, fd) {
			if po != nil && strings.HasSuffix(typeName(po.Type()), "reflect.Value") {
				arr = po
			}
		}
		key := ""
		ast.Inspect(fd.Body, func(n ast.Node) bool {
			ifs, ok := n.(*ast.IfStmt)
			if !ok || key != "" {
				return key == ""
			}
			hit := false
			ast.Inspect(ifs.Body, func(m ast.Node) bool {
				if c, isCall := m.(*ast.CallExpr); isCall {
					if se, isSel := ast.Unparen(c.Fun).(*ast.SelectorExpr); isSel && se.Sel.Name == prim {
						hit = true
					}
				}
				return !hit
			})
			if !hit {
				return true
			}
			pt, okp := f.PointOf(ifs.Cond)
			if !okp {
				return true
			}
			key = f.KeyAt(ifs.Cond, pt)
			if arr != nil {
				key = strings.ReplaceAll(key, arr.Name(), "<array>")
			}
			return false
		})
		if key == "" {
			return "", "no branch that calls " + prim + " found in " + name
		}
		return key, ""
	}
	ek, ew := side("encodeArray", "WriteBytes")
	dk, dw := side("decodeArray", "ReadBytesInPlace")
	key := pkgSerix + ".encodeArray <-> decodeArray"
	// two spellings of one test: a slice type []E is assignable to []byte exactly when E is identical
	// to byte (both unnamed slice types), so "SliceOf(E) assignable to bytesType" and
	// "E == bytesType.Elem()" are reduced to one canonical form before they are compared
	bytesTypeIsByteSlice := false
	for _, f := range p.Pkg(pkgSerix).Syntax {
		ast.Inspect(f, func(n ast.Node) bool {
			if vs, ok := n.(*ast.ValueSpec); ok {
				for i, nm := range vs.Names {
					if nm.Name == "bytesType" && i < len(vs.Values) && types.ExprString(vs.Values[i]) == "reflect.TypeOf([]byte(nil))" {
						bytesTypeIsByteSlice = true
					}
				}
			}
			return true
		})
	}
	if bytesTypeIsByteSlice {
		ek, dk = canonByteElemTest(ek), canonByteElemTest(dk)
	}
	switch {
	case ew != "" || dw != "":
		r.Fail(rule, key, "-", "cannot find the raw-bytes branch on both sides ("+ew+" "+dw+")")
	case ek != dk:
		r.Fail(rule, key, "-", "the encoder takes the raw-bytes form of an array when "+ek+", the decoder when "+dk+": for a type on which the two tests disagree (an array of a named byte type) the bytes written are not the bytes read")
	default:
		r.Pass(rule, key, "-", "both sides choose the raw-bytes form by the same test: "+ek)
	}
}

var (
	reSliceAssignable = regexp.MustCompile(`^reflect\.MakeSlice\(reflect\.SliceOf\((.+?)\),.*\)\.Type\(\)\.AssignableTo\(bytesType\)$`)
	reSliceOfAssign   = regexp.MustCompile(`^reflect\.SliceOf\((.+)\)\.AssignableTo\(bytesType\)$`)
	reElemEq          = regexp.MustCompile(`^(.+)==bytesType\.Elem\(\)$`)
	reElemEqRev       = regexp.MustCompile(`^bytesType\.Elem\(\)==(.+)$`)
)

// canonByteElemTest reduces the spellings of "the element type E is identical to byte" to one key.
func canonByteElemTest(k string) string {
	for strings.HasPrefix(k, "(") && strings.HasSuffix(k, ")") && balancedParens(k[1:len(k)-1]) {
		k = k[1 : len(k)-1]
	}
	for _, re := range []*regexp.Regexp{reSliceAssignable, reSliceOfAssign, reElemEq, reElemEqRev} {
		if m := re.FindStringSubmatch(k); m != nil && balancedParens(m[1]) {
			return "identical(" + m[1] + ", byte)"
		}
	}
	return k
}

func balancedParens(s string) bool {
	d := 0
	for _, c := range s {
		switch c {
		case '(':
			d++
		case ')':
			d--
			if d < 0 {
				return false
			}
		}
	}
	return d == 0
}

// checkCountNotComparedWithBytes: the length prefix of a sequence of objects is an element COUNT. The
// writer accepts any count its rules allow, whatever the elements encode to - an element may encode
// to zero bytes (an empty struct) - so the reader of the count must not reject it by comparing it
// with the number of bytes that remain: Decode(Encode(x)) would fail for collections with more
// elements than trailing bytes. Decided on ReadSequenceOfObjects and every unexported function of the
// package it reaches (the shared prefix reader): the remaining input length is compared with
// constants (the width of the prefix) only.
func checkCountNotComparedWithBytes(r *Reporter, p *Prog) {
	const rule = "count/not-compared-with-remaining-bytes"
	info := p.Pkg(pkgSer).TypesInfo
	root := p.FuncDecl(pkgSer, "Deserializer", "ReadSequenceOfObjects")
	if root == nil || root.Body == nil {
		r.Unresolved(rule, pkgSer+".Deserializer.ReadSequenceOfObjects", "method not found")
		return
	}
	di := p.decls()
	seen := map[*ast.FuncDecl]bool{root: true}
	work := []*ast.FuncDecl{root}
	nConst := 0
	bad := ""
	for depth := 0; len(work) > 0 && depth < 4; depth++ {
		var next []*ast.FuncDecl
		for _, fd := range work {
			f := newFuncCFGPlain(p, info, fd.Body, funcKey(pkgSer, fd))
			for _, g := range remainingLenGuards(f) {
				if g.value != nil {
					nConst++
					continue
				}
				if c := condOf(g.e.From); c != nil && bad == "" {
					bad = fmt.Sprintf("%s: %s compares the remaining input length with %s while reading the element count of a sequence: a collection whose elements encode to fewer bytes than their number (empty structs) is written by the encoder and rejected by the decoder", p.posStr(c.Pos()), funcKey(pkgSer, fd), g.other)
				}
			}
			ast.Inspect(fd.Body, func(n ast.Node) bool {
				if c, ok := n.(*ast.CallExpr); ok {
					if fn := staticCallee(info, c); fn != nil {
						if cd := di.byFunc[fn.Origin()]; cd != nil && cd.Body != nil && !cd.Name.IsExported() && di.infoOf[cd] == info && !seen[cd] {
							seen[cd] = true
							next = append(next, cd)
						}
					}
				}
				return true
			})
		}
		work = next
	}
	key := pkgSer + ".Deserializer.ReadSequenceOfObjects"
	switch {
	case bad != "":
		r.Fail(rule, key, p.posStr(root.Pos()), bad)
	case nConst < 4:
		r.Fail(rule, key, p.posStr(root.Pos()), fmt.Sprintf("expected the count reader's remaining-length checks for the 4 prefix widths among the %d function(s) reached, found %d (vacuous)", len(seen), nConst))
	default:
		r.Pass(rule, key, p.posStr(root.Pos()), fmt.Sprintf("%d function(s) reached; the remaining input length is compared with constants only (%d width checks)", len(seen), nConst))
	}
}

// ---------------------------------------------------------------------------------------------
// C02

var jsonTypes = map[string]bool{"string": true, "float64": true, "bool": true, "map[string]any": true, "map[string]interface{}": true, "[]any": true, "[]interface{}": true}

func runC02(c *Ctx) {
	p := loadSerializer(c)
	if p == nil {
		return
	}
	r := c.R
	checkErrorConstructorsNonNil(r, p)
	// a decoder's failure branch reports the error it is the branch of (never another, known-nil one:
	// the malformed input would be accepted)
	checkFailureBranchReportsOwnError(r, p, pkgSerix)
	checkFailureBranchReportsOwnError(r, p, pkgSer)
	checkDeserializerBounds(r, p)
	checkNoSizeDrivenAlloc(r, p)
	checkInputSlicesBounded(r, p)
	checkJSONAssertions(r, p)
	checkReflectOnInputValues(r, p)
	checkPrefixBoundedLoops(r, c, p)
	checkDecodePanics(r, p)
	checkPrefixTables(r, p, "switch/length-prefix-exhaustive")
	checkArrayFillBounded(r, p)
}

// checkArrayFillBounded: a function that indexes one reflect value with an index that ranges over the
// length of ANOTHER one (`for i := range src.Len() { dst.Index(i).Set(src.Index(i)) }`) panics with
// "index out of range" as soon as the source is longer. Every call of such an unchecked copier of
// the decoding packages must hand it a source whose length is the destination's by construction
// (the slice made from that very array) or sit behind the edge on which the two lengths were
// found equal - the decoded bytes of an input are as long as the input says.
func checkArrayFillBounded(r *Reporter, p *Prog) {
	const rule = "reflect/fill-bounded-by-destination"
	pk := p.Pkg(pkgSerix)
	if pk == nil {
		r.Unresolved(rule, pkgSerix, "package not loaded")
		return
	}
	info := pk.TypesInfo
	isReflectValue := func(e ast.Expr) bool {
		return strings.HasSuffix(typeName(info.TypeOf(e)), "reflect.Value")
	}
	// the unchecked copiers: (function, index of the destination parameter, index of the source parameter)
	type copier struct{ dst, src int }
	copiers := map[*types.Func]copier{}
	for _, fd := range p.AllFuncDecls(pkgSerix) {
		if fd.Body == nil || strings.HasSuffix(p.Fset.Position(fd.Pos()).Filename, "_test.go") {
			continue
		}
		params := paramObjs(info, fd)
		f := newFuncCFGPlain(p, info, fd.Body, funcKey(pkgSerix, fd))
		for _, l := range f.Loops() {
			bound := f.LoopBound(l)
			if !strings.HasPrefix(bound, "count:") || !strings.HasSuffix(bound, ".Len()") {
				continue
			}
			srcName := strings.TrimSuffix(strings.TrimPrefix(bound, "count:"), ".Len()")
			si, di := -1, -1
			for i, po := range params {
				if po != nil && po.Name() == srcName {
					si = i
				}
			}
			if si < 0 {
				continue
			}
			// a destination parameter indexed inside the loop
			ast.Inspect(l.Stmt, func(n ast.Node) bool {
				c, ok := n.(*ast.CallExpr)
				if !ok || len(c.Args) != 1 {
					return true
				}
				se, ok := ast.Unparen(c.Fun).(*ast.SelectorExpr)
				if !ok || se.Sel.Name != "Index" || !isReflectValue(se.X) {
					return true
				}
				for i, po := range params {
					if po != nil && i != si && objOfIdent(info, se.X) == po {
						di = i
					}
				}
				return true
			})
			if di >= 0 {
				if fn, ok := info.Defs[fd.Name].(*types.Func); ok {
					copiers[fn] = copier{di, si}
				}
			}
		}
	}
	// ... and the one-step form of the same copy: `dst.Set(src.Convert(dst.Type()))` - the slice-to-array
	// conversion panics when the source is shorter than the array
	for _, fd := range p.AllFuncDecls(pkgSerix) {
		if fd.Body == nil || strings.HasSuffix(p.Fset.Position(fd.Pos()).Filename, "_test.go") {
			continue
		}
		params := paramObjs(info, fd)
		ast.Inspect(fd.Body, func(n ast.Node) bool {
			c, ok := n.(*ast.CallExpr)
			if !ok || len(c.Args) != 1 {
				return true
			}
			se, ok := ast.Unparen(c.Fun).(*ast.SelectorExpr)
			if !ok || se.Sel.Name != "Convert" || !isReflectValue(se.X) {
				return true
			}
			tc, ok := ast.Unparen(c.Args[0]).(*ast.CallExpr)
			if !ok {
				return true
			}
			tse, ok := ast.Unparen(tc.Fun).(*ast.SelectorExpr)
			if !ok || tse.Sel.Name != "Type" || !isReflectValue(tse.X) {
				return true
			}
			si, di := -1, -1
			for i, po := range params {
				if po != nil && objOfIdent(info, se.X) == po {
					si = i
				}
				if po != nil && objOfIdent(info, tse.X) == po {
					di = i
				}
			}
			if si >= 0 && di >= 0 && si != di {
				if fn, ok := info.Defs[fd.Name].(*types.Func); ok {
					copiers[fn] = copier{di, si}
				}
			}
			return true
		})
	}
	if len(copiers) == 0 {
		r.Pass(rule, pkgSerix, "-", "no function indexes one reflect value over the length of another")
		return
	}
	nSites := 0
	for _, fd := range p.AllFuncDecls(pkgSerix) {
		if fd.Body == nil || strings.HasSuffix(p.Fset.Position(fd.Pos()).Filename, "_test.go") {
			continue
		}
		fkey := funcKey(pkgSerix, fd)
		var f *FuncCFG
		ast.Inspect(fd.Body, func(n ast.Node) bool {
			c, ok := n.(*ast.CallExpr)
			if !ok {
				return true
			}
			fn := staticCallee(info, c)
			if fn == nil {
				return true
			}
			cp, isCopier := copiers[fn.Origin()]
			if !isCopier || cp.dst >= len(c.Args) || cp.src >= len(c.Args) {
				return true
			}
			nSites++
			if f == nil {
				f = newFuncCFG(p, info, fd.Body, fkey)
			}
			key := fmt.Sprintf("%s(%s, %s) in %s", funcName(fn), exprKey(c.Args[cp.dst]), exprKey(c.Args[cp.src]), fkey)
			pt, found := f.PointOf(c)
			if !found {
				// inside a function literal: judged on the literal's own graph
				var lit *ast.FuncLit
				ast.Inspect(fd.Body, func(m ast.Node) bool {
					if l, isLit := m.(*ast.FuncLit); isLit && l.Pos() <= c.Pos() && c.End() <= l.End() {
						lit = l
					}
					return true
				})
				if lit == nil {
					r.Fail(rule, key, p.posStr(c.Pos()), "cannot locate the call in the function's graph")
					return true
				}
				lf := newFuncCFG(p, info, lit.Body, fkey+"$lit")
				if pt, found = lf.PointOf(c); !found {
					r.Fail(rule, key, p.posStr(c.Pos()), "cannot locate the call in the literal's graph")
					return true
				}
				judgeFill(r, rule, key, lf, c, pt, cp.dst, cp.src)
				return true
			}
			judgeFill(r, rule, key, f, c, pt, cp.dst, cp.src)
			return true
		})
	}
	if nSites == 0 {
		r.Fail(rule, pkgSerix, "-", "an unchecked copier exists but is never called (vacuous)")
	}
}

func judgeFill(r *Reporter, rule, key string, f *FuncCFG, c *ast.CallExpr, pt Point, di, si int) {
	dst, src := c.Args[di], c.Args[si]
	dk, sk := f.KeyAt(dst, pt), f.KeyAt(src, pt)
	// (1) the source is the slice made from the destination array itself
	if re, rpt := f.ResolveToCall(src, pt); re != nil {
		if rc, isCall := ast.Unparen(re).(*ast.CallExpr); isCall && len(rc.Args) == 1 && strings.HasSuffix(rawKey(rc.Fun), "sliceFromArray") && f.KeyAt(rc.Args[0], rpt) == dk {
			r.Pass(rule, key, f.P.posStr(c.Pos()), "the source is sliceFromArray(destination): same length by construction")
			return
		}
	}
	// (2) behind the edge on which both lengths were found equal
	rawD, rawS := exprKey(dst), exprKey(src)
	eq := f.RelEdges(func(rel Rel) bool {
		if rel.Op != "==" {
			return false
		}
		l, rr := rel.L, rel.R
		return (l == rawD+".Len()" && rr == rawS+".Len()") || (l == rawS+".Len()" && rr == rawD+".Len()")
	})
	if len(eq) > 0 {
		if w, only := f.OnlyThroughEdges(pt, eq); only {
			r.Pass(rule, key, f.P.posStr(c.Pos()), "behind the edge on which source and destination have the same length")
		} else {
			r.Fail(rule, key, f.P.posStr(c.Pos()), "the copy is reachable without the length comparison between source and destination", w...)
		}
		return
	}
	// (3) a plain slice wrapped for the copy (`reflect.ValueOf(s)`): every path to the copy either knows
	// len(s) <= destination.Len() or has cut s down to it (`s = s[:destination.Len()]`)
	if wc, isCall := ast.Unparen(src).(*ast.CallExpr); isCall && strings.HasSuffix(rawKey(wc.Fun), "reflect.ValueOf") && len(wc.Args) == 1 {
		if so := objOfIdent(f.Info, wc.Args[0]); so != nil {
			sName := rawKey(wc.Args[0])
			fits := map[Edge]bool{}
			for _, e := range f.RelEdges(func(rel Rel) bool {
				return rel.Op == "<=" && rel.L == "len("+sName+")" && rel.R == rawD+".Len()"
			}) {
				fits[e] = true
			}
			cuts := func(n ast.Node) bool {
				as, ok := n.(*ast.AssignStmt)
				if !ok || len(as.Lhs) != 1 || len(as.Rhs) != 1 || objOfIdent(f.Info, as.Lhs[0]) != so {
					return false
				}
				sl, ok := ast.Unparen(as.Rhs[0]).(*ast.SliceExpr)
				return ok && objOfIdent(f.Info, sl.X) == so && sl.Low == nil && sl.High != nil && rawKey(sl.High) == rawD+".Len()"
			}
			if len(fits) > 0 || len(f.Find(cuts)) > 0 {
				if w, found := f.PathFromEntryAvoiding(pt, cuts, func(e Edge) bool { return fits[e] }); !found {
					r.Pass(rule, key, f.P.posStr(c.Pos()), "the wrapped slice is known not to be longer than the destination (compared or cut down) on every path")
					return
				} else {
					r.Fail(rule, key, f.P.posStr(c.Pos()), "the copy is reachable with a source that was neither compared with nor cut down to the destination's length", w...)
					return
				}
			}
		}
	}
	r.Fail(rule, key, f.P.posStr(c.Pos()), fmt.Sprintf("the source (%s) is neither the slice made from the destination array (%s) nor compared with its length: an input that decodes to more elements than the array has panics with an index out of range instead of returning an error", sk, dk))
}

// remaining-length guards: edges on which `K <= len(d.src[d.offset:])` is known.
type lenGuard struct {
	e        Edge
	other    string // the expression compared with the remaining length
	otherRes string // the same, resolved into the frame of the analysed function (a helper's parameter is the caller's argument)
	otherE   ast.Expr
	otherPt  Point
	value    *int64 // its constant value, if constant
}

func remainingLenGuards(f *FuncCFG) []lenGuard {
	info := f.Info
	isRemLen := func(s string) bool {
		return strings.HasPrefix(s, "len(") && strings.Contains(s, ".src[") && strings.HasSuffix(s, ".offset:])")
	}
	// variables holding the remaining length: a local whose only definition reaching the test is
	// `v := len(d.src[d.offset:])` - in the function or in a helper spliced into it - and between that
	// definition and the test nothing can have moved the offset (no store into .offset, no call of a
	// method of the deserializer that was not spliced in): a snapshot taken before the prefix is
	// consumed still counts the prefix bytes
	movesOffset := func(n ast.Node) bool {
		hit := false
		inspectNoLit(n, func(m ast.Node) bool {
			switch x := m.(type) {
			case *ast.AssignStmt:
				for _, l := range x.Lhs {
					if strings.HasSuffix(rawKey(l), ".offset") {
						hit = true
					}
				}
			case *ast.IncDecStmt:
				if strings.HasSuffix(rawKey(x.X), ".offset") {
					hit = true
				}
			case *ast.CallExpr:
				if se, ok := ast.Unparen(x.Fun).(*ast.SelectorExpr); ok && f.regionByCall(x) == nil {
					if sel := info.Selections[se]; sel != nil && sel.Kind() == types.MethodVal && strings.HasSuffix(strings.TrimPrefix(typeName(info.TypeOf(se.X)), "*"), "serializer.Deserializer") {
						hit = true
					}
				}
			}
			return !hit
		})
		return hit
	}
	lenVarAt := map[string]bool{} // "name@block-pointer" -> the identifier holds the remaining length at that branch
	isLenVar := func(e ast.Expr, b *cfg.Block) bool {
		id, ok := ast.Unparen(e).(*ast.Ident)
		if !ok {
			return false
		}
		k := fmt.Sprintf("%s@%p", id.Name, b)
		if v, has := lenVarAt[k]; has {
			return v
		}
		res := false
		if obj, isVar := objOfIdentRaw(info, id).(*types.Var); isVar {
			pt := Point{b, len(b.Nodes) - 1}
			defs, fromEntry := f.ReachingDefs(pt, obj)
			if len(defs) == 1 && !fromEntry && defs[0].Rhs != nil && isRemLen(exprKey(defs[0].Rhs)) {
				res = true
				// no offset change between the snapshot and the test
				if _, dirty := f.reach(Point{defs[0].At.B, defs[0].At.I + 1}, nil, func(q Point, atExit bool) bool {
					if atExit || f.At(q, pt) {
						return false
					}
					if n := f.nodeAt(q); n != nil && movesOffset(n) {
						_, reaches := f.reach(Point{q.B, q.I + 1}, nil, func(q2 Point, atExit2 bool) bool { return !atExit2 && f.At(q2, pt) })
						return reaches
					}
					return false
				}); dirty {
					res = false
				}
			}
		}
		lenVarAt[k] = res
		return res
	}
	var curBlock *cfg.Block
	var curX, curY ast.Expr
	isLen := func(s string) bool {
		if isRemLen(s) {
			return true
		}
		if curBlock == nil {
			return false
		}
		for _, e := range []ast.Expr{curX, curY} {
			if e != nil && exprKey(e) == s && isLenVar(e, curBlock) {
				return true
			}
		}
		return false
	}
	var out []lenGuard
	add := func(e Edge, other ast.Expr, otherKey string) {
		g := lenGuard{e: e, other: otherKey}
		if other != nil {
			if v, ok := constInt(info, other); ok {
				g.value = &v
			}
			if len(e.From.Nodes) > 0 && f.regionOf[e.From] != nil {
				g.otherRes = f.KeyAt(other, Point{e.From, len(e.From.Nodes) - 1})
				g.otherE, g.otherPt = other, Point{e.From, len(e.From.Nodes) - 1}
			}
		}
		out = append(out, g)
	}
	f.forEachEdgeFact(func(e Edge, b *cfg.Block, ft fact) {
		be, ok := ft.Atom.(*ast.BinaryExpr)
		if !ok {
			return
		}
		rel, ok := relOfWith(ft.Atom, func(x ast.Expr) string { return exprKey(stripWiden(info, x)) })
		if !ok {
			return
		}
		if !ft.Pol {
			rel = negRel(rel)
		}
		l, rr := rel.L, rel.R
		curBlock, curX, curY = b, stripWiden(info, be.X), stripWiden(info, be.Y)
		be = &ast.BinaryExpr{X: curX, Op: be.Op, Y: curY}
		// want: other <= len   (i.e. rel is `other <= len`), or `len != 0` / `0 < len`  => one byte available
		switch {
		case rel.Op == "<=" && isLen(rr):
			var oe ast.Expr
			if exprKey(be.X) == l {
				oe = be.X
			} else if exprKey(be.Y) == l {
				oe = be.Y
			}
			add(e, oe, l)
		case rel.Op == "!=" && ((isLen(l) && rr == "0") || (isLen(rr) && l == "0")):
			one := int64(1)
			out = append(out, lenGuard{e: e, other: "1", value: &one})
		case rel.Op == "<" && l == "0" && isLen(rr):
			one := int64(1)
			out = append(out, lenGuard{e: e, other: "1", value: &one})
		}
	})
	return out
}

// stripWiden removes value-preserving integer conversions from around e: unsigned -> wider or equal
// unsigned, signed -> wider or equal signed, unsigned -> strictly wider signed, and any conversion to
// an unsigned type of a len()/cap() result (never negative). int and uint count as 64 bit (the
// platform the packages are type-checked for). A comparison or a bound written with such conversions
// means the same as without them.
func stripWiden(info *types.Info, e ast.Expr) ast.Expr {
	size := func(b *types.Basic) (bits int, signed bool, ok bool) {
		switch b.Kind() {
		case types.Int8:
			return 8, true, true
		case types.Int16:
			return 16, true, true
		case types.Int32:
			return 32, true, true
		case types.Int64, types.Int:
			return 64, true, true
		case types.Uint8:
			return 8, false, true
		case types.Uint16:
			return 16, false, true
		case types.Uint32:
			return 32, false, true
		case types.Uint64, types.Uint:
			return 64, false, true
		}
		return 0, false, false
	}
	for {
		e = ast.Unparen(e)
		c, ok := e.(*ast.CallExpr)
		if !ok || len(c.Args) != 1 {
			return e
		}
		tv, has := info.Types[c.Fun]
		if !has || !tv.IsType() {
			return e
		}
		tb, ok1 := tv.Type.Underlying().(*types.Basic)
		at := info.TypeOf(c.Args[0])
		if !ok1 || at == nil {
			return e
		}
		sb, ok2 := at.Underlying().(*types.Basic)
		if !ok2 {
			return e
		}
		tBits, tSigned, okT := size(tb)
		sBits, sSigned, okS := size(sb)
		if !okT || !okS {
			return e
		}
		exact := false
		switch {
		case !sSigned && !tSigned:
			exact = tBits >= sBits
		case sSigned && tSigned:
			exact = tBits >= sBits
		case !sSigned && tSigned:
			exact = tBits > sBits
		default: // signed -> unsigned: only for values that are never negative
			if ic, isCall := ast.Unparen(c.Args[0]).(*ast.CallExpr); isCall && (rawKey(ic.Fun) == "len" || rawKey(ic.Fun) == "cap") {
				exact = tBits >= sBits
			}
		}
		if !exact {
			return e
		}
		e = c.Args[0]
	}
}

// endOffsetOrigins: e (an identifier read at pt) stands for an end offset. Every value it can have
// there must be `offset + K` (then obligation(origin point, K) is raised for it) and the offset must
// not have moved between that computation and pt. Returns a reason when some origin has another form
// (no obligation is raised then).
func endOffsetOrigins(f *FuncCFG, e ast.Expr, pt Point, isOff func(ast.Expr) bool, obligation func(Point, ast.Expr)) string {
	os := f.Origins(e, pt)
	if len(os) == 0 {
		return "no origin"
	}
	type ob struct {
		pt Point
		k  ast.Expr
	}
	var obs []ob
	for _, o := range os {
		hb, ok := ast.Unparen(o.E).(*ast.BinaryExpr)
		if !ok || hb.Op != token.ADD || !isOff(hb.X) {
			return "origin " + exprKey(o.E) + " is not offset+K"
		}
		// the offset is unchanged between the computation and the use
		if _, moved := f.reach(Point{o.At.B, o.At.I + 1}, nil, func(q Point, atExit bool) bool {
			if atExit || f.At(q, pt) {
				return false
			}
			n := f.nodeAt(q)
			if n == nil {
				return false
			}
			hit := false
			inspectNoLit(n, func(m ast.Node) bool {
				switch x := m.(type) {
				case *ast.AssignStmt:
					for _, l := range x.Lhs {
						if isOff(l) {
							hit = true
						}
					}
				case *ast.IncDecStmt:
					if isOff(x.X) {
						hit = true
					}
				}
				return !hit
			})
			if !hit {
				return false
			}
			_, reaches := f.reach(Point{q.B, q.I + 1}, nil, func(q2 Point, atExit2 bool) bool { return !atExit2 && f.At(q2, pt) })
			return reaches
		}); moved {
			return "the offset moves between the computation of the end offset and its use"
		}
		obs = append(obs, ob{o.At, hb.Y})
	}
	for _, o := range obs {
		obligation(o.pt, o.k)
	}
	return ""
}

func checkDeserializerBounds(r *Reporter, p *Prog) {
	info := p.Pkg(pkgSer).TypesInfo
	nSites := 0
	isSrc := func(e ast.Expr) bool { return strings.HasSuffix(exprKey(e), ".src") }
	isOff := func(e ast.Expr) bool { return strings.HasSuffix(exprKey(e), ".offset") }
	for _, fd := range p.Methods(pkgSer, "Deserializer") {
		if fd.Body == nil {
			continue
		}
		fkey := funcKey(pkgSer, fd)
		f := newFuncCFG(p, info, fd.Body, fkey)
		guards := remainingLenGuards(f)
		// need(pt, K): pt is only reachable through an edge on which K bytes are known to remain
		kRes := ""
		var kResE ast.Expr
		var kResPt Point
		edgesFor := func(kKey string, kVal int64, kConst bool) []Edge {
			var edges []Edge
			for _, g := range guards {
				switch {
				case g.other == kKey:
					edges = append(edges, g.e)
				case kRes != "" && g.otherRes == kRes:
					edges = append(edges, g.e)
				case kResE != nil && g.otherE != nil && f.SameValue(g.otherE, g.otherPt, kResE, kResPt):
					edges = append(edges, g.e)
				case kConst && g.value != nil && *g.value >= kVal:
					edges = append(edges, g.e)
				}
			}
			return edges
		}
		isRemLen := func(e ast.Expr) bool {
			k := exprKey(e)
			return strings.HasPrefix(k, "len(") && strings.Contains(k, ".src[") && strings.HasSuffix(k, ".offset:])")
		}
		// need(pt, K): pt is only reachable through an edge on which K bytes are known to remain
		need := func(rule, key, pos string, pt Point, kExpr ast.Expr, kConstVal int64, what string) {
			nSites++
			if kExpr == nil {
				if w, only := f.OnlyThroughEdges(pt, edgesFor(fmt.Sprint(kConstVal), kConstVal, true)); only {
					r.Pass(rule, key, pos, "dominated by a remaining-length check for the same size")
				} else {
					r.Fail(rule, key, pos, fmt.Sprintf("%s on a path that has not established that %d byte(s) remain", what, kConstVal), w...)
				}
				return
			}
			kExpr = stripWiden(info, kExpr)
			kKey := exprKey(kExpr)
			kVal, kConst := constInt(info, kExpr)
			kRes, kResE, kResPt = f.KeyAt(kExpr, pt), kExpr, pt
			defer func() { kRes, kResE = "", nil }()
			if w, only := f.OnlyThroughEdges(pt, edgesFor(kKey, kVal, kConst)); only {
				r.Pass(rule, key, pos, "dominated by a remaining-length check for the same size")
				return
			} else if id, isId := ast.Unparen(kExpr).(*ast.Ident); !isId || kConst {
				r.Fail(rule, key, pos, what+" on a path that has not established that "+kKey+" bytes remain", w...)
				return
			} else {
				// K is a variable: every assignment that reaches the site must itself be dominated by
				// a check for the assigned size (l = dataSize after `if l < dataSize { return }`)
				defs, fromEntry := f.ReachingDefs(pt, objOfIdent(info, id))
				if fromEntry || len(defs) == 0 {
					r.Fail(rule, key, pos, what+" on a path that has not established that "+kKey+" bytes remain", w...)
					return
				}
				for _, d := range defs {
					if d.Rhs == nil {
						r.Fail(rule, key, pos, what+": "+id.Name+" is updated in place on a path that has not established that "+kKey+" bytes remain", w...)
						return
					}
					if isRemLen(d.Rhs) {
						continue // all that remains
					}
					if cl, isCall := ast.Unparen(d.Rhs).(*ast.CallExpr); isCall {
						callee := calleeShort(info, cl)
						if strings.HasSuffix(callee, "Deserialize") || callee == "itemDeserializer" {
							r.Advise(rule + ": " + key + " uses the count returned by " + callee + " (element decoder contract: at most the bytes it was given)")
							continue
						}
					}
					dv, dc := constInt(info, d.Rhs)
					if w2, only := f.OnlyThroughEdges(d.At, edgesFor(exprKey(d.Rhs), dv, dc)); !only {
						r.Fail(rule, key, pos, fmt.Sprintf("%s: %s is set to %s at %s on a path that has not established that so many bytes remain", what, kKey, exprKey(d.Rhs), f.PosOf(d.At)), w2...)
						return
					}
				}
				r.Pass(rule, key, pos, fmt.Sprintf("%d reaching assignment(s) of %s, each dominated by a remaining-length check for the assigned size (counts returned by element decoders are trusted, see advisory)", len(defs), kKey))
			}
		}
		for _, b := range f.G.Blocks {
			if !b.Live {
				continue
			}
			for i, nd := range b.Nodes {
				pt := Point{b, i}
				inspectNoLit(nd, func(n ast.Node) bool {
					switch x := n.(type) {
					case *ast.SliceExpr:
						if !isSrc(x.X) || x.High == nil {
							return true
						}
						if x.Low == nil && isOff(x.High) {
							return true // the consumed prefix src[:offset]
						}
						key := fmt.Sprintf("%s in %s", exprKey(x), fkey)
						hb, ok := ast.Unparen(x.High).(*ast.BinaryExpr)
						if !ok || hb.Op != token.ADD || !isOff(hb.X) {
							// an end offset computed earlier (`end := offset+K`, possibly inside a helper that
							// also made the check): every value it can stand for here must be offset+K,
							// computed where K bytes were known to remain, with the offset unmoved since
							if _, isId := ast.Unparen(x.High).(*ast.Ident); isId {
								if why := endOffsetOrigins(f, x.High, pt, isOff, func(opt Point, k ast.Expr) {
									need("deser/bounds-guarded", key, p.posStr(x.Pos()), opt, k, 0, "the source is sliced up to an end offset computed as offset+K (out-of-range panic / over-read on truncated input)")
								}); why == "" {
									return true
								}
							}
							r.Fail("deser/bounds-guarded", key, p.posStr(x.Pos()), "upper bound is not of the form offset+K: cannot relate it to a remaining-length check")
							return true
						}
						need("deser/bounds-guarded", key, p.posStr(x.Pos()), pt, hb.Y, 0, "the source is sliced up to offset+K (out-of-range panic / over-read on truncated input)")
					case *ast.IndexExpr:
						if isSrc(x.X) && isOff(x.Index) {
							need("deser/bounds-guarded", fmt.Sprintf("%s in %s", exprKey(x), fkey), p.posStr(x.Pos()), pt, nil, 1, "the source is indexed at the offset (index out of range on exhausted input)")
						}
					case *ast.CallExpr:
						k := exprKey(x.Fun)
						if strings.HasPrefix(k, "binary.LittleEndian.Uint") && len(x.Args) == 1 {
							if se, ok := ast.Unparen(x.Args[0]).(*ast.SliceExpr); ok && isSrc(se.X) && se.High == nil {
								w := int64(0)
								fmt.Sscanf(strings.TrimPrefix(k, "binary.LittleEndian.Uint"), "%d", &w)
								need("deser/bounds-guarded", fmt.Sprintf("%s in %s", exprKey(x), fkey), p.posStr(x.Pos()), pt, nil, w/8, "a fixed-width number is read from the open-ended rest of the source (panic on truncated input)")
							}
							// ... or from a window of the source cut to an input-denoted length: the window
							// `src[off : off+K]` must be known to hold the width (a constant >= width compared
							// with K on every path)
							if id, isId := ast.Unparen(x.Args[0]).(*ast.Ident); isId {
								w := int64(0)
								fmt.Sscanf(strings.TrimPrefix(k, "binary.LittleEndian.Uint"), "%d", &w)
								for _, o := range f.Origins(id, pt) {
									se, ok := ast.Unparen(o.E).(*ast.SliceExpr)
									if !ok || !isSrc(se.X) || se.High == nil {
										continue
									}
									hb, ok := ast.Unparen(se.High).(*ast.BinaryExpr)
									if !ok || hb.Op != token.ADD || !isOff(hb.X) || se.Low == nil || !isOff(se.Low) {
										continue
									}
									if _, isConst := constInt(info, hb.Y); isConst {
										continue // a constant window: its size is visible in the slice expression
									}
									kk := exprKey(stripWiden(info, hb.Y))
									kkAt := f.KeyAt(stripWiden(info, hb.Y), o.At)
									fromInput := strings.Contains(kkAt, ".src")
									if re, _ := f.Resolve(stripWiden(info, hb.Y), o.At); !fromInput {
										if rc, isCall := ast.Unparen(re).(*ast.CallExpr); isCall {
											if rse, isSel := ast.Unparen(rc.Fun).(*ast.SelectorExpr); isSel && strings.HasSuffix(strings.TrimPrefix(typeName(info.TypeOf(rse.X)), "*"), "serializer.Deserializer") {
												fromInput = true // a value a reading method of the Deserializer returned
											}
										}
									}
									if !fromInput {
										continue // the window's size is not read from the input (the size of the destination type, say)
									}
									nSites++
									var wide []Edge
									f.forEachEdgeFact(func(e Edge, eb *cfg.Block, ft fact) {
										be, isBin := ast.Unparen(ft.Atom).(*ast.BinaryExpr)
										if !isBin {
											return
										}
										ept := Point{eb, len(eb.Nodes) - 1}
										rel, okr := relOfWith(ft.Atom, func(y ast.Expr) string { return f.KeyAt(stripWiden(info, y), ept) })
										if !okr {
											return
										}
										if !ft.Pol {
											rel = negRel(rel)
										}
										// c <= K or c < K with a constant c
										if rel.R != kk && rel.R != kkAt {
											return
										}
										var ce ast.Expr
										if kx := f.KeyAt(stripWiden(info, be.X), ept); kx == rel.L {
											ce = be.X
										} else {
											ce = be.Y
										}
										if c, isC := constInt(info, ce); isC {
											if rel.Op == "<" {
												c++
											}
											if (rel.Op == "<" || rel.Op == "<=") && c >= w/8 {
												wide = append(wide, e)
											}
										}
									})
									wkey := fmt.Sprintf("%s in %s", exprKey(x), fkey)
									if wit, only := f.OnlyThroughEdges(pt, wide); only {
										r.Pass("deser/bounds-guarded", wkey, p.posStr(x.Pos()), "the window cut from the source is known to hold the width of the number")
									} else {
										r.Fail("deser/bounds-guarded", wkey, p.posStr(x.Pos()), fmt.Sprintf("a %d-byte number is read from a window of the source whose length %s comes from the input and was not shown to be at least %d on every path (index out of range on a short denoted length)", w/8, kk, w/8), wit...)
									}
								}
							}
						}
					case *ast.AssignStmt:
						if x.Tok == token.ASSIGN && len(x.Lhs) == 1 && len(x.Rhs) == 1 && isOff(x.Lhs[0]) {
							if _, isId := ast.Unparen(x.Rhs[0]).(*ast.Ident); isId {
								akey := fmt.Sprintf("%s = %s in %s", exprKey(x.Lhs[0]), exprKey(x.Rhs[0]), fkey)
								endOffsetOrigins(f, x.Rhs[0], pt, isOff, func(opt Point, k ast.Expr) {
									need("deser/offset-advance-guarded", akey, p.posStr(x.Pos()), opt, k, 0, "the offset is set to an end offset computed as offset+K (more bytes reported consumed than were supplied)")
								})
							}
						}
						if x.Tok == token.ADD_ASSIGN && len(x.Lhs) == 1 && isOff(x.Lhs[0]) {
							need("deser/offset-advance-guarded", fmt.Sprintf("%s += %s in %s", exprKey(x.Lhs[0]), exprKey(x.Rhs[0]), fkey), p.posStr(x.Pos()), pt, x.Rhs[0], 0, "the offset is advanced (more bytes reported consumed than were supplied)")
						}
					case *ast.IncDecStmt:
						if isOff(x.X) {
							need("deser/offset-advance-guarded", fmt.Sprintf("%s++ in %s", exprKey(x.X), fkey), p.posStr(x.Pos()), pt, nil, 1, "the offset is advanced (more bytes reported consumed than were supplied)")
						}
					}
					return true
				})
			}
		}
	}
	if nSites < 24 {
		r.Fail("deser/bounds-guarded", pkgSer+".Deserializer", "-", fmt.Sprintf("expected at least 24 bounded source accesses / offset advances, found %d", nSites))
	}
}

func checkNoSizeDrivenAlloc(r *Reporter, p *Prog) {
	// serializer.Deserializer: make with non-constant size must be guarded for that size
	info := p.Pkg(pkgSer).TypesInfo
	n := 0
	for _, fd := range p.Methods(pkgSer, "Deserializer") {
		if fd.Body == nil {
			continue
		}
		fkey := funcKey(pkgSer, fd)
		f := newFuncCFG(p, info, fd.Body, fkey)
		guards := remainingLenGuards(f)
		for _, pt := range f.Find(func(nd ast.Node) bool {
			cl, ok := nd.(*ast.CallExpr)
			return ok && exprKey(cl.Fun) == "make" && len(cl.Args) >= 2
		}) {
			var mk *ast.CallExpr
			inspectNoLit(f.nodeAt(pt), func(nd ast.Node) bool {
				if cl, ok := nd.(*ast.CallExpr); ok && exprKey(cl.Fun) == "make" && len(cl.Args) >= 2 && mk == nil {
					mk = cl
				}
				return mk == nil
			})
			if _, isConst := constInt(info, mk.Args[1]); isConst {
				continue
			}
			n++
			sz := exprKey(mk.Args[1])
			key := fmt.Sprintf("make(%s, %s) in %s", exprKey(mk.Args[0]), sz, fkey)
			// the length of a piece of the source itself (every value the operand can stand for is nil
			// or a slice of d.src): it cannot exceed what the input holds
			if lc, isCall := ast.Unparen(mk.Args[1]).(*ast.CallExpr); isCall && rawKey(lc.Fun) == "len" && len(lc.Args) == 1 {
				os := f.Origins(lc.Args[0], pt)
				allSrc := len(os) > 0
				for _, o := range os {
					if isNil(info, o.E) {
						continue
					}
					sl, isSlice := ast.Unparen(o.E).(*ast.SliceExpr)
					if !isSlice || !strings.HasSuffix(rawKey(sl.X), ".src") {
						allSrc = false
					}
				}
				if allSrc {
					r.Pass("alloc/bounded-by-input", key, p.posStr(mk.Pos()), "the size is the length of a slice of the source (the slicing itself is bounds-checked by deser/bounds-guarded)")
					continue
				}
			}
			var edges []Edge
			szRes := f.KeyAt(mk.Args[1], pt)
			for _, g := range guards {
				if g.other == sz || (g.otherRes != "" && g.otherRes == szRes) || (g.otherE != nil && f.SameValue(g.otherE, g.otherPt, mk.Args[1], pt)) {
					edges = append(edges, g.e)
				}
			}
			if w, only := f.OnlyThroughEdges(pt, edges); only {
				r.Pass("alloc/bounded-by-input", key, p.posStr(mk.Pos()), "allocated only after the remaining input was shown to hold that many bytes")
			} else {
				r.Fail("alloc/bounded-by-input", key, p.posStr(mk.Pos()), "the allocation size comes from the input and is not yet bounded by the remaining input length: a few prefix bytes force an arbitrarily large allocation", w...)
			}
		}
	}
	if n == 0 {
		// nothing is allocated with an input-derived size (copies made with slices.Clone / append of an
		// input slice are bounded by that slice): the rule has no instance, which is fine
		r.Pass("alloc/bounded-by-input", pkgSer+".Deserializer", "-", "no make() with an input-derived size in the deserializer")
	}
	// stream + typeutils: no make with a non-constant size in reading helpers
	for _, pkg := range []string{pkgStream, pkgTypeU} {
		pinfo := p.Pkg(pkg).TypesInfo
		var bad []string
		for _, fd := range p.AllFuncDecls(pkg) {
			if fd.Body == nil || strings.HasSuffix(p.Fset.Position(fd.Pos()).Filename, "_test.go") {
				continue
			}
			fn := p.Fset.Position(fd.Pos()).Filename
			if !(strings.HasSuffix(fn, "read.go") || strings.HasSuffix(fn, "from_bytes.go")) {
				continue
			}
			ast.Inspect(fd.Body, func(nd ast.Node) bool {
				cl, ok := nd.(*ast.CallExpr)
				if !ok || exprKey(cl.Fun) != "make" || len(cl.Args) < 2 {
					return true
				}
				if _, isConst := constInt(pinfo, cl.Args[1]); !isConst {
					bad = append(bad, fmt.Sprintf("%s: make(%s, %s) in %s: a reader-based helper cannot know how much input remains, so a size taken from a prefix must not size an allocation (grow with the bytes that arrive instead)", p.posStr(cl.Pos()), exprKey(cl.Args[0]), exprKey(cl.Args[1]), funcKey(pkg, fd)))
				}
				return true
			})
		}
		if len(bad) > 0 {
			r.Fail("alloc/bounded-by-input", pkg+" read helpers", "-", bad[0], bad...)
		} else {
			r.Pass("alloc/bounded-by-input", pkg+" read helpers", "-", "no size-driven make")
		}
	}
	// uint64 -> int conversions of prefixes are range-checked
	if f := p.CFGOf(pkgStream, "", "readFixedSize"); f != nil {
		sinfo := p.Pkg(pkgStream).TypesInfo
		// case split on the prefix type: with lenType == ...AsUint64 (and not the narrower constants)
		// every path to a conversion int(x) of a uint64 value crosses an edge on which
		// x <= math.MaxInt is known - whatever the dispatch form (case body, merged tail guarded by
		// `lenType == ...AsUint64 && x > math.MaxInt`)
		assign := map[string]bool{}
		f.forEachEdgeFact(func(e Edge, b *cfg.Block, ft fact) {
			rel, ok := relOfWith(ft.Atom, func(x ast.Expr) string { return f.KeyAt(x, Point{b, len(b.Nodes) - 1}) })
			if !ok || rel.Op != "==" && rel.Op != "!=" {
				return
			}
			if rel.Op == "!=" {
				rel = negRel(rel)
			}
			for c := range prefixConsts {
				if strings.HasSuffix(rel.L, c) || strings.HasSuffix(rel.R, c) {
					assign[rel.String()] = c == "SeriLengthPrefixTypeAsUint64"
				}
			}
		})
		isU64 := func(e ast.Expr) bool {
			bt, ok := sinfo.TypeOf(e).Underlying().(*types.Basic)
			return ok && bt.Kind() == types.Uint64
		}
		var convArg ast.Expr
		isConv := func(n ast.Node) bool {
			cl, ok := n.(*ast.CallExpr)
			if !ok || len(cl.Args) != 1 || rawKey(cl.Fun) != "int" || sinfo.TypeOf(cl.Args[0]) == nil || !isU64(cl.Args[0]) {
				return false
			}
			convArg = cl.Args[0]
			return true
		}
		okGuard := len(f.Find(isConv)) > 0
		unguarded := func(assign map[string]bool) bool {
			argKey := rawKey(convArg)
			_, found := f.PathUnder(assign, nil, isConv, func(facts []fact, pt Point) bool {
				for _, ft := range facts {
					rel, ok := relOfWith(ft.Atom, func(x ast.Expr) string { return f.KeyAt(x, pt) })
					if !ok {
						continue
					}
					if !ft.Pol {
						rel = negRel(rel)
					}
					if rel.Op == "<=" && strings.HasSuffix(rel.R, "math.MaxInt") && (rel.L == argKey || rel.L == f.KeyAt(convArg, pt)) {
						return true
					}
				}
				return false
			})
			return found
		}
		// a check that covers every prefix type needs no case split at all
		if okGuard && !unguarded(map[string]bool{}) {
			assign = nil
		} else if okGuard {
			okGuard = len(assign) >= 4
		}
		if okGuard && assign != nil {
			argKey := rawKey(convArg)
			if _, found := f.PathUnder(assign, nil, isConv, func(facts []fact, pt Point) bool {
				for _, ft := range facts {
					rel, ok := relOfWith(ft.Atom, func(x ast.Expr) string { return f.KeyAt(x, pt) })
					if !ok {
						continue
					}
					if !ft.Pol {
						rel = negRel(rel)
					}
					if rel.Op == "<=" && strings.HasSuffix(rel.R, "math.MaxInt") && (rel.L == argKey || rel.L == f.KeyAt(convArg, pt)) {
						return true
					}
				}
				return false
			}); found {
				okGuard = false
			}
		}
		if okGuard {
			r.Pass("alloc/prefix-fits-int", pkgStream+".readFixedSize", f.P.posStr(f.Body.Pos()), "a uint64 prefix above MaxInt is rejected before it is converted")
		} else {
			r.Fail("alloc/prefix-fits-int", pkgStream+".readFixedSize", f.P.posStr(f.Body.Pos()), "a uint64 prefix is converted to int without a range check: values above MaxInt become negative sizes (makeslice panic, negative loop bound)")
		}
	}
	if fd := p.FuncDecl(pkgStream, "", "ReadBytes"); fd != nil {
		f := newFuncCFG(p, p.Pkg(pkgStream).TypesInfo, fd.Body, "")
		neg := f.RelEdges(func(rel Rel) bool { return rel.Op == "<" && rel.L == "length" && rel.R == "0" })
		ok := len(neg) > 0
		for _, e := range neg {
			if _, found := f.reach(Point{e.From.Succs[e.Succ], 0}, nil, func(pt Point, atExit bool) bool {
				if atExit {
					return false
				}
				rs, isRet := f.nodeAt(pt).(*ast.ReturnStmt)
				return isRet && isNil(f.Info, rs.Results[len(rs.Results)-1])
			}); found {
				ok = false
			}
		}
		if ok {
			r.Pass("alloc/prefix-fits-int", pkgStream+".ReadBytes", p.posStr(fd.Pos()), "a negative length is rejected")
		} else {
			r.Fail("alloc/prefix-fits-int", pkgStream+".ReadBytes", p.posStr(fd.Pos()), "ReadBytes must reject a negative length")
		}
	}
}

func checkJSONAssertions(r *Reporter, p *Prog) {
	info := p.Pkg(pkgSerix).TypesInfo
	nChecked := 0
	for _, fd := range p.AllFuncDecls(pkgSerix) {
		if fd.Body == nil || !strings.HasSuffix(p.Fset.Position(fd.Pos()).Filename, "map_decode.go") {
			continue
		}
		fkey := funcKey(pkgSerix, fd)
		var stack []ast.Node
		ast.Inspect(fd.Body, func(n ast.Node) bool {
			if n == nil {
				stack = stack[:len(stack)-1]
				return true
			}
			stack = append(stack, n)
			ta, ok := n.(*ast.TypeAssertExpr)
			if !ok || ta.Type == nil {
				return true
			}
			tn := types.ExprString(ta.Type)
			if !jsonTypes[tn] {
				return true
			}
			// comma-ok?
			checked := false
			if len(stack) >= 2 {
				switch par := stack[len(stack)-2].(type) {
				case *ast.AssignStmt:
					if len(par.Lhs) == 2 && len(par.Rhs) == 1 && par.Rhs[0] == ast.Expr(ta) {
						checked = true
					}
				case *ast.ValueSpec:
					if len(par.Names) == 2 {
						checked = true
					}
				}
			}
			if checked {
				nChecked++
				return true
			}
			r.Fail("json/assertion-checked", fmt.Sprintf("%s.(%s) in %s", exprKey(ta.X), tn, fkey), p.posStr(ta.Pos()), "unchecked type assertion on a JSON value: a document with a value of another JSON type makes MapDecode/JSONDecode panic instead of returning an error")
			return true
		})
		// reflect uses of raw JSON values
		f := newFuncCFG(p, info, fd.Body, fkey)
		for _, pt := range f.Find(func(n ast.Node) bool {
			cl, ok := n.(*ast.CallExpr)
			if !ok {
				return false
			}
			k := exprKey(cl.Fun)
			return strings.HasSuffix(k, ".Set") && len(cl.Args) == 1 && strings.HasPrefix(exprKey(cl.Args[0]), "reflect.ValueOf(mapVal)")
		}) {
			okT, _ := f.CondEdges(func(e ast.Expr) bool { return exprKey(e) == "ok" })
			key := "reflect Set of raw JSON value in " + fkey
			if w, only := f.OnlyThroughEdges(pt, okT); only {
				r.Pass("json/reflect-guarded", key, f.PosOf(pt), "dominated by a successful comma-ok type test")
			} else {
				r.Fail("json/reflect-guarded", key, f.PosOf(pt), "a raw JSON value is stored with reflect.Set without a dominating type test: a value of another JSON type panics", w...)
			}
		}
		for _, pt := range f.Find(func(n ast.Node) bool {
			cl, ok := n.(*ast.CallExpr)
			return ok && (exprKey(cl.Fun) == "refVal.Len" || exprKey(cl.Fun) == "refVal.Index")
		}) {
			isSlice := f.RelEdges(func(rel Rel) bool {
				return rel.Op == "==" && (rel.L == "refVal.Kind()" && rel.R == "reflect.Slice" || rel.R == "refVal.Kind()" && rel.L == "reflect.Slice")
			})
			key := "reflect Len/Index of raw JSON value in " + fkey
			if w, only := f.OnlyThroughEdges(pt, isSlice); only {
				r.Pass("json/reflect-guarded", key, f.PosOf(pt), "dominated by a Kind() == Slice test")
			} else {
				r.Fail("json/reflect-guarded", key, f.PosOf(pt), "reflect.Value.Len/Index on a raw JSON value without a Kind test: a non-array JSON value panics", w...)
			}
		}
	}
	if nChecked < 8 {
		r.Fail("json/assertion-checked", pkgSerix+" map_decode.go", "-", fmt.Sprintf("expected at least 8 comma-ok assertions on JSON values, found %d", nChecked))
	} else {
		r.Pass("json/assertion-checked", pkgSerix+" map_decode.go", "-", fmt.Sprintf("%d assertions on JSON values, all comma-ok", nChecked))
	}
}

func checkPrefixBoundedLoops(r *Reporter, c *Ctx, p *Prog) {
	type row struct {
		p               *Prog
		pkg, recv, name string
		bound           string
		consumer        string // calleeShort of the input-consuming call(s) in the loop body
	}
	rows := []row{{p, pkgSer, "Deserializer", "ReadSequenceOfObjects", "sliceLength", "itemDeserializer"}, {p, pkgStream, "", "ReadCollection", "elementsCount", "readCallback"}}
	if pd := c.Load("ds"); pd != nil {
		rows = append(rows, row{pd, "ds/serializableorderedmap", "SerializableOrderedMap", "Decode", "mapSize", "API.Decode"})
	}
	for _, rw := range rows {
		fd := rw.p.FuncDecl(rw.pkg, rw.recv, rw.name)
		key := rw.pkg + "." + joinNonEmpty(".", rw.recv, rw.name)
		if fd == nil {
			r.Unresolved("loop/fallible-per-iteration", key, "function not found")
			continue
		}
		info := rw.p.Pkg(rw.pkg).TypesInfo
		f := newFuncCFG(rw.p, info, fd.Body, key)
		// the loops of the function (any source form) and the input-consuming calls inside them
		nConsumers := 0
		var bad []string
		var loopPos string
		for _, cl := range f.Calls(func(cl *ast.CallExpr) bool {
			_, isErr := lastResultIsError(info, cl)
			return isErr && calleeShort(info, cl) == rw.consumer
		}) {
			cpt, ok := f.PointOf(cl)
			if !ok {
				continue
			}
			var inLoop *loopInfo
			for _, l := range f.Loops() {
				l := l
				if f.InLoopBody(l, cpt) {
					inLoop = &l
				}
			}
			if inLoop == nil {
				continue // a consuming call outside any loop is not a per-iteration obligation
			}
			nConsumers++
			loopPos = rw.p.posStr(inLoop.Stmt.Pos())
			_, fails := f.ErrEdges(cl)
			if len(fails) == 0 {
				bad = append(bad, rw.p.posStr(cl.Pos())+": the error of "+rw.consumer+" is not tested")
			}
			for _, e := range fails {
				// from the failure edge the loop head must not be reachable any more
				if w, found := f.reachBlock(Point{e.From.Succs[e.Succ], 0}, nil, func(b *cfg.Block) bool { return b == inLoop.Head }, false); found {
					bad = append(bad, rw.p.posStr(cl.Pos())+": a failure of "+rw.consumer+" does not leave the loop: "+strings.Join(w, " -> "))
				}
			}
		}
		switch {
		case nConsumers == 0:
			r.Fail("loop/fallible-per-iteration", key, rw.p.posStr(fd.Pos()), "a loop bounded by a decoded length must consume input through the fallible call "+rw.consumer+" in every iteration; no such call inside a loop found")
		case len(bad) > 0:
			r.Fail("loop/fallible-per-iteration", key, loopPos, "a loop bounded by a decoded length keeps iterating after its input-consuming call failed: a huge prefix iterates without input", bad...)
		default:
			r.Pass("loop/fallible-per-iteration", key, loopPos, fmt.Sprintf("%d input-consuming call(s) per iteration, every failure leaves the loop: truncated input ends it", nConsumers))
		}
	}
}

// allowedDecodePanics: programmer-error panics by their message (whichever function holds them).
var allowedDecodePanics = map[string]string{
	"unknown slice length type": "programmer error: a SeriLengthPrefixType outside the declared constants (all four are handled)",
	"invalid source":            "programmer error: wrong Go type passed by the caller",
	"unsupported numSize type":  "programmer error: destination type chosen by the caller",
	"unsupported ReadNum type":  "programmer error: destination type chosen by the caller",
	"invalid target":            "programmer error: wrong Go type passed by the caller",
	"target parameter must":     "programmer error: wrong Go type passed by the caller",
	"invalid type prefix":       "programmer error: TypeDenotationType outside the declared constants",
}

func checkDecodePanics(r *Reporter, p *Prog) {
	type site struct{ key, pos, msg string }
	var sites []site
	for _, pkg := range []string{pkgSer, pkgSerix, pkgStream, pkgTypeU} {
		for _, fd := range p.AllFuncDecls(pkg) {
			if fd.Body == nil {
				continue
			}
			fn := p.Fset.Position(fd.Pos()).Filename
			if strings.HasSuffix(fn, "_test.go") {
				continue
			}
			base := fn[strings.LastIndex(fn, "/")+1:]
			switch {
			case pkg == pkgSer && base == "serializer.go", pkg == pkgSerix && (base == "decode.go" || base == "map_decode.go" || base == "numbers.go"), pkg == pkgStream, pkg == pkgTypeU:
			default:
				continue
			}
			ast.Inspect(fd.Body, func(n ast.Node) bool {
				cl, ok := n.(*ast.CallExpr)
				if !ok || exprKey(cl.Fun) != "panic" || len(cl.Args) != 1 {
					return true
				}
				msg := ""
				ast.Inspect(cl.Args[0], func(m ast.Node) bool {
					if bl, ok := m.(*ast.BasicLit); ok && bl.Kind == token.STRING && msg == "" {
						msg = strings.Trim(bl.Value, "\"`")
					}
					return true
				})
				if len(msg) > 32 {
					msg = msg[:32]
				}
				sites = append(sites, site{funcKey(pkg, fd) + ": " + msg, p.posStr(cl.Pos()), msg})
				return true
			})
		}
	}
	for _, s := range sites {
		matched := ""
		for k := range allowedDecodePanics {
			if strings.HasPrefix(s.msg, k) {
				matched = k
			}
		}
		if matched != "" {
			r.Pass("panic/tabled", s.key, s.pos, allowedDecodePanics[matched])
		} else {
			r.Fail("panic/tabled", s.key, s.pos, "an explicit panic in a decode-reachable file that is not in the table of programmer-error panics: malformed input (or configuration) must surface as an error")
		}
	}
	if len(sites) < 6 {
		r.Fail("panic/tabled", "decode-reachable files", "-", fmt.Sprintf("expected the tabled panics to be found, saw %d (vacuous)", len(sites)))
	}
}

// ---------------------------------------------------------------------------------------------
// C03

// checkBoundsBeforeSuccess: a sequence reader/writer that validates element counts
// (ArrayRules.CheckBounds) does so on EVERY path that ends without an error in validation mode: a
// path from the entry to an exit that avoids the bounds check must cross an edge on which
// validation is known to be off or an error is known to have occurred. An early return placed in
// front of the check (the empty sequence, say) accepts input the rules forbid - and the value it
// yields is refused by the encoder.
func checkBoundsBeforeSuccess(r *Reporter, p *Prog) {
	const rule = "canonical/bounds-before-success"
	pk := p.Pkg(pkgSer)
	if pk == nil {
		r.Unresolved(rule, pkgSer, "package not loaded")
		return
	}
	info := pk.TypesInfo
	isCheck := func(n ast.Node) bool {
		c, ok := n.(*ast.CallExpr)
		if !ok {
			return false
		}
		se, ok := ast.Unparen(c.Fun).(*ast.SelectorExpr)
		return ok && se.Sel.Name == "CheckBounds" && len(c.Args) == 1
	}
	n := 0
	for _, fd := range p.AllFuncDecls(pkgSer) {
		if fd.Body == nil || strings.HasSuffix(p.Fset.Position(fd.Pos()).Filename, "_test.go") {
			continue
		}
		fkey := funcKey(pkgSer, fd)
		f := newFuncCFG(p, info, fd.Body, fkey)
		// judged where the check is written: an exported operation (with its small helpers in place), or
		// the unexported body an operation delegates to when that body is too large to be spliced
		if fd.Name.IsExported() {
			if len(f.Find(isCheck)) == 0 {
				continue
			}
		} else if len(f.FindOwn(isCheck)) == 0 || splicedEverywhere(p, pkgSer, fd) {
			continue
		}
		n++
		allowed := map[Edge]bool{}
		f.forEachEdgeFact(func(e Edge, b *cfg.Block, ft fact) {
			if cl, isCall := ast.Unparen(ft.Atom).(*ast.CallExpr); isCall && !ft.Pol && len(cl.Args) == 1 {
				if se, isSel := ast.Unparen(cl.Fun).(*ast.SelectorExpr); isSel && se.Sel.Name == "HasMode" && strings.HasSuffix(rawKey(cl.Args[0]), "PerformValidation") {
					allowed[e] = true // validation is off
				}
			}
			if x, nonNilOnTrue, isTest := nilTest(info, ft.Atom); isTest && nonNilOnTrue == ft.Pol {
				if t := info.TypeOf(x); t != nil && types.Identical(t, errorType) {
					allowed[e] = true // an error occurred
				}
			}
		})
		if w, found := f.reach(f.entry(), &searchOpts{AvoidNode: isCheck, AvoidEdge: func(e Edge) bool { return allowed[e] }}, func(pt Point, atExit bool) bool { return atExit }); found {
			r.Fail(rule, fkey, p.posStr(fd.Pos()), "a path ends without an error, with validation on, and without the element count having been checked against the array bounds (CheckBounds): a count the rules forbid - e.g. an empty sequence below the minimum - is accepted", w...)
		} else {
			r.Pass(rule, fkey, p.posStr(fd.Pos()), "every exit that skips CheckBounds is behind a validation-off or an error edge")
		}
	}
	if n < 2 {
		r.Fail(rule, pkgSer, "-", fmt.Sprintf("expected the sequence writer and reader that check array bounds, found %d (vacuous)", n))
	}
}

// checkStickyErrorSurfaced: serializer.Deserializer records the first error and turns every later
// read into a no-op; the error only reaches the caller through Done(). A decoding function of serix
// that creates a Deserializer must therefore pass its Done() on every path that ends without an
// error of its own - otherwise a mismatching type prefix, a short read or a failed validation is
// silently dropped and non-canonical input is accepted.
func checkStickyErrorSurfaced(r *Reporter, p *Prog) {
	const rule = "err/sticky-deserializer-done"
	pk := p.Pkg(pkgSerix)
	if pk == nil {
		r.Unresolved(rule, pkgSerix, "package not loaded")
		return
	}
	info := pk.TypesInfo
	n := 0
	for _, fd := range p.AllFuncDecls(pkgSerix) {
		if fd.Body == nil || strings.HasSuffix(p.Fset.Position(fd.Pos()).Filename, "_test.go") {
			continue
		}
		// only functions that report an error themselves
		sig, _ := info.Defs[fd.Name].Type().(*types.Signature)
		if sig == nil || sig.Results().Len() == 0 || !types.Identical(sig.Results().At(sig.Results().Len()-1).Type(), errorType) {
			continue
		}
		fkey := funcKey(pkgSerix, fd)
		var f *FuncCFG
		inspectNoLit(fd.Body, func(nd ast.Node) bool {
			as, ok := nd.(*ast.AssignStmt)
			if !ok || len(as.Lhs) != 1 || len(as.Rhs) != 1 {
				return true
			}
			c, ok := ast.Unparen(as.Rhs[0]).(*ast.CallExpr)
			if !ok || !strings.HasSuffix(rawKey(c.Fun), "serializer.NewDeserializer") {
				return true
			}
			v := objOfIdent(info, as.Lhs[0])
			if v == nil {
				return true
			}
			if f == nil {
				f = newFuncCFG(p, info, fd.Body, fkey)
			}
			pt, found := f.PointOf(as)
			if !found {
				return true
			}
			n++
			key := fmt.Sprintf("%s in %s", v.Name(), fkey)
			isDone := func(m ast.Node) bool {
				dc, ok := m.(*ast.CallExpr)
				if !ok {
					return false
				}
				se, ok := ast.Unparen(dc.Fun).(*ast.SelectorExpr)
				if !ok || se.Sel.Name != "Done" {
					return false
				}
				if objOfIdent(info, se.X) == v {
					return true
				}
				dpt, okp := f.PointOf(dc)
				return okp && f.IsVar(se.X, dpt, v)
			}
			// uses that can leave a sticky error behind: a chaining method (it returns the deserializer
			// itself, the error stays inside), or the deserializer handed to another function
			_ = pt
			var w []string
			bad := false
			for _, up := range f.Find(func(m ast.Node) bool {
				uc, ok := m.(*ast.CallExpr)
				if !ok || isDone(uc) {
					return false
				}
				if se, isSel := ast.Unparen(uc.Fun).(*ast.SelectorExpr); isSel && objOfIdent(info, se.X) == v {
					if t := info.TypeOf(uc); t != nil && strings.HasSuffix(typeName(t), "serializer.Deserializer") {
						return true
					}
					return false
				}
				for _, a := range uc.Args {
					if objOfIdent(info, a) == v {
						return true
					}
				}
				return false
			}) {
				if ww, found := f.reach(Point{up.B, up.I + 1}, &searchOpts{AvoidNode: isDone, AvoidRet: func(rs *ast.ReturnStmt, val func(ast.Expr) int8) bool {
					return len(rs.Results) > 0 && val(rs.Results[len(rs.Results)-1]) > 0 // a failure return of its own
				}}, func(q Point, atExit bool) bool { return atExit }); found && !bad {
					// the use itself may be `return d.Read...().Done()`: the node contains Done
					if containsMatch(f.nodeAt(up), isDone) {
						continue
					}
					w, bad = ww, true
				}
			}
			if bad {
				r.Fail(rule, key, p.posStr(as.Pos()), "a path returns without an error of its own and without Done() of the deserializer it created: an error recorded by an earlier read or prefix check (sticky) is dropped and the input is accepted", w...)
			} else {
				r.Pass(rule, key, p.posStr(as.Pos()), "every non-failing exit passes Done()")
			}
			return true
		})
	}
	if n < 3 {
		r.Fail(rule, pkgSerix, "-", fmt.Sprintf("expected the decoding functions that create a Deserializer, found %d (vacuous)", n))
	}
}

func runC03(c *Ctx) {
	p := loadSerializer(c)
	if p == nil {
		return
	}
	r := c.R
	checkBoundsBeforeSuccess(r, p)
	checkStickyErrorSurfaced(r, p)
	checkTrustedHelpers(r, p, []trustedHelper{{Pkg: "serializer/byteutils", Name: "ConcatBytes"}})
	// (1) endianness
	count := func(prog *Prog, pkgs []string) (nonLittle []string, nLittle, nRW int, badRW []string) {
		for _, pkg := range pkgs {
			pk := prog.Pkg(pkg)
			if pk == nil {
				continue
			}
			for _, f := range pk.Syntax {
				if strings.HasSuffix(prog.Fset.Position(f.Pos()).Filename, "_test.go") {
					continue
				}
				ast.Inspect(f, func(n ast.Node) bool {
					switch x := n.(type) {
					case *ast.SelectorExpr:
						if obj, ok := pk.TypesInfo.Uses[x.Sel].(*types.Var); ok && obj.Pkg() != nil && obj.Pkg().Path() == "encoding/binary" {
							switch obj.Name() {
							case "LittleEndian":
								nLittle++
							case "BigEndian", "NativeEndian":
								nonLittle = append(nonLittle, prog.posStr(x.Pos())+" binary."+obj.Name())
							}
						}
					case *ast.CallExpr:
						if fn, ok := pk.TypesInfo.Uses[selIdent(x.Fun)].(*types.Func); ok && fn.Pkg() != nil && fn.Pkg().Path() == "encoding/binary" && (funcName(fn) == "Write" || funcName(fn) == "Read") {
							nRW++
							if len(x.Args) < 2 || exprKey(x.Args[1]) != "binary.LittleEndian" {
								badRW = append(badRW, prog.posStr(x.Pos())+" "+exprKey(x))
							}
						}
					}
					return true
				})
			}
		}
		return
	}
	nonLittle, nLittle, nRW, badRW := count(p, []string{pkgSer, pkgSerix, pkgStream, pkgTypeU, "serializer/byteutils"})
	if len(nonLittle) > 0 || len(badRW) > 0 {
		r.Fail("endian/little-only", "serializer packages", "-", fmt.Sprintf("the wire format is little-endian; found %v %v (a flip on both sides passes every round-trip test and changes every byte on the wire)", nonLittle, badRW))
	} else if nLittle < 10 || nRW < 3 {
		r.Fail("endian/little-only", "serializer packages", "-", fmt.Sprintf("expected many LittleEndian uses, found %d and %d binary.Read/Write calls (vacuous)", nLittle, nRW))
	} else {
		r.Pass("endian/little-only", "serializer packages", "-", fmt.Sprintf("%d references to binary.LittleEndian, %d binary.Read/Write calls all little-endian, no other byte order", nLittle, nRW))
	}
	// positive fixture from this repository: kvstore.Sequence deliberately uses BigEndian
	if pk := c.Load("kvstore"); pk != nil {
		big, _, _, _ := count(pk, []string{"kvstore"})
		if len(big) >= 2 {
			r.Pass("endian/matcher-self-test", "kvstore (uses binary.BigEndian)", "-", fmt.Sprintf("the matcher finds %d big-endian references where they exist", len(big)))
		} else {
			r.Fail("endian/matcher-self-test", "kvstore (uses binary.BigEndian)", "-", "the byte-order matcher no longer sees the known BigEndian references in kvstore/sequence.go: it would pass vacuously")
		}
	}
	// (2) tables
	checkPrefixTables(r, p, "table/length-prefix")
	checkNumWidths(r, p, "table/number-width")
	infoS := p.Pkg(pkgSer).TypesInfo
	if s, fd := srcOf(p, pkgSer, "Serializer", "writePayloadLength"); fd != nil {
		if writesFixedLE(infoS, fd, "uint32") {
			r.Pass("table/payload-marker", pkgSer+".Serializer.writePayloadLength", p.posStr(fd.Pos()), "uint32 little-endian marker")
		} else {
			r.Fail("table/payload-marker", pkgSer+".Serializer.writePayloadLength", p.posStr(fd.Pos()), "payload/optional length marker must be written as a little-endian uint32: "+s)
		}
	} else {
		r.Unresolved("table/payload-marker", pkgSer+".Serializer.writePayloadLength", "function not found")
	}
	if s, fd := srcOf(p, pkgSer, "Deserializer", "ReadPayloadLength"); fd != nil {
		if readsFixedLE(infoS, fd, "Uint32") && strings.Contains(s, "PayloadLengthByteSize") {
			r.Pass("table/payload-marker", pkgSer+".Deserializer.ReadPayloadLength", p.posStr(fd.Pos()), "uint32 little-endian marker")
		} else {
			r.Fail("table/payload-marker", pkgSer+".Deserializer.ReadPayloadLength", p.posStr(fd.Pos()), "payload/optional length marker must be read as a little-endian uint32: "+s)
		}
	}
	if o := p.Pkg(pkgSer).Types.Scope().Lookup("PayloadLengthByteSize"); o != nil {
		if cst, ok := o.(*types.Const); ok && cst.Val().String() == "4" {
			r.Pass("table/payload-marker", pkgSer+".PayloadLengthByteSize", "-", "4 bytes")
		} else {
			r.Fail("table/payload-marker", pkgSer+".PayloadLengthByteSize", "-", "PayloadLengthByteSize must be 4")
		}
	}
	// (3) booleans
	if fd := p.FuncDecl(pkgSer, "Deserializer", "ReadBool"); fd == nil {
		r.Unresolved("bool/strict", pkgSer+".Deserializer.ReadBool", "function not found")
	} else {
		// whatever the dispatch form: false only on the byte==0 edge, true only on the byte==1
		// edge, and the offset advances (the byte is accepted) only through one of these edges
		f := newFuncCFG(p, p.Pkg(pkgSer).TypesInfo, fd.Body, "ReadBool")
		byteIs := func(v string) []Edge {
			return f.RelEdges(func(rel Rel) bool {
				return rel.Op == "==" && (rel.R == v && strings.Contains(rel.L, ".src[") || rel.L == v && strings.Contains(rel.R, ".src["))
			})
		}
		zero, one := byteIs("0"), byteIs("1")
		assigns := func(v string) []Point {
			return f.Find(func(n ast.Node) bool {
				as, ok := n.(*ast.AssignStmt)
				return ok && len(as.Lhs) == 1 && len(as.Rhs) == 1 && exprKey(as.Lhs[0]) == "*dest" && exprKey(as.Rhs[0]) == v
			})
		}
		advance := f.Find(func(n ast.Node) bool {
			switch x := n.(type) {
			case *ast.AssignStmt:
				return len(x.Lhs) == 1 && strings.HasSuffix(exprKey(x.Lhs[0]), ".offset")
			case *ast.IncDecStmt:
				return strings.HasSuffix(exprKey(x.X), ".offset")
			}
			return false
		})
		var bad []string
		if len(zero) == 0 || len(one) == 0 {
			bad = append(bad, "no test of the byte against 0 and against 1")
		}
		fs, ts := assigns("false"), assigns("true")
		if len(fs) == 0 || len(ts) == 0 || len(advance) == 0 {
			bad = append(bad, "expected *dest = false, *dest = true and an offset advance")
		}
		for _, pt := range fs {
			if _, only := f.OnlyThroughEdges(pt, zero); !only {
				bad = append(bad, f.PosOf(pt)+": false is stored for a byte other than 0")
			}
		}
		for _, pt := range ts {
			if _, only := f.OnlyThroughEdges(pt, one); !only {
				bad = append(bad, f.PosOf(pt)+": true is stored for a byte other than 1")
			}
		}
		for _, pt := range advance {
			if w, only := f.OnlyThroughEdges(pt, append(append([]Edge{}, zero...), one...)); !only {
				bad = append(bad, f.PosOf(pt)+": the byte is consumed although it is neither 0 nor 1: "+strings.Join(w, " -> "))
			}
		}
		if len(bad) == 0 {
			r.Pass("bool/strict", pkgSer+".Deserializer.ReadBool", p.posStr(fd.Pos()), "0 -> false, 1 -> true, anything else is not consumed (error)")
		} else {
			r.Fail("bool/strict", pkgSer+".Deserializer.ReadBool", p.posStr(fd.Pos()), "booleans must decode strictly (0/1, error otherwise): "+bad[0], bad...)
		}
	}
	if s, fd := srcOf(p, pkgSer, "Serializer", "WriteBool"); fd != nil {
		_ = s
		if writesOnlyZeroOrOne(p, infoS, fd) {
			r.Pass("bool/strict", pkgSer+".Serializer.WriteBool", p.posStr(fd.Pos()), "writes 0 or 1")
		} else {
			r.Fail("bool/strict", pkgSer+".Serializer.WriteBool", p.posStr(fd.Pos()), "WriteBool must write exactly 0 or 1: "+s)
		}
	}
	// (4) canonical decoding
	for _, row := range []struct{ recv, name string }{{"Deserializer", "ReadSequenceOfObjects"}, {"Serializer", "WriteSliceOfByteSlices"}} {
		f := p.CFGOf(pkgSer, row.recv, row.name)
		key := pkgSer + "." + row.recv + "." + row.name
		if f == nil {
			r.Unresolved("canonical/validators-both-sides", key, "function not found")
			continue
		}
		valT, _ := f.CondEdges(func(e ast.Expr) bool {
			return exprKey(e) == "deSeriMode.HasMode(DeSeriModePerformValidation)"
		})
		bad := len(valT) == 0
		for _, e := range valT {
			for _, want := range []string{".CheckBounds", ".ElementValidationFunc"} {
				if _, found := f.reach(Point{e.From.Succs[e.Succ], 0}, &searchOpts{AvoidNode: func(n ast.Node) bool {
					cl, ok := n.(*ast.CallExpr)
					return ok && strings.HasSuffix(exprKey(cl.Fun), want)
				}}, func(pt Point, atExit bool) bool {
					if atExit {
						return false
					}
					// reaching the per-element work without the validator set up
					return containsMatch(f.nodeAt(pt), func(m ast.Node) bool {
						cl, ok := m.(*ast.CallExpr)
						if !ok {
							return false
						}
						if t := infoS.TypeOf(cl.Fun); t != nil && strings.HasSuffix(t.String(), ".DeserializeFunc") {
							return true
						}
						return strings.HasSuffix(exprKey(cl.Fun), ".buf.Write")
					})
				}); found {
					bad = true
				}
			}
		}
		// the element validator is applied to every element
		// (a call of a value of type ElementValidationFunc, in the function or a helper spliced into it)
		applied := len(f.Find(func(n ast.Node) bool {
			cl, ok := n.(*ast.CallExpr)
			if !ok || len(cl.Args) != 2 {
				return false
			}
			t := infoS.TypeOf(cl.Fun)
			return t != nil && strings.HasSuffix(t.String(), ".ElementValidationFunc")
		})) > 0
		if os.Getenv("HC_DBG") != "" {
			println("DBG validators", key, "valT", len(valT), "bad", bad, "applied", applied)
		}
		if bad || !applied {
			r.Fail("canonical/validators-both-sides", key, f.P.posStr(f.Body.Pos()), "under the validation bit both sides must check the bounds and run the element validator on every element; otherwise the decoder accepts bytes the encoder could never produce (or vice versa)")
		} else {
			r.Pass("canonical/validators-both-sides", key, f.P.posStr(f.Body.Pos()), "CheckBounds + ElementValidationFunc under the validation bit, applied per element")
		}
	}
	infoX := p.Pkg(pkgSerix).TypesInfo
	_ = infoX
	_ = infoS
	if fd := p.FuncDecl(pkgSerix, "API", "decodeMap"); fd == nil {
		r.Unresolved("canonical/map", pkgSerix+".API.decodeMap", "function not found")
	} else {
		s, _ := srcOf(p, pkgSerix, "API", "decodeMap")
		_ = s
		// lexical ordering is forced (on a private copy of the rules) on every successful path
		okOrder := forcesLexicalOrdering(p, fd) == ""
		// every insert into a decoded map (binary decoder: decode.go, whichever function or literal
		// holds it) is reachable only through the edge on which the key is known to be absent
		okDup, nSets := true, 0
		for _, dfd := range p.AllFuncDecls(pkgSerix) {
			if dfd.Body == nil || !strings.HasSuffix(p.Fset.Position(dfd.Pos()).Filename, "/decode.go") {
				continue
			}
			bodies := []*ast.BlockStmt{dfd.Body}
			ast.Inspect(dfd.Body, func(n ast.Node) bool {
				if l, ok := n.(*ast.FuncLit); ok {
					bodies = append(bodies, l.Body)
				}
				return true
			})
			for _, body := range bodies {
				lf := newFuncCFG(p, infoX, body, "map insert")
				for _, spt := range lf.Find(func(n ast.Node) bool {
					cl, ok := n.(*ast.CallExpr)
					return ok && strings.HasSuffix(exprKey(cl.Fun), ".SetMapIndex") && len(cl.Args) == 2
				}) {
					var cl *ast.CallExpr
					inspectNoLit(lf.nodeAt(spt), func(n ast.Node) bool {
						if c, ok := n.(*ast.CallExpr); ok && strings.HasSuffix(exprKey(c.Fun), ".SetMapIndex") && len(c.Args) == 2 {
							cl = c
						}
						return true
					})
					if cl == nil {
						continue
					}
					nSets++
					recv := strings.TrimSuffix(exprKey(cl.Fun), ".SetMapIndex")
					want := recv + ".MapIndex(" + exprKey(cl.Args[0]) + ").IsValid()"
					_, fresh := lf.CondEdges(func(e ast.Expr) bool { return exprKey(e) == want })
					if _, only := lf.OnlyThroughEdges(spt, fresh); !only {
						okDup = false
					}
				}
			}
		}
		if nSets == 0 {
			okDup = false
		}
		if okOrder && okDup {
			r.Pass("canonical/map", pkgSerix+".API.decodeMap", p.posStr(fd.Pos()), "lexical ordering is forced on decode and a key is inserted only if it is not present yet (duplicates rejected)")
		} else {
			r.Fail("canonical/map", pkgSerix+".API.decodeMap", p.posStr(fd.Pos()), fmt.Sprintf("decodeMap must force lexical ordering (%v) and reject duplicate keys before SetMapIndex (%v): otherwise several byte strings decode to the same map", okOrder, okDup))
		}
	}
	if f := p.CFGOf(pkgSerix, "API", "decodeStructFields"); f != nil {
		mism := f.RelEdges(func(rel Rel) bool {
			return rel.Op == "!=" && strings.Contains(rel.L+rel.R, "bytesRead") && strings.Contains(rel.L+rel.R, "payloadLength")
		})
		ok := len(mism) > 0
		for _, e := range mism {
			if _, found := f.reach(Point{e.From.Succs[e.Succ], 0}, &searchOpts{AvoidNode: func(n ast.Node) bool {
				rs, isRet := n.(*ast.ReturnStmt)
				return isRet && len(rs.Results) == 1 && !isNil(f.Info, rs.Results[0])
			}}, func(pt Point, atExit bool) bool {
				if atExit {
					return true
				}
				cl, isCall := f.nodeAt(pt).(*ast.ExprStmt)
				return isCall && strings.HasSuffix(exprKey(cl.X.(*ast.CallExpr).Fun), ".Skip")
			}); found {
				ok = false
			}
		}
		if ok {
			r.Pass("canonical/optional-length", pkgSerix+".API.decodeStructFields", f.P.posStr(f.Body.Pos()), "an optional marker that differs from the bytes consumed returns an error")
		} else {
			r.Fail("canonical/optional-length", pkgSerix+".API.decodeStructFields", f.P.posStr(f.Body.Pos()), "the optional-field length marker must equal the bytes actually consumed, otherwise decoding must fail")
		}
	}
	// (5) comparators: the two lexical validators, read on edge facts of the returned literal. C is
	// bytes.Compare(prev, next) (through temporaries). The order error is returned only where C > 0
	// is known (C == 1 is the same fact for a three-valued Compare), the duplicate error only where
	// C == 0 is known; and on those edges a nil return is not reachable.
	for _, row := range []struct {
		name string
		dups bool
	}{{"LexicalOrderValidator", false}, {"LexicalOrderWithoutDupsValidator", true}} {
		fd := p.FuncDecl(pkgSer, "ArrayRules", row.name)
		key := pkgSer + ".ArrayRules." + row.name
		if fd == nil {
			r.Unresolved("cmp/lexical", key, "function not found")
			continue
		}
		// the validator: a literal returned here, or by a shared constructor of the package that declares
		// the literal's state and returns it (`return newValidator(false)`); constant flag arguments of
		// that constructor fix the corresponding branches inside the literal
		var lit *ast.FuncLit
		flags := map[types.Object]bool{}
		ast.Inspect(fd.Body, func(n ast.Node) bool {
			if rs, ok := n.(*ast.ReturnStmt); ok && len(rs.Results) == 1 {
				switch x := ast.Unparen(rs.Results[0]).(type) {
				case *ast.FuncLit:
					lit = x
				case *ast.CallExpr:
					if l, bind := statefulClosureFactory(p, infoS, x); l != nil {
						lit = l
						for po, a := range bind {
							if tv, ok := infoS.Types[a]; ok && tv.Value != nil && tv.Value.Kind() == constant.Bool {
								flags[po] = constant.BoolVal(tv.Value)
							}
						}
					}
				}
			}
			return true
		})
		if lit == nil || len(lit.Type.Params.List) < 2 {
			r.Fail("cmp/lexical", key, p.posStr(fd.Pos()), "the validator must return a function literal (index, next)")
			continue
		}
		lf := newFuncCFG(p, infoS, lit.Body, key)
		feasible := func(pt Point) bool {
			if len(flags) == 0 {
				return true
			}
			_, ok := lf.reach(lf.entry(), &searchOpts{InitFacts: flags}, func(q Point, atExit bool) bool { return !atExit && lf.At(q, pt) })
			return ok
		}
		lf.CallsOpaque = true
		isC := func(k string) bool {
			return strings.HasPrefix(k, "bytes.Compare(") && strings.HasSuffix(k, ")") && strings.Count(k, ",") == 1
		}
		// the operands must be (previous element, this element): the second is the literal's last parameter
		nextName := ""
		if pl := lit.Type.Params.List; len(pl[len(pl)-1].Names) > 0 {
			nextName = pl[len(pl)-1].Names[len(pl[len(pl)-1].Names)-1].Name
		}
		argsOK := func(k string) bool { return strings.HasSuffix(k, ","+nextName+")") }
		gt := lf.RelEdgesAt(func(rel Rel) bool {
			return (rel.Op == "<" && rel.L == "0" && isC(rel.R) && argsOK(rel.R)) || (rel.Op == "==" && rel.L == "1" && isC(rel.R) && argsOK(rel.R)) || (rel.Op == "<=" && rel.L == "1" && isC(rel.R) && argsOK(rel.R))
		})
		eq := lf.RelEdgesAt(func(rel Rel) bool { return rel.Op == "==" && rel.L == "0" && isC(rel.R) && argsOK(rel.R) })
		lf.CallsOpaque = false
		var problems []string
		nOrder, nDup := 0, 0
		isNilRet := func(pt Point, atExit bool) bool {
			if atExit {
				return false
			}
			rs, ok := lf.nodeAt(pt).(*ast.ReturnStmt)
			return ok && len(rs.Results) == 1 && isNil(infoS, rs.Results[0])
		}
		for _, pt := range lf.Find(func(n ast.Node) bool { _, ok := n.(*ast.ReturnStmt); return ok }) {
			rs := lf.nodeAt(pt).(*ast.ReturnStmt)
			if len(rs.Results) != 1 || !feasible(pt) {
				continue
			}
			k := exprKey(rs.Results[0])
			switch {
			case strings.Contains(k, "ErrArrayValidationOrderViolatesLexicalOrder"):
				nOrder++
				if _, only := lf.OnlyThroughEdges(pt, gt); !only {
					problems = append(problems, "the order violation is reported on a path that has not established Compare(prev, next) > 0")
				}
			case strings.Contains(k, "ErrArrayValidationViolatesUniqueness"):
				nDup++
				if _, only := lf.OnlyThroughEdges(pt, eq); !only {
					problems = append(problems, "the duplicate error is reported on a path that has not established Compare(prev, next) == 0")
				}
			}
		}
		for _, e := range gt {
			e := e
			if _, found := lf.reach(Point{e.From.Succs[e.Succ], 0}, &searchOpts{FromEdge: &e, InitFacts: flags}, isNilRet); found {
				problems = append(problems, "an out-of-order element (Compare > 0) can be accepted")
			}
		}
		if row.dups {
			for _, e := range eq {
				e := e
				if _, found := lf.reach(Point{e.From.Succs[e.Succ], 0}, &searchOpts{FromEdge: &e, InitFacts: flags}, isNilRet); found {
					problems = append(problems, "a duplicate element (Compare == 0) can be accepted")
				}
			}
			if nDup == 0 || len(eq) == 0 {
				problems = append(problems, "no duplicate rejection on Compare == 0")
			}
		} else if nDup > 0 {
			problems = append(problems, "the plain order validator must allow equal elements")
		}
		if nOrder == 0 || len(gt) == 0 {
			problems = append(problems, "no order-violation rejection on Compare(prev, next) > 0")
		}
		if len(problems) == 0 {
			r.Pass("cmp/lexical", key, p.posStr(fd.Pos()), "Compare(prev, next) > 0 -> order violation"+map[bool]string{true: ", == 0 -> duplicate", false: " (equal elements allowed)"}[row.dups])
		} else {
			r.Fail("cmp/lexical", key, p.posStr(fd.Pos()), strings.Join(problems, "; "))
		}
	}
	checkTimestampSaturation(r, p)
	checkArrayExactCount(r, p)
}

func selIdent(e ast.Expr) *ast.Ident {
	switch x := ast.Unparen(e).(type) {
	case *ast.Ident:
		return x
	case *ast.SelectorExpr:
		return x.Sel
	}
	return nil
}

func firstIdentObj(info *types.Info, e ast.Expr) types.Object {
	var o types.Object
	ast.Inspect(e, func(n ast.Node) bool {
		if id, ok := n.(*ast.Ident); ok && o == nil {
			o = objOfIdent(info, id)
		}
		return o == nil
	})
	return o
}

// checkFreshTargetPerItem: every value appended to a decoded slice or inserted into a decoded
// map is a variable created with reflect.New inside the per-item scope (the innermost enclosing
// function literal or loop body) of the append. A decode target hoisted out of that scope is
// shared by all items: nested slices/maps accumulate earlier items' entries, optional pointers
// of earlier items leak into later ones.
func checkFreshTargetPerItem(r *Reporter, p *Prog) {
	info := p.Pkg(pkgSerix).TypesInfo
	n := 0
	for _, fd := range p.AllFuncDecls(pkgSerix) {
		fn := p.Fset.Position(fd.Pos()).Filename
		if fd.Body == nil || !(strings.HasSuffix(fn, "/decode.go") || strings.HasSuffix(fn, "/map_decode.go")) {
			continue
		}
		fkey := funcKey(pkgSerix, fd)
		var stack []ast.Node
		ast.Inspect(fd.Body, func(nd ast.Node) bool {
			if nd == nil {
				stack = stack[:len(stack)-1]
				return true
			}
			stack = append(stack, nd)
			cl, ok := nd.(*ast.CallExpr)
			if !ok {
				return true
			}
			var elems []ast.Expr
			switch k := exprKey(cl.Fun); {
			case k == "reflect.Append" && len(cl.Args) >= 2:
				elems = cl.Args[1:]
			case strings.HasSuffix(k, ".SetMapIndex") && len(cl.Args) == 2:
				elems = cl.Args
			default:
				return true
			}
			// innermost per-item scope: a loop body, an item closure, or - outside any loop - the
			// function itself (a variable defined in a function body is fresh for every call)
			var scope ast.Node
			for i := len(stack) - 2; i >= 0 && scope == nil; i-- {
				switch s := stack[i].(type) {
				case *ast.FuncLit:
					scope = s.Body
				case *ast.ForStmt:
					scope = s.Body
				case *ast.RangeStmt:
					scope = s.Body
				}
			}
			if scope == nil {
				scope = fd.Body
			}
			for _, e := range elems {
				n++
				key := fmt.Sprintf("%s in %s of %s", exprKey(e), exprKey(cl.Fun), fkey)
				id, isId := ast.Unparen(e).(*ast.Ident)
				obj := objOfIdent(info, e)
				switch {
				case scope == nil:
					r.Fail("decode/fresh-target-per-item", key, p.posStr(cl.Pos()), "collection insert outside any per-item scope (loop body or item closure): cannot establish one fresh element per item")
				case !isId || obj == nil:
					r.Fail("decode/fresh-target-per-item", key, p.posStr(cl.Pos()), "inserted element is not a plain variable: cannot establish that it is fresh per item")
				case obj.Pos() < scope.Pos() || obj.Pos() > scope.End():
					r.Fail("decode/fresh-target-per-item", key, p.posStr(cl.Pos()), fmt.Sprintf("the decode target %s is created outside the per-item scope (at %s) and reused for every item: state decoded for earlier items (nested slices, maps, optional pointers) leaks into later ones", id.Name, p.posStr(obj.Pos())))
				default:
					// defined in scope: must come from reflect.New
					fresh := false
					ast.Inspect(scope, func(m ast.Node) bool {
						if as, ok := m.(*ast.AssignStmt); ok && as.Tok == token.DEFINE {
							for i, l := range as.Lhs {
								if li, ok := l.(*ast.Ident); ok && info.Defs[li] == obj && i < len(as.Rhs) && strings.HasPrefix(exprKey(as.Rhs[i]), "reflect.New(") {
									fresh = true
								}
							}
						}
						return true
					})
					if fresh {
						r.Pass("decode/fresh-target-per-item", key, p.posStr(cl.Pos()), "created with reflect.New inside the per-item scope")
					} else {
						r.Fail("decode/fresh-target-per-item", key, p.posStr(cl.Pos()), "the inserted element is not created with reflect.New inside the per-item scope")
					}
				}
			}
			return true
		})
	}
	if n < 6 {
		r.Fail("decode/fresh-target-per-item", pkgSerix, "-", fmt.Sprintf("expected at least 6 inserted elements (2 slice appends, 2x2 map inserts), found %d", n))
	}
}

// checkReflectOnInputValues: a reflect.Value built from input data (reflect.ValueOf(x) in the
// decode files, directly or through a variable) has a dynamic kind and length chosen by the
// input. Operations with panicking preconditions on it must be dominated by the matching test:
// Len/Index/Slice by a Kind() comparison, Convert by CanConvert or a length comparison (a
// slice-to-array conversion panics when the slice is shorter than the array).
func checkReflectOnInputValues(r *Reporter, p *Prog) {
	info := p.Pkg(pkgSerix).TypesInfo
	needsKind := map[string]bool{"Len": true, "Index": true, "Slice": true, "Slice3": true, "MapIndex": true, "MapKeys": true, "MapRange": true, "Elem": true, "Field": true, "NumField": true, "SetLen": true, "Cap": true}
	n := 0
	for _, fd := range p.AllFuncDecls(pkgSerix) {
		fn := p.Fset.Position(fd.Pos()).Filename
		if fd.Body == nil || !(strings.HasSuffix(fn, "/decode.go") || strings.HasSuffix(fn, "/map_decode.go")) {
			continue
		}
		fkey := funcKey(pkgSerix, fd)
		// variables holding reflect.ValueOf(...)
		vars := map[types.Object]bool{}
		ast.Inspect(fd.Body, func(nd ast.Node) bool {
			if as, ok := nd.(*ast.AssignStmt); ok && len(as.Lhs) == len(as.Rhs) {
				for i, rhs := range as.Rhs {
					if strings.HasPrefix(exprKey(rhs), "reflect.ValueOf(") {
						if o := objOfIdent(info, as.Lhs[i]); o != nil {
							vars[o] = true
						}
					}
				}
			}
			return true
		})
		f := newFuncCFG(p, info, fd.Body, fkey)
		for _, b := range f.G.Blocks {
			if !b.Live {
				continue
			}
			for i, nd := range b.Nodes {
				pt := Point{b, i}
				inspectNoLit(nd, func(m ast.Node) bool {
					cl, ok := m.(*ast.CallExpr)
					if !ok {
						return true
					}
					se, ok := ast.Unparen(cl.Fun).(*ast.SelectorExpr)
					if !ok {
						return true
					}
					recvKey := exprKey(se.X)
					isInput := strings.HasPrefix(recvKey, "reflect.ValueOf(") || vars[objOfIdent(info, se.X)]
					if !isInput {
						return true
					}
					op := se.Sel.Name
					key := fmt.Sprintf("%s.%s in %s", recvKey, op, fkey)
					switch {
					case needsKind[op]:
						n++
						kindEdges := f.RelEdges(func(rel Rel) bool {
							return rel.Op == "==" && (rel.L == recvKey+".Kind()" || rel.R == recvKey+".Kind()")
						})
						if w, only := f.OnlyThroughEdges(pt, kindEdges); only {
							r.Pass("reflect/input-value-guarded", key, p.posStr(cl.Pos()), "dominated by a Kind() test of the same value")
						} else {
							r.Fail("reflect/input-value-guarded", key, p.posStr(cl.Pos()), "reflect."+op+" on a value built from input without a dominating Kind() test: an input of another shape panics", w...)
						}
					case op == "Convert":
						n++
						okEdges, _ := f.CondEdges(func(e ast.Expr) bool { return strings.HasPrefix(exprKey(e), recvKey+".CanConvert(") })
						lenEdges := f.RelEdges(func(rel Rel) bool {
							return strings.Contains(rel.L+" "+rel.R, "len(") || strings.Contains(rel.L+" "+rel.R, ".Len()")
						})
						if w, only := f.OnlyThroughEdges(pt, append(okEdges, lenEdges...)); only {
							r.Pass("reflect/input-value-guarded", key, p.posStr(cl.Pos()), "dominated by CanConvert or a length comparison")
						} else {
							r.Fail("reflect/input-value-guarded", key, p.posStr(cl.Pos()), "reflect.Convert of a value built from input (a slice-to-array conversion panics when the input is shorter than the array) without a dominating CanConvert or length test", w...)
						}
					}
					return true
				})
			}
		}
	}
	if n < 2 {
		r.Fail("reflect/input-value-guarded", pkgSerix, "-", fmt.Sprintf("expected at least the 2 tabled Len/Index uses on input values, found %d", n))
	}
}

// inputSliceExempt: one named construct each, with the reason.
var inputSliceExempt = map[string]string{
	"srcBefore[:bytesRead] in serializer.Deserializer.ReadSequenceOfObjects": "bytesRead is the offset advance since srcBefore (= src[offset:]) was taken; every advance of the offset is bounds-guarded by deser/offset-advance-guarded",
}

// checkInputSlicesBounded: C02 outside the Deserializer's own source field. Every slice or index
// expression on a byte slice that comes from the input (a []byte parameter, RemainingBytes(), or a
// re-slice of one) must have each non-trivial bound either
//   - guarded: the site is reachable only through an edge on which  bound <= len(base)  (index:
//     bound < len(base)) is known, or
//   - a consumed count: the int result of a call that was handed the same slice (decoder contract:
//     a decoder reports at most the bytes it was given).
//
// A bound taken from the input itself (a length prefix) without such a guard panics with "slice
// bounds out of range" on truncated input.
func checkInputSlicesBounded(r *Reporter, p *Prog) {
	const rule = "input/slice-bounded"
	n := 0
	for _, pkg := range []string{pkgSerix, pkgSer} {
		pk := p.Pkg(pkg)
		if pk == nil {
			r.Unresolved(rule, pkg, "package not loaded")
			continue
		}
		info := pk.TypesInfo
		isBytes := func(e ast.Expr) bool {
			t := info.TypeOf(e)
			if t == nil {
				return false
			}
			s, ok := t.Underlying().(*types.Slice)
			if !ok {
				return false
			}
			b, ok := s.Elem().Underlying().(*types.Basic)
			return ok && b.Kind() == types.Uint8
		}
		for _, fd := range p.AllFuncDecls(pkg) {
			if fd.Body == nil || strings.HasSuffix(p.Fset.Position(fd.Pos()).Filename, "_test.go") {
				continue
			}
			// the function body and every function literal in it (validators are returned closures)
			type unit struct {
				body   *ast.BlockStmt
				params *ast.FieldList
				name   string
			}
			units := []unit{{fd.Body, fd.Type.Params, funcKey(pkg, fd)}}
			ast.Inspect(fd.Body, func(nd ast.Node) bool {
				if l, ok := nd.(*ast.FuncLit); ok {
					units = append(units, unit{l.Body, l.Type.Params, funcKey(pkg, fd) + "$lit"})
				}
				return true
			})
			for _, u := range units {
				paramObjs := map[types.Object]bool{}
				if u.params != nil {
					for _, fl := range u.params.List {
						for _, nm := range fl.Names {
							if o := info.Defs[nm]; o != nil {
								paramObjs[o] = true
							}
						}
					}
				}
				var f *FuncCFG
				// fromInput: the base is a []byte parameter, RemainingBytes(), or a re-slice of one
				var fromInput func(e ast.Expr, pt Point, depth int) bool
				fromInput = func(e ast.Expr, pt Point, depth int) bool {
					if depth <= 0 {
						return false
					}
					switch x := ast.Unparen(e).(type) {
					case *ast.Ident:
						o := objOfIdent(info, x)
						if o == nil {
							return false
						}
						defs, fromEntry := f.ReachingDefs(pt, o)
						if paramObjs[o] && (fromEntry || len(defs) == 0) {
							return true
						}
						for _, d := range defs {
							if d.Rhs != nil && fromInput(d.Rhs, d.At, depth-1) {
								return true
							}
						}
						return false
					case *ast.SliceExpr:
						return fromInput(x.X, pt, depth-1)
					case *ast.CallExpr:
						return strings.HasSuffix(exprKey(x.Fun), ".RemainingBytes")
					}
					return false
				}
				f = newFuncCFGPlain(p, info, u.body, u.name)
				for _, b := range f.G.Blocks {
					if !b.Live {
						continue
					}
					for i, nd := range b.Nodes {
						pt := Point{b, i}
						inspectNoLit(nd, func(m ast.Node) bool {
							var base ast.Expr
							type bound struct {
								e      ast.Expr
								strict bool // index: bound < len
							}
							var bounds []bound
							switch x := m.(type) {
							case *ast.SliceExpr:
								base = x.X
								if x.Low != nil {
									bounds = append(bounds, bound{x.Low, false})
								}
								if x.High != nil {
									bounds = append(bounds, bound{x.High, false})
								}
							case *ast.IndexExpr:
								base = x.X
								bounds = append(bounds, bound{x.Index, true})
							default:
								return true
							}
							if !isBytes(base) || strings.Contains(exprKey(base), ".src") || len(bounds) == 0 {
								return true // not bytes, or the Deserializer source (deser/bounds-guarded)
							}
							if !fromInput(base, pt, 4) {
								return true
							}
							n++
							key := fmt.Sprintf("%s in %s", types.ExprString(m.(ast.Expr)), u.name)
							if reason, ok := inputSliceExempt[key]; ok {
								r.Pass(rule, key, p.posStr(m.Pos()), "tabled: "+reason)
								return true
							}
							baseKey := rawKey(base)
							lenKeys := map[string]bool{"len(" + baseKey + ")": true, "len(" + f.KeyAt(base, pt) + ")": true}
							okAll := true
							for _, bd := range bounds {
								if c, isConst := constInt(info, bd.e); isConst && c == 0 && !bd.strict {
									continue // [0:...]
								}
								// (a) consumed count of a call that was handed the same slice
								if cl, _ := f.AtomCall(bd.e, pt); cl != nil {
									handed := false
									for _, a := range cl.Args {
										if objOfIdent(info, a) != nil && objOfIdent(info, a) == objOfIdent(info, base) {
											handed = true
										}
									}
									if handed {
										if bt, ok := info.TypeOf(bd.e).Underlying().(*types.Basic); ok && bt.Info()&types.IsInteger != 0 {
											continue
										}
									}
								}
								// (b) guarded by a length relation
								c, isConst := constInt(info, bd.e)
								bk, bkAt := rawKey(stripWiden(info, bd.e)), f.KeyAt(stripWiden(info, bd.e), pt)
								need := c
								if bd.strict {
									need = c + 1
								}
								var guards []Edge
								f.forEachEdgeFact(func(e Edge, eb *cfg.Block, ft fact) {
									be, ok := ast.Unparen(ft.Atom).(*ast.BinaryExpr)
									if !ok {
										return
									}
									ept := Point{eb, len(eb.Nodes) - 1}
									rel, ok := relOfWith(ft.Atom, func(x ast.Expr) string { return f.KeyAt(stripWiden(info, x), ept) })
									if !ok {
										return
									}
									if !ft.Pol {
										rel = negRel(rel)
									}
									beX, beY := stripWiden(info, be.X), stripWiden(info, be.Y)
									// the operand that is not len(base)
									var other ast.Expr
									switch {
									case lenKeys[f.KeyAt(beY, ept)] || lenKeys[rawKey(beY)]:
										other = beX
									case lenKeys[f.KeyAt(beX, ept)] || lenKeys[rawKey(beX)]:
										other = beY
									default:
										return
									}
									ok2 := false
									switch {
									case lenKeys[rel.R] && (rel.L == bk || rel.L == bkAt) && !isConst:
										// bound < len / bound <= len
										ok2 = rel.Op == "<" || (rel.Op == "<=" && !bd.strict)
									case isConst && lenKeys[rel.R] && (rel.Op == "<" || rel.Op == "<="):
										// K < len / K <= len with a constant expression K
										if k, kc := constInt(info, other); kc {
											if rel.Op == "<" {
												k++
											}
											ok2 = k >= need
										}
									case isConst && rel.Op == "!=" && (lenKeys[rel.L] || lenKeys[rel.R]):
										// len != 0: one byte
										if k, kc := constInt(info, other); kc && k == 0 {
											ok2 = need <= 1
										}
									}
									if ok2 {
										guards = append(guards, e)
									}
								})
								if w, only := f.OnlyThroughEdges(pt, guards); !only {
									okAll = false
									r.Fail(rule, key, p.posStr(m.Pos()), fmt.Sprintf("the input slice %s is cut at %s, which is neither compared with len(%s) on every path to this point nor the count returned by a decoder that was handed the same slice: slice bounds out of range on truncated or hostile input", baseKey, types.ExprString(bd.e), baseKey), w...)
								}
							}
							if okAll {
								r.Pass(rule, key, p.posStr(m.Pos()), "every bound is length-guarded or a consumed count")
							}
							return true
						})
					}
				}
			}
		}
	}
	if n < 4 {
		r.Fail(rule, pkgSerix, "-", fmt.Sprintf("expected at least 4 input slice accesses (decodeMapKVPair, CheckTypeByte, AtMostOneOfEachTypeValidator, ReadSequenceOfObjects), found %d (vacuous)", n))
	}
}

// stdlibByteWriters: standard-library functions that write into the byte slice passed at the
// given argument index.
var stdlibByteWriters = map[string]int{
	"copy": 0, "binary.LittleEndian.PutUint16": 0, "binary.LittleEndian.PutUint32": 0, "binary.LittleEndian.PutUint64": 0,
	"binary.BigEndian.PutUint16": 0, "binary.BigEndian.PutUint32": 0, "binary.BigEndian.PutUint64": 0,
	"io.ReadFull": 1, "rand.Read": 0, "slices.Reverse": 0, "slices.Sort": 0, "sort.Slice": 0, "sort.SliceStable": 0,
}

// checkSourceReadOnly: the decoder never writes into the bytes it decodes. The Deserializer's
// source (and the []byte parameter of the serix decode functions) belongs to the caller: it is
// decoded again, hashed, compared by the element validators against the previous element, and
// re-encoded values are compared with it. A store through the source or an alias of it, or
// handing (a sub-slice of) it to a function that writes into its argument, changes what every
// later reader of the same buffer sees. Aliases are followed through reaching definitions;
// callees of the package through a "writes its parameter" summary (depth 3).
func checkSourceReadOnly(r *Reporter, p *Prog) {
	const rule = "decode/source-read-only"
	n := 0
	for _, pkg := range []string{pkgSer, pkgSerix} {
		pk := p.Pkg(pkg)
		if pk == nil {
			r.Unresolved(rule, pkg, "package not loaded")
			continue
		}
		info := pk.TypesInfo
		di := p.decls()
		// writesParam: the function stores into (an alias of) its idx-th parameter
		var writesParam func(fd *ast.FuncDecl, idx, depth int) (string, bool)
		// writesThrough reports a write through `target(e)` expressions in body
		scan := func(f *FuncCFG, isTarget func(e ast.Expr, pt Point) bool, depth int) (string, bool) {
			for _, b := range f.G.Blocks {
				if !b.Live {
					continue
				}
				for i, nd := range b.Nodes {
					pt := Point{b, i}
					where, hit := "", false
					inspectNoLit(nd, func(m ast.Node) bool {
						if hit {
							return false
						}
						switch x := m.(type) {
						case *ast.AssignStmt:
							for _, l := range x.Lhs {
								if ix, ok := ast.Unparen(l).(*ast.IndexExpr); ok && isTarget(ix.X, pt) {
									where, hit = fmt.Sprintf("%s: element store %s", p.posStr(x.Pos()), types.ExprString(l)), true
								}
							}
						case *ast.IncDecStmt:
							if ix, ok := ast.Unparen(x.X).(*ast.IndexExpr); ok && isTarget(ix.X, pt) {
								where, hit = fmt.Sprintf("%s: element update %s", p.posStr(x.Pos()), types.ExprString(x.X)), true
							}
						case *ast.CallExpr:
							name := calleeShort(info, x)
							if id, ok := ast.Unparen(x.Fun).(*ast.Ident); ok && id.Name == "copy" {
								name = "copy"
							}
							if wi, ok := stdlibByteWriters[name]; ok && wi < len(x.Args) && isTarget(x.Args[wi], pt) {
								where, hit = fmt.Sprintf("%s: %s writes into its argument %s", p.posStr(x.Pos()), name, types.ExprString(x.Args[wi])), true
								return false
							}
							if fn := staticCallee(info, x); fn != nil && depth > 0 {
								if hd := di.byFunc[fn.Origin()]; hd != nil && hd.Body != nil && di.infoOf[hd] == info {
									for ai, a := range x.Args {
										if isTarget(a, pt) {
											if w, writes := writesParam(hd, ai, depth-1); writes {
												where, hit = fmt.Sprintf("%s: handed to %s, which writes into it (%s)", p.posStr(x.Pos()), funcName(fn), w), true
											}
										}
									}
								}
							}
						}
						return !hit
					})
					if hit {
						return where, true
					}
				}
			}
			return "", false
		}
		memo := map[string]struct {
			w  string
			ok bool
		}{}
		writesParam = func(fd *ast.FuncDecl, idx, depth int) (string, bool) {
			mk := fmt.Sprintf("%p/%d", fd, idx)
			if v, ok := memo[mk]; ok {
				return v.w, v.ok
			}
			memo[mk] = struct {
				w  string
				ok bool
			}{"", false}
			var param types.Object
			k := 0
			for _, fl := range fd.Type.Params.List {
				for _, nm := range fl.Names {
					if k == idx {
						param = info.Defs[nm]
					}
					k++
				}
			}
			if param == nil {
				return "", false
			}
			f := newFuncCFGPlain(p, info, fd.Body, funcKey(pkg, fd))
			var alias func(e ast.Expr, pt Point, d int) bool
			alias = func(e ast.Expr, pt Point, d int) bool {
				if d <= 0 {
					return false
				}
				switch x := ast.Unparen(e).(type) {
				case *ast.Ident:
					o := objOfIdent(info, x)
					if o == nil {
						return false
					}
					defs, fromEntry := f.ReachingDefs(pt, o)
					if o == param && (fromEntry || len(defs) == 0) {
						return true
					}
					for _, df := range defs {
						if df.Rhs != nil && alias(df.Rhs, df.At, d-1) {
							return true
						}
					}
				case *ast.SliceExpr:
					return alias(x.X, pt, d-1)
				}
				return false
			}
			w, ok := scan(f, func(e ast.Expr, pt Point) bool { return alias(e, pt, 4) }, depth)
			memo[mk] = struct {
				w  string
				ok bool
			}{w, ok}
			return w, ok
		}
		for _, fd := range p.AllFuncDecls(pkg) {
			if fd.Body == nil || strings.HasSuffix(p.Fset.Position(fd.Pos()).Filename, "_test.go") {
				continue
			}
			fkey := funcKey(pkg, fd)
			isDeser := false
			if fd.Recv != nil && len(fd.Recv.List) == 1 {
				isDeser = strings.Contains(types.ExprString(fd.Recv.List[0].Type), "Deserializer")
			}
			lname := strings.ToLower(fd.Name.Name)
			isDecodeFn := pkg == pkgSerix && strings.Contains(lname, "decode")
			if !isDeser && !isDecodeFn {
				continue
			}
			byteParams := map[types.Object]bool{}
			if isDecodeFn {
				for _, fl := range fd.Type.Params.List {
					if s, ok := info.TypeOf(fl.Type).Underlying().(*types.Slice); ok {
						if b, ok := s.Elem().Underlying().(*types.Basic); ok && b.Kind() == types.Uint8 {
							for _, nm := range fl.Names {
								byteParams[info.Defs[nm]] = true
							}
						}
					}
				}
				if len(byteParams) == 0 {
					continue
				}
			}
			f := newFuncCFGPlain(p, info, fd.Body, fkey)
			var isSource func(e ast.Expr, pt Point, d int) bool
			isSource = func(e ast.Expr, pt Point, d int) bool {
				if d <= 0 {
					return false
				}
				switch x := ast.Unparen(e).(type) {
				case *ast.SelectorExpr:
					return isDeser && x.Sel.Name == "src"
				case *ast.SliceExpr:
					return isSource(x.X, pt, d-1)
				case *ast.CallExpr:
					return strings.HasSuffix(exprKey(x.Fun), ".RemainingBytes")
				case *ast.Ident:
					o := objOfIdent(info, x)
					if o == nil {
						return false
					}
					defs, fromEntry := f.ReachingDefs(pt, o)
					if byteParams[o] && (fromEntry || len(defs) == 0) {
						return true
					}
					for _, df := range defs {
						if df.Rhs != nil && isSource(df.Rhs, df.At, d-1) {
							return true
						}
					}
				}
				return false
			}
			n++
			if w, writes := scan(f, func(e ast.Expr, pt Point) bool { return isSource(e, pt, 4) }, 3); writes {
				r.Fail(rule, fkey, p.posStr(fd.Pos()), "the decoder writes into the bytes it is decoding ("+w+"): a second decode of the same buffer, the element validators that compare raw element bytes, and any comparison with a re-encoding see different bytes")
			} else {
				r.Pass(rule, fkey, p.posStr(fd.Pos()), "no store through the source or an alias of it; not handed to a function that writes into its argument")
			}
		}
	}
	if n < 30 {
		r.Fail(rule, pkgSer, "-", fmt.Sprintf("expected the Deserializer methods and the serix decode functions (>= 30), found %d (vacuous)", n))
	}
}

// checkByteArrayKeySource: a byte array behind a pointer is written by mapEncodeSlice under the
// field key of the type settings it is handed, and read back by the pointer branch of
// mapDecodeBasedOnType under the field key of the type settings it looks up. Both sides must take
// those settings from the same source (the registry entry of the pointer type, or the merged
// settings parameter): if one side uses the merged settings, in which a struct tag's key wins,
// and the other the registry, the key written is not the key read.
func checkByteArrayKeySource(r *Reporter, p *Prog) {
	const rule = "mirror/byte-array-key-source"
	key := pkgSerix + ".mapEncodeBasedOnType <-> mapDecodeBasedOnType (pointer to byte array)"
	info := p.Pkg(pkgSerix).TypesInfo
	enc, dec := p.FuncDecl(pkgSerix, "API", "mapEncodeBasedOnType"), p.FuncDecl(pkgSerix, "API", "mapDecodeBasedOnType")
	if enc == nil || dec == nil {
		r.Unresolved(rule, key, "dispatcher not found")
		return
	}
	isTS := func(e ast.Expr) bool {
		t := info.TypeOf(e)
		return t != nil && strings.HasSuffix(strings.TrimPrefix(t.String(), "*"), "serix.TypeSettings")
	}
	// source class of a TypeSettings-typed expression at pt
	classOf := func(f *FuncCFG, fd *ast.FuncDecl, e ast.Expr, pt Point) string {
		params := map[types.Object]bool{}
		for _, fl := range fd.Type.Params.List {
			for _, nm := range fl.Names {
				params[info.Defs[nm]] = true
			}
		}
		o := objOfIdent(info, e)
		if o == nil {
			return "?" + exprKey(e)
		}
		defs, fromEntry := f.ReachingDefs(pt, o)
		cls := map[string]bool{}
		if params[o] && (fromEntry || len(defs) == 0) {
			cls["merged settings parameter"] = true
		}
		for _, d := range defs {
			if cl, ok := ast.Unparen(d.Rhs).(*ast.CallExpr); ok && strings.HasSuffix(exprKey(cl.Fun), ".typeSettingsRegistry.GetByType") && len(cl.Args) == 1 {
				cls["registry entry of "+f.KeyAt(cl.Args[0], d.At)] = true
			} else if d.Rhs != nil {
				cls["?"+exprKey(d.Rhs)] = true
			} else {
				cls["?"] = true
			}
		}
		var out []string
		for k := range cls {
			out = append(out, k)
		}
		sort.Strings(out)
		return strings.Join(out, " | ")
	}
	// encoder: mapEncodeSlice(ctx, <sliceFromArray(...)>, _, ts, opts)
	ef := newFuncCFGPlain(p, info, enc.Body, funcKey(pkgSerix, enc))
	encCls := ""
	for _, pt := range ef.Find(func(n ast.Node) bool {
		cl, ok := n.(*ast.CallExpr)
		return ok && strings.HasSuffix(exprKey(cl.Fun), ".mapEncodeSlice") && len(cl.Args) >= 4
	}) {
		var call *ast.CallExpr
		inspectNoLit(ef.nodeAt(pt), func(n ast.Node) bool {
			if cl, ok := n.(*ast.CallExpr); ok && strings.HasSuffix(exprKey(cl.Fun), ".mapEncodeSlice") && len(cl.Args) >= 4 {
				call = cl
			}
			return true
		})
		if call == nil {
			continue
		}
		v, _ := ef.ResolveToCall(call.Args[1], pt)
		vc, ok := ast.Unparen(v).(*ast.CallExpr)
		if !ok || calleeShort(info, vc) != "sliceFromArray" || len(vc.Args) != 1 {
			continue
		}
		// the array behind a pointer: sliceFromArray(reflect.Indirect(value)) / sliceFromArray(value.Elem())
		inner, ipt := ef.ResolveToCall(vc.Args[0], pt)
		_ = ipt
		if ic, ok := ast.Unparen(inner).(*ast.CallExpr); !ok || !(strings.HasSuffix(exprKey(ic.Fun), "reflect.Indirect") || strings.HasSuffix(exprKey(ic.Fun), ".Elem")) {
			continue
		}
		for _, a := range call.Args {
			if isTS(a) {
				encCls = classOf(ef, enc, a, pt)
			}
		}
	}
	// decoder: the key of the index into the JSON object, in the block that is guarded by the
	// bytes-type test of the array's slice
	df := newFuncCFGPlain(p, info, dec.Body, funcKey(pkgSerix, dec))
	decCls := ""
	for _, b := range df.G.Blocks {
		if !b.Live {
			continue
		}
		for i, nd := range b.Nodes {
			pt := Point{b, i}
			inspectNoLit(nd, func(n ast.Node) bool {
				ix, ok := n.(*ast.IndexExpr)
				if !ok {
					return true
				}
				if mt, ok := info.TypeOf(ix.X).Underlying().(*types.Map); !ok || mt.Key().String() != "string" {
					return true
				}
				// TypeSettings-typed identifiers the key depends on (through its reaching definitions)
				seen := map[types.Object]bool{}
				var collect func(e ast.Expr, at Point, depth int)
				collect = func(e ast.Expr, at Point, depth int) {
					if depth <= 0 || e == nil {
						return
					}
					ast.Inspect(e, func(m ast.Node) bool {
						id, ok := m.(*ast.Ident)
						if !ok {
							return true
						}
						o := objOfIdent(info, id)
						if o == nil || seen[o] {
							return true
						}
						if _, isVar := o.(*types.Var); !isVar {
							return true
						}
						seen[o] = true
						if isTS(id) {
							c := classOf(df, dec, id, at)
							if decCls == "" || decCls == c {
								decCls = c
							} else {
								decCls += " | " + c
							}
							return true
						}
						defs, _ := df.ReachingDefs(at, o)
						for _, d := range defs {
							collect(d.Rhs, d.At, depth-1)
						}
						return true
					})
				}
				// only the pointer-to-array branch: the site lies behind an edge on which the pointed-to
				// type is known to be an array (`elemType.Kind() == reflect.Array`)
				arrEdges := df.RelEdges(func(rel Rel) bool {
					return rel.Op == "==" && ((strings.HasSuffix(rel.L, ".Kind()") && rel.R == "reflect.Array") || (strings.HasSuffix(rel.R, ".Kind()") && rel.L == "reflect.Array"))
				})
				if _, only := df.OnlyThroughEdges(pt, arrEdges); !only || len(arrEdges) == 0 {
					return true
				}
				collect(ix.Index, pt, 3)
				return true
			})
		}
	}
	switch {
	case encCls == "" || decCls == "":
		r.Fail(rule, key, p.posStr(enc.Pos()), fmt.Sprintf("could not find the type settings used on both sides (encoder: %q, decoder: %q)", encCls, decCls))
	case encCls != decCls || strings.Contains(encCls, "?"):
		r.Fail(rule, key, p.posStr(enc.Pos()), fmt.Sprintf("the encoder writes the bytes under the field key of the %s, the decoder reads them under the field key of the %s: for a tagged field of a registered pointer-to-byte-array type the keys differ and the encoder's own output is rejected", encCls, decCls))
	default:
		r.Pass(rule, key, p.posStr(enc.Pos()), "both sides take the field key from the "+encCls)
	}
}

// checkTimestampSaturation: the wire form of a time is its int64 nanosecond timestamp, saturated to
// MaxInt64 only when the whole seconds exceed MaxNanoTimestampInt64Seconds (strictly: the last
// representable second still has representable nanoseconds). The tabled relation is
// MaxNanoTimestampInt64Seconds < seconds on both the writer (TimeToUint64) and the reader (ReadTime);
// a non-strict test collapses a whole second of distinct timestamps into one encoding.
func checkTimestampSaturation(r *Reporter, p *Prog) {
	const rule = "cmp/timestamp-saturation"
	info := p.Pkg(pkgSer).TypesInfo
	di := p.decls()
	isMax := func(e ast.Expr) bool {
		k := rawKey(e)
		return k == "math.MaxInt64" || k == "uint64(math.MaxInt64)"
	}
	// the instant of the last representable nanosecond, spelled time.Unix(0, math.MaxInt64) - inline or
	// as a package-level variable that is initialised with it and never assigned
	var isMaxInstant func(e ast.Expr) bool
	isMaxInstant = func(e ast.Expr) bool {
		e = ast.Unparen(e)
		if c, ok := e.(*ast.CallExpr); ok {
			if qualifiedCallee(info, c) == "time.Unix" && len(c.Args) == 2 && rawKey(c.Args[0]) == "0" && isMax(c.Args[1]) {
				return true
			}
			if se, isSel := ast.Unparen(c.Fun).(*ast.SelectorExpr); isSel && se.Sel.Name == "UTC" && len(c.Args) == 0 {
				return isMaxInstant(se.X)
			}
			return false
		}
		id, ok := e.(*ast.Ident)
		if !ok {
			return false
		}
		v, isVar := info.Uses[id].(*types.Var)
		if !isVar || v.Pkg() == nil || v.Parent() != v.Pkg().Scope() {
			return false
		}
		var init ast.Expr
		assigned := false
		for _, file := range p.Pkg(pkgSer).Syntax {
			ast.Inspect(file, func(n ast.Node) bool {
				switch x := n.(type) {
				case *ast.ValueSpec:
					for i, nm := range x.Names {
						if info.Defs[nm] == v && i < len(x.Values) {
							init = x.Values[i]
						}
					}
				case *ast.AssignStmt:
					for _, l := range x.Lhs {
						if lid, isId := ast.Unparen(l).(*ast.Ident); isId && info.Uses[lid] == v {
							assigned = true
						}
					}
				case *ast.UnaryExpr:
					if lid, isId := ast.Unparen(x.X).(*ast.Ident); x.Op == token.AND && isId && info.Uses[lid] == v {
						assigned = true
					}
				}
				return true
			})
		}
		return init != nil && !assigned && isMaxInstant(init)
	}
	for _, row := range []struct{ recv, name string }{{"", "TimeToUint64"}, {"Deserializer", "ReadTime"}} {
		top := p.FuncDecl(pkgSer, row.recv, row.name)
		key := pkgSer + "." + row.name
		if top == nil {
			r.Unresolved(rule, key, "function not found")
			continue
		}
		// the function itself, or the conversion function of the package it delegates to (depth 2)
		cands := []*ast.FuncDecl{top}
		seen := map[*ast.FuncDecl]bool{top: true}
		for depth, work := 0, []*ast.FuncDecl{top}; depth < 2; depth++ {
			var next []*ast.FuncDecl
			for _, fd := range work {
				ast.Inspect(fd.Body, func(n ast.Node) bool {
					if c, ok := n.(*ast.CallExpr); ok {
						if fn := staticCallee(info, c); fn != nil {
							if cd := di.byFunc[fn.Origin()]; cd != nil && cd.Body != nil && di.infoOf[cd] == info && !seen[cd] {
								seen[cd] = true
								next = append(next, cd)
								cands = append(cands, cd)
							}
						}
					}
					return true
				})
			}
			work = next
		}
		judged := false
		for _, fd := range cands {
			f := newFuncCFG(p, info, fd.Body, key)
			sat := f.Find(func(n ast.Node) bool {
				switch x := n.(type) {
				case *ast.AssignStmt:
					return len(x.Rhs) == 1 && isMax(x.Rhs[0])
				case *ast.ReturnStmt:
					return len(x.Results) == 1 && isMax(x.Results[0])
				}
				return false
			})
			if len(sat) == 0 {
				continue
			}
			judged = true
			// the exact saturation conditions: whole seconds strictly above the last representable second;
			// the nanosecond count strictly above MaxInt64; the time strictly after the instant
			// time.Unix(0, MaxInt64)
			strict := f.RelEdgesAt(func(rel Rel) bool {
				return (rel.L == "MaxNanoTimestampInt64Seconds" && rel.Op == "<") || ((rel.L == "math.MaxInt64" || rel.L == "uint64(math.MaxInt64)") && rel.Op == "<")
			})
			f.forEachEdgeFact(func(e Edge, b *cfg.Block, ft fact) {
				if c, ok := ast.Unparen(ft.Atom).(*ast.CallExpr); ok && ft.Pol && len(c.Args) == 1 {
					if se, isSel := ast.Unparen(c.Fun).(*ast.SelectorExpr); isSel && se.Sel.Name == "After" && strings.HasSuffix(typeName(info.TypeOf(se.X)), "time.Time") && isMaxInstant(c.Args[0]) {
						strict = append(strict, e)
					}
				}
			})
			ok := true
			for _, pt := range sat {
				if w, only := f.OnlyThroughEdges(pt, strict); !only {
					ok = false
					r.Fail(rule, key, f.PosOf(pt), "the timestamp is saturated to MaxInt64 on a path that has not established seconds > MaxNanoTimestampInt64Seconds (strictly) or nanoseconds > MaxInt64 / time after time.Unix(0, MaxInt64): timestamps inside the last representable second lose their value and several byte strings decode to the same time", w...)
				}
			}
			if ok {
				r.Pass(rule, key, f.PosOf(sat[0]), "saturation only beyond the last representable nanosecond (in "+fd.Name.Name+")")
			}
			break
		}
		if !judged {
			r.Fail(rule, key, p.posStr(top.Pos()), "no saturation to math.MaxInt64 found")
		}
	}
}

// checkArrayExactCount: an array of N elements is encoded as exactly N elements; validated decoding
// must reject any other count. In decodeArrayViaSlice (helpers spliced in) every write into the
// array - Index(i).Set or reflect.Copy - is reachable only through the edge on which the decoded
// slice's Len() equals the array's Len().
func checkArrayExactCount(r *Reporter, p *Prog) {
	const rule = "canonical/array-exact-count"
	info := p.Pkg(pkgSerix).TypesInfo
	fd := p.FuncDecl(pkgSerix, "", "decodeArrayViaSlice")
	key := pkgSerix + ".decodeArrayViaSlice"
	if fd == nil {
		r.Unresolved(rule, key, "function not found")
		return
	}
	f := newFuncCFG(p, info, fd.Body, key)
	fills := f.Find(func(n ast.Node) bool {
		cl, ok := n.(*ast.CallExpr)
		if !ok {
			return false
		}
		k := exprKey(cl.Fun)
		return k == "reflect.Copy" || (strings.HasSuffix(k, ".Set") && strings.Contains(k, ".Index("))
	})
	equal := f.RelEdgesAt(func(rel Rel) bool {
		return rel.Op == "==" && strings.HasSuffix(rel.L, ".Len()") && strings.HasSuffix(rel.R, ".Len()") && rel.L != rel.R
	})
	if len(fills) == 0 {
		r.Fail(rule, key, p.posStr(fd.Pos()), "no write into the array found (Index(i).Set / reflect.Copy)")
		return
	}
	ok := true
	for _, pt := range fills {
		if w, only := f.OnlyThroughEdges(pt, equal); !only {
			ok = false
			r.Fail(rule, key, f.PosOf(pt), "the array is filled on a path that has not established that the decoded element count equals the array length: an encoding with fewer (or more) elements than the array is accepted and re-encodes to different bytes", w...)
		}
	}
	if ok {
		r.Pass(rule, key, f.PosOf(fills[0]), "the array is filled only when the decoded count equals its length")
	}
}

// writesFixedLE: the function writes its value as a fixed-width little-endian integer of the given
// type - binary.Write(w, binary.LittleEndian, <value of that type>), or the byte order's Put/Append
// method of that width - and uses no other byte order.
func writesFixedLE(info *types.Info, fd *ast.FuncDecl, typ string) bool {
	ok, other := false, false
	isLE := func(e ast.Expr) bool {
		se, isSel := ast.Unparen(e).(*ast.SelectorExpr)
		return isSel && se.Sel.Name == "LittleEndian"
	}
	ast.Inspect(fd.Body, func(n ast.Node) bool {
		c, isCall := n.(*ast.CallExpr)
		if !isCall {
			return true
		}
		if qualifiedCallee(info, c) == "encoding/binary.Write" && len(c.Args) == 3 {
			if t := info.TypeOf(c.Args[2]); isLE(c.Args[1]) && t != nil && t.String() == typ {
				ok = true
			} else {
				other = true
			}
		}
		if se, isSel := ast.Unparen(c.Fun).(*ast.SelectorExpr); isSel {
			if fn, isFn := info.Uses[se.Sel].(*types.Func); isFn && fn.Pkg() != nil && fn.Pkg().Path() == "encoding/binary" {
				w := strings.ToLower(strings.TrimPrefix(strings.TrimPrefix(fn.Name(), "Put"), "Append"))
				if (strings.HasPrefix(fn.Name(), "Put") || strings.HasPrefix(fn.Name(), "Append")) && w == typ && isLE(se.X) {
					ok = true
				} else if strings.HasPrefix(fn.Name(), "Put") || strings.HasPrefix(fn.Name(), "Append") {
					other = true
				}
			}
		}
		return true
	})
	return ok && !other
}

// readsFixedLE: the function decodes with binary.LittleEndian.<method> and with no other byte order.
func readsFixedLE(info *types.Info, fd *ast.FuncDecl, method string) bool {
	ok, other := false, false
	ast.Inspect(fd.Body, func(n ast.Node) bool {
		c, isCall := n.(*ast.CallExpr)
		if !isCall {
			return true
		}
		if se, isSel := ast.Unparen(c.Fun).(*ast.SelectorExpr); isSel {
			if fn, isFn := info.Uses[se.Sel].(*types.Func); isFn && fn.Pkg() != nil && fn.Pkg().Path() == "encoding/binary" && strings.HasPrefix(fn.Name(), "Uint") {
				if inner, isInner := ast.Unparen(se.X).(*ast.SelectorExpr); isInner && inner.Sel.Name == "LittleEndian" && fn.Name() == method {
					ok = true
				} else {
					other = true
				}
			}
		}
		return true
	})
	return ok && !other
}

// writesOnlyZeroOrOne: every byte the function hands to the buffer's WriteByte is, on every path, the
// constant 0 (also as the zero value of an unassigned variable) or 1, and 1 occurs.
func writesOnlyZeroOrOne(p *Prog, info *types.Info, fd *ast.FuncDecl) bool {
	f := newFuncCFG(p, info, fd.Body, "WriteBool")
	n, sawOne, good := 0, false, true
	for _, c := range f.Calls(func(c *ast.CallExpr) bool {
		se, ok := ast.Unparen(c.Fun).(*ast.SelectorExpr)
		return ok && se.Sel.Name == "WriteByte" && len(c.Args) == 1 && fieldSel(info, se.X, "buf")
	}) {
		n++
		pt, _ := f.PointOf(c)
		var visit func(e ast.Expr, at Point, depth int)
		visit = func(e ast.Expr, at Point, depth int) {
			if tv, ok := info.Types[e]; ok && tv.Value != nil {
				switch tv.Value.String() {
				case "0":
				case "1":
					sawOne = true
				default:
					good = false
				}
				return
			}
			obj := objOfIdent(info, e)
			if obj == nil || depth > 4 {
				good = false
				return
			}
			defs, fromEntry := f.ReachingDefs(at, obj)
			if fromEntry {
				// declared without a value in this function: the zero value; a parameter is unknown
				if obj.Pos() < fd.Body.Pos() || obj.Pos() > fd.Body.End() {
					good = false
				}
			}
			for _, d := range defs {
				if d.Rhs == nil {
					good = false
					continue
				}
				visit(d.Rhs, d.At, depth+1)
			}
		}
		visit(c.Args[0], pt, 0)
	}
	return n > 0 && good && sawOne
}

// decodesViaFreshSlice: the helper decodes into a fresh addressable slice value
// (reflect.New(<slice type>).Elem()), returns an error when the decoded length differs from the
// array's, and only then copies the elements into the array (a call that receives the array value
// and the slice value) - whatever the locals are called.
func decodesViaFreshSlice(p *Prog, info *types.Info, fd *ast.FuncDecl) bool {
	params := paramObjs(info, fd)
	if len(params) == 0 || params[0] == nil {
		return false
	}
	arr := params[0]
	f := newFuncCFG(p, info, fd.Body, "decodeArrayViaSlice")
	// the fresh slice variable
	var slice types.Object
	ast.Inspect(fd.Body, func(n ast.Node) bool {
		as, ok := n.(*ast.AssignStmt)
		if !ok || len(as.Lhs) != 1 || len(as.Rhs) != 1 {
			return true
		}
		c, ok := ast.Unparen(as.Rhs[0]).(*ast.CallExpr)
		if !ok || len(c.Args) != 0 {
			return true
		}
		se, ok := ast.Unparen(c.Fun).(*ast.SelectorExpr)
		if !ok || se.Sel.Name != "Elem" {
			return true
		}
		if nc, ok := ast.Unparen(se.X).(*ast.CallExpr); ok && qualifiedCallee(info, nc) == "reflect.New" {
			slice = objOfIdent(info, as.Lhs[0])
		}
		return true
	})
	if slice == nil {
		return false
	}
	isLenOf := func(e ast.Expr, o types.Object) bool {
		c, ok := ast.Unparen(e).(*ast.CallExpr)
		if !ok || len(c.Args) != 0 {
			return false
		}
		se, ok := ast.Unparen(c.Fun).(*ast.SelectorExpr)
		return ok && se.Sel.Name == "Len" && objOfIdent(info, se.X) == o
	}
	// edges on which the two lengths are known to differ / to be equal
	var differ, equal []Edge
	f.forEachEdgeFact(func(e Edge, _ *cfg.Block, ft fact) {
		be, ok := ast.Unparen(ft.Atom).(*ast.BinaryExpr)
		if !ok || (be.Op != token.NEQ && be.Op != token.EQL) {
			return
		}
		if !((isLenOf(be.X, slice) && isLenOf(be.Y, arr)) || (isLenOf(be.X, arr) && isLenOf(be.Y, slice))) {
			return
		}
		if (be.Op == token.NEQ) == ft.Pol {
			differ = append(differ, e)
		} else {
			equal = append(equal, e)
		}
	})
	if len(differ) == 0 || len(equal) == 0 {
		return false
	}
	// the copy back: a call that receives both values, only where the lengths are known equal
	copies := f.Find(func(n ast.Node) bool {
		c, ok := n.(*ast.CallExpr)
		if !ok {
			return false
		}
		hasArr, hasSlice := false, false
		for _, a := range c.Args {
			if objOfIdent(info, a) == arr {
				hasArr = true
			}
			if objOfIdent(info, a) == slice {
				hasSlice = true
			}
		}
		if se, isSel := ast.Unparen(c.Fun).(*ast.SelectorExpr); isSel && objOfIdent(info, se.X) == arr {
			hasArr = true // arr.Set(slice) style
		}
		return hasArr && hasSlice
	})
	if len(copies) == 0 {
		return false
	}
	for _, cp := range copies {
		if _, only := f.OnlyThroughEdges(cp, equal); !only {
			return false
		}
	}
	// a length mismatch never returns nil
	for _, e := range differ {
		if _, found := f.reach(Point{e.From.Succs[e.Succ], 0}, nil, func(pt Point, atExit bool) bool {
			if atExit {
				return false
			}
			rs, ok := f.nodeAt(pt).(*ast.ReturnStmt)
			return ok && len(rs.Results) == 1 && isNil(info, rs.Results[0])
		}); found {
			return false
		}
	}
	return true
}

// checkElementsThroughCodec: the decoders of collections hand every element to the generic decoder,
// which applies the element type's registered settings (object-type prefix, validators, custom
// serialisation). The encoders must mirror that: every element's bytes that a collection encoder
// hands to encodeSliceOfBytes are the result of a method of the API (the recursion into the codec),
// never bytes taken from the value directly - a shortcut for "plain" elements drops what the
// element type registered, and Decode(Encode(x)) fails or misparses for such element types.
func checkElementsThroughCodec(r *Reporter, p *Prog) {
	pk := p.Pkg(pkgSerix)
	if pk == nil {
		r.Unresolved("encode/elements-through-codec", pkgSerix, "package not loaded")
		return
	}
	info := pk.TypesInfo
	nEnc := 0
	for _, fd := range p.AllFuncDecls(pkgSerix) {
		if fd.Body == nil || strings.HasSuffix(p.Fset.Position(fd.Pos()).Filename, "_test.go") {
			continue
		}
		// the function's own statements (helpers not spliced: a helper that is a method of the API is an origin)
		f := newFuncCFGPlain(p, info, fd.Body, funcKey(pkgSerix, fd))
		// the sequence writer, by role: the unexported function or method of this package that takes the
		// element encodings as a [][]byte (today encodeSliceOfBytes); collArg: the position of that parameter
		collArg := func(c *ast.CallExpr) int {
			fn := staticCallee(info, c)
			if fn == nil || fn.Exported() || fn.Pkg() == nil || fn.Pkg() != pk.Types {
				return -1
			}
			sig, _ := fn.Type().(*types.Signature)
			if sig == nil {
				return -1
			}
			for k := 0; k < sig.Params().Len() && k < len(c.Args); k++ {
				if sl, ok := sig.Params().At(k).Type().Underlying().(*types.Slice); ok {
					if in, ok := sl.Elem().Underlying().(*types.Slice); ok {
						if b, ok := in.Elem().Underlying().(*types.Basic); ok && b.Kind() == types.Byte {
							return k
						}
					}
				}
			}
			return -1
		}
		for _, c := range f.Calls(func(c *ast.CallExpr) bool { return collArg(c) >= 0 }) {
			_, found := f.PointOf(c)
			if !found {
				continue
			}
			coll := objOfIdent(info, c.Args[collArg(c)])
			if coll != nil {
				// a parameter handed on (the sequence writer's own helpers): not an element producer
				isParam := false
				for _, po := range paramObjs(info, fd) {
					isParam = isParam || po == coll
				}
				if isParam {
					continue
				}
			}
			nEnc++
			key := funcKey(pkgSerix, fd)
			if coll == nil {
				r.Fail("encode/elements-through-codec", key, p.posStr(c.Pos()), "the collection of element encodings is not a local variable: cannot follow its elements")
				continue
			}
			var bad []string
			nWrites := 0
			judge := func(rhs ast.Expr, pt Point) {
				nWrites++
				for _, o := range f.Origins(rhs, pt) {
					oc, isCall := ast.Unparen(o.E).(*ast.CallExpr)
					okOrigin := false
					if isCall {
						if fn := staticCallee(info, oc); fn != nil {
							if sig, _ := fn.Type().(*types.Signature); sig != nil && sig.Recv() != nil && shortTypeName(typeName(sig.Recv().Type())) == "API" {
								okOrigin = true
							}
						}
					}
					if !okOrigin {
						// an out-parameter: the local's address is handed to a method of the API, which fills it
						if v := objOfIdent(info, o.E); v != nil {
							ast.Inspect(fd.Body, func(n ast.Node) bool {
								oc, isCall := n.(*ast.CallExpr)
								if !isCall || okOrigin {
									return !okOrigin
								}
								fn := staticCallee(info, oc)
								if fn == nil {
									return true
								}
								sig, _ := fn.Type().(*types.Signature)
								if sig == nil || sig.Recv() == nil || shortTypeName(typeName(sig.Recv().Type())) != "API" {
									return true
								}
								for _, a := range oc.Args {
									if u, isU := ast.Unparen(a).(*ast.UnaryExpr); isU && u.Op == token.AND && objOfIdent(info, u.X) == v {
										okOrigin = true
									}
								}
								return true
							})
						}
					}
					if !okOrigin {
						bad = append(bad, fmt.Sprintf("%s: an element's bytes are %s, not the result of the generic encoder: the element type's registered settings (object-type prefix, validators, custom serialisation) are bypassed, while the decoder still applies them to every element", f.PosOf(pt), exprKey(o.E)))
					}
				}
			}
			for _, b := range f.G.Blocks {
				if !b.Live {
					continue
				}
				for i, nd := range b.Nodes {
					as, ok := nd.(*ast.AssignStmt)
					if !ok {
						continue
					}
					for k, l := range as.Lhs {
						if k >= len(as.Rhs) && len(as.Rhs) != 1 {
							continue
						}
						if ix, isIx := ast.Unparen(l).(*ast.IndexExpr); isIx && objOfIdent(info, ix.X) == coll && len(as.Lhs) == len(as.Rhs) {
							judge(as.Rhs[k], Point{b, i})
						}
						if objOfIdent(info, l) == coll && len(as.Lhs) == len(as.Rhs) {
							if ac, isCall := ast.Unparen(as.Rhs[k]).(*ast.CallExpr); isCall && rawKey(ac.Fun) == "append" && len(ac.Args) >= 2 && objOfIdent(info, ac.Args[0]) == coll {
								for _, a := range ac.Args[1:] {
									judge(a, Point{b, i})
								}
							}
						}
					}
				}
			}
			switch {
			case len(bad) > 0:
				r.Fail("encode/elements-through-codec", key, p.posStr(c.Pos()), bad[0], bad...)
			case nWrites == 0:
				r.Fail("encode/elements-through-codec", key, p.posStr(c.Pos()), "no element is ever stored into the collection handed to encodeSliceOfBytes (vacuous)")
			default:
				r.Pass("encode/elements-through-codec", key, p.posStr(c.Pos()), fmt.Sprintf("%d element store(s), each the result of a method of the API", nWrites))
			}
		}
	}
	if nEnc < 2 {
		r.Fail("encode/elements-through-codec", pkgSerix, "-", fmt.Sprintf("expected the slice and the map encoder to hand their elements to encodeSliceOfBytes, found %d (vacuous)", nEnc))
	}
}
