package main

import (
	"fmt"
	"go/ast"
	"go/token"
	"go/types"
	"golang.org/x/tools/go/cfg"
	"regexp"
	"sort"
	"strconv"
	"strings"
)

func init() {
	register(&property{
		ID:    "C11",
		Run:   runC11,
		Modes: []string{"deadlock"},
		Meta: propMeta{
			Explanation: "Static clauses of OrderedMap, ShrinkingMap and ds.Set on all CFG paths: (1) head/tail/size/dictionary and the elements' chain pointers are accessed only under the OrderedMap mutex (writes under the write lock), ShrinkingMap's map and deletion counter only under its mutex (helpers caller-holds), locks balanced; (2) coupled state of OrderedMap: a new key is appended at the tail with size++ and a dictionary entry on every path, an existing key is replaced in place, Delete removes the dictionary entry, decrements size and unlinks in both directions with head/tail fixed on the matching nil-edges, Clear resets all four, ForEach/ForEachReverse start at head/tail and follow next/prev; (3) Set protocol lock: every mutation of the underlying map inside set methods happens with applyMutex held (shared for single-element operations, exclusive in Apply/Compute/Replace via the caller-holds helper apply) and no method re-acquires applyMutex while holding it; lock-class order of orderedmap+shrinkingmap acyclic; (4) exact diffs: result sets are filled only on the edge on which the underlying Set/Delete reported a membership change; (5) SetArithmetic routing and threshold comparison table; (6) SerializableOrderedMap writes size (uint32), then key, value per entry in ForEach order and reads them back in the same order, errors checked.",
			NotDecided:  "linearizability of single-element operations, set-algebra results over values, progress under all interleavings beyond the lock-order facts; race freedom of Element.key/value reads in ForEach (reported as advisory)",
			Assumptions: []string{"sync.RWMutex semantics (a recursive RLock can deadlock against a queued writer)"},
		},
	})
}

func runC11(c *Ctx) {
	p := c.Load("ds")
	if p == nil {
		return
	}
	r := c.R
	const om = "ds/orderedmap"
	const sm = "ds/shrinkingmap"
	// Head reads the head entry only, Tail the tail entry only
	checkEndAccessor(r, p, om, "OrderedMap", "Head", ".tail", "Head reports key and value of the first entry")
	checkEndAccessor(r, p, om, "OrderedMap", "Tail", ".head", "Tail reports key and value of the last entry (with o.head it pairs the last key with the first value)")
	// (1)
	checkGuards(r, p, "lock/guarded-by", []GuardRow{
		{Pkg: om, Type: "OrderedMap", Mutex: "mutex", Fields: []string{"head", "tail", "size", "dictionary"}},
		{Pkg: om, Type: "Element", Mutex: "mutex", ViaRecvType: "OrderedMap", Fields: []string{"next", "prev"}},
		{Pkg: sm, Type: "ShrinkingMap", Mutex: "mutex", Fields: []string{"m", "deletedKeys"},
			CH: map[string]LockMode{"delete": ModeW, "shrink": ModeW, "shouldShrink": ModeR}},
	})
	checkLockBalance(r, p, "lock/balance", []string{om, sm}, nil, nil)
	checkLockBalance(r, p, "lock/balance", []string{"ds"}, nil, func(k string) bool { return hasPrefixAny(k, "ds.set.") })
	checkLockOrder(r, p, "lock/order", lockOrderOpts{Pkgs: []string{om, sm}})
	checkLockOrder(r, p, "lock/order", lockOrderOpts{Pkgs: []string{"ds"}, Ignore: map[string]string{}})
	// advisory: Element.key/value read outside the lock
	r.Advise("Element.key/value are read by ForEach/ForEachReverse after the lock is released and written by Set under the lock: outside C11's statement (no race-freedom claim for values), not checked")

	checkOrderedMapCoupling(r, p)
	// Set.Iterator hands the elements to a Walker: its push bookkeeping is part of what the Set promises
	checkWalkerBulk(r, p)
	checkSetProtocol(r, p)
	checkSetArithmetic(r, p)
	checkSerializableOrderedMap(r, p)
}

func checkOrderedMapCoupling(r *Reporter, p *Prog) {
	const om = "ds/orderedmap"
	pk := p.Pkg(om)
	if pk == nil {
		r.Unresolved("omap/coupling", om, "package not loaded")
		return
	}
	info := pk.TypesInfo
	// Clear empties the map: every field that Set or Delete maintains (assigns, or mutates through a
	// method of its value) is given a new value by Clear - helpers spliced in. A field that an
	// operation keeps up to date and Clear forgets (a cached element, a counter) still describes the
	// old contents afterwards.
	{
		const rule = "omap/clear-resets-maintained-state"
		_, st := p.NamedStruct(om, "OrderedMap")
		fieldsWritten := func(fd *ast.FuncDecl) map[string]bool {
			out := map[string]bool{}
			if fd == nil || fd.Body == nil {
				return out
			}
			f := newFuncCFG(p, info, fd.Body, om+".OrderedMap."+fd.Name.Name)
			self := recvObj(info, fd)
			selves := f.selfAliases(self)
			isOwnField := func(e ast.Expr) (string, bool) {
				se, ok := ast.Unparen(e).(*ast.SelectorExpr)
				if !ok || !selves[objOfIdent(info, se.X)] {
					return "", false
				}
				if sel := info.Selections[se]; sel != nil && sel.Kind() == types.FieldVal {
					return se.Sel.Name, true
				}
				return "", false
			}
			for _, b := range f.G.Blocks {
				if !b.Live {
					continue
				}
				for _, nd := range b.Nodes {
					inspectNoLit(nd, func(n ast.Node) bool {
						switch x := n.(type) {
						case *ast.AssignStmt:
							for _, l := range x.Lhs {
								if fn, ok := isOwnField(l); ok {
									out[fn] = true
								}
							}
						case *ast.IncDecStmt:
							if fn, ok := isOwnField(x.X); ok {
								out[fn] = true
							}
						}
						return true
					})
				}
			}
			return out
		}
		if st == nil {
			r.Unresolved(rule, om+".OrderedMap", "struct not found")
		} else {
			maintained := map[string]bool{}
			for _, m := range []string{"Set", "Delete"} {
				for k := range fieldsWritten(p.FuncDecl(om, "OrderedMap", m)) {
					maintained[k] = true
				}
			}
			cleared := fieldsWritten(p.FuncDecl(om, "OrderedMap", "Clear"))
			var missing []string
			for k := range maintained {
				if !cleared[k] {
					missing = append(missing, k)
				}
			}
			sort.Strings(missing)
			switch {
			case len(maintained) < 3 || len(cleared) == 0:
				r.Fail(rule, om+".OrderedMap.Clear", "-", fmt.Sprintf("expected Set/Delete to maintain head, tail and size and Clear to assign fields (found %d / %d) (vacuous)", len(maintained), len(cleared)))
			case len(missing) > 0:
				r.Fail(rule, om+".OrderedMap.Clear", "-", "Set/Delete maintain the field(s) "+strings.Join(missing, ", ")+" which Clear does not reset: after Clear they still describe the old contents (a stale cached element answers for a key that is no longer in the map)")
			default:
				r.Pass(rule, om+".OrderedMap.Clear", "-", fmt.Sprintf("%d field(s) assigned by Set/Delete, all reset by Clear", len(maintained)))
			}
		}
	}
	// stores are matched on resolved operands (curF: the operation's graph with its helpers - also
	// link/unlink primitives of the element type - in place), so `predecessor.next = e` inside
	// linkAfter(o.tail) is the store `o.tail.next = <new element>`
	var curF *FuncCFG
	var curPt Point
	keyOf := func(e ast.Expr) string {
		if curF != nil {
			return curF.KeyAt(e, curPt)
		}
		return exprKey(e)
	}
	assignTo := func(lhsSuffix string, rhs func(ast.Expr) bool) func(ast.Node) bool {
		return func(n ast.Node) bool {
			as, ok := n.(*ast.AssignStmt)
			if !ok || len(as.Lhs) != 1 || len(as.Rhs) != 1 {
				return false
			}
			if curF != nil {
				if pt, found := curF.PointOf(as); found {
					curPt = pt
				}
			}
			return strings.HasSuffix(keyOf(as.Lhs[0]), lhsSuffix) && (rhs == nil || rhs(as.Rhs[0]))
		}
	}
	incDec := func(field string, tok token.Token) func(ast.Node) bool {
		return func(n ast.Node) bool {
			s, ok := n.(*ast.IncDecStmt)
			return ok && s.Tok == tok && fieldSel(info, s.X, field)
		}
	}
	dictCall := func(name string) func(ast.Node) bool {
		return func(n ast.Node) bool {
			c, ok := n.(*ast.CallExpr)
			if !ok {
				return false
			}
			se, ok := ast.Unparen(c.Fun).(*ast.SelectorExpr)
			// (the dictionary's DeleteAndReturn is its Delete that also hands the removed value back)
			return ok && (se.Sel.Name == name || (name == "Delete" && se.Sel.Name == "DeleteAndReturn")) && fieldSel(info, se.X, "dictionary")
		}
	}
	// ---- Set
	if f := p.CFGOf(om, "OrderedMap", "Set"); f == nil {
		r.Unresolved("omap/coupling", om+".OrderedMap.Set", "method not found")
	} else {
		key := om + ".OrderedMap.Set"
		curF = f
		// existence test: the variable bound to the second result of dictionary.Get
		var existsVar, elemVar types.Object
		inspectNoLit(f.Body, func(n ast.Node) bool {
			if as, ok := n.(*ast.AssignStmt); ok && len(as.Lhs) == 2 && len(as.Rhs) == 1 && dictCall("Get")(ast.Unparen(as.Rhs[0])) {
				elemVar = objOfIdent(info, as.Lhs[0])
				existsVar = objOfIdent(info, as.Lhs[1])
			}
			return true
		})
		if existsVar == nil {
			r.Fail("omap/coupling", key, f.P.posStr(f.Body.Pos()), "no lookup of the key in the dictionary")
		} else {
			tE, fE := f.CondEdges(func(e ast.Expr) bool { return objOfIdent(info, e) == existsVar })
			steps := []struct {
				name string
				pred func(ast.Node) bool
			}{
				{"tail = new element", assignTo(".tail", nil)},
				{"size++", incDec("size", token.INC)},
				{"dictionary.Set(key, new element)", dictCall("Set")},
			}
			for _, e := range fE {
				for _, st := range steps {
					if w, found := f.reach(Point{e.From.Succs[e.Succ], 0}, &searchOpts{AvoidNode: st.pred}, func(pt Point, atExit bool) bool { return atExit }); found {
						r.Fail("omap/coupling", key+" new key: "+st.name, f.P.posStr(f.Body.Pos()), "a path inserting a new key skips "+st.name+": dictionary, chain and size drift apart", w...)
					} else {
						r.Pass("omap/coupling", key+" new key: "+st.name, f.P.posStr(f.Body.Pos()), "on every path of the new-key branch")
					}
				}
			}
			if len(fE) == 0 || len(tE) == 0 {
				r.Fail("omap/coupling", key, f.P.posStr(f.Body.Pos()), "the result of the dictionary lookup is not branched on")
			}
			// none of the three happens for an existing key
			for _, st := range steps {
				for _, pt := range f.Find(st.pred) {
					if w, only := f.OnlyThroughEdges(pt, fE); !only {
						r.Fail("omap/coupling", key+" existing key untouched: "+st.name, f.PosOf(pt), "an existing key must be replaced in place (insertion order keeps the first insertion)", w...)
					} else {
						r.Pass("omap/coupling", key+" existing key untouched: "+st.name, f.PosOf(pt), "only on the new-key branch")
					}
				}
			}
			// in place replacement: <elem>.value = newValue on the exists edge
			if elemVar != nil {
				repl := f.Find(func(n ast.Node) bool {
					as, ok := n.(*ast.AssignStmt)
					return ok && len(as.Lhs) == 1 && fieldSel(info, as.Lhs[0], "value") && rootObj(info, as.Lhs[0]) == elemVar
				})
				if len(repl) == 1 {
					if _, only := f.OnlyThroughEdges(repl[0], tE); only {
						r.Pass("omap/coupling", key+" replace in place", f.PosOf(repl[0]), "value of the existing element is overwritten on the exists edge")
					} else {
						r.Fail("omap/coupling", key+" replace in place", f.PosOf(repl[0]), "value replacement not confined to the exists edge")
					}
				} else {
					r.Fail("omap/coupling", key+" replace in place", f.P.posStr(f.Body.Pos()), fmt.Sprintf("expected one in-place value replacement, found %d", len(repl)))
				}
			}
			// append at tail: head = new on head==nil, else tail.next = new and new.prev = tail
			headNil := f.RelEdgesAt(func(rel Rel) bool {
				return rel.Op == "==" && (stripRoot(rel.L) == ".head" && rel.R == "nil" || stripRoot(rel.R) == ".head" && rel.L == "nil")
			})
			headNon := f.RelEdgesAt(func(rel Rel) bool {
				return rel.Op == "!=" && (stripRoot(rel.L) == ".head" && rel.R == "nil" || stripRoot(rel.R) == ".head" && rel.L == "nil")
			})
			tailNon := f.RelEdgesAt(func(rel Rel) bool {
				return rel.Op == "!=" && (stripRoot(rel.L) == ".tail" && rel.R == "nil" || stripRoot(rel.R) == ".tail" && rel.L == "nil")
			})
			rows := []struct {
				name  string
				pred  func(ast.Node) bool
				edges []Edge
			}{
				{"head = new (empty map)", assignTo(".head", nil), headNil},
				// the old tail must exist where it is dereferenced: known through head != nil or tail != nil
				// (both are nil exactly for the empty map)
				{"tail.next = new", assignTo(".tail.next", nil), append(append([]Edge{}, headNon...), tailNon...)},
				// pointing the new element back at the old tail needs no guard: for the empty map the old
				// tail is nil, which is what the first element's prev has to be
				{"new.prev = tail", assignTo(".prev", func(e ast.Expr) bool { return strings.HasSuffix(keyOf(e), ".tail") }), nil},
			}
			for _, rw := range rows {
				pts := f.Find(rw.pred)
				if len(pts) != 1 {
					r.Fail("omap/coupling", key+" append: "+rw.name, f.P.posStr(f.Body.Pos()), fmt.Sprintf("expected exactly one such store, found %d", len(pts)))
					continue
				}
				if rw.edges == nil {
					r.Pass("omap/coupling", key+" append: "+rw.name, f.PosOf(pts[0]), "the new element points back at the old tail")
				} else if w, only := f.OnlyThroughEdges(pts[0], rw.edges); only {
					r.Pass("omap/coupling", key+" append: "+rw.name, f.PosOf(pts[0]), "on the matching emptiness edge")
				} else {
					r.Fail("omap/coupling", key+" append: "+rw.name, f.PosOf(pts[0]), "store not controlled by the head==nil test", w...)
				}
			}
		}
	}
	// ---- Delete
	if f := p.CFGOf(om, "OrderedMap", "Delete"); f == nil {
		r.Unresolved("omap/coupling", om+".OrderedMap.Delete", "method not found")
	} else {
		key := om + ".OrderedMap.Delete"
		curF = f
		dels := f.Find(dictCall("Delete"))
		if len(dels) != 1 {
			r.Fail("omap/coupling", key, f.P.posStr(f.Body.Pos()), fmt.Sprintf("expected one dictionary.Delete, found %d", len(dels)))
		} else {
			// from the dictionary deletion, every path to exit decrements size and fixes both directions
			nilEdges := func(field string, eq bool) []Edge {
				return f.RelEdgesAt(func(rel Rel) bool {
					op := "!="
					if eq {
						op = "=="
					}
					return rel.Op == op && (strings.HasSuffix(rel.L, "."+field) && rel.R == "nil" || strings.HasSuffix(rel.R, "."+field) && rel.L == "nil")
				})
			}
			// (a removal that reports whether it removed anything - DeleteAndReturn - obliges only on the
			// edge on which it did)
			notRemoved := map[Edge]bool{}
			f.forEachEdgeFact(func(e Edge, b *cfg.Block, ft fact) {
				if ft.Pol {
					return
				}
				if c, idx := f.AtomCall(ft.Atom, Point{b, len(b.Nodes) - 1}); c != nil && idx == 1 && dictCall("Delete")(c) {
					notRemoved[e] = true
				}
			})
			toExitAvoiding := func(from Point, avoid func(ast.Node) bool) ([]string, bool) {
				return f.reach(Point{from.B, from.I + 1}, &searchOpts{AvoidNode: avoid, AvoidEdge: func(e Edge) bool { return notRemoved[e] }}, func(pt Point, atExit bool) bool { return atExit })
			}
			if w, found := toExitAvoiding(dels[0], incDec("size", token.DEC)); found {
				r.Fail("omap/coupling", key+" size--", f.PosOf(dels[0]), "a path deletes the dictionary entry without decrementing size", w...)
			} else {
				r.Pass("omap/coupling", key+" size--", f.PosOf(dels[0]), "follows the dictionary deletion on every path")
			}
			rows := []struct {
				name  string
				pred  func(ast.Node) bool
				edges []Edge
			}{
				{"prev.next = next", assignTo(".prev.next", func(e ast.Expr) bool { return strings.HasSuffix(keyOf(e), ".next") }), nilEdges("prev", false)},
				{"head = next", assignTo(".head", func(e ast.Expr) bool { return strings.HasSuffix(keyOf(e), ".next") }), nilEdges("prev", true)},
				{"next.prev = prev", assignTo(".next.prev", func(e ast.Expr) bool { return strings.HasSuffix(keyOf(e), ".prev") }), nilEdges("next", false)},
				{"tail = prev", assignTo(".tail", func(e ast.Expr) bool { return strings.HasSuffix(keyOf(e), ".prev") }), nilEdges("next", true)},
			}
			for _, rw := range rows {
				pts := f.Find(rw.pred)
				if len(pts) != 1 {
					r.Fail("omap/coupling", key+" unlink: "+rw.name, f.P.posStr(f.Body.Pos()), fmt.Sprintf("expected exactly one such store, found %d", len(pts)))
					continue
				}
				if w, only := f.OnlyThroughEdges(pts[0], rw.edges); only {
					r.Pass("omap/coupling", key+" unlink: "+rw.name, f.PosOf(pts[0]), "on the matching nil-edge")
				} else {
					r.Fail("omap/coupling", key+" unlink: "+rw.name, f.PosOf(pts[0]), "store not controlled by the matching nil test of the neighbour", w...)
				}
			}
			for _, pair := range [][2]int{{0, 1}, {2, 3}} {
				a, b := rows[pair[0]].pred, rows[pair[1]].pred
				if w, found := toExitAvoiding(dels[0], func(n ast.Node) bool { return a(n) || b(n) }); found {
					r.Fail("omap/coupling", key+" unlink both directions: "+rows[pair[0]].name, f.PosOf(dels[0]), "a path removes the entry without fixing this direction of the chain", w...)
				} else {
					r.Pass("omap/coupling", key+" unlink both directions: "+rows[pair[0]].name, f.PosOf(dels[0]), "one of the two stores on every path")
				}
			}
			// reports presence
			okT, okF := false, false
			inspectNoLit(f.Body, func(n ast.Node) bool {
				if rs, ok := n.(*ast.ReturnStmt); ok && len(rs.Results) == 1 {
					switch exprKey(rs.Results[0]) {
					case "true":
						okT = true
					case "false":
						okF = true
					}
				}
				return true
			})
			if okT && okF {
				r.Pass("omap/coupling", key+" reports presence", f.P.posStr(f.Body.Pos()), "returns true after a deletion and false for an absent key")
			} else {
				r.Fail("omap/coupling", key+" reports presence", f.P.posStr(f.Body.Pos()), "Delete must report whether the key was present")
			}
		}
	}
	curF = nil
	// ---- Clear
	if fd := p.FuncDecl(om, "OrderedMap", "Clear"); fd == nil {
		r.Unresolved("omap/coupling", om+".OrderedMap.Clear", "method not found")
	} else {
		f := newFuncCFG(p, info, fd.Body, om+".OrderedMap.Clear")
		locks := f.Find(func(n ast.Node) bool {
			c, ok := n.(*ast.CallExpr)
			if !ok {
				return false
			}
			op, _ := lockOp(info, c)
			return op == "Lock"
		})
		for _, fld := range []string{"head", "tail", "size", "dictionary"} {
			key := om + ".OrderedMap.Clear resets " + fld
			if len(locks) == 0 {
				r.Fail("omap/coupling", key, p.posStr(fd.Pos()), "Clear does not lock")
				continue
			}
			if w, found := f.PathToExitAvoiding(locks[0], assignTo("."+fld, nil)); found {
				r.Fail("omap/coupling", key, p.posStr(fd.Pos()), "Clear leaves "+fld+" untouched on some path", w...)
			} else {
				r.Pass("omap/coupling", key, p.posStr(fd.Pos()), "reset on every path")
			}
		}
	}
	// ---- iteration direction
	for _, row := range []struct{ m, start, step string }{{"ForEach", "head", "next"}, {"ForEachReverse", "tail", "prev"}} {
		fd := p.FuncDecl(om, "OrderedMap", row.m)
		key := om + ".OrderedMap." + row.m
		if fd == nil {
			r.Unresolved("omap/iteration-order", key, "method not found")
			continue
		}
		// the loop that invokes the consumer walks a cursor: every assignment to the cursor inside
		// the loop is <cursor>.<step>, and what reaches the loop from outside is <map>.<start>
		// (resolved through temporaries and locked accessor helpers)
		var starts, steps []string
		{
			f := newFuncCFG(p, info, fd.Body, key)
			params := paramObjs(info, fd)
			var cursor types.Object
			var loop *loopInfo
			for _, l := range f.Loops() {
				l := l
				// the consumer: the method's parameter, also after it was handed on to an iteration helper
				isConsumerCall := func(c *ast.CallExpr) bool {
					if len(params) == 0 || objOfIdent(info, c.Fun) == nil {
						return false
					}
					if objOfIdent(info, c.Fun) == params[0] {
						return true
					}
					cpt, ok := f.PointOf(c)
					return ok && f.IsVar(c.Fun, cpt, params[0])
				}
				for _, pt := range f.Find(func(n ast.Node) bool {
					c, ok := n.(*ast.CallExpr)
					return ok && isConsumerCall(c)
				}) {
					if f.InLoopBody(l, pt) {
						loop = &l
						// the cursor is the variable whose fields are handed to the consumer
						inspectNoLit(f.nodeAt(pt), func(m ast.Node) bool {
							if c, ok := m.(*ast.CallExpr); ok && isConsumerCall(c) && len(c.Args) > 0 {
								cursor = rootObj(info, c.Args[0])
							}
							return true
						})
					}
				}
			}
			if loop != nil && cursor != nil {
				// (a direction flag handed to a shared iteration helper as a constant fixes the branch taken)
				fixed := f.constBoolParams()
				for _, b := range f.G.Blocks {
					if !b.Live {
						continue
					}
					for i, nd := range b.Nodes {
						as, ok := nd.(*ast.AssignStmt)
						if !ok || len(as.Lhs) != 1 || len(as.Rhs) != 1 || objOfIdent(info, as.Lhs[0]) != cursor {
							continue
						}
						pt := Point{b, i}
						if len(fixed) > 0 {
							if _, feasible := f.reach(f.entry(), &searchOpts{InitFacts: fixed}, func(q Point, atExit bool) bool { return !atExit && f.At(q, pt) }); !feasible {
								continue
							}
						}
						k := f.KeyAt(as.Rhs[0], pt)
						fieldName := k[strings.LastIndex(k, ".")+1:]
						if f.InLoopBody(*loop, pt) || b.Kind == cfg.KindForPost {
							steps = append(steps, fieldName)
						} else {
							starts = append(starts, fieldName)
						}
					}
				}
			}
		}
		if len(starts) == 1 && starts[0] == row.start && len(steps) == 1 && steps[0] == row.step {
			r.Pass("omap/iteration-order", key, p.posStr(fd.Pos()), "starts at "+row.start+" and follows "+row.step)
		} else {
			r.Fail("omap/iteration-order", key, p.posStr(fd.Pos()), fmt.Sprintf("must start at %s and follow %s; found start %v step %v", row.start, row.step, starts, steps))
		}
	}
	checkOmapRemovedKeepsLinks(r, p)
}

// checkOmapRemovedKeepsLinks (shared by C11 and C15: event hooks live in an OrderedMap that Trigger
// walks with ForEach while hooks unhook themselves or are unhooked concurrently).
func checkOmapRemovedKeepsLinks(r *Reporter, p *Prog) {
	const om = "ds/orderedmap"
	if p.Pkg(om) == nil {
		r.Unresolved("omap/removed-element-keeps-links", om, "package not loaded")
		return
	}
	info := p.Pkg(om).TypesInfo
	// ---- a removed element keeps its own links
	// ForEach/ForEachReverse release the lock between steps and continue from the pointer of the
	// element they visited last; if that element was deleted meanwhile (by the consumer or by
	// another goroutine) its own next/prev must still lead back into the chain.
	// (stepwise = the consumer is invoked with the map's mutex released, inside a loop: the iteration
	// holds on to an element across a window in which it can be deleted - judged on the iteration's
	// graph with its helpers in place, whatever form the cursor handling takes)
	stepwise := 0
	for _, m := range []string{"ForEach", "ForEachReverse"} {
		ifd := p.FuncDecl(om, "OrderedMap", m)
		if ifd == nil || ifd.Body == nil {
			continue
		}
		itf := newFuncCFG(p, info, ifd.Body, om+".OrderedMap."+m)
		params := paramObjs(info, ifd)
		held := itf.LocksHeld(nil)
		for _, c := range itf.Calls(func(c *ast.CallExpr) bool { _, isId := ast.Unparen(c.Fun).(*ast.Ident); return isId }) {
			cpt, found := itf.PointOf(c)
			if !found || len(params) == 0 || !(objOfIdent(info, c.Fun) == params[0] || itf.IsVar(c.Fun, cpt, params[0])) {
				continue
			}
			inLoop := false
			for _, l := range itf.Loops() {
				if itf.InLoopBody(l, cpt) {
					inLoop = true
				}
			}
			if inLoop && len(held(cpt)) == 0 {
				stepwise++
				break
			}
		}
	}
	if fd := p.FuncDecl(om, "OrderedMap", "Delete"); fd == nil {
		r.Unresolved("omap/removed-element-keeps-links", om+".OrderedMap.Delete", "method not found")
	} else if stepwise > 0 {
		// the removed element: what dictionary.Get(key) returned; its own links must not be written -
		// in Delete or in an unlink helper the element is handed to
		df := newFuncCFG(p, info, fd.Body, om+".OrderedMap.Delete")
		var elem types.Object
		ast.Inspect(fd.Body, func(n ast.Node) bool {
			if as, ok := n.(*ast.AssignStmt); ok && len(as.Rhs) == 1 && len(as.Lhs) == 2 && (strings.HasSuffix(exprKey(as.Rhs[0]), ".dictionary.Get(key)") || strings.HasSuffix(exprKey(as.Rhs[0]), ".dictionary.DeleteAndReturn(key)")) {
				elem = objOfIdent(info, as.Lhs[0])
			}
			return true
		})
		var bad []string
		for _, b := range df.G.Blocks {
			if !b.Live {
				continue
			}
			for bi, nd := range b.Nodes {
				as, ok := nd.(*ast.AssignStmt)
				if !ok {
					continue
				}
				pt := Point{b, bi}
				for li, l := range as.Lhs {
					se, ok := ast.Unparen(l).(*ast.SelectorExpr)
					if !ok || (se.Sel.Name != "next" && se.Sel.Name != "prev") || elem == nil {
						continue
					}
					if objOfIdent(info, se.X) == elem || df.IsVar(se.X, pt, elem) {
						rhs := ""
						if li < len(as.Rhs) {
							rhs = exprKey(as.Rhs[li])
						}
						bad = append(bad, p.posStr(as.Pos())+" "+exprKey(l)+" = "+rhs)
					}
				}
			}
		}
		switch {
		case elem == nil:
			r.Fail("omap/removed-element-keeps-links", om+".OrderedMap.Delete", p.posStr(fd.Pos()), "the removed element (dictionary.Get(key)) was not found")
		case len(bad) > 0:
			r.Fail("omap/removed-element-keeps-links", om+".OrderedMap.Delete", p.posStr(fd.Pos()), "Delete overwrites the removed element's own links ("+bad[0]+"): an iteration that is standing on this element (ForEach releases the lock between steps) loses every later entry", bad...)
		default:
			r.Pass("omap/removed-element-keeps-links", om+".OrderedMap.Delete", p.posStr(fd.Pos()), fmt.Sprintf("only neighbours' links and head/tail are rewritten; %d stepwise iterator(s) rely on it", stepwise))
		}
	} else {
		r.Pass("omap/removed-element-keeps-links", om+".OrderedMap.Delete", p.posStr(fd.Pos()), "no stepwise iterator: rule not applicable")
	}
}

// checkSetProtocol: applyMutex protocol and exact diffs of ds.set.
func checkSetProtocol(r *Reporter, p *Prog) {
	const pkg = "ds"
	info := p.Pkg(pkg).TypesInfo
	// every set operation is one section on applyMutex (Compute/Replace: evaluate and apply together)
	checkAtomicOperations(r, p, "set/one-apply-section", pkg, "set", "applyMutex")
	// mutation calls on the underlying ordered map made from set methods
	isMutation := func(c *ast.CallExpr) (string, bool) {
		se, ok := ast.Unparen(c.Fun).(*ast.SelectorExpr)
		if !ok {
			return "", false
		}
		sel := info.Selections[se]
		if sel == nil || sel.Kind() != types.MethodVal {
			return "", false
		}
		fn, _ := sel.Obj().(*types.Func)
		if fn == nil {
			return "", false
		}
		rt := namedOfRecv(fn.Origin())
		if rt == nil || rt.Obj().Name() != "OrderedMap" {
			return "", false
		}
		switch funcName(fn) {
		case "Set", "Delete", "Clear":
			return funcName(fn), true
		}
		return "", false
	}
	// The underlying ordered map synchronises single operations itself; applyMutex orders them against
	// the whole-set operations: every mutation of the map made from a set method (directly, through
	// a helper, or in a closure a helper returns) happens with applyMutex held at least shared, and
	// apply - the body of the whole-set operations - is entered with it held exclusively. Helpers that
	// rely on their caller's lock are inferred (rules_lock.go), so the rule does not depend on which
	// method a mutation is written in.
	checkGuards(r, p, "set/apply-mutex-protocol", []GuardRow{{
		Pkg: pkg, Type: "set", Mutex: "applyMutex", Fields: []string{"readableSet"},
		Mutators:  map[string][]string{"readableSet": {"Set", "Delete", "Clear"}},
		WOnly:     true,
		WriteMode: ModeR,
		CH:        map[string]LockMode{"apply": ModeW},
	}})
	// the whole-set operations take the mutex exclusively (a shared holder would interleave with
	// single-element mutations between the evaluation and the application of the change)
	for _, m := range []string{"Replace", "Apply", "Compute"} {
		fd := p.FuncDecl(pkg, "set", m)
		fkey := "ds.set." + m
		if fd == nil {
			r.Unresolved("set/apply-mutex-protocol", fkey, "method not found")
			continue
		}
		f := newFuncCFG(p, info, fd.Body, fkey)
		nW, nR := 0, 0
		for _, c := range f.Calls(func(c *ast.CallExpr) bool {
			op, path := lockOp(info, c)
			return op != "" && strings.HasSuffix(path, ".applyMutex")
		}) {
			switch op, _ := lockOp(info, c); op {
			case "Lock":
				nW++
			case "RLock":
				nR++
			}
		}
		if nW == 1 && nR == 0 {
			r.Pass("set/apply-mutex-protocol", fkey+" exclusive", p.posStr(fd.Pos()), "takes applyMutex exclusively, once")
		} else {
			r.Fail("set/apply-mutex-protocol", fkey+" exclusive", p.posStr(fd.Pos()), fmt.Sprintf("a whole-set operation must take applyMutex exclusively, once (found %d Lock, %d RLock): single-element mutations interleave between evaluating and applying the change", nW, nR))
		}
	}
	// Apply / Compute go through apply under W (covered above); exact diffs:
	type diffRow struct {
		method string
		minAdd int
	}
	for _, row := range []diffRow{{"AddAll", 1}, {"DeleteAll", 1}, {"apply", 2}} {
		fd := p.FuncDecl(pkg, "set", row.method)
		key := "ds.set." + row.method
		if fd == nil {
			r.Unresolved("set/exact-diff", key, "method not found")
			continue
		}
		nAdds := 0
		// the callbacks of the operation: literals, literals out of a closure factory
		// (`Range(s.collector(result))`), or methods of a recorder struct used as method values
		for _, lit := range callbacksIn(p, info, fd.Body) {
			lf := newFuncCFG(p, info, lit.Body, key+"$callback")
			// is e the callback's own element parameter, possibly handed down to a helper or to a
			// closure that came out of a factory
			isElem := func(e ast.Expr, pt Point, lparams map[types.Object]bool) bool {
				if lparams[objOfIdent(info, e)] {
					return true
				}
				for po := range lparams {
					if po != nil && lf.IsVar(e, pt, po) {
						return true
					}
				}
				return false
			}
			lparams := map[types.Object]bool{}
			for _, po := range lit.Params(info) {
				lparams[po] = true
			}
			// what a branch atom stands for: result #idx of a call - written as the call itself,
			// as lo.Return2(call), or as a variable bound to one of the call's results
			atomCall := func(e ast.Expr, pt Point) (*ast.CallExpr, int) {
				e = ast.Unparen(e)
				if c, ok := e.(*ast.CallExpr); ok {
					if strings.HasSuffix(exprKey(c.Fun), "Return2") && len(c.Args) == 1 {
						if ic, ok := ast.Unparen(c.Args[0]).(*ast.CallExpr); ok {
							return ic, 1
						}
					}
					if strings.HasSuffix(exprKey(c.Fun), "Return1") && len(c.Args) == 1 {
						if ic, ok := ast.Unparen(c.Args[0]).(*ast.CallExpr); ok {
							return ic, 0
						}
					}
					return c, 0
				}
				if id, ok := e.(*ast.Ident); ok {
					obj := info.Uses[id]
					if obj == nil {
						return nil, 0
					}
					defs, fromEntry := lf.ReachingDefs(pt, obj)
					if len(defs) == 1 && !fromEntry {
						if as, ok := lf.nodeAt(defs[0].At).(*ast.AssignStmt); ok && len(as.Rhs) == 1 {
							if c, ok := ast.Unparen(as.Rhs[0]).(*ast.CallExpr); ok {
								for i, l := range as.Lhs {
									if objOfIdent(info, l) == obj {
										return c, i
									}
								}
							}
						}
					}
				}
				return nil, 0
			}
			changed := func(e ast.Expr, pt Point) (isSet, isDel bool) {
				c, idx := atomCall(e, pt)
				if c == nil {
					return
				}
				cpt, found := lf.PointOf(c)
				if !found {
					cpt = pt
				}
				if m, isMut := isMutation(c); isMut && m == "Set" && idx == 1 && len(c.Args) > 0 && isElem(c.Args[0], cpt, lparams) {
					return true, false
				}
				if m, isMut := isMutation(c); isMut && m == "Delete" && idx == 0 && len(c.Args) == 1 && isElem(c.Args[0], cpt, lparams) {
					return false, true
				}
				// s.Delete(element) of the set itself - not of a result collector (a set made inside the
				// operation and captured by the callback)
				if se, ok := ast.Unparen(c.Fun).(*ast.SelectorExpr); ok && se.Sel.Name == "Delete" && idx == 0 && len(c.Args) == 1 && isElem(c.Args[0], cpt, lparams) {
					if ro, isVar := rootObj(info, se.X).(*types.Var); isVar && ro.Pos() > fd.Body.Pos() && ro.Pos() < fd.Body.End() && lit.Outside(info, ro) {
						return
					}
					return false, true
				}
				return
			}
			var setFalse, delTrue []Edge
			lf.forEachEdgeFact(func(e Edge, b *cfg.Block, ft fact) {
				isSet, isDel := changed(ft.Atom, Point{b, len(b.Nodes) - 1})
				if isSet && !ft.Pol {
					setFalse = append(setFalse, e) // "already present" is false: the element was added
				}
				if isDel && ft.Pol {
					delTrue = append(delTrue, e)
				}
			})
			lic := append(append([]Edge{}, setFalse...), delTrue...)
			// ... and the converse: once the underlying operation reported a membership change, every path
			// to the end of the callback reports the element (a change that is applied but not reported
			// leaves every subscriber and derived set with the wrong contents)
			isResultAdd := func(n ast.Node) bool {
				c, ok := n.(*ast.CallExpr)
				if !ok || len(c.Args) != 1 {
					return false
				}
				se, ok := ast.Unparen(c.Fun).(*ast.SelectorExpr)
				if !ok || se.Sel.Name != "Add" {
					return false
				}
				cpt, found := lf.PointOf(c)
				return found && isElem(c.Args[0], cpt, lparams) && lit.Outside(info, rootObj(info, se.X))
			}
			// a change can also be reported by CANCELLATION: the element is taken out of the opposite
			// result collector again (it was added and deleted by the same call, the net effect is nothing)
			// - on the edge on which that removal succeeded
			cancelled := map[Edge]bool{}
			lf.forEachEdgeFact(func(e Edge, b *cfg.Block, ft fact) {
				if !ft.Pol {
					return
				}
				c, idx := atomCall(ft.Atom, Point{b, len(b.Nodes) - 1})
				if c == nil || idx != 0 || len(c.Args) != 1 {
					return
				}
				se, ok := ast.Unparen(c.Fun).(*ast.SelectorExpr)
				if !ok || se.Sel.Name != "Delete" {
					return
				}
				cpt, found := lf.PointOf(c)
				if !found || !isElem(c.Args[0], cpt, lparams) {
					return
				}
				if ro, isVar := rootObj(info, se.X).(*types.Var); isVar && ro.Pos() > fd.Body.Pos() && ro.Pos() < fd.Body.End() && lit.Outside(info, ro) {
					cancelled[e] = true
				}
			})
			for _, e := range lic {
				e := e
				if w, found := lf.reach(Point{e.From.Succs[e.Succ], 0}, &searchOpts{AvoidNode: isResultAdd, AvoidEdge: func(e2 Edge) bool { return cancelled[e2] }, FromEdge: &e}, func(pt Point, atExit bool) bool { return atExit }); found {
					r.Fail("set/exact-diff", key+" (every change reported)", p.posStr(condOf(e.From).Pos()), "after the underlying Set/Delete reported a membership change a path leaves the callback without putting the element into the result set: the change is applied but not reported", w...)
				} else {
					r.Pass("set/exact-diff", key+" (every change reported)", p.posStr(condOf(e.From).Pos()), "every membership change is reported")
				}
			}
			for _, pt := range lf.Find(func(n ast.Node) bool {
				c, ok := n.(*ast.CallExpr)
				if !ok || len(c.Args) != 1 {
					return false
				}
				se, ok := ast.Unparen(c.Fun).(*ast.SelectorExpr)
				if !ok || se.Sel.Name != "Add" {
					return false
				}
				cpt, found := lf.PointOf(c)
				if !found || !isElem(c.Args[0], cpt, lparams) {
					return false
				}
				// the result set: state outside the callback (a captured variable, or a field of the receiver
				// that carries the captured state)
				return lit.Outside(info, rootObj(info, se.X))
			}) {
				nAdds++
				if w, only := lf.OnlyThroughEdges(pt, lic); only {
					r.Pass("set/exact-diff", key, lf.PosOf(pt), "the result set receives the element only when the underlying Set/Delete reported a membership change")
				} else {
					r.Fail("set/exact-diff", key, lf.PosOf(pt), "an element is reported as changed without the underlying operation having reported a membership change", w...)
				}
			}
		}
		if nAdds < row.minAdd {
			r.Fail("set/exact-diff", key, p.posStr(fd.Pos()), fmt.Sprintf("expected %d result-set insertion(s) inside callbacks, found %d", row.minAdd, nAdds))
		}
	}
	// Replace returns the previous elements and rebuilds from the argument
	if fd := p.FuncDecl(pkg, "set", "Replace"); fd == nil {
		r.Unresolved("set/replace", "ds.set.Replace", "method not found")
	} else {
		f := newFuncCFG(p, info, fd.Body, "ds.set.Replace")
		isSnap := func(n ast.Node) bool {
			as, ok := n.(*ast.AssignStmt)
			return ok && len(as.Rhs) == 1 && strings.Contains(exprKey(as.Rhs[0]), ".ToSlice()")
		}
		isClear := func(n ast.Node) bool {
			c, ok := n.(*ast.CallExpr)
			if !ok {
				return false
			}
			m, isMut := isMutation(c)
			return isMut && m == "Clear"
		}
		clears := f.Find(isClear)
		if len(clears) != 1 {
			r.Fail("set/replace", "ds.set.Replace", p.posStr(fd.Pos()), "expected one Clear of the underlying map")
		} else if _, found := f.PathFromEntryAvoiding(clears[0], isSnap, nil); found {
			r.Fail("set/replace", "ds.set.Replace", f.PosOf(clears[0]), "the set is cleared before the previous elements were snapshotted")
		} else {
			r.Pass("set/replace", "ds.set.Replace", f.PosOf(clears[0]), "previous elements are snapshotted before Clear")
		}
		// exact diff: the returned set must not contain elements that are part of the new contents
		var retVar types.Object
		ast.Inspect(fd.Body, func(n ast.Node) bool {
			if _, isLit := n.(*ast.FuncLit); isLit {
				return false
			}
			if rs, ok := n.(*ast.ReturnStmt); ok && len(rs.Results) == 1 {
				retVar = objOfIdent(info, rs.Results[0])
			}
			return true
		})
		excluded := false
		ast.Inspect(fd.Body, func(n ast.Node) bool {
			lit, ok := n.(*ast.FuncLit)
			if !ok {
				return true
			}
			lp := map[types.Object]bool{}
			for _, fl := range lit.Type.Params.List {
				for _, nm := range fl.Names {
					lp[info.Defs[nm]] = true
				}
			}
			ast.Inspect(lit.Body, func(m ast.Node) bool {
				if cl, ok := m.(*ast.CallExpr); ok && len(cl.Args) == 1 && lp[objOfIdent(info, cl.Args[0])] {
					if se, ok := ast.Unparen(cl.Fun).(*ast.SelectorExpr); ok && se.Sel.Name == "Delete" && retVar != nil && objOfIdent(info, se.X) == retVar {
						excluded = true
					}
				}
				return true
			})
			return false
		})
		if excluded {
			r.Pass("set/exact-diff", "ds.set.Replace", p.posStr(fd.Pos()), "elements that are part of the new contents are taken out of the returned set: only removed elements are reported")
		} else {
			r.Fail("set/exact-diff", "ds.set.Replace", p.posStr(fd.Pos()), "Replace returns every previous element, including those that stay in the set: it must return exactly the elements whose membership changed")
		}
	}
}

func checkSetArithmetic(r *Reporter, p *Prog) {
	const pkg = "ds"
	info := p.Pkg(pkg).TypesInfo
	_ = info
	routes := map[string][2]string{ // method -> collector used for (added, deleted)
		"Add":      {"AddedElementsCollector", "SubtractedElementsCollector"},
		"Subtract": {"SubtractedElementsCollector", "AddedElementsCollector"},
	}
	for m, want := range routes {
		fd := p.FuncDecl(pkg, "setArithmetic", m)
		key := "ds.setArithmetic." + m
		if fd == nil {
			r.Unresolved("arith/routing", key, "method not found")
			continue
		}
		got := map[string]string{}
		var noThreshold []string
		ast.Inspect(fd.Body, func(n ast.Node) bool {
			c, ok := n.(*ast.CallExpr)
			if !ok || len(c.Args) != 1 {
				return true
			}
			se, ok := ast.Unparen(c.Fun).(*ast.SelectorExpr)
			if !ok || se.Sel.Name != "Range" {
				return true
			}
			src := ""
			if ic, ok := ast.Unparen(se.X).(*ast.CallExpr); ok {
				src = shortTypeName(exprKey(ic.Fun))
			}
			if cc, ok := ast.Unparen(c.Args[0]).(*ast.CallExpr); ok {
				got[src] = shortTypeName(exprKey(cc.Fun))
				// the caller's threshold reaches the collector (without it the collector falls back to 1)
				if !(cc.Ellipsis.IsValid() && len(cc.Args) > 0 && exprKey(cc.Args[len(cc.Args)-1]) == "threshold") {
					noThreshold = append(noThreshold, src)
				}
			}
			return true
		})
		if len(noThreshold) > 0 && variadicParam(fd, "threshold") {
			r.Fail("arith/threshold-forwarded", key, p.posStr(fd.Pos()), fmt.Sprintf("the collector for %v is built without the caller's threshold: it counts against the default of 1, so crossings are reported at the wrong count and %s no longer mirrors its sibling", noThreshold, m))
		} else {
			r.Pass("arith/threshold-forwarded", key, p.posStr(fd.Pos()), "both collectors receive the caller's threshold")
		}
		if got["AddedElements"] == want[0] && got["DeletedElements"] == want[1] {
			r.Pass("arith/routing", key, p.posStr(fd.Pos()), fmt.Sprintf("added -> %s, deleted -> %s", want[0], want[1]))
		} else {
			r.Fail("arith/routing", key, p.posStr(fd.Pos()), fmt.Sprintf("added elements must go to %s and deleted elements to %s; found %v", want[0], want[1], got))
		}
	}
	checkCollectorTable(r, p)
}

// variadicParam: fd has a variadic parameter of that name.
func variadicParam(fd *ast.FuncDecl, name string) bool {
	for _, fl := range fd.Type.Params.List {
		if _, isEll := fl.Type.(*ast.Ellipsis); isEll {
			for _, nm := range fl.Names {
				if nm.Name == name {
					return true
				}
			}
		}
	}
	return false
}

// checkCollectorTable judges the two exported collectors of SetArithmetic end to end, whatever the
// shape of the unexported factories behind them (one factory with a direction flag, two specialised
// ones, wrappers that hand a delta and a crossing count to a shared one): following the chain of
// factory calls from the exported method to the function literal, every parameter of the factory that
// declares the literal is expressed in terms of what the exported method handed in - ADDED / DELETED
// (the two element sets of the mutations), T (the threshold, defaulting to 1), constants. Then, per
// collector:
//
//	step      the count function returns <current>+1 (Added) / <current>-1 (Subtracted)
//	crossing  the element is collected only where the new count == T (Added) / T-1 (Subtracted)
//	opposing  ... and where <opposite set>.Delete(element) reported false
//	target    and it is collected into ADDED (Added) / DELETED (Subtracted)
func checkCollectorTable(r *Reporter, p *Prog) {
	const pkg = "ds"
	info := p.Pkg(pkg).TypesInfo
	type row struct {
		method           string
		target, opposing string
		up               bool
	}
	for _, rw := range []row{{"AddedElementsCollector", "ADDED", "DELETED", true}, {"SubtractedElementsCollector", "DELETED", "ADDED", false}} {
		key := "ds.setArithmetic." + rw.method
		fd := p.FuncDecl(pkg, "setArithmetic", rw.method)
		if fd == nil {
			r.Unresolved("arith/routing", key, "method not found")
			continue
		}
		// the returned factory call
		var call *ast.CallExpr
		ast.Inspect(fd.Body, func(n ast.Node) bool {
			if rs, ok := n.(*ast.ReturnStmt); ok && len(rs.Results) == 1 {
				if c, ok := ast.Unparen(rs.Results[0]).(*ast.CallExpr); ok {
					call = c
				}
			}
			return true
		})
		if call == nil {
			r.Fail("arith/routing", key, p.posStr(fd.Pos()), "the collector must be built by a factory of the package")
			continue
		}
		role := func(e ast.Expr) string {
			k := exprKey(e)
			switch {
			case strings.HasSuffix(k, ".AddedElements()"):
				return "ADDED"
			case strings.HasSuffix(k, ".DeletedElements()"):
				return "DELETED"
			case strings.Contains(k, "First(threshold,1)"):
				return "T"
			}
			if tv, ok := info.Types[e]; ok && tv.Value != nil {
				return tv.Value.String()
			}
			return "?" + k
		}
		// follow the chain of factories: env maps the current factory's parameter names to terms
		env := map[string]string{}
		var lit *ast.FuncLit
		var factory *ast.FuncDecl
		cur := call
		argTerm := func(e ast.Expr) string { return role(e) }
		for depth := 0; depth < 4 && cur != nil; depth++ {
			fn := staticCallee(info, cur)
			if fn == nil {
				break
			}
			hd := p.decls().byFunc[fn.Origin()]
			if hd == nil || hd.Body == nil || hd.Name.IsExported() || len(hd.Body.List) == 0 {
				break
			}
			next := map[string]string{}
			for i, po := range paramObjs(info, hd) {
				if po != nil && i < len(cur.Args) {
					next[po.Name()] = argTerm(cur.Args[i])
				}
			}
			env = next
			// the factory's last statement returns the literal (earlier statements may hoist values the
			// literal captures: they are evaluated on the factory's graph) or, as its only statement, the
			// next factory's result
			rs, ok := hd.Body.List[len(hd.Body.List)-1].(*ast.ReturnStmt)
			if !ok || len(rs.Results) != 1 {
				break
			}
			switch x := ast.Unparen(rs.Results[0]).(type) {
			case *ast.FuncLit:
				lit, factory, cur = x, hd, nil
			case *ast.CallExpr:
				if len(hd.Body.List) != 1 {
					cur = nil
					break
				}
				// arguments of the next call are terms over this factory's parameters
				prev := env
				argTerm = func(e ast.Expr) string { return substTerms(exprKey(e), prev) }
				cur = x
			default:
				cur = nil
			}
		}
		if lit == nil || factory == nil {
			r.Fail("arith/threshold", key, p.posStr(fd.Pos()), "no chain of unexported single-return factories from the collector to a function literal")
			continue
		}
		assign := map[string]bool{}
		for name, t := range env {
			if t == "true" || t == "false" {
				assign[name] = t == "true"
			}
		}
		outer := newFuncCFG(p, info, factory.Body, key+"/factory")
		var creation Point
		for _, pt := range outer.Find(func(n ast.Node) bool { _, ok := n.(*ast.ReturnStmt); return ok }) {
			creation = pt
		}
		var countLit *ast.FuncLit
		ast.Inspect(lit.Body, func(n ast.Node) bool {
			if l, ok := n.(*ast.FuncLit); ok && l.Type.Params.NumFields() == 2 && countLit == nil {
				countLit = l
			}
			return true
		})
		if countLit == nil || lit.Type.Params.NumFields() != 1 {
			r.Fail("arith/threshold", key, p.posStr(lit.Pos()), "expected a collector literal of one element that computes the new count in a literal (current, exists)")
			continue
		}
		valuesIn := func(lf *FuncCFG, e ast.Expr, pt Point) []string {
			re, rpt := lf.Resolve(e, pt)
			set := map[string]bool{}
			var rec func(x ast.Expr) []string
			rec = func(x ast.Expr) []string {
				x = ast.Unparen(x)
				switch y := x.(type) {
				case *ast.BinaryExpr:
					var out []string
					for _, a := range rec(y.X) {
						for _, b := range rec(y.Y) {
							out = append(out, "("+a+y.Op.String()+b+")")
						}
					}
					return out
				case *ast.Ident:
					if v, isVar := info.Uses[y].(*types.Var); isVar && (v.Pos() < lf.Body.Pos() || v.Pos() > lf.Body.End()) {
						return outer.ValuesUnder(y, creation, assign) // captured
					}
				}
				return lf.ValuesUnder(x, rpt, assign)
			}
			for _, v := range rec(re) {
				set[normArith(substTerms(v, env))] = true
			}
			var out []string
			for k := range set {
				out = append(out, k)
			}
			sort.Strings(out)
			return out
		}
		cf := newFuncCFG(p, info, countLit.Body, key+"/count")
		curName := countLit.Type.Params.List[0].Names[0].Name
		ef := newFuncCFG(p, info, lit.Body, key+"/collect")
		elem := litParamObjs(info, lit)[0]
		termOf := func(e ast.Expr) string {
			if id, ok := ast.Unparen(e).(*ast.Ident); ok {
				if t, has := env[id.Name]; has {
					return t
				}
			}
			return "?" + exprKey(e)
		}
		isElemCall := func(n ast.Node, name, set string) bool {
			c, ok := n.(*ast.CallExpr)
			if !ok || len(c.Args) != 1 || objOfIdent(info, c.Args[0]) != elem {
				return false
			}
			se, ok := ast.Unparen(c.Fun).(*ast.SelectorExpr)
			return ok && se.Sel.Name == name && termOf(se.X) == set
		}
		var problems []string
		adds := ef.Find(func(n ast.Node) bool { return isElemCall(n, "Add", rw.target) })
		wrongAdds := ef.Find(func(n ast.Node) bool { return isElemCall(n, "Add", rw.opposing) })
		if len(adds) == 0 || len(wrongAdds) > 0 {
			problems = append(problems, "the element must be collected into the "+strings.ToLower(rw.target)+" set of the mutations")
		}
		_, notDeleted := ef.CondEdges(func(e ast.Expr) bool { return isElemCall(ast.Unparen(e), "Delete", rw.opposing) })
		okOpp := len(notDeleted) > 0
		for _, a := range adds {
			if _, only := ef.OnlyThroughEdges(a, notDeleted); !only {
				okOpp = false
			}
		}
		if !okOpp {
			problems = append(problems, "the element must be collected only where "+strings.ToLower(rw.opposing)+".Delete(element) reported false (cancel against the opposite set first)")
		}
		wantStep := map[bool][]string{true: {"(" + curName + "+1)", "(1+" + curName + ")"}, false: {"(" + curName + "+-1)", "(-1+" + curName + ")", "(" + curName + "-1)"}}[rw.up]
		wantThr := map[bool]string{true: "T", false: "(T-1)"}[rw.up]
		src := ""
		for _, b := range cf.G.Blocks {
			for i, nd := range b.Nodes {
				if rs, ok := nd.(*ast.ReturnStmt); ok && len(rs.Results) == 1 && b.Live {
					vals := valuesIn(cf, rs.Results[0], Point{b, i})
					src += fmt.Sprintf(" step=%v", vals)
					good := false
					if len(vals) == 1 {
						for _, w := range wantStep {
							if vals[0] == w {
								good = true
							}
						}
					}
					if !good {
						problems = append(problems, fmt.Sprintf("the count must change by %s1, found %v", map[bool]string{true: "+", false: "-"}[rw.up], vals))
					}
				}
			}
		}
		var crossing []Edge
		ef.forEachEdgeFact(func(e Edge, b *cfg.Block, ft fact) {
			be, isBin := ast.Unparen(ft.Atom).(*ast.BinaryExpr)
			if !isBin || !((be.Op == token.EQL && ft.Pol) || (be.Op == token.NEQ && !ft.Pol)) {
				return
			}
			pt := Point{b, len(b.Nodes) - 1}
			for _, sides := range [][2]ast.Expr{{be.X, be.Y}, {be.Y, be.X}} {
				if !strings.Contains(ef.KeyAt(sides[0], pt), ".Compute("+elem.Name()+",") {
					continue
				}
				vals := valuesIn(ef, sides[1], pt)
				src += fmt.Sprintf(" crossing=%v", vals)
				if len(vals) == 1 && vals[0] == wantThr {
					crossing = append(crossing, e)
				}
			}
		})
		okThr := len(crossing) > 0
		for _, a := range adds {
			if _, only := ef.OnlyThroughEdges(a, crossing); !only {
				okThr = false
			}
		}
		if !okThr {
			problems = append(problems, "the element must be collected only where the new count == "+map[bool]string{true: "threshold", false: "threshold-1"}[rw.up]+" (default threshold 1)")
		}
		if len(problems) == 0 {
			r.Pass("arith/threshold", key, p.posStr(fd.Pos()), fmt.Sprintf("count %s1; crossing %s; cancels against the %s set first; collects into the %s set", map[bool]string{true: "+", false: "-"}[rw.up], wantThr, strings.ToLower(rw.opposing), strings.ToLower(rw.target)))
		} else {
			r.Fail("arith/threshold", key, p.posStr(fd.Pos()), strings.Join(problems, "; ")+" ["+strings.TrimSpace(src)+"]")
		}
	}
}

// substTerms replaces whole identifiers of a canonical key by their terms.
func substTerms(k string, env map[string]string) string {
	if len(env) == 0 {
		return k
	}
	return identRe.ReplaceAllStringFunc(k, func(id string) string {
		if t, ok := env[id]; ok && !strings.HasPrefix(t, "?") {
			if strings.ContainsAny(t, "+-") && !strings.HasPrefix(t, "(") && !isNumber(t) {
				return "(" + t + ")"
			}
			return t
		}
		return id
	})
}

var identRe = regexp.MustCompile(`[A-Za-z_][A-Za-z0-9_]*`)

func isNumber(s string) bool {
	_, err := strconv.Atoi(s)
	return err == nil
}

// normArith removes redundant parentheses around atoms: ((T-1)) -> (T-1), (T) -> T.
func normArith(k string) string {
	for {
		n := parenAtomRe.ReplaceAllString(k, "$1")
		n = strings.ReplaceAll(n, "((T-1))", "(T-1)")
		if n == k {
			return k
		}
		k = n
	}
}

var parenAtomRe = regexp.MustCompile(`\(([A-Za-z_0-9]+)\)`)

func checkSerializableOrderedMap(r *Reporter, p *Prog) {
	const pkg = "ds/serializableorderedmap"
	pk := p.Pkg(pkg)
	if pk == nil {
		r.Unresolved("somap/mirror", pkg, "package not loaded")
		return
	}
	info := pk.TypesInfo
	enc := p.FuncDecl(pkg, "SerializableOrderedMap", "Encode")
	dec := p.FuncDecl(pkg, "SerializableOrderedMap", "Decode")
	if enc == nil || dec == nil {
		r.Unresolved("somap/mirror", pkg+".SerializableOrderedMap", "Encode/Decode not found")
		return
	}
	checkErrChecked(r, p, "err/checked", errScope{Pkg: pkg, Funcs: []*ast.FuncDecl{enc, dec}})
	// writer skeleton
	var w []string
	ast.Inspect(enc.Body, func(n ast.Node) bool {
		c, ok := n.(*ast.CallExpr)
		if !ok {
			return true
		}
		se, ok := ast.Unparen(c.Fun).(*ast.SelectorExpr)
		if !ok {
			return true
		}
		switch se.Sel.Name {
		case "WriteNum":
			if cc, ok := ast.Unparen(c.Args[0]).(*ast.CallExpr); ok {
				w = append(w, "size:"+exprKey(cc.Fun)+"("+exprKey(cc.Args[0])+")")
			}
		case "ForEach":
			w = append(w, "foreach")
		case "WriteBytes":
			if dc := definingCall(info, enc.Body, c.Args[0]); dc != nil && strings.HasSuffix(exprKey(dc.Fun), ".Encode") && len(dc.Args) == 2 {
				w = append(w, "elem:"+exprKey(dc.Args[1]))
			} else {
				w = append(w, "elem:?")
			}
		}
		return true
	})
	var rd []string
	ast.Inspect(dec.Body, func(n ast.Node) bool {
		switch x := n.(type) {
		case *ast.RangeStmt:
			rd = append(rd, "loop:"+exprKey(x.X))
		case *ast.CallExpr:
			se, ok := ast.Unparen(x.Fun).(*ast.SelectorExpr)
			if !ok {
				return true
			}
			if se.Sel.Name == "Decode" && len(x.Args) == 3 {
				if u, ok := ast.Unparen(x.Args[2]).(*ast.UnaryExpr); ok {
					rd = append(rd, "read:"+exprKey(u.X)+":"+typeName(info.TypeOf(u.X)))
				}
			}
			if se.Sel.Name == "Set" && len(x.Args) == 2 {
				rd = append(rd, "set:"+exprKey(x.Args[0])+","+exprKey(x.Args[1]))
			}
		}
		return true
	})
	wantW := "size:uint32(o.Size()) foreach elem:key elem:val"
	gotW := strings.Join(w, " ")
	okR := len(rd) == 5 && strings.HasPrefix(rd[0], "read:mapSize:uint32") && rd[1] == "loop:mapSize" && strings.HasPrefix(rd[2], "read:key:") && strings.HasPrefix(rd[3], "read:value:") && rd[4] == "set:key,value"
	if gotW == wantW && okR {
		r.Pass("somap/mirror", pkg+".SerializableOrderedMap", p.posStr(enc.Pos()), "writer: uint32 size, then key,value per entry in insertion order; reader: uint32 size, loop, key, value, Set(key,value)")
	} else {
		r.Fail("somap/mirror", pkg+".SerializableOrderedMap", p.posStr(enc.Pos()), fmt.Sprintf("writer/reader skeletons disagree: writer [%s] reader %v", gotW, rd))
	}
	// consumed bytes accumulate every decode
	f := newFuncCFG(p, info, dec.Body, pkg+".SerializableOrderedMap.Decode")
	nDec := 0
	bad := false
	for _, c := range f.Calls(func(c *ast.CallExpr) bool {
		se, ok := ast.Unparen(c.Fun).(*ast.SelectorExpr)
		return ok && se.Sel.Name == "Decode" && len(c.Args) == 3
	}) {
		nDec++
		succ, _ := f.ErrEdges(c)
		var resVar types.Object
		inspectNoLit(f.Body, func(n ast.Node) bool {
			if as, ok := n.(*ast.AssignStmt); ok && len(as.Rhs) == 1 && ast.Unparen(as.Rhs[0]) == ast.Expr(c) {
				resVar = objOfIdent(info, as.Lhs[0])
			}
			return true
		})
		for _, e := range succ {
			if _, found := f.reach(Point{e.From.Succs[e.Succ], 0}, &searchOpts{AvoidNode: func(n ast.Node) bool {
				as, ok := n.(*ast.AssignStmt)
				return ok && as.Tok == token.ADD_ASSIGN && exprKey(as.Lhs[0]) == "bytesRead" && objOfIdent(info, as.Rhs[0]) == resVar
			}}, func(pt Point, atExit bool) bool {
				if atExit {
					return true
				}
				// reaching the next Decode without having advanced
				hit := false
				inspectNoLit(f.nodeAt(pt), func(n ast.Node) bool {
					if cc, ok := n.(*ast.CallExpr); ok && cc != c {
						if se, ok := ast.Unparen(cc.Fun).(*ast.SelectorExpr); ok && se.Sel.Name == "Decode" {
							hit = true
						}
					}
					return !hit
				})
				return hit
			}); found {
				bad = true
			}
		}
		// slices the input at the running offset
		if sl, ok := ast.Unparen(c.Args[1]).(*ast.SliceExpr); !ok || exprKey(sl.Low) != "bytesRead" || sl.High != nil {
			bad = true
		}
	}
	if nDec == 3 && !bad {
		r.Pass("somap/consumed", pkg+".SerializableOrderedMap.Decode", p.posStr(dec.Pos()), "each of the 3 decodes reads at b[bytesRead:] and adds its consumption before the next read / the return")
	} else {
		r.Fail("somap/consumed", pkg+".SerializableOrderedMap.Decode", p.posStr(dec.Pos()), fmt.Sprintf("every decode must read at b[bytesRead:] and add its consumed bytes (decodes=%d)", nDec))
	}
}
