package main

// Lockset engine: forward must-analysis over go/cfg. State = set of (mutex access path,
// mode). See DESIGN.md §2 R-LOCK and Appendix C.

import (
	"fmt"
	"go/ast"
	"go/token"
	"go/types"
	"sort"
	"strings"

	"golang.org/x/tools/go/cfg"
	"golang.org/x/tools/go/packages"
)

type LockMode int

const (
	ModeNone LockMode = 0
	ModeR    LockMode = 1
	ModeW    LockMode = 2
)

func (m LockMode) String() string {
	switch m {
	case ModeR:
		return "R"
	case ModeW:
		return "W"
	}
	return "-"
}

// LockSet is immutable once published (copy on write).
type LockSet map[string]LockMode

func (s LockSet) with(k string, m LockMode) LockSet {
	n := make(LockSet, len(s)+1)
	for a, b := range s {
		n[a] = b
	}
	n[k] = m
	return n
}
func (s LockSet) without(k string) LockSet {
	if _, ok := s[k]; !ok {
		return s
	}
	n := make(LockSet, len(s))
	for a, b := range s {
		if a != k {
			n[a] = b
		}
	}
	return n
}
func meet(a, b LockSet) LockSet {
	n := LockSet{}
	for k, m := range a {
		if m2, ok := b[k]; ok {
			if m2 < m {
				m = m2
			}
			n[k] = m
		}
	}
	return n
}
func sameSet(a, b LockSet) bool {
	if len(a) != len(b) {
		return false
	}
	for k, m := range a {
		if b[k] != m {
			return false
		}
	}
	return true
}
func (s LockSet) String() string {
	var ks []string
	for k, m := range s {
		ks = append(ks, displayPath(k)+":"+m.String())
	}
	sort.Strings(ks)
	return "{" + strings.Join(ks, ", ") + "}"
}

// displayPath strips the @offset disambiguator of the root variable.
func displayPath(p string) string {
	if i := strings.Index(p, "@"); i >= 0 {
		j := strings.Index(p[i:], ".")
		if j < 0 {
			return p[:i]
		}
		return p[:i] + p[i+j:]
	}
	return p
}

// ---- access paths -------------------------------------------------------------------

// pathAlias: while the literal returned by a closure factory is analysed at the place where the
// closure is used, the factory's receiver and parameters stand for the receiver and arguments of
// the factory call (root token -> the caller's path). Empty otherwise.
var pathAlias = map[string]string{}

// fieldAlias: fields of a local struct value that were initialised once, in its composite literal,
// from an access path and never assigned again in the function (`v := &visitor{m: m}`): the path
// "v@pos.m" stands for the path of the initialiser. This is how the state a closure captured looks
// after the closure was turned into a struct with a method. Set per analysed function.
var fieldAlias = map[string]string{}

// canonPath rewrites the longest aliased prefix of an access path (repeatedly).
func canonPath(p string) string {
	if len(fieldAlias) == 0 {
		return p
	}
	for n := 0; n < 8; n++ {
		best := ""
		for k := range fieldAlias {
			if len(k) > len(best) && (p == k || strings.HasPrefix(p, k+".")) {
				best = k
			}
		}
		if best == "" {
			return p
		}
		p = fieldAlias[best] + p[len(best):]
	}
	return p
}

// computeFieldAliases: see fieldAlias.
func computeFieldAliases(info *types.Info, body *ast.BlockStmt) map[string]string {
	out := map[string]string{}
	if body == nil {
		return out
	}
	type cand struct {
		v    types.Object
		lit  *ast.CompositeLit
		bind map[types.Object]ast.Expr // a one-line constructor's parameters -> the call's arguments
	}
	prog := progOfInfo[info]
	ctorOf := func(e ast.Expr) (*ast.CompositeLit, map[types.Object]ast.Expr) {
		c, ok := ast.Unparen(e).(*ast.CallExpr)
		if !ok || prog == nil {
			return nil, nil
		}
		cl, _, b := constructorLiteral(prog, info, c)
		return cl, b
	}
	var cands []cand
	assigned := map[types.Object]int{}
	fieldWritten := map[string]bool{} // "v@pos.f"
	tokOf := func(o types.Object) string { return fmt.Sprintf("%s@%d", o.Name(), o.Pos()) }
	litOf := func(e ast.Expr) *ast.CompositeLit {
		e = ast.Unparen(e)
		if u, ok := e.(*ast.UnaryExpr); ok && u.Op == token.AND {
			e = ast.Unparen(u.X)
		}
		cl, _ := e.(*ast.CompositeLit)
		return cl
	}
	ast.Inspect(body, func(n ast.Node) bool {
		switch x := n.(type) {
		case *ast.AssignStmt:
			for i, l := range x.Lhs {
				if id, ok := ast.Unparen(l).(*ast.Ident); ok {
					o := info.Defs[id]
					if o == nil {
						o = info.Uses[id]
					}
					if o != nil {
						assigned[o]++
						if len(x.Lhs) == len(x.Rhs) {
							if cl := litOf(x.Rhs[i]); cl != nil {
								cands = append(cands, cand{o, cl, nil})
							} else if cl, b := ctorOf(x.Rhs[i]); cl != nil {
								cands = append(cands, cand{o, cl, b})
							}
						}
					}
				}
				if se, ok := ast.Unparen(l).(*ast.SelectorExpr); ok {
					if o := rootObj(info, se.X); o != nil {
						if sel := info.Selections[se]; sel != nil && sel.Kind() == types.FieldVal {
							fieldWritten[tokOf(o)+"."+sel.Obj().Name()] = true
						}
					}
				}
			}
		case *ast.ValueSpec:
			for i, id := range x.Names {
				if o := info.Defs[id]; o != nil {
					assigned[o]++
					if i < len(x.Values) {
						if cl := litOf(x.Values[i]); cl != nil {
							cands = append(cands, cand{o, cl, nil})
						} else if cl, b := ctorOf(x.Values[i]); cl != nil {
							cands = append(cands, cand{o, cl, b})
						}
					}
				}
			}
		case *ast.IncDecStmt:
			if se, ok := ast.Unparen(x.X).(*ast.SelectorExpr); ok {
				if o := rootObj(info, se.X); o != nil {
					fieldWritten[tokOf(o)+"."+se.Sel.Name] = true
				}
			}
		case *ast.UnaryExpr:
			// &v.f: the field may be written through the pointer
			if x.Op == token.AND {
				if se, ok := ast.Unparen(x.X).(*ast.SelectorExpr); ok {
					if o := rootObj(info, se.X); o != nil {
						fieldWritten[tokOf(o)+"."+se.Sel.Name] = true
					}
				}
			}
		}
		return true
	})
	for _, c := range cands {
		if assigned[c.v] != 1 {
			continue
		}
		for _, el := range c.lit.Elts {
			kv, ok := el.(*ast.KeyValueExpr)
			if !ok {
				continue
			}
			kid, ok := kv.Key.(*ast.Ident)
			if !ok {
				continue
			}
			k := tokOf(c.v) + "." + kid.Name
			if fieldWritten[k] {
				continue
			}
			// the initialiser: an access path rooted in a variable that is assigned at most once
			val := kv.Value
			if c.bind != nil {
				// inside the constructor the initialiser names a parameter: the argument of the call
				if a, has := c.bind[objOfIdent(info, val)]; has {
					val = a
				} else {
					continue
				}
				// the field must not be written by the type's own methods either
				if sel := fieldOfLit(info, c.lit, kid.Name); sel == nil || (prog != nil && prog.fieldEverAssigned(info, sel)) {
					continue
				}
			}
			ro := rootObj(info, val)
			if ro == nil || assigned[ro] > 1 {
				continue
			}
			if pth, okp := pathOf(info, val); okp {
				out[k] = pth
			}
		}
	}
	return out
}

// pathOf renders an expression as an access path "root@pos.f.g", following implicit
// embedded fields. ok=false if the expression is not a pure path.
func pathOf(info *types.Info, e ast.Expr) (string, bool) {
	switch x := e.(type) {
	case *ast.Ident:
		obj := info.Uses[x]
		if obj == nil {
			obj = info.Defs[x]
		}
		if v, ok := obj.(*types.Var); ok {
			tok := fmt.Sprintf("%s@%d", v.Name(), v.Pos())
			if a, has := pathAlias[tok]; has {
				return a, true
			}
			return tok, true
		}
		return "", false
	case *ast.ParenExpr:
		return pathOf(info, x.X)
	case *ast.StarExpr:
		return pathOf(info, x.X)
	case *ast.UnaryExpr:
		if x.Op == token.AND {
			return pathOf(info, x.X)
		}
		return "", false
	case *ast.SelectorExpr:
		if fld := synthField[x]; fld != nil {
			// an embedded-field hop spelled out by the accessor inliner
			if base, ok := pathOf(info, x.X); ok {
				return base + "." + fld.Name(), true
			}
			return "", false
		}
		sel := info.Selections[x]
		if sel == nil || sel.Kind() != types.FieldVal {
			return "", false
		}
		base, ok := pathOf(info, x.X)
		if !ok {
			return "", false
		}
		return canonPath(base + embeddedChain(sel, len(sel.Index())-1) + "." + sel.Obj().Name()), true
	}
	return "", false
}

// embeddedChain returns ".A.B" for the first n implicit field hops of a selection.
func embeddedChain(sel *types.Selection, n int) string {
	t := sel.Recv()
	var sb strings.Builder
	idx := sel.Index()
	for i := 0; i < n && i < len(idx); i++ {
		st := structOf(t)
		if st == nil {
			break
		}
		f := st.Field(idx[i])
		sb.WriteString(".")
		sb.WriteString(f.Name())
		t = f.Type()
	}
	return sb.String()
}

func structOf(t types.Type) *types.Struct {
	for {
		switch x := t.(type) {
		case *types.Pointer:
			t = x.Elem()
			continue
		case *types.Named:
			t = x.Underlying()
			continue
		case *types.Alias:
			t = types.Unalias(x)
			continue
		case *types.Struct:
			return x
		}
		return nil
	}
}

// isMutexType reports whether t (possibly pointer) is a mutex type of sync, go-deadlock or syncutils.
func isMutexType(t types.Type) bool {
	for {
		if p, ok := t.(*types.Pointer); ok {
			t = p.Elem()
			continue
		}
		break
	}
	t = types.Unalias(t)
	n, ok := t.(*types.Named)
	if !ok || n.Obj().Pkg() == nil {
		return false
	}
	pp := n.Obj().Pkg().Path()
	name := n.Obj().Name()
	if name != "Mutex" && name != "RWMutex" {
		return false
	}
	return pp == "sync" || strings.Contains(pp, "go-deadlock") || strings.HasSuffix(pp, "runtime/syncutils")
}

// lockOp classifies a call as a mutex operation and returns the mutex access path.
// op is one of "Lock","RLock","Unlock","RUnlock" or "".
func lockOp(info *types.Info, call *ast.CallExpr) (op string, path string) {
	se, ok := call.Fun.(*ast.SelectorExpr)
	if !ok {
		return "", ""
	}
	name := se.Sel.Name
	if name != "Lock" && name != "RLock" && name != "Unlock" && name != "RUnlock" {
		return "", ""
	}
	sel := info.Selections[se]
	if sel == nil || sel.Kind() != types.MethodVal {
		return "", ""
	}
	fn, _ := sel.Obj().(*types.Func)
	if fn == nil {
		return "", ""
	}
	sig := fn.Type().(*types.Signature)
	if sig.Recv() == nil || !isMutexType(sig.Recv().Type()) {
		return "", ""
	}
	base, ok := pathOf(info, se.X)
	if !ok {
		return name, "?" // a mutex op on something that is not a path (e.g. map element)
	}
	return name, base + embeddedChain(sel, len(sel.Index())-1)
}

// ---- flow analysis --------------------------------------------------------------------

// FlowOpts configures one function analysis.
type FlowOpts struct {
	Info *types.Info
	// SyncCallee decides whether a function literal passed as argument to this call runs
	// synchronously within the call (inherits the lockset). nil = always inherit.
	SyncCallee func(call *ast.CallExpr) bool
	// ExtraLockOp lets rules model lock-transfer helpers (returns op, path).
	ExtraLockOp func(call *ast.CallExpr) (op string, path string)
	// May switches to a may-held analysis (union at joins); a deferred unlock releases at
	// once (the lock is certainly released at exit from then on). Used for leak checks.
	May bool
	// SkipLit: a literal that is not analysed where it is written (the literal a closure factory
	// returns, when every use of the factory is analysed at the place the closure is used).
	SkipLit func(lit *ast.FuncLit) bool
	// OnExit is called for every normal exit (return statement or falling off the end)
	// with the lockset there.
	OnExit func(pos token.Pos, held LockSet)
}

func join(a, b LockSet) LockSet {
	n := LockSet{}
	for k, m := range a {
		n[k] = m
	}
	for k, m := range b {
		if n[k] < m {
			n[k] = m
		}
	}
	return n
}

// Event is delivered to the visitor for every node of interest, with the must-held lockset
// immediately before the node is evaluated and the enclosing-node stack.
type Visitor func(n ast.Node, stack []ast.Node, held LockSet)

func mayReturn(info *types.Info) func(*ast.CallExpr) bool {
	return func(c *ast.CallExpr) bool {
		switch f := c.Fun.(type) {
		case *ast.Ident:
			if f.Name == "panic" {
				if _, ok := info.Uses[f].(*types.Builtin); ok {
					return false
				}
			}
		case *ast.SelectorExpr:
			if obj, ok := info.Uses[f.Sel].(*types.Func); ok && obj.Pkg() != nil {
				full := obj.Pkg().Path() + "." + obj.Name()
				switch full {
				case "os.Exit", "log.Fatal", "log.Fatalf", "log.Fatalln", "log.Panic", "log.Panicf":
					return false
				}
			}
		}
		return true
	}
}

// AnalyzeLocks runs the lockset analysis on a function body and calls visit for every
// node (statement-level and nested expression nodes) in evaluation order.
func AnalyzeLocks(body *ast.BlockStmt, entry LockSet, opts *FlowOpts, visit Visitor) {
	analyzeLocksIn(body, entry, opts, visit, nil, nil, nil)
}

// analyzeLocksIn: outerLits / outerAlias are the closures bound to locals of the enclosing
// functions (a literal nested in a function can call a closure its parent bound to a local).
func analyzeLocksIn(body *ast.BlockStmt, entry LockSet, opts *FlowOpts, visit Visitor, outerLits map[types.Object]*ast.FuncLit, outerAlias map[*ast.FuncLit]map[string]string, outerAnalysed map[*ast.FuncLit]bool) {
	if body == nil {
		return
	}
	if entry == nil {
		entry = LockSet{}
	}
	if opts.OnExit != nil && len(entry) > 0 {
		// exits report what this body acquired, not what it was entered with (a literal running
		// inside its caller's or a locking wrapper's critical section)
		o2 := *opts
		outer := opts.OnExit
		o2.OnExit = func(pos token.Pos, held LockSet) {
			own := LockSet{}
			for k, m := range held {
				if entry[k] < m {
					own[k] = m
				}
			}
			outer(pos, own)
		}
		opts = &o2
	}
	g := cfg.New(body, mayReturn(opts.Info))
	// may-analysis: an unconditional `defer m.Unlock()` among the top-level statements releases m
	// at every exit that follows it - also when the section is opened again after a temporary
	// Unlock (Lock; defer Unlock; ...; Unlock; wait; Lock)
	var topDefer map[string]topDeferred
	if opts.May {
		hasGoto := false
		ast.Inspect(body, func(n ast.Node) bool {
			if bs, ok := n.(*ast.BranchStmt); ok && bs.Tok == token.GOTO {
				hasGoto = true
			}
			return true
		})
		if !hasGoto {
			probe := &walker{opts: opts}
			for _, st := range body.List {
				if ds, ok := st.(*ast.DeferStmt); ok {
					if op, path := probe.lockOpOf(ds.Call); op == "Unlock" || op == "RUnlock" {
						if topDefer == nil {
							topDefer = map[string]topDeferred{}
						}
						if _, dup := topDefer[path]; !dup {
							topDefer[path] = topDeferred{ds.End(), op}
						}
					}
				}
			}
		}
	}
	in := make([]LockSet, len(g.Blocks))
	visited := make([]bool, len(g.Blocks))
	preds := make([][]int32, len(g.Blocks))
	for _, b := range g.Blocks {
		for _, s := range b.Succs {
			preds[s.Index] = append(preds[s.Index], b.Index)
		}
	}
	out := make([]LockSet, len(g.Blocks))
	// fixpoint
	work := []int32{0}
	in[0] = entry
	visited[0] = true
	iter := 0
	for len(work) > 0 {
		iter++
		if iter > 100000 {
			break
		}
		bi := work[0]
		work = work[1:]
		b := g.Blocks[bi]
		st := in[bi]
		w := &walker{opts: opts, st: st, topDefer: topDefer}
		for _, n := range b.Nodes {
			w.node(n, nil)
		}
		out[bi] = w.st
		for _, s := range b.Succs {
			var ns LockSet
			if !visited[s.Index] {
				ns = w.st
			} else if opts.May {
				ns = join(in[s.Index], w.st)
			} else {
				ns = meet(in[s.Index], w.st)
			}
			if !visited[s.Index] || !sameSet(ns, in[s.Index]) {
				in[s.Index] = ns
				visited[s.Index] = true
				work = append(work, s.Index)
			}
		}
	}
	// reporting pass
	pendingLits := map[types.Object]*ast.FuncLit{}
	analysedLits := map[*ast.FuncLit]bool{}
	if outerAnalysed != nil {
		analysedLits = outerAnalysed // one record per outermost function: a closure bound outside and called in here is used
	}
	litAlias := map[*ast.FuncLit]map[string]string{}
	inherited := map[*ast.FuncLit]bool{}
	for k, v := range outerLits {
		pendingLits[k] = v
		inherited[v] = true
	}
	for k, v := range outerAlias {
		litAlias[k] = v
	}
	for _, b := range g.Blocks {
		if !visited[b.Index] {
			continue
		}
		w := &walker{opts: opts, st: in[b.Index], visit: visit, pendingLits: pendingLits, analysedLits: analysedLits, litAlias: litAlias, topDefer: topDefer}
		for _, n := range b.Nodes {
			w.node(n, nil)
		}
		if opts.OnExit != nil && len(b.Succs) == 0 && !(b.Kind == cfg.KindSelectAfterCase && len(b.Nodes) == 0) {
			if len(b.Nodes) > 0 {
				last := b.Nodes[len(b.Nodes)-1]
				if rs, ok := last.(*ast.ReturnStmt); ok {
					opts.OnExit(rs.Pos(), w.st)
					continue
				}
				if es, ok := last.(*ast.ExprStmt); ok {
					if c, ok := es.X.(*ast.CallExpr); ok && !mayReturn(opts.Info)(c) {
						continue
					}
				}
			}
			if b.Live {
				opts.OnExit(body.Rbrace, w.st)
			}
		}
	}
	// closures bound to locals that were never called or passed: analyse with empty set
	var rest []*ast.FuncLit
	for _, lit := range pendingLits {
		if !analysedLits[lit] && !inherited[lit] {
			rest = append(rest, lit)
		}
	}
	sort.Slice(rest, func(i, j int) bool { return rest[i].Pos() < rest[j].Pos() })
	for _, lit := range rest {
		if alias := litAlias[lit]; alias != nil {
			(&walker{opts: opts, visit: visit}).litAliased(lit, LockSet{}, alias)
			continue
		}
		AnalyzeLocks(lit.Body, LockSet{}, opts, visit)
	}
}

type walker struct {
	opts         *FlowOpts
	st           LockSet
	visit        Visitor
	pendingLits  map[types.Object]*ast.FuncLit
	analysedLits map[*ast.FuncLit]bool
	litAlias     map[*ast.FuncLit]map[string]string // literals that came out of a closure factory
	topDefer     map[string]topDeferred             // may-analysis: mutex -> its unconditional top-level deferred unlock
}

// topDeferred: where an unconditional top-level deferred unlock ends and which unlock it is.
type topDeferred struct {
	end token.Pos
	op  string // Unlock | RUnlock
}

func (w *walker) emit(n ast.Node, stack []ast.Node) {
	if w.visit != nil {
		w.visit(n, stack, w.st)
	}
}

// factoryLit: e is a call of a closure factory of the analysed package: the literal it returns and
// the aliases that bind the factory's receiver and parameters to this call.
func (w *walker) factoryLit(e ast.Expr) (*ast.FuncLit, map[string]string) {
	call, ok := ast.Unparen(e).(*ast.CallExpr)
	if !ok {
		return nil, nil
	}
	info := w.opts.Info
	p := progOfInfo[info]
	if p == nil {
		return nil, nil
	}
	lit, fd := closureFactory(p, info, call)
	if lit == nil {
		return nil, nil
	}
	alias := map[string]string{}
	if fd.Recv != nil && len(fd.Recv.List) == 1 && len(fd.Recv.List[0].Names) == 1 {
		if ro := info.Defs[fd.Recv.List[0].Names[0]]; ro != nil {
			if se, isSel := ast.Unparen(call.Fun).(*ast.SelectorExpr); isSel {
				if sel := info.Selections[se]; sel != nil {
					if base, okp := pathOf(info, se.X); okp {
						alias[fmt.Sprintf("%s@%d", ro.Name(), ro.Pos())] = base + embeddedChain(sel, len(sel.Index())-1)
					}
				}
			}
		}
	}
	i := 0
	for _, fl := range fd.Type.Params.List {
		for _, nm := range fl.Names {
			if po := info.Defs[nm]; po != nil && i < len(call.Args) {
				if ap, okp := pathOf(info, call.Args[i]); okp {
					alias[fmt.Sprintf("%s@%d", po.Name(), po.Pos())] = ap
				}
			}
			i++
		}
	}
	return lit, alias
}

// litAliased analyses a factory's literal under the aliases of the factory call.
func (w *walker) litAliased(lit *ast.FuncLit, entry LockSet, alias map[string]string) {
	if w.visit == nil {
		return
	}
	saved := pathAlias
	merged := map[string]string{}
	for k, v := range saved {
		merged[k] = v
	}
	for k, v := range alias {
		merged[k] = v
	}
	pathAlias = merged
	defer func() { pathAlias = saved }()
	w.lit(lit, entry)
}

func (w *walker) lit(lit *ast.FuncLit, entry LockSet) {
	if w.visit == nil {
		return // fixpoint pass: closures do not change the enclosing function's lockset
	}
	if alias := w.litAlias[lit]; alias != nil {
		// bound to a local earlier: analyse under the aliases of the factory call that produced it
		saved := w.litAlias
		w.litAlias = nil
		w.litAliased(lit, entry, alias)
		w.litAlias = saved
		return
	}
	if w.analysedLits != nil {
		w.analysedLits[lit] = true
	}
	analyzeLocksIn(lit.Body, entry, w.opts, w.visit, w.pendingLits, w.litAlias, w.analysedLits)
}

// node walks n in evaluation order.
func (w *walker) node(n ast.Node, stack []ast.Node) {
	if n == nil {
		return
	}
	switch x := n.(type) {
	case *ast.DeferStmt:
		w.emit(x, stack)
		if op, path := w.lockOpOf(x.Call); op != "" {
			// deferred unlock: the lock stays held for the rest of the path
			if w.opts.May && (op == "Unlock" || op == "RUnlock") {
				w.st = w.st.without(path)
			}
			return
		}
		st2 := append(stack, n)
		// deferred closure: body analysed with the lockset at the defer point (see DESIGN App. C)
		if lit, ok := x.Call.Fun.(*ast.FuncLit); ok {
			for _, a := range x.Call.Args {
				w.node(a, st2)
			}
			if w.opts.May {
				ast.Inspect(lit.Body, func(c ast.Node) bool {
					if ce, ok := c.(*ast.CallExpr); ok {
						if op, path := w.lockOpOf(ce); op == "Unlock" || op == "RUnlock" {
							w.st = w.st.without(path)
						}
					}
					return true
				})
			}
			w.lit(lit, w.st)
			return
		}
		w.callParts(x.Call, st2, true)
		return
	case *ast.GoStmt:
		w.emit(x, stack)
		st2 := append(stack, n)
		if lit, ok := x.Call.Fun.(*ast.FuncLit); ok {
			for _, a := range x.Call.Args {
				w.node(a, st2)
			}
			w.lit(lit, LockSet{})
			return
		}
		w.node(x.Call.Fun, st2)
		for _, a := range x.Call.Args {
			if lit, ok := a.(*ast.FuncLit); ok {
				w.lit(lit, LockSet{})
				continue
			}
			w.node(a, st2)
		}
		return
	case *ast.ExprStmt:
		w.node(x.X, append(stack, n))
		return
	case *ast.CallExpr:
		w.callParts(x, stack, false)
		return
	case *ast.FuncLit:
		// a literal in a non-call position (assigned, returned, stored): starts empty,
		// unless bound to a local variable, then analysed at its call sites.
		if len(stack) > 0 {
			if as, ok := stack[len(stack)-1].(*ast.AssignStmt); ok && len(as.Lhs) == len(as.Rhs) {
				for i, r := range as.Rhs {
					if r == x {
						if id, ok := as.Lhs[i].(*ast.Ident); ok {
							obj := w.opts.Info.Defs[id]
							if obj == nil {
								obj = w.opts.Info.Uses[id]
							}
							if obj != nil && w.pendingLits != nil {
								w.pendingLits[obj] = x
								return
							}
							if w.visit == nil {
								return
							}
						}
					}
				}
			}
		}
		w.emit(x, stack)
		if w.opts.SkipLit != nil && w.opts.SkipLit(x) {
			return
		}
		w.lit(x, LockSet{})
		return
	case *ast.AssignStmt:
		w.emit(x, stack)
		st2 := append(stack, n)
		// `f := recv.factory(args)`: f is the literal the factory returns, analysed where f is used
		if len(x.Lhs) == len(x.Rhs) && w.pendingLits != nil {
			for i, r := range x.Rhs {
				if id, isId := x.Lhs[i].(*ast.Ident); isId {
					if lit, alias := w.factoryLit(r); lit != nil {
						obj := w.opts.Info.Defs[id]
						if obj == nil {
							obj = w.opts.Info.Uses[id]
						}
						if obj != nil {
							w.pendingLits[obj] = lit
							if w.litAlias != nil {
								w.litAlias[lit] = alias
							}
						}
					}
				}
			}
		}
		for _, r := range x.Rhs {
			w.node(r, st2)
		}
		for _, l := range x.Lhs {
			w.node(l, st2)
		}
		return
	case *ast.SelectorExpr:
		w.emit(x, stack)
		w.node(x.X, append(stack, n))
		return
	case *ast.KeyValueExpr:
		// composite literal keys are field names, not accesses
		st2 := append(stack, n)
		if _, isIdent := x.Key.(*ast.Ident); !isIdent {
			w.node(x.Key, st2)
		}
		w.node(x.Value, st2)
		return
	case *ast.RangeStmt, *ast.IfStmt, *ast.ForStmt, *ast.SwitchStmt, *ast.TypeSwitchStmt, *ast.SelectStmt, *ast.BlockStmt, *ast.LabeledStmt, *ast.CaseClause, *ast.CommClause:
		// go/cfg flattens these; they never appear as block nodes except RangeStmt pieces
		return
	}
	w.emit(n, stack)
	st2 := append(stack, n)
	// generic children in source order
	ast.Inspect(n, func(c ast.Node) bool {
		if c == nil || c == n {
			return true
		}
		w.node(c, st2)
		return false
	})
}

// unlockerRegistry: unexported methods that release a mutex of their receiver which they did not
// acquire themselves (`func (s *T) unlockAndPublish() { ...; s.mutex.Unlock(); ... }`): on every path
// from entry to exit they unlock <recv>.<chain> and never lock it. A call of such a method is an
// Unlock of that mutex of the object it is called on - `defer s.unlockAndPublish()` is a deferred
// unlock. Filled once per loaded program (registerUnlockers).
var unlockerRegistry = map[*types.Func]string{}

func registerUnlockers(p *Prog) {
	for _, pk := range p.Pkgs {
		if pk.TypesInfo == nil || !strings.HasPrefix(pk.PkgPath, "github.com/iotaledger/hive.go") {
			continue
		}
		info := pk.TypesInfo
		for _, file := range pk.Syntax {
			for _, d := range file.Decls {
				fd, ok := d.(*ast.FuncDecl)
				if !ok || fd.Body == nil || fd.Recv == nil || fd.Name.IsExported() {
					continue
				}
				ro := recvObj(info, fd)
				fn, _ := info.Defs[fd.Name].(*types.Func)
				if ro == nil || fn == nil {
					continue
				}
				rp := fmt.Sprintf("%s@%d", ro.Name(), ro.Pos())
				// candidate mutexes: unlocked somewhere in the body, never locked in it
				unl, lck := map[string]bool{}, map[string]bool{}
				ast.Inspect(fd.Body, func(n ast.Node) bool {
					if c, isCall := n.(*ast.CallExpr); isCall {
						if op, path := lockOp(info, c); strings.HasPrefix(path, rp+".") {
							switch op {
							case "Unlock", "RUnlock":
								unl[path] = true
							case "Lock", "RLock", "TryLock":
								lck[path] = true
							}
						}
					}
					return true
				})
				for path := range unl {
					if lck[path] || len(unl) != 1 {
						continue
					}
					isUnlock := func(n ast.Node) bool {
						c, isCall := n.(*ast.CallExpr)
						if !isCall {
							return false
						}
						op, q := lockOp(info, c)
						return (op == "Unlock" || op == "RUnlock") && q == path
					}
					// a deferred unlock at the top level, or no way through the body around the unlock
					always := false
					for _, st := range fd.Body.List {
						if ds, isDefer := st.(*ast.DeferStmt); isDefer && isUnlock(ds.Call) {
							always = true
						}
					}
					if !always {
						f := newFuncCFGPlain(p, info, fd.Body, "")
						if _, found := f.reach(f.entry(), &searchOpts{AvoidNode: isUnlock}, func(pt Point, atExit bool) bool { return atExit }); !found {
							always = true
						}
					}
					if always {
						unlockerRegistry[fn.Origin()] = strings.TrimPrefix(path, rp)
					}
				}
			}
		}
	}
}

func (w *walker) lockOpOf(call *ast.CallExpr) (string, string) {
	if op, p := lockOp(w.opts.Info, call); op != "" {
		return op, p
	}
	if se, ok := ast.Unparen(call.Fun).(*ast.SelectorExpr); ok && len(unlockerRegistry) > 0 {
		if fn, _ := w.opts.Info.Uses[se.Sel].(*types.Func); fn != nil {
			if chain, has := unlockerRegistry[fn.Origin()]; has {
				if base, okp := pathOf(w.opts.Info, se.X); okp {
					return "Unlock", base + chain
				}
			}
		}
	}
	if w.opts.ExtraLockOp != nil {
		return w.opts.ExtraLockOp(call)
	}
	return "", ""
}

func (w *walker) callParts(call *ast.CallExpr, stack []ast.Node, deferred bool) {
	st2 := append(stack, call)
	// immediately-invoked literal
	if lit, ok := call.Fun.(*ast.FuncLit); ok {
		for _, a := range call.Args {
			w.node(a, st2)
		}
		w.emit(call, stack)
		w.lit(lit, w.st)
		return
	}
	// call of a closure bound to a local
	if id, ok := call.Fun.(*ast.Ident); ok && w.pendingLits != nil {
		if obj := w.opts.Info.Uses[id]; obj != nil {
			if lit, ok := w.pendingLits[obj]; ok {
				for _, a := range call.Args {
					w.node(a, st2)
				}
				w.emit(call, stack)
				w.lit(lit, w.st)
				return
			}
		}
	}
	w.node(call.Fun, st2)
	sync := w.opts.SyncCallee == nil || w.opts.SyncCallee(call)
	for ai, a := range call.Args {
		// the set a function argument runs under: the caller's, plus the callee's own lock when the
		// callee is a locking wrapper for this argument (lockwrap.go)
		entry := func() LockSet {
			if w.visit == nil {
				return w.st
			}
			if ns, ok := wrapperLocksAt(w.opts.Info, call, ai, w.st); ok {
				return ns
			}
			if sync {
				return w.st
			}
			return LockSet{}
		}
		switch av := a.(type) {
		case *ast.FuncLit:
			w.lit(av, entry())
			continue
		case *ast.CallExpr:
			// `Range(recv.factory(args))`: the closure the factory returns is the callback
			if lit, alias := w.factoryLit(av); lit != nil && w.visit != nil {
				w.node(a, st2)
				w.litAliased(lit, entry(), alias)
				continue
			}
		case *ast.Ident:
			if w.pendingLits != nil {
				if obj := w.opts.Info.Uses[av]; obj != nil {
					if lit, ok := w.pendingLits[obj]; ok {
						w.lit(lit, entry())
						continue
					}
				}
			}
		}
		w.node(a, st2)
	}
	w.emit(call, stack)
	if deferred {
		return
	}
	op, path := w.lockOpOf(call)
	if td, ok := w.topDefer[path]; ok && call.Pos() > td.end && (op == "Lock" && td.op == "Unlock" || op == "RLock" && td.op == "RUnlock") {
		return // re-opened section (in the mode the pending deferred unlock releases): balanced at every exit
	}
	switch op {
	case "Lock":
		w.st = w.st.with(path, ModeW)
	case "RLock":
		w.st = w.st.with(path, ModeR)
	case "Unlock", "RUnlock":
		w.st = w.st.without(path)
	}
}

// ---- helpers for rules ------------------------------------------------------------------

// isWriteAccess decides whether the selector (a field access) is written, given its stack.
// mutators: method names that mutate the field's value when called on it.
func isWriteAccess(sel *ast.SelectorExpr, stack []ast.Node, mutators map[string]bool) bool {
	var cur ast.Node = sel
	for i := len(stack) - 1; i >= 0; i-- {
		switch p := stack[i].(type) {
		case *ast.ParenExpr:
			cur = p
			continue
		case *ast.IndexExpr:
			if p.X == cur {
				cur = p
				continue
			}
			return false
		case *ast.SliceExpr:
			if p.X == cur {
				cur = p
				continue
			}
			return false
		case *ast.StarExpr:
			cur = p
			continue
		case *ast.AssignStmt:
			for _, l := range p.Lhs {
				if l == cur {
					return true
				}
			}
			return false
		case *ast.IncDecStmt:
			return p.X == cur
		case *ast.UnaryExpr:
			if p.Op == token.AND && p.X == cur {
				return true // address taken: handed to a mutator such as heap.Push(&x.f, …)
			}
			return false
		case *ast.CallExpr:
			if id, ok := p.Fun.(*ast.Ident); ok && (id.Name == "delete" || id.Name == "clear" || id.Name == "copy") && len(p.Args) > 0 && p.Args[0] == cur {
				return true
			}
			// library functions that rearrange or overwrite the elements of the slice they are given
			if se, ok := p.Fun.(*ast.SelectorExpr); ok && len(p.Args) > 0 && p.Args[0] == cur {
				if pk, isId := se.X.(*ast.Ident); isId {
					switch pk.Name + "." + se.Sel.Name {
					case "slices.Delete", "slices.DeleteFunc", "slices.Reverse", "slices.Sort", "slices.SortFunc", "slices.SortStableFunc",
						"slices.Compact", "slices.CompactFunc", "slices.Insert", "slices.Replace",
						"sort.Slice", "sort.SliceStable", "sort.Sort", "sort.Stable", "sort.Strings", "sort.Ints":
						return true
					}
				}
			}
			return false
		case *ast.SelectorExpr:
			// x.f.M(...) with M a mutator
			if p.X == cur && mutators[p.Sel.Name] && i > 0 {
				if c, ok := stack[i-1].(*ast.CallExpr); ok && c.Fun == p {
					return true
				}
			}
			// x.f.g = ... : a write to a sub-field of a struct-valued field
			if p.X == cur {
				cur = p
				continue
			}
			return false
		default:
			return false
		}
	}
	return false
}

// freshLocals returns local variables initialised from a composite literal / new in body
// (objects still private to their constructor).
func freshLocals(info *types.Info, body *ast.BlockStmt) map[types.Object]bool {
	out := map[types.Object]bool{}
	if body == nil {
		return out
	}
	assigned := map[types.Object]int{}
	ast.Inspect(body, func(n ast.Node) bool {
		as, ok := n.(*ast.AssignStmt)
		if !ok || len(as.Lhs) != len(as.Rhs) {
			return true
		}
		for i, r := range as.Rhs {
			id, ok := as.Lhs[i].(*ast.Ident)
			if !ok {
				continue
			}
			obj := info.Defs[id]
			if obj == nil {
				obj = info.Uses[id]
			}
			if obj == nil {
				continue
			}
			assigned[obj]++
			if isFreshExpr(r) {
				out[obj] = true
			}
		}
		return true
	})
	// only variables with a single assignment (the fresh one) that are locals or named results of
	// the enclosing function (declared inside it or in its signature, never package level)
	for obj := range out {
		v, isVar := obj.(*types.Var)
		if assigned[obj] != 1 || !isVar || v.IsField() || v.Parent() == nil || v.Parent() == v.Pkg().Scope() {
			delete(out, obj)
		}
	}
	return out
}

func isFreshExpr(e ast.Expr) bool {
	switch x := e.(type) {
	case *ast.UnaryExpr:
		if x.Op == token.AND {
			_, ok := x.X.(*ast.CompositeLit)
			return ok
		}
	case *ast.CompositeLit:
		return true
	case *ast.CallExpr:
		fun := x.Fun
		switch f := fun.(type) {
		case *ast.IndexExpr:
			fun = f.X
		case *ast.IndexListExpr:
			fun = f.X
		}
		if id, ok := fun.(*ast.Ident); ok && (id.Name == "new" || strings.HasPrefix(id.Name, "New") || strings.HasPrefix(id.Name, "new")) {
			return true // new(T) or a constructor of the own package: the result is not shared yet
		}
		// options.Apply(&T{...}, opts) returns its (fresh) first argument
		if se, ok := fun.(*ast.SelectorExpr); ok && se.Sel.Name == "Apply" && len(x.Args) >= 1 && isFreshExpr(x.Args[0]) {
			return true
		}
	}
	return false
}

func rootObj(info *types.Info, e ast.Expr) types.Object {
	for {
		switch x := e.(type) {
		case *ast.Ident:
			if o := info.Uses[x]; o != nil {
				return o
			}
			return info.Defs[x]
		case *ast.SelectorExpr:
			e = x.X
		case *ast.ParenExpr:
			e = x.X
		case *ast.StarExpr:
			e = x.X
		case *ast.IndexExpr:
			e = x.X
		case *ast.UnaryExpr:
			e = x.X
		case *ast.CallExpr:
			// x.f.Load() on an atomic pointer is a read of x.f
			if se, ok := x.Fun.(*ast.SelectorExpr); ok && se.Sel.Name == "Load" && len(x.Args) == 0 {
				e = se.X
				continue
			}
			return nil
		default:
			return nil
		}
	}
}

func pkgOf(p *Prog, short string) *packages.Package { return p.Pkg(short) }

// fieldOfLit: the field object a keyed element of a struct literal initialises.
func fieldOfLit(info *types.Info, lit *ast.CompositeLit, name string) *types.Var {
	st := structOf(info.TypeOf(lit))
	if st == nil {
		return nil
	}
	for i := 0; i < st.NumFields(); i++ {
		if st.Field(i).Name() == name {
			return st.Field(i)
		}
	}
	return nil
}
