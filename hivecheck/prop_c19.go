package main

import (
	"fmt"
	"go/ast"
	"go/token"
	"go/types"
	"golang.org/x/tools/go/cfg"
	"strings"
)

func init() {
	register(&property{
		ID:  "C19",
		Run: runC19,
		Meta: propMeta{
			Explanation: "Three clauses of C19 that are visible in code shape. (1) A division whose operand type (or type-parameter type set) contains a signed integer type wraps for exactly one operand pair, (min, -1). Every such `/` in core/safemath must be dominated by a branch whose condition, evaluated over a closed table of atom forms at the one critical operand pair (divisor -1, other operand the signed minimum; forms d == -1, ^T(0) < 0, n != 0, n == -n, n < 0, combined with ! && || and through unexported one-argument predicate helpers), is known to take the edge that cannot reach the division (it reports the overflow). This is the only way an integer division can produce a wrapped value, so the clause 'never a wrapped value' is decided exactly for SafeDiv and for SafeMul's divide-back check. Functions over unsigned types only are recognised by their types and need no guard. (1b) Where the quotient is the result, the same guard folded over the unsigned members of the type set must be known false (it needs a conjunct such as ^T(0) < 0), otherwise (2^(n-1), max) gets a spurious overflow error. (2) Every raw `*` or `<<` on non-constant integer operands is bound to a variable and every path from it to a nil-error return passes the edge on which the inverse operation (result/x == y, result>>shift == val) restored the operand - the exact overflow test the generic helpers rely on; a raw product returned directly (e.g. a fast path guarded only by an arithmetic argument) or validated by an ordering comparison is reported; a product with a factor all of whose definitions are the constants 1 or -1 (a sign) can only wrap by flipping the sign bit and must instead be followed, on every path to a nil-error return, by a branch over the result (its sign test).",
			NotDecided:  "exactness of add/sub/mul/shift results and absence of spurious errors for all operands (SafeAdd/SafeSub comparison idioms, the 128-bit reconstruction of SafeMulInt64/Safe64MulDiv, the carry comparisons) are arithmetic facts about values, not code shape; they are not claimed",
			Assumptions: []string{"Go integer semantics: x / -1 wraps only for the minimum value of a signed type"},
		},
	})
}

func typeSetHas(t types.Type, kinds map[types.BasicKind]bool) bool {
	switch x := t.(type) {
	case *types.TypeParam:
		iface, _ := x.Constraint().Underlying().(*types.Interface)
		if iface == nil {
			return true
		}
		found := false
		for i := 0; i < iface.NumEmbeddeds(); i++ {
			if typeSetHas(iface.EmbeddedType(i), kinds) {
				found = true
			}
		}
		return found
	case *types.Union:
		for i := 0; i < x.Len(); i++ {
			if typeSetHas(x.Term(i).Type(), kinds) {
				return true
			}
		}
		return false
	case *types.Named:
		return typeSetHas(x.Underlying(), kinds)
	case *types.Alias:
		return typeSetHas(types.Unalias(x), kinds)
	case *types.Interface:
		for i := 0; i < x.NumEmbeddeds(); i++ {
			if typeSetHas(x.EmbeddedType(i), kinds) {
				return true
			}
		}
		return false
	case *types.Basic:
		return kinds[x.Kind()]
	}
	return false
}

func typeSetHasSigned(t types.Type) bool {
	return typeSetHas(t, map[types.BasicKind]bool{types.Int: true, types.Int8: true, types.Int16: true, types.Int32: true, types.Int64: true, types.UntypedInt: true})
}

func typeSetHasUnsigned(t types.Type) bool {
	return typeSetHas(t, map[types.BasicKind]bool{types.Uint: true, types.Uint8: true, types.Uint16: true, types.Uint32: true, types.Uint64: true, types.Uintptr: true})
}

func runC19(c *Ctx) {
	p := c.Load("core")
	if p == nil {
		return
	}
	r := c.R
	const pkg = "core/safemath"
	pk := p.Pkg(pkg)
	if pk == nil {
		r.Unresolved("signed-div/guarded", pkg, "package not loaded")
		return
	}
	info := pk.TypesInfo
	nDiv, nSigned := 0, 0
	for _, fd := range p.AllFuncDecls(pkg) {
		if fd.Body == nil || strings.HasSuffix(p.Fset.Position(fd.Pos()).Filename, "_test.go") {
			continue
		}
		fkey := funcKey(pkg, fd)
		f := newFuncCFG(p, info, fd.Body, fkey)
		// minus-one expressions: literal -1, or a local defined as ^T(0) / -1
		isMinusOneIn := func(body *ast.BlockStmt, e ast.Expr) bool {
			e = ast.Unparen(e)
			if tv, ok := info.Types[e]; ok && tv.Value != nil && tv.Value.String() == "-1" {
				return true
			}
			k := exprKey(e)
			if def := definingExpr(info, body, e); def != nil {
				k = exprKey(def)
			}
			return strings.HasPrefix(k, "^") && strings.HasSuffix(k, "(0)") || k == "-1"
		}
		// singlesOut: the condition compares v with minus one - directly, or inside an unexported
		// predicate helper of the package that is handed v (its parameter takes v's place)
		var singlesOut func(cnd ast.Node, body *ast.BlockStmt, v types.Object, depth int) bool
		singlesOut = func(cnd ast.Node, body *ast.BlockStmt, v types.Object, depth int) bool {
			found := false
			ast.Inspect(cnd, func(n ast.Node) bool {
				if found {
					return false
				}
				switch x := n.(type) {
				case *ast.BinaryExpr:
					if x.Op == token.EQL {
						if (objOfIdent(info, x.X) == v && isMinusOneIn(body, x.Y)) || (objOfIdent(info, x.Y) == v && isMinusOneIn(body, x.X)) {
							found = true
						}
					}
				case *ast.CallExpr:
					if depth <= 0 {
						return true
					}
					fn := staticCallee(info, x)
					if fn == nil {
						return true
					}
					hd := p.decls().byFunc[fn.Origin()]
					if hd == nil || hd.Body == nil || hd.Name.IsExported() || p.decls().infoOf[hd] != info {
						return true
					}
					var params []types.Object
					for _, fl := range hd.Type.Params.List {
						for _, nm := range fl.Names {
							params = append(params, info.Defs[nm])
						}
					}
					for i, a := range x.Args {
						if i < len(params) && objOfIdent(info, a) == v && params[i] != nil {
							for _, st := range hd.Body.List {
								if rs, ok := st.(*ast.ReturnStmt); ok && singlesOut(rs, hd.Body, params[i], depth-1) {
									found = true
								}
							}
						}
					}
				}
				return !found
			})
			return found
		}
		// atCritical evaluates a guard condition at the one operand pair that wraps - the divisor is
		// -1 and every other integer operand is the smallest value of a signed type - over a closed
		// table of atom forms (three-valued; anything else is unknown). Constant folding at a single
		// point, not an execution: the forms are d == -1, ^T(0) < 0, n != 0, n == -n, n < 0 and their
		// negations, combined with ! && || and through unexported predicate helpers.
		// zeroWorld: fold at the pair (0, -1) instead of (min, -1): 0 is the only other value that is
		// its own negation, and 0 / -1 is representable, so the guard must stay there
		zeroWorld := false
		var atCritical func(e ast.Expr, body *ast.BlockStmt, d types.Object, depth int, signed bool) (val, known bool)
		atCritical = func(e ast.Expr, body *ast.BlockStmt, d types.Object, depth int, signed bool) (bool, bool) {
			e = ast.Unparen(e)
			isOther := func(x ast.Expr) bool {
				o := objOfIdent(info, x)
				if o == nil || o == d || isMinusOneIn(body, x) {
					return false
				}
				_, isVar := o.(*types.Var)
				return isVar
			}
			isZero := func(x ast.Expr) bool { return isConstZero(info, ast.Unparen(x)) }
			isNegOf := func(x, y ast.Expr) bool { // x is -y
				u, ok := ast.Unparen(x).(*ast.UnaryExpr)
				return ok && u.Op == token.SUB && objOfIdent(info, u.X) != nil && objOfIdent(info, u.X) == objOfIdent(info, y)
			}
			switch x := e.(type) {
			case *ast.UnaryExpr:
				if x.Op == token.NOT {
					v, k := atCritical(x.X, body, d, depth, signed)
					return !v, k
				}
			case *ast.Ident:
				if def := definingExpr(info, body, x); def != nil && depth > 0 {
					return atCritical(def, body, d, depth-1, signed)
				}
			case *ast.BinaryExpr:
				switch x.Op {
				case token.LAND, token.LOR:
					lv, lk := atCritical(x.X, body, d, depth, signed)
					rv, rk := atCritical(x.Y, body, d, depth, signed)
					if x.Op == token.LAND {
						if (lk && !lv) || (rk && !rv) {
							return false, true
						}
						return lv && rv, lk && rk
					}
					if (lk && lv) || (rk && rv) {
						return true, true
					}
					return false, lk && rk
				case token.EQL, token.NEQ:
					eq := x.Op == token.EQL
					if !signed {
						break // over an unsigned type nothing is known about these equalities (max == ^T(0), 2^(n-1) == -2^(n-1))
					}
					switch {
					case (objOfIdent(info, x.X) == d && isMinusOneIn(body, x.Y)) || (objOfIdent(info, x.Y) == d && isMinusOneIn(body, x.X)):
						return eq, true // d == -1
					case (isOther(x.X) && isZero(x.Y)) || (isOther(x.Y) && isZero(x.X)):
						if zeroWorld {
							return eq, true // 0 == 0
						}
						return !eq, true // min != 0
					case (isOther(x.X) && isNegOf(x.Y, x.X)) || (isOther(x.Y) && isNegOf(x.X, x.Y)):
						return eq, true // min == -min
					}
				case token.LSS, token.GEQ:
					lt := x.Op == token.LSS
					switch {
					case isMinusOneIn(body, x.X) && isZero(x.Y):
						return lt == signed, true // ^T(0) < 0 exactly when the type is signed
					case isOther(x.X) && isZero(x.Y):
						if zeroWorld {
							return !lt, true // 0 < 0 is false
						}
						return lt == signed, true // min < 0; nothing unsigned is below zero
					}
				case token.GTR, token.LEQ:
					gt := x.Op == token.GTR
					switch {
					case isZero(x.X) && isMinusOneIn(body, x.Y):
						return gt == signed, true
					case isZero(x.X) && isOther(x.Y):
						if zeroWorld {
							return !gt, true // 0 > 0 is false
						}
						return gt == signed, true
					}
				}
			case *ast.CallExpr:
				if depth <= 0 {
					break
				}
				fn := staticCallee(info, x)
				if fn == nil {
					break
				}
				hd := p.decls().byFunc[fn.Origin()]
				if hd == nil || hd.Body == nil || hd.Name.IsExported() || p.decls().infoOf[hd] != info || len(x.Args) == 0 {
					break
				}
				// a predicate helper: its parameters play their arguments' roles (at most one of them
				// the divisor, the others integer variables that are not the divisor)
				var params []types.Object
				for _, fl := range hd.Type.Params.List {
					for _, nm := range fl.Names {
						params = append(params, info.Defs[nm])
					}
				}
				var ret *ast.ReturnStmt
				nRet := 0
				ast.Inspect(hd.Body, func(n ast.Node) bool {
					if rs, ok := n.(*ast.ReturnStmt); ok {
						ret, nRet = rs, nRet+1
					}
					return true
				})
				if len(params) != len(x.Args) || nRet != 1 || len(ret.Results) != 1 {
					break
				}
				role := types.Object(nil) // the helper's parameters are "other" unless the argument is the divisor
				okArgs := true
				for i, a := range x.Args {
					switch {
					case objOfIdent(info, a) == d && d != nil:
						if role != nil || params[i] == nil {
							okArgs = false
						}
						role = params[i]
					case isOther(a):
					default:
						okArgs = false
					}
				}
				if !okArgs {
					break
				}
				return atCritical(ret.Results[0], hd.Body, role, depth-1, signed)
			}
			return false, false
		}
		for _, pt := range f.Find(func(n ast.Node) bool {
			b, ok := n.(*ast.BinaryExpr)
			return ok && b.Op == token.QUO
		}) {
			var divs []*ast.BinaryExpr
			inspectNoLit(f.nodeAt(pt), func(n ast.Node) bool {
				if b, ok := n.(*ast.BinaryExpr); ok && b.Op == token.QUO {
					divs = append(divs, b)
				}
				return true
			})
			for _, d := range divs {
				nDiv++
				t := info.TypeOf(d)
				key := fmt.Sprintf("%s / %s in %s", exprKey(d.X), exprKey(d.Y), fkey)
				if t == nil || !typeSetHasSigned(t) {
					r.Pass("signed-div/guarded", key, p.posStr(d.Pos()), "operand type has no signed member: division cannot wrap")
					continue
				}
				if _, isBasic := t.Underlying().(*types.Basic); isBasic {
					if b := t.Underlying().(*types.Basic); b.Info()&types.IsFloat != 0 {
						continue
					}
				}
				nSigned++
				divisor := objOfIdent(info, d.Y)
				if divisor == nil {
					r.Fail("signed-div/guarded", key, p.posStr(d.Pos()), "signed division by a non-variable divisor: cannot establish that (min, -1) is excluded")
					continue
				}
				var guards []Edge
				var undecided, spurious []string
				for _, b := range f.G.Blocks {
					cnd := condOf(b)
					if cnd == nil || !b.Live {
						continue
					}
					if !singlesOut(cnd, fd.Body, divisor, 2) {
						continue
					}
					for si := range b.Succs {
						other := b.Succs[1-si]
						if !pathExists(f, Point{other, 0}, pt) {
							// the edge that leaves (1-si) must be the one taken at (min, -1)
							val, known := atCritical(cnd, fd.Body, divisor, 3, true)
							// over the unsigned members of the type set the guard must be known NOT to leave:
							// ^T(0) is the maximum there and 2^(n-1) is its own negation, so a guard without a
							// signedness test reports a spurious overflow for (2^(n-1), max)
							uval, uknown := atCritical(cnd, fd.Body, divisor, 3, false)
							if typeSetHasUnsigned(t) && !(uknown && uval != (1-si == 0)) {
								spurious = append(spurious, fmt.Sprintf("%s: over the unsigned types of the type set the branch on %s is not known to stay (no conjunct that is false for unsigned types, such as ^T(0) < 0): a spurious overflow error for operands like (2^(n-1), max)", p.posStr(cnd.Pos()), types.ExprString(cnd)))
							}
							// ... and at (0, -1) in the signed types: zero is its own negation too, but 0 / -1 is 0
							zeroWorld = true
							zval, zknown := atCritical(cnd, fd.Body, divisor, 3, true)
							zeroWorld = false
							// leaving is only wrong if it ends in an error: follow the leaving side, folding every
							// further branch at (0, -1); a nested `if x != 0 && x == -x` may still sort it out
							zeroErr := false
							if !(zknown && zval != (1-si == 0)) {
								seenB := map[*cfg.Block]bool{}
								var walk func(bb *cfg.Block)
								walk = func(bb *cfg.Block) {
									if bb == nil || seenB[bb] || !bb.Live {
										return
									}
									seenB[bb] = true
									for _, nd := range bb.Nodes {
										if rs, isRet := nd.(*ast.ReturnStmt); isRet && len(rs.Results) > 0 {
											last := ast.Unparen(rs.Results[len(rs.Results)-1])
											if !isNil(info, last) {
												zeroErr = true
											}
											return
										}
									}
									if c2 := condOf(bb); c2 != nil && len(bb.Succs) == 2 {
										zeroWorld = true
										v2, k2 := atCritical(c2, fd.Body, divisor, 3, true)
										zeroWorld = false
										if k2 {
											if v2 {
												walk(bb.Succs[0])
											} else {
												walk(bb.Succs[1])
											}
											return
										}
									}
									for _, sc := range bb.Succs {
										walk(sc)
									}
								}
								walk(b.Succs[1-si])
							}
							if zeroErr {
								spurious = append(spurious, fmt.Sprintf("%s: for the dividend 0 the branch on %s is not known to stay (x == -x also holds for 0; the guard needs x != 0 or x < 0): a spurious overflow error for 0 / -1", p.posStr(cnd.Pos()), types.ExprString(cnd)))
							}
							if known && val == (1-si == 0) {
								guards = append(guards, Edge{b, si})
							} else {
								undecided = append(undecided, fmt.Sprintf("%s: the branch on %s is not known to leave for (min, -1) (known=%v value=%v)", p.posStr(cnd.Pos()), types.ExprString(cnd), known, val))
							}
						}
					}
				}
				// a divide-back check (x*y)/x: when the guard fires for the unsigned pair (max, 2^(n-1)) the
				// product overflows anyway, so the error is right; only a quotient that is the result matters
				divideBack := false
				if dx, _ := f.Resolve(d.X, pt); dx != nil {
					if mb, ok := ast.Unparen(dx).(*ast.BinaryExpr); ok && mb.Op == token.MUL && (objOfIdent(info, mb.X) == divisor || objOfIdent(info, mb.Y) == divisor) {
						divideBack = true
					}
				}
				if mb, ok := ast.Unparen(d.X).(*ast.BinaryExpr); ok && mb.Op == token.MUL && (objOfIdent(info, mb.X) == divisor || objOfIdent(info, mb.Y) == divisor) {
					divideBack = true
				}
				if divideBack {
					spurious = nil
				}
				if len(spurious) > 0 {
					r.Fail("signed-div/guard-signed-only", key, p.posStr(d.Pos()), spurious[0], spurious...)
				} else if !divideBack {
					r.Pass("signed-div/guard-signed-only", key, p.posStr(d.Pos()), "the (min, -1) guard is false for every unsigned type and for the dividend 0: no spurious error there")
				}
				if w, only := f.OnlyThroughEdges(pt, guards); only {
					r.Pass("signed-div/guarded", key, p.posStr(d.Pos()), "dominated by a branch that singles out divisor == -1 and leaves through its other edge")
				} else {
					r.Fail("signed-div/guarded", key, p.posStr(d.Pos()), "the operand type set contains signed integers and no branch excludes the pair (min, -1) before this division: the quotient wraps to min and is returned as a valid result", append(undecided, w...)...)
				}
			}
		}
	}
	checkRoundTripValidated(r, p, pkg, info)
	checkDiv64Fits(r, p, pkg, info)
	r.Count(nDiv)
	if nSigned < 2 {
		r.Fail("signed-div/guarded", pkg, "-", fmt.Sprintf("expected at least 2 divisions over signed-capable types (SafeDiv, SafeMul), found %d (vacuous)", nSigned))
	}
}

// isUnitSign: every definition of the variable in body is the constant 1 or -1 (a sign factor).
// A product with such a factor can only wrap for min * -1, which flips nothing but the sign bit;
// it is validated by a test of the result's sign instead of the inverse operation.
func isUnitSign(info *types.Info, body *ast.BlockStmt, e ast.Expr) bool {
	v := objOfIdent(info, e)
	if v == nil {
		return false
	}
	n, ok := 0, true
	unit := func(x ast.Expr) bool {
		tv, has := info.Types[ast.Unparen(x)]
		return has && tv.Value != nil && (tv.Value.String() == "1" || tv.Value.String() == "-1")
	}
	ast.Inspect(body, func(c ast.Node) bool {
		switch x := c.(type) {
		case *ast.AssignStmt:
			for i, l := range x.Lhs {
				if objOfIdent(info, l) == v {
					n++
					if len(x.Lhs) != len(x.Rhs) || !unit(x.Rhs[i]) {
						ok = false
					}
				}
			}
		case *ast.ValueSpec:
			for i, nm := range x.Names {
				if info.Defs[nm] == v {
					n++
					if i >= len(x.Values) || !unit(x.Values[i]) {
						ok = false
					}
				}
			}
		case *ast.IncDecStmt:
			if objOfIdent(info, x.X) == v {
				ok = false
			}
		case *ast.UnaryExpr:
			if x.Op == token.AND && objOfIdent(info, x.X) == v {
				ok = false
			}
		}
		return true
	})
	return ok && n > 0
}

// checkRoundTripValidated: second clause of C19 that is visible in code shape. A raw `*` or `<<`
// on non-constant integer operands wraps silently; the generic helpers detect that with the
// inverse operation (result/x == y, result>>shift == val), which is exact. Every such raw
// operation in safemath must be bound to a variable, and every path from it to a nil-error
// return must pass the edge on which the round trip was found to restore the operand. A raw
// product that is returned directly, or validated by an ordering comparison only, is reported.
func checkRoundTripValidated(r *Reporter, p *Prog, pkg string, info *types.Info) {
	n := 0
	for _, fd := range p.AllFuncDecls(pkg) {
		if fd.Body == nil || strings.HasSuffix(p.Fset.Position(fd.Pos()).Filename, "_test.go") {
			continue
		}
		fkey := funcKey(pkg, fd)
		f := newFuncCFG(p, info, fd.Body, fkey)
		for _, b := range f.G.Blocks {
			if !b.Live {
				continue
			}
			for i, nd := range b.Nodes {
				pt := Point{b, i}
				inspectNoLit(nd, func(m ast.Node) bool {
					be, ok := m.(*ast.BinaryExpr)
					if !ok || (be.Op != token.MUL && be.Op != token.SHL) {
						return true
					}
					t := info.TypeOf(be)
					if t == nil {
						return true
					}
					if bt, isBasic := t.Underlying().(*types.Basic); isBasic && bt.Info()&types.IsInteger == 0 {
						return true
					}
					if tv, ok := info.Types[be]; ok && tv.Value != nil {
						return true // constant expression
					}
					n++
					key := strings.TrimSuffix(strings.TrimPrefix(exprKey(be), "("), ")") + " in " + fkey
					// a sign factor: every definition is the constant 1 or -1 - syntactically in this function,
					// or as the set of values that can reach this point through a spliced helper's results
					unitVals := func(e ast.Expr) bool {
						// a conversion of the sign to the product's type is still the sign
						for {
							c, isCall := ast.Unparen(e).(*ast.CallExpr)
							if !isCall || len(c.Args) != 1 {
								break
							}
							if tv, ok := info.Types[c.Fun]; !ok || !tv.IsType() {
								break
							}
							e = c.Args[0]
						}
						if objOfIdent(info, e) == nil {
							return false
						}
						vals := f.ValuesUnder(e, pt, map[string]bool{})
						if len(vals) == 0 {
							return false
						}
						for _, v := range vals {
							v = strings.Trim(v, "()")
							// a named constant of the package stands for its value
							if pk := p.Pkg(pkg); pk != nil && pk.Types != nil {
								if cst, isConst := pk.Types.Scope().Lookup(v).(*types.Const); isConst {
									v = cst.Val().String()
								}
							}
							if v != "1" && v != "-1" {
								return false
							}
						}
						return true
					}
					signFactor := be.Op == token.MUL && (isUnitSign(info, fd.Body, be.X) || isUnitSign(info, fd.Body, be.Y) || unitVals(be.X) || unitVals(be.Y))
					// a product is exact when one factor is known to be 1 (or 0) on every path to it: the site
					// is reached only through the true edge of `a == 1`, or of a disjunction all of whose
					// operands pin one of the two factors to 1 or 0 (`x == 1 || y == 1`)
					if be.Op == token.MUL {
						kx, ky := exprKey(be.X), exprKey(be.Y)
						var pins func(c ast.Expr) bool
						pins = func(c ast.Expr) bool {
							c = ast.Unparen(c)
							if b2, ok := c.(*ast.BinaryExpr); ok {
								if b2.Op == token.LOR {
									return pins(b2.X) && pins(b2.Y)
								}
								if b2.Op == token.EQL {
									for _, pr := range [][2]ast.Expr{{b2.X, b2.Y}, {b2.Y, b2.X}} {
										if k := exprKey(pr[0]); k == kx || k == ky {
											if v, isC := constInt(info, pr[1]); isC && (v == 1 || v == 0) {
												return true
											}
										}
									}
								}
							}
							return false
						}
						pinned, _ := f.RawCondEdges(pins)
						if len(pinned) > 0 {
							// the factors are parameters that are never assigned before the product
							stable := true
							for _, o := range []ast.Expr{be.X, be.Y} {
								if ob := objOfIdent(info, o); ob != nil {
									if defs, _ := f.ReachingDefs(pt, ob); len(defs) > 0 {
										stable = false
									}
								} else {
									stable = false
								}
							}
							if _, only := f.OnlyThroughEdges(pt, pinned); only && stable {
								r.Pass("wrap/round-trip-validated", key, p.posStr(be.Pos()), "one factor is known to be 1 (or 0) on every path to the product: it is exact")
								return true
							}
						}
					}
					as, isAssign := nd.(*ast.AssignStmt)
					if !isAssign || len(as.Lhs) != 1 || len(as.Rhs) != 1 || ast.Unparen(as.Rhs[0]) != ast.Expr(be) {
						r.Fail("wrap/round-trip-validated", key, p.posStr(be.Pos()), "a raw product/shift of non-constant integers is used without being bound to a variable that is validated by the inverse operation: it wraps silently for large operands")
						return true
					}
					res := exprKey(as.Lhs[0])
					x, y := exprKey(be.X), exprKey(be.Y)
					valid := f.RelEdges(func(rel Rel) bool {
						if rel.Op != "==" {
							return false
						}
						pair := func(a, b string) bool { return rel.L == a && rel.R == b || rel.L == b && rel.R == a }
						// the result may be spelled by its variable or (canonical keys) by the product itself
						for _, rk := range []string{res, exprKey(be)} {
							if be.Op == token.MUL && (pair("("+rk+"/"+x+")", y) || pair("("+rk+"/"+y+")", x)) {
								return true
							}
							if be.Op == token.SHL && pair("("+rk+">>"+y+")", x) {
								return true
							}
						}
						return false
					})
					if signFactor {
						// validated by a branch over the result (its sign): an edge whose condition,
						// with temporaries resolved, mentions the result
						valid = nil
						for _, eb := range f.G.Blocks {
							c := condOf(eb)
							if !eb.Live || c == nil || len(eb.Succs) != 2 {
								continue
							}
							// the whole condition with named guards and temporaries resolved
							k := f.KeyAt(c, Point{eb, len(eb.Nodes) - 1})
							if strings.Contains(k, res) || strings.Contains(k, exprKey(be)) || strings.Contains(k, f.KeyAt(be, pt)) {
								valid = append(valid, Edge{eb, 0}, Edge{eb, 1})
							}
						}
					}
					isValid := func(e Edge) bool {
						for _, v := range valid {
							if v == e {
								return true
							}
						}
						return false
					}
					w, found := f.reach(Point{pt.B, pt.I + 1}, &searchOpts{AvoidEdge: isValid}, func(q Point, atExit bool) bool {
						if atExit {
							return false
						}
						rs, isRet := f.nodeAt(q).(*ast.ReturnStmt)
						return isRet && len(rs.Results) > 0 && isNil(info, rs.Results[len(rs.Results)-1])
					})
					if found {
						inv := "/"
						if be.Op == token.SHL {
							inv = ">>"
						}
						if signFactor {
							inv = "sign test of the result"
						}
						r.Fail("wrap/round-trip-validated", key, p.posStr(be.Pos()), fmt.Sprintf("a nil-error return is reachable from %s := %s without passing the edge on which the inverse operation (%s) restored the operand: a wrapped value is returned as exact", res, exprKey(be), inv), w...)
					} else if signFactor {
						r.Pass("wrap/round-trip-validated", key, p.posStr(be.Pos()), "product with a sign factor in {1,-1}: every nil-error return after it passes a branch over the result's sign")
					} else {
						r.Pass("wrap/round-trip-validated", key, p.posStr(be.Pos()), "every nil-error return after it passes the round-trip equality edge")
					}
					return true
				})
			}
		}
	}
	// (floor: the two generic functions cannot avoid a raw `*` / `<<` on T; the 64-bit variants are free
	// to use another algorithm - their arithmetic is not decided here either way)
	if n < 2 {
		r.Fail("wrap/round-trip-validated", pkg, "-", fmt.Sprintf("expected the raw products/shifts of the generic SafeMul and SafeLeftShift, found %d (vacuous)", n))
	}
}

// checkDiv64Fits: bits.Div64(hi, lo, y) panics unless y > hi (the quotient must fit 64 bits, and y
// must not be zero). Every call is reachable only through an edge on which hi < y is known - the
// strict comparison: with hi == y the quotient is 2^64 or more and the call panics instead of the
// function reporting an overflow. Operands are compared resolved (through temporaries, helper
// parameters and the fields of a product record).
func checkDiv64Fits(r *Reporter, p *Prog, pkg string, info *types.Info) {
	n := 0
	for _, fd := range p.AllFuncDecls(pkg) {
		if fd.Body == nil || strings.HasSuffix(p.Fset.Position(fd.Pos()).Filename, "_test.go") {
			continue
		}
		// judged where the call is reachable from: the function itself, or - for an unexported helper
		// spliced into every caller - its callers
		if !fd.Name.IsExported() && splicedEverywhere(p, pkg, fd) {
			continue
		}
		fkey := funcKey(pkg, fd)
		f := newFuncCFG(p, info, fd.Body, fkey+"/div64")
		for _, c := range f.Calls(func(c *ast.CallExpr) bool { return qualifiedCallee(info, c) == "math/bits.Div64" && len(c.Args) == 3 }) {
			n++
			pt, _ := f.PointOf(c)
			hi, y := f.KeyAt(c.Args[0], pt), f.KeyAt(c.Args[2], pt)
			key := "bits.Div64 in " + fkey
			fits := f.RelEdgesAt(func(rel Rel) bool { return rel.Op == "<" && rel.L == hi && rel.R == y })
			if len(fits) == 0 {
				r.Fail("div64/quotient-fits", key, p.posStr(c.Pos()), fmt.Sprintf("no branch establishes %s < %s before the 128-by-64 division: for a divisor not greater than the upper half bits.Div64 panics instead of the overflow being reported", hi, y))
				continue
			}
			if w, only := f.OnlyThroughEdges(pt, fits); !only {
				r.Fail("div64/quotient-fits", key, p.posStr(c.Pos()), fmt.Sprintf("the 128-by-64 division is reachable without %s < %s having been established (the comparison must be strict): bits.Div64 panics when the divisor equals the upper half", hi, y), w...)
			} else {
				r.Pass("div64/quotient-fits", key, p.posStr(c.Pos()), fmt.Sprintf("dominated by the edge on which %s < %s", hi, y))
			}
		}
	}
	if n == 0 {
		r.Advise("div64/quotient-fits: no bits.Div64 call in " + pkg)
	}
}
