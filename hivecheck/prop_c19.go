package main

import (
	"fmt"
	"go/ast"
	"go/token"
	"go/types"
	"strings"
)

func init() {
	register(&property{
		ID:  "C19",
		Run: runC19,
		Meta: propMeta{
			Explanation: "One clause of C19 only: a division whose operand type (or type-parameter type set) contains a signed integer type wraps for exactly one operand pair, (min, -1). Every such `/` in core/safemath must be dominated by a branch that compares the divisor with minus one and whose other edge cannot reach the division (it reports the overflow). This is the only way an integer division can produce a wrapped value, so the clause 'never a wrapped value' is decided exactly for SafeDiv and for SafeMul's divide-back check. Functions over unsigned types only are recognised by their types and need no guard.",
			NotDecided:  "exactness of add/sub/mul/shift results and absence of spurious errors for all operands (SafeAdd/SafeSub comparison idioms, the 128-bit reconstruction of SafeMulInt64/Safe64MulDiv, the adequacy of SafeLeftShift's test) are arithmetic facts about values, not code shape; they are not claimed",
			Assumptions: []string{"Go integer semantics: x / -1 wraps only for the minimum value of a signed type"},
		},
	})
}

func typeSetHasSigned(t types.Type) bool {
	switch x := t.(type) {
	case *types.TypeParam:
		iface, _ := x.Constraint().Underlying().(*types.Interface)
		if iface == nil {
			return true
		}
		found := false
		for i := 0; i < iface.NumEmbeddeds(); i++ {
			if typeSetHasSigned(iface.EmbeddedType(i)) {
				found = true
			}
		}
		return found
	case *types.Union:
		for i := 0; i < x.Len(); i++ {
			if typeSetHasSigned(x.Term(i).Type()) {
				return true
			}
		}
		return false
	case *types.Named:
		return typeSetHasSigned(x.Underlying())
	case *types.Alias:
		return typeSetHasSigned(types.Unalias(x))
	case *types.Interface:
		for i := 0; i < x.NumEmbeddeds(); i++ {
			if typeSetHasSigned(x.EmbeddedType(i)) {
				return true
			}
		}
		return false
	case *types.Basic:
		switch x.Kind() {
		case types.Int, types.Int8, types.Int16, types.Int32, types.Int64, types.UntypedInt:
			return true
		}
	}
	return false
}

func runC19(c *Ctx) {
	p := c.Load("core")
	if p == nil {
		return
	}
	r := c.R
	const pkg = "core/safemath"
	pk := p.Pkg(pkg)
	if pk == nil {
		r.Unresolved("signed-div/guarded", pkg, "package not loaded")
		return
	}
	info := pk.TypesInfo
	nDiv, nSigned := 0, 0
	for _, fd := range p.AllFuncDecls(pkg) {
		if fd.Body == nil || strings.HasSuffix(p.Fset.Position(fd.Pos()).Filename, "_test.go") {
			continue
		}
		fkey := funcKey(pkg, fd)
		f := newFuncCFG(p, info, fd.Body, fkey)
		// minus-one expressions: literal -1, or a local defined as ^T(0) / -1
		isMinusOne := func(e ast.Expr) bool {
			e = ast.Unparen(e)
			if tv, ok := info.Types[e]; ok && tv.Value != nil && tv.Value.String() == "-1" {
				return true
			}
			if def := definingExpr(info, fd.Body, e); def != nil {
				k := exprKey(def)
				return strings.HasPrefix(k, "^") && strings.HasSuffix(k, "(0)") || k == "-1"
			}
			return false
		}
		for _, pt := range f.Find(func(n ast.Node) bool {
			b, ok := n.(*ast.BinaryExpr)
			return ok && b.Op == token.QUO
		}) {
			var divs []*ast.BinaryExpr
			inspectNoLit(f.nodeAt(pt), func(n ast.Node) bool {
				if b, ok := n.(*ast.BinaryExpr); ok && b.Op == token.QUO {
					divs = append(divs, b)
				}
				return true
			})
			for _, d := range divs {
				nDiv++
				t := info.TypeOf(d)
				key := fmt.Sprintf("%s / %s in %s", exprKey(d.X), exprKey(d.Y), fkey)
				if t == nil || !typeSetHasSigned(t) {
					r.Pass("signed-div/guarded", key, p.posStr(d.Pos()), "operand type has no signed member: division cannot wrap")
					continue
				}
				if _, isBasic := t.Underlying().(*types.Basic); isBasic {
					if b := t.Underlying().(*types.Basic); b.Info()&types.IsFloat != 0 {
						continue
					}
				}
				nSigned++
				divisor := objOfIdent(info, d.Y)
				if divisor == nil {
					r.Fail("signed-div/guarded", key, p.posStr(d.Pos()), "signed division by a non-variable divisor: cannot establish that (min, -1) is excluded")
					continue
				}
				var guards []Edge
				for _, b := range f.G.Blocks {
					cnd := condOf(b)
					if cnd == nil || !b.Live {
						continue
					}
					mentions := false
					ast.Inspect(cnd, func(n ast.Node) bool {
						if be, ok := n.(*ast.BinaryExpr); ok && be.Op == token.EQL {
							if (objOfIdent(info, be.X) == divisor && isMinusOne(be.Y)) || (objOfIdent(info, be.Y) == divisor && isMinusOne(be.X)) {
								mentions = true
							}
						}
						return !mentions
					})
					if !mentions {
						continue
					}
					for si := range b.Succs {
						other := b.Succs[1-si]
						if !pathExists(f, Point{other, 0}, pt) {
							guards = append(guards, Edge{b, si})
						}
					}
				}
				if w, only := f.OnlyThroughEdges(pt, guards); only {
					r.Pass("signed-div/guarded", key, p.posStr(d.Pos()), "dominated by a branch that singles out divisor == -1 and leaves through its other edge")
				} else {
					r.Fail("signed-div/guarded", key, p.posStr(d.Pos()), "the operand type set contains signed integers and no branch excludes the pair (min, -1) before this division: the quotient wraps to min and is returned as a valid result", w...)
				}
			}
		}
	}
	r.Count(nDiv)
	if nSigned < 2 {
		r.Fail("signed-div/guarded", pkg, "-", fmt.Sprintf("expected at least 2 divisions over signed-capable types (SafeDiv, SafeMul), found %d (vacuous)", nSigned))
	}
}
