package main

import (
	"fmt"
	"go/ast"
	"go/token"
	"go/types"
	"strings"
)

func init() {
	register(&property{
		ID:  "C19",
		Run: runC19,
		Meta: propMeta{
			Explanation: "Two clauses of C19 that are visible in code shape. (1) A division whose operand type (or type-parameter type set) contains a signed integer type wraps for exactly one operand pair, (min, -1). Every such `/` in core/safemath must be dominated by a branch that compares the divisor with minus one and whose other edge cannot reach the division (it reports the overflow). This is the only way an integer division can produce a wrapped value, so the clause 'never a wrapped value' is decided exactly for SafeDiv and for SafeMul's divide-back check. Functions over unsigned types only are recognised by their types and need no guard. (2) Every raw `*` or `<<` on non-constant integer operands is bound to a variable and every path from it to a nil-error return passes the edge on which the inverse operation (result/x == y, result>>shift == val) restored the operand - the exact overflow test the generic helpers rely on; a raw product returned directly (e.g. a fast path guarded only by an arithmetic argument) or validated by an ordering comparison is reported; the one product by a sign in {1,-1} in SafeMulInt64 is a tabled exemption.",
			NotDecided:  "exactness of add/sub/mul/shift results and absence of spurious errors for all operands (SafeAdd/SafeSub comparison idioms, the 128-bit reconstruction of SafeMulInt64/Safe64MulDiv, the carry comparisons) are arithmetic facts about values, not code shape; they are not claimed",
			Assumptions: []string{"Go integer semantics: x / -1 wraps only for the minimum value of a signed type"},
		},
	})
}

func typeSetHasSigned(t types.Type) bool {
	switch x := t.(type) {
	case *types.TypeParam:
		iface, _ := x.Constraint().Underlying().(*types.Interface)
		if iface == nil {
			return true
		}
		found := false
		for i := 0; i < iface.NumEmbeddeds(); i++ {
			if typeSetHasSigned(iface.EmbeddedType(i)) {
				found = true
			}
		}
		return found
	case *types.Union:
		for i := 0; i < x.Len(); i++ {
			if typeSetHasSigned(x.Term(i).Type()) {
				return true
			}
		}
		return false
	case *types.Named:
		return typeSetHasSigned(x.Underlying())
	case *types.Alias:
		return typeSetHasSigned(types.Unalias(x))
	case *types.Interface:
		for i := 0; i < x.NumEmbeddeds(); i++ {
			if typeSetHasSigned(x.EmbeddedType(i)) {
				return true
			}
		}
		return false
	case *types.Basic:
		switch x.Kind() {
		case types.Int, types.Int8, types.Int16, types.Int32, types.Int64, types.UntypedInt:
			return true
		}
	}
	return false
}

func runC19(c *Ctx) {
	p := c.Load("core")
	if p == nil {
		return
	}
	r := c.R
	const pkg = "core/safemath"
	pk := p.Pkg(pkg)
	if pk == nil {
		r.Unresolved("signed-div/guarded", pkg, "package not loaded")
		return
	}
	info := pk.TypesInfo
	nDiv, nSigned := 0, 0
	for _, fd := range p.AllFuncDecls(pkg) {
		if fd.Body == nil || strings.HasSuffix(p.Fset.Position(fd.Pos()).Filename, "_test.go") {
			continue
		}
		fkey := funcKey(pkg, fd)
		f := newFuncCFG(p, info, fd.Body, fkey)
		// minus-one expressions: literal -1, or a local defined as ^T(0) / -1
		isMinusOne := func(e ast.Expr) bool {
			e = ast.Unparen(e)
			if tv, ok := info.Types[e]; ok && tv.Value != nil && tv.Value.String() == "-1" {
				return true
			}
			if def := definingExpr(info, fd.Body, e); def != nil {
				k := exprKey(def)
				return strings.HasPrefix(k, "^") && strings.HasSuffix(k, "(0)") || k == "-1"
			}
			return false
		}
		for _, pt := range f.Find(func(n ast.Node) bool {
			b, ok := n.(*ast.BinaryExpr)
			return ok && b.Op == token.QUO
		}) {
			var divs []*ast.BinaryExpr
			inspectNoLit(f.nodeAt(pt), func(n ast.Node) bool {
				if b, ok := n.(*ast.BinaryExpr); ok && b.Op == token.QUO {
					divs = append(divs, b)
				}
				return true
			})
			for _, d := range divs {
				nDiv++
				t := info.TypeOf(d)
				key := fmt.Sprintf("%s / %s in %s", exprKey(d.X), exprKey(d.Y), fkey)
				if t == nil || !typeSetHasSigned(t) {
					r.Pass("signed-div/guarded", key, p.posStr(d.Pos()), "operand type has no signed member: division cannot wrap")
					continue
				}
				if _, isBasic := t.Underlying().(*types.Basic); isBasic {
					if b := t.Underlying().(*types.Basic); b.Info()&types.IsFloat != 0 {
						continue
					}
				}
				nSigned++
				divisor := objOfIdent(info, d.Y)
				if divisor == nil {
					r.Fail("signed-div/guarded", key, p.posStr(d.Pos()), "signed division by a non-variable divisor: cannot establish that (min, -1) is excluded")
					continue
				}
				var guards []Edge
				for _, b := range f.G.Blocks {
					cnd := condOf(b)
					if cnd == nil || !b.Live {
						continue
					}
					mentions := false
					ast.Inspect(cnd, func(n ast.Node) bool {
						if be, ok := n.(*ast.BinaryExpr); ok && be.Op == token.EQL {
							if (objOfIdent(info, be.X) == divisor && isMinusOne(be.Y)) || (objOfIdent(info, be.Y) == divisor && isMinusOne(be.X)) {
								mentions = true
							}
						}
						return !mentions
					})
					if !mentions {
						continue
					}
					for si := range b.Succs {
						other := b.Succs[1-si]
						if !pathExists(f, Point{other, 0}, pt) {
							guards = append(guards, Edge{b, si})
						}
					}
				}
				if w, only := f.OnlyThroughEdges(pt, guards); only {
					r.Pass("signed-div/guarded", key, p.posStr(d.Pos()), "dominated by a branch that singles out divisor == -1 and leaves through its other edge")
				} else {
					r.Fail("signed-div/guarded", key, p.posStr(d.Pos()), "the operand type set contains signed integers and no branch excludes the pair (min, -1) before this division: the quotient wraps to min and is returned as a valid result", w...)
				}
			}
		}
	}
	checkRoundTripValidated(r, p, pkg, info)
	r.Count(nDiv)
	if nSigned < 2 {
		r.Fail("signed-div/guarded", pkg, "-", fmt.Sprintf("expected at least 2 divisions over signed-capable types (SafeDiv, SafeMul), found %d (vacuous)", nSigned))
	}
}

// roundTripExempt: raw products that are validated by other means, one named symbol each.
var roundTripExempt = map[string]string{
	"int64(lo)*resultSign in core/safemath.SafeMulInt64": "multiplication by a sign in {1,-1} after the 128-bit product was range-checked (hi == 0); the following sign-bit test rejects the one wrapping case",
}

// checkRoundTripValidated: second clause of C19 that is visible in code shape. A raw `*` or `<<`
// on non-constant integer operands wraps silently; the generic helpers detect that with the
// inverse operation (result/x == y, result>>shift == val), which is exact. Every such raw
// operation in safemath must be bound to a variable, and every path from it to a nil-error
// return must pass the edge on which the round trip was found to restore the operand. A raw
// product that is returned directly, or validated by an ordering comparison only, is reported.
func checkRoundTripValidated(r *Reporter, p *Prog, pkg string, info *types.Info) {
	n := 0
	for _, fd := range p.AllFuncDecls(pkg) {
		if fd.Body == nil || strings.HasSuffix(p.Fset.Position(fd.Pos()).Filename, "_test.go") {
			continue
		}
		fkey := funcKey(pkg, fd)
		f := newFuncCFG(p, info, fd.Body, fkey)
		for _, b := range f.G.Blocks {
			if !b.Live {
				continue
			}
			for i, nd := range b.Nodes {
				pt := Point{b, i}
				inspectNoLit(nd, func(m ast.Node) bool {
					be, ok := m.(*ast.BinaryExpr)
					if !ok || (be.Op != token.MUL && be.Op != token.SHL) {
						return true
					}
					t := info.TypeOf(be)
					if t == nil {
						return true
					}
					if bt, isBasic := t.Underlying().(*types.Basic); isBasic && bt.Info()&types.IsInteger == 0 {
						return true
					}
					if tv, ok := info.Types[be]; ok && tv.Value != nil {
						return true // constant expression
					}
					n++
					key := strings.TrimSuffix(strings.TrimPrefix(exprKey(be), "("), ")") + " in " + fkey
					if reason, ok := roundTripExempt[key]; ok {
						r.Pass("wrap/round-trip-validated", key, p.posStr(be.Pos()), "tabled exemption: "+reason)
						return true
					}
					as, isAssign := nd.(*ast.AssignStmt)
					if !isAssign || len(as.Lhs) != 1 || len(as.Rhs) != 1 || ast.Unparen(as.Rhs[0]) != ast.Expr(be) {
						r.Fail("wrap/round-trip-validated", key, p.posStr(be.Pos()), "a raw product/shift of non-constant integers is used without being bound to a variable that is validated by the inverse operation: it wraps silently for large operands")
						return true
					}
					res := exprKey(as.Lhs[0])
					x, y := exprKey(be.X), exprKey(be.Y)
					valid := f.RelEdges(func(rel Rel) bool {
						if rel.Op != "==" {
							return false
						}
						pair := func(a, b string) bool { return rel.L == a && rel.R == b || rel.L == b && rel.R == a }
						// the result may be spelled by its variable or (canonical keys) by the product itself
						for _, rk := range []string{res, exprKey(be)} {
							if be.Op == token.MUL && (pair("("+rk+"/"+x+")", y) || pair("("+rk+"/"+y+")", x)) {
								return true
							}
							if be.Op == token.SHL && pair("("+rk+">>"+y+")", x) {
								return true
							}
						}
						return false
					})
					isValid := func(e Edge) bool {
						for _, v := range valid {
							if v == e {
								return true
							}
						}
						return false
					}
					w, found := f.reach(Point{pt.B, pt.I + 1}, &searchOpts{AvoidEdge: isValid}, func(q Point, atExit bool) bool {
						if atExit {
							return false
						}
						rs, isRet := f.nodeAt(q).(*ast.ReturnStmt)
						return isRet && len(rs.Results) > 0 && isNil(info, rs.Results[len(rs.Results)-1])
					})
					if found {
						inv := "/"
						if be.Op == token.SHL {
							inv = ">>"
						}
						r.Fail("wrap/round-trip-validated", key, p.posStr(be.Pos()), fmt.Sprintf("a nil-error return is reachable from %s := %s without passing the edge on which the inverse operation (%s) restored the operand: a wrapped value is returned as exact", res, exprKey(be), inv), w...)
					} else {
						r.Pass("wrap/round-trip-validated", key, p.posStr(be.Pos()), "every nil-error return after it passes the round-trip equality edge")
					}
					return true
				})
			}
		}
	}
	if n < 3 {
		r.Fail("wrap/round-trip-validated", pkg, "-", fmt.Sprintf("expected the raw products/shifts of SafeMul, SafeMulInt64 and SafeLeftShift, found %d (vacuous)", n))
	}
}
