package main

import (
	"crypto/sha256"
	_ "embed"
	"encoding/hex"
	"encoding/json"
	"fmt"
	"go/ast"
	"go/token"
	"go/types"
	"os"
	"sort"
	"strings"
)

// Renamed anchors. Rules name exported operations (API) and, where no role could be stated, some
// unexported helpers. A pure rename of such a helper (call sites updated, body untouched) must not
// change a verdict. anchors.json records, for every unexported function of the hive.go packages as
// they were when the tables were confirmed, a fingerprint of its body that does not depend on the
// names of locals, of the function itself or of other unexported functions of the package. When a
// lookup by name fails, the one unexported function of the same receiver type whose body has the
// recorded fingerprint is taken instead (advice is printed); no match or several: unresolved, as
// before. This is a recovery of the anchor, not a rule: nothing is decided by the fingerprint.

//go:embed anchors.json
var anchorsJSON []byte

var anchorTable map[string]string // "pkgpath|recv|name" -> fingerprint

func loadAnchorTable() map[string]string {
	if anchorTable == nil {
		anchorTable = map[string]string{}
		_ = json.Unmarshal(anchorsJSON, &anchorTable)
	}
	return anchorTable
}

// bodyFingerprint: structure of the body with locals numbered by first occurrence, unexported
// functions and methods of the same package abstracted, everything else (fields, exported and foreign
// names, literals, operators) kept.
func bodyFingerprint(info *types.Info, fd *ast.FuncDecl) string {
	fp, _ := fingerprintAndLocals(info, fd)
	return fp
}

// fingerprintAndLocals: the fingerprint and the function's receiver, parameters, results and locals
// in the order in which the fingerprint numbers them.
func fingerprintAndLocals(info *types.Info, fd *ast.FuncDecl) (string, []types.Object) {
	text, order := normalisedBody(info, fd)
	if text == "" {
		return "", nil
	}
	h := sha256.Sum256([]byte(text))
	return hex.EncodeToString(h[:12]), order
}

// normalisedBody renders a function (signature types and body) with its receiver, parameters, results
// and locals numbered in order of appearance and the names of unexported functions of the same
// package abstracted: two functions with the same text differ only in those names.
func normalisedBody(info *types.Info, fd *ast.FuncDecl) (string, []types.Object) {
	if fd.Body == nil || info == nil {
		return "", nil
	}
	var sb strings.Builder
	var order []types.Object
	local := map[types.Object]int{}
	self, _ := info.Defs[fd.Name].(*types.Func)
	name := func(id *ast.Ident) string {
		obj := info.Uses[id]
		if obj == nil {
			obj = info.Defs[id]
		}
		switch o := obj.(type) {
		case *types.Var:
			if o.IsField() || o.Parent() == nil || (o.Pkg() != nil && o.Parent() == o.Pkg().Scope()) {
				return id.Name
			}
			n, ok := local[o]
			if !ok {
				n = len(local)
				local[o] = n
				order = append(order, o)
			}
			return fmt.Sprintf("v%d", n)
		case *types.Func:
			if self != nil && o.Pkg() == self.Pkg() && !o.Exported() {
				return "ƒ"
			}
		case *types.Label:
			return "L"
		}
		return id.Name
	}
	// parameters and receiver first, so that their numbering does not depend on use order
	if fd.Recv != nil {
		for _, fl := range fd.Recv.List {
			for _, nm := range fl.Names {
				name(nm)
			}
		}
	}
	if fd.Type.Params != nil {
		for _, fl := range fd.Type.Params.List {
			for _, nm := range fl.Names {
				name(nm)
			}
			sb.WriteString("p:" + types.ExprString(fl.Type) + ";")
		}
	}
	if fd.Type.Results != nil {
		for _, fl := range fd.Type.Results.List {
			for _, nm := range fl.Names {
				name(nm)
			}
			sb.WriteString("r:" + types.ExprString(fl.Type) + ";")
		}
	}
	ast.Inspect(fd.Body, func(n ast.Node) bool {
		switch x := n.(type) {
		case nil:
			sb.WriteString(")")
			return true
		case *ast.Ident:
			sb.WriteString("(" + name(x))
		case *ast.BasicLit:
			sb.WriteString("(" + x.Value)
		case *ast.BinaryExpr:
			sb.WriteString("(B" + x.Op.String())
		case *ast.UnaryExpr:
			sb.WriteString("(U" + x.Op.String())
		case *ast.AssignStmt:
			sb.WriteString("(A" + x.Tok.String())
		case *ast.IncDecStmt:
			sb.WriteString("(I" + x.Tok.String())
		case *ast.BranchStmt:
			sb.WriteString("(J" + x.Tok.String())
		case *ast.RangeStmt:
			sb.WriteString("(R" + x.Tok.String())
		case *ast.CallExpr:
			if x.Ellipsis.IsValid() {
				sb.WriteString("(C...")
			} else {
				sb.WriteString("(C")
			}
		default:
			sb.WriteString(fmt.Sprintf("(%T", n))
		}
		return true
	})
	return sb.String(), order
}

func anchorKey(pkgPath, recv, name string) string { return pkgPath + "|" + recv + "|" + name }

// renamedAnchor: the unexported function that replaced recv.name by a pure rename, or nil.
func (p *Prog) renamedAnchor(pkg, recv, name string) *ast.FuncDecl {
	if name == "" || ast.IsExported(name) {
		return nil
	}
	pk := p.Pkg(pkg)
	if pk == nil {
		return nil
	}
	want := loadAnchorTable()[anchorKey(pk.PkgPath, recv, name)]
	if want == "" {
		return nil
	}
	var hits []*ast.FuncDecl
	for _, f := range pk.Syntax {
		for _, d := range f.Decls {
			fd, ok := d.(*ast.FuncDecl)
			if !ok || fd.Body == nil || fd.Name.IsExported() || recvTypeName(fd) != recv {
				continue
			}
			if bodyFingerprint(pk.TypesInfo, fd) == want {
				hits = append(hits, fd)
			}
		}
	}
	if len(hits) != 1 {
		return nil
	}
	// the found function must not itself be a tabled anchor under its own name (two helpers swapped names)
	if loadAnchorTable()[anchorKey(pk.PkgPath, recv, hits[0].Name.Name)] != "" {
		return nil
	}
	if !renameAdvised[pkg+"|"+recv+"|"+name] {
		renameAdvised[pkg+"|"+recv+"|"+name] = true
		fmt.Fprintf(os.Stderr, "advice: %s.%s.%s not found; %s has the recorded body and is taken as its renamed form\n", pkg, recv, name, hits[0].Name.Name)
	}
	return hits[0]
}

var renameAdvised = map[string]bool{}

// dumpAnchors writes the fingerprints of every unexported function of the loaded hive.go packages.
func dumpAnchors(progs []*Prog, path string) error {
	out := map[string]string{}
	if b, err := os.ReadFile(path); err == nil {
		_ = json.Unmarshal(b, &out)
	}
	for k, v := range anchorsCollected {
		out[k] = v
	}
	keys := make([]string, 0, len(out))
	for k := range out {
		keys = append(keys, k)
	}
	sort.Strings(keys)
	var sb strings.Builder
	sb.WriteString("{\n")
	for i, k := range keys {
		kb, _ := json.Marshal(k)
		vb, _ := json.Marshal(out[k])
		sb.WriteString(" " + string(kb) + ": " + string(vb))
		if i < len(keys)-1 {
			sb.WriteString(",")
		}
		sb.WriteString("\n")
	}
	sb.WriteString("}\n")
	return os.WriteFile(path, []byte(sb.String()), 0o644)
}

// calleeRenamedFrom: does call c invoke the unexported function whose recorded name is `name`
// (it was renamed; unrenameAnchors gave it its recorded name back in the syntax trees)?
func calleeRenamedFrom(info *types.Info, c *ast.CallExpr, name string) bool {
	fn := staticCallee(info, c)
	return fn != nil && origFuncName[fn] == name
}

// origFuncName: functions whose declaration was given its recorded name back -> that name.
var origFuncName = map[*types.Func]string{}

// funcName: the name rules compare with - the recorded one for a renamed anchor.
func funcName(fn *types.Func) string {
	if fn == nil {
		return ""
	}
	if n, ok := origFuncName[fn.Origin()]; ok {
		return n
	}
	return fn.Name()
}

// anchorsCollected: fingerprints recorded by this run (-genanchors), taken right after loading.
var anchorsCollected = map[string]string{}

func recordAnchors(p *Prog) {
	for _, pk := range p.Pkgs {
		if !strings.HasPrefix(pk.PkgPath, hivePrefix) || pk.TypesInfo == nil {
			continue
		}
		for _, f := range pk.Syntax {
			if strings.HasSuffix(p.Fset.Position(f.Pos()).Filename, "_test.go") {
				continue
			}
			for _, d := range f.Decls {
				fd, ok := d.(*ast.FuncDecl)
				if !ok || fd.Body == nil {
					continue
				}
				fp, locals := fingerprintAndLocals(pk.TypesInfo, fd)
				if !fd.Name.IsExported() {
					anchorsCollected[anchorKey(pk.PkgPath, recvTypeName(fd), fd.Name.Name)] = fp
				}
				var names []string
				for _, o := range locals {
					names = append(names, o.Name())
				}
				anchorsCollected["locals:"+anchorKey(pk.PkgPath, recvTypeName(fd), fd.Name.Name)] = fp + "|" + strings.Join(names, ",")
			}
		}
		if pk.Types == nil || len(pk.Syntax) == 0 {
			continue
		}
		for _, tn := range pk.Types.Scope().Names() {
			obj, _ := pk.Types.Scope().Lookup(tn).(*types.TypeName)
			if obj == nil {
				continue
			}
			if st, _ := obj.Type().Underlying().(*types.Struct); st != nil && st.NumFields() > 0 {
				var parts []string
				for i := 0; i < st.NumFields(); i++ {
					parts = append(parts, st.Field(i).Name()+"\x01"+types.TypeString(st.Field(i).Type(), nil))
				}
				anchorsCollected["struct:"+pk.PkgPath+"|"+tn] = strings.Join(parts, "\x00")
			}
		}
	}
}

// renameEdit: one identifier occurrence to be written back to its recorded name.
type renameEdit struct {
	off, n int
	name   string
}

// detectRenames finds pure renames of unexported functions (body fingerprint equal to a recorded one
// of the same package and receiver type whose name no longer exists; unique both ways) and of
// unexported struct fields (a named struct with the recorded number of fields and the recorded field
// types in the recorded order, some names differing), and returns, per file, the identifier
// occurrences to write back to the recorded names. The loader then analyses the tree through an
// overlay with those names restored, so that every rule, table and key - syntactic or type-level -
// sees the helper or field under the name it was confirmed with.
func detectRenames(p *Prog) map[string][]renameEdit {
	table := loadAnchorTable()
	if len(table) == 0 {
		return nil
	}
	orig := map[types.Object]string{}
	for _, pk := range p.Pkgs {
		if !strings.HasPrefix(pk.PkgPath, hivePrefix) || pk.TypesInfo == nil || len(pk.Syntax) == 0 {
			continue
		}
		// ---- functions
		present := map[string]bool{}
		var decls []*ast.FuncDecl
		for _, f := range pk.Syntax {
			for _, d := range f.Decls {
				if fd, ok := d.(*ast.FuncDecl); ok && fd.Body != nil && !fd.Name.IsExported() {
					present[recvTypeName(fd)+"|"+fd.Name.Name] = true
					decls = append(decls, fd)
				}
			}
		}
		gone := map[string][]string{} // recv|fp -> recorded names that no longer exist
		prefix := pk.PkgPath + "|"
		for k, fp := range table {
			if !strings.HasPrefix(k, prefix) || strings.HasPrefix(k, "struct:") || strings.HasPrefix(k, "locals:") {
				continue
			}
			rest := k[len(prefix):]
			i := strings.Index(rest, "|")
			if i < 0 || present[rest] {
				continue
			}
			gone[rest[:i]+"|"+fp] = append(gone[rest[:i]+"|"+fp], rest[i+1:])
		}
		if len(gone) > 0 {
			cands := map[string][]*ast.FuncDecl{}
			for _, fd := range decls {
				if _, known := table[anchorKey(pk.PkgPath, recvTypeName(fd), fd.Name.Name)]; known {
					continue
				}
				k := recvTypeName(fd) + "|" + bodyFingerprint(pk.TypesInfo, fd)
				if len(gone[k]) == 1 {
					cands[k] = append(cands[k], fd)
				}
			}
			for k, fds := range cands {
				if len(fds) != 1 {
					continue
				}
				if fn, _ := pk.TypesInfo.Defs[fds[0].Name].(*types.Func); fn != nil {
					orig[fn] = gone[k][0]
					fmt.Fprintf(os.Stderr, "advice: %s: %s has the recorded body of %s and is analysed under that name (a pure rename)\n", pk.PkgPath, fds[0].Name.Name, gone[k][0])
				}
			}
		}
		// ---- parameters and locals of functions whose body is otherwise as recorded
		for _, f := range pk.Syntax {
			for _, d := range f.Decls {
				fd, ok := d.(*ast.FuncDecl)
				if !ok || fd.Body == nil {
					continue
				}
				name := fd.Name.Name
				if fn, _ := pk.TypesInfo.Defs[fd.Name].(*types.Func); fn != nil {
					if o, renamed := orig[fn]; renamed {
						name = o
					}
				}
				rec, ok := table["locals:"+anchorKey(pk.PkgPath, recvTypeName(fd), name)]
				if !ok {
					continue
				}
				i := strings.Index(rec, "|")
				if i < 0 {
					continue
				}
				fp, locals := fingerprintAndLocals(pk.TypesInfo, fd)
				if fp != rec[:i] {
					continue
				}
				names := strings.Split(rec[i+1:], ",")
				if rec[i+1:] == "" {
					names = nil
				}
				if len(names) != len(locals) {
					continue
				}
				// names that occur in the function for something that is not one of its locals must not be
				// captured by a restored local name
				isLocal := map[types.Object]bool{}
				for _, o := range locals {
					isLocal[o] = true
				}
				foreign := map[string]bool{}
				ast.Inspect(fd, func(n ast.Node) bool {
					if id, ok := n.(*ast.Ident); ok {
						o := pk.TypesInfo.Uses[id]
						if o == nil {
							o = pk.TypesInfo.Defs[id]
						}
						if o != nil && !isLocal[o] {
							if v, isVar := o.(*types.Var); !isVar || !v.IsField() {
								foreign[id.Name] = true
							}
						}
					}
					return true
				})
				n := 0
				for k, o := range locals {
					if o.Name() != names[k] && names[k] != "_" && o.Name() != "_" && names[k] != "" && !foreign[names[k]] {
						orig[o] = names[k]
						n++
					}
				}
				if n > 0 {
					fmt.Fprintf(os.Stderr, "advice: %s: %d parameter/local name(s) of %s differ from the recorded ones in an otherwise unchanged body and are analysed under the recorded names\n", pk.PkgPath, n, fd.Name.Name)
				}
			}
		}
		// ---- struct fields
		if pk.Types == nil {
			continue
		}
		for _, tn := range pk.Types.Scope().Names() {
			obj, _ := pk.Types.Scope().Lookup(tn).(*types.TypeName)
			if obj == nil {
				continue
			}
			st, _ := obj.Type().Underlying().(*types.Struct)
			if st == nil {
				continue
			}
			rec, ok := table["struct:"+pk.PkgPath+"|"+tn]
			if !ok {
				continue
			}
			var fields [][2]string
			for _, part := range strings.Split(rec, "\x00") {
				if i := strings.Index(part, "\x01"); i >= 0 {
					fields = append(fields, [2]string{part[:i], part[i+1:]})
				}
			}
			if len(fields) != st.NumFields() {
				continue
			}
			same, diff := true, 0
			names := map[string]bool{}
			for i := 0; i < st.NumFields(); i++ {
				names[st.Field(i).Name()] = true
			}
			for i := 0; i < st.NumFields(); i++ {
				f := st.Field(i)
				if types.TypeString(f.Type(), nil) != fields[i][1] {
					same = false
					break
				}
				if f.Name() != fields[i][0] {
					// only unexported, named fields; the recorded name must be free
					if f.Embedded() || f.Exported() || ast.IsExported(fields[i][0]) || names[fields[i][0]] {
						same = false
						break
					}
					diff++
				}
			}
			if !same || diff == 0 {
				continue
			}
			for i := 0; i < st.NumFields(); i++ {
				if f := st.Field(i); f.Name() != fields[i][0] {
					orig[f] = fields[i][0]
					fmt.Fprintf(os.Stderr, "advice: %s: field %s.%s stands where %s was recorded (same type, same position) and is analysed under that name (a pure rename)\n", pk.PkgPath, tn, f.Name(), fields[i][0])
				}
			}
		}
	}
	if len(orig) == 0 {
		return nil
	}
	edits := map[string][]renameEdit{}
	seen := map[token.Pos]bool{}
	add := func(id *ast.Ident, name string) {
		if id == nil || !id.Pos().IsValid() || seen[id.Pos()] || id.Name == name {
			return
		}
		seen[id.Pos()] = true
		pos := p.Fset.Position(id.Pos())
		edits[pos.Filename] = append(edits[pos.Filename], renameEdit{pos.Offset, len(id.Name), name})
	}
	originOf := func(o types.Object) types.Object {
		switch x := o.(type) {
		case *types.Func:
			return x.Origin()
		case *types.Var:
			return x.Origin()
		}
		return o
	}
	for _, pk := range p.Pkgs {
		if !strings.HasPrefix(pk.PkgPath, hivePrefix) || pk.TypesInfo == nil {
			continue
		}
		for id, o := range pk.TypesInfo.Defs {
			if o != nil {
				if n, ok := orig[originOf(o)]; ok {
					add(id, n)
				}
			}
		}
		for id, o := range pk.TypesInfo.Uses {
			if n, ok := orig[originOf(o)]; ok {
				add(id, n)
			}
		}
	}
	return edits
}

// applyRenameEdits returns the overlay contents for the edited files.
func applyRenameEdits(edits map[string][]renameEdit) (map[string][]byte, error) {
	out := map[string][]byte{}
	for file, es := range edits {
		src, err := os.ReadFile(file)
		if err != nil {
			return nil, err
		}
		sort.Slice(es, func(i, j int) bool { return es[i].off > es[j].off })
		for _, e := range es {
			if e.off < 0 || e.off+e.n > len(src) {
				return nil, fmt.Errorf("rename edit out of range in %s", file)
			}
			src = append(src[:e.off], append([]byte(e.name), src[e.off+e.n:]...)...)
		}
		out[file] = src
	}
	return out, nil
}
