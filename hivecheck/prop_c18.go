package main

import (
	"fmt"
	"go/ast"
	"go/token"
	"go/types"
	"strings"

	"golang.org/x/tools/go/cfg"
)

func init() {
	register(&property{
		ID:    "C18",
		Run:   runC18,
		Modes: []string{"deadlock"},
		Meta: propMeta{
			Explanation: "Static clauses of runtime/timed (Queue, Executor, TaskExecutor) and ds/generalheap on all CFG paths: (1) Poll returns the polled value only inside a timer.C arm or on the ignore-pending-timeouts edge of the shutdown arm; cancel arms restart the loop; the cancel-pending edge returns the empty value; (2) Cancel removes from the heap and closes the cancel channel under the heap mutex, the close is guarded by the closed-test (select default), removal guarded by Index() != -1; (3) heap only under heapMutex, isShutdown only under shutdownMutex, waitCond protocol (wait loop under the Locker, signals after the critical section), and every state change that can end a wait (push, shutdown) wakes on every path; (4) an element is accepted (pushed) only in one critical section with the shutdown check; (5) Executor: WaitGroup.Add before go, worker loop ends only on the empty value, Done after it; TaskExecutor: map only under its mutex, re-scheduling cancels the previous element first, the wrapper removes its identifier only if the entry is still its own task, Cancel returns true only when it found and cancelled an entry; (6) comparator directions of HeapKey.CompareTo and generalheap.Less; heap index maintenance in Swap/Push/Pop. Also: after popping a candidate every path to a timer arm arms a timer for it (a new one, or one stopped and drained since the cancel arm); the previous task of an identifier is looked up and cancelled before the replacement is scheduled.",
			NotDecided:  "timing relative to a clock, eventual delivery over schedules, Cancel's result when the callback already runs",
			Assumptions: []string{"container/heap and time.Timer behave as documented"},
		},
	})
}

func runC18(c *Ctx) {
	p := c.Load("runtime")
	if p == nil {
		return
	}
	r := c.R
	const pkg = "runtime/timed"
	pk := p.Pkg(pkg)
	if pk == nil {
		r.Unresolved("load", pkg, "package not loaded")
		return
	}
	info := pk.TypesInfo
	// a cancelled element is skipped, Poll does not return for it
	checkCancelArmNeverReturns(r, p, pkg, "Queue", "Poll")
	// the queue and the executor are built with options.Apply(obj, opts, init): the init functions read
	// what the options configured (maximum size, worker count)
	checkOptionsApplyOrder(r, p)
	// (3) locks + cond
	checkGuards(r, p, "lock/guarded-by", []GuardRow{
		{Pkg: pkg, Type: "Queue", Mutex: "heapMutex", Fields: []string{"heap"}, CH: map[string]LockMode{"removeElement": ModeW},
			Mutators: map[string][]string{"heap": {"Push", "Pop"}}},
		{Pkg: pkg, Type: "Queue", Mutex: "shutdownMutex", Fields: []string{"isShutdown"}},
		{Pkg: pkg, Type: "TaskExecutor", Mutex: "queuedElementsMutex", Fields: []string{"queuedElements"}},
	})
	checkLockBalance(r, p, "lock/balance", []string{pkg}, nil, nil)
	checkLockOrder(r, p, "lock/order", lockOrderOpts{Pkgs: []string{pkg}})
	// the QueueElement handed back by Add is the handle for Cancel: it stays tied to this one scheduling
	checkFreshPushedElement(r, p, pkg, "Queue", "Add")
	conds := discoverConds(p, pkg)
	if len(conds) != 1 {
		r.Fail("cond/wiring", pkg, "-", fmt.Sprintf("expected Queue.waitCond wired to heapMutex, found %v", conds))
	} else {
		r.Pass("cond/wiring", pkg+"."+conds[0].Type+"."+conds[0].Cond, "-", "Locker is "+conds[0].Locker)
	}
	checkCondProtocol(r, p, pkg, conds, 1, 2)
	heapCall := func(name string) func(ast.Node) bool {
		return func(n ast.Node) bool {
			cl, ok := n.(*ast.CallExpr)
			return ok && exprKey(cl.Fun) == "heap."+name && len(cl.Args) >= 1 && strings.HasSuffix(exprKey(cl.Args[0]), ".heap")
		}
	}
	checkWakeRow(r, p, pkg, "Queue", "Add", wakeRow{Name: "element pushed", Change: heapCall("Push"), Conds: []string{"waitCond"}})
	checkWakeRow(r, p, pkg, "Queue", "Shutdown", wakeRow{Name: "shutdown flag set", Conds: []string{"waitCond"}, Change: func(n ast.Node) bool {
		as, ok := n.(*ast.AssignStmt)
		return ok && len(as.Lhs) == 1 && fieldSel(info, as.Lhs[0], "isShutdown") && exprKey(as.Rhs[0]) == "true"
	}})
	// the shutdown broadcast must come after ctxCancel as well? (not required) -- but after the flag flip, checked above.

	// (1) Poll - or the stage of it that waits for one popped element: the method of Queue that holds
	// the select on the timer channel. The popped element is the local assigned from heap.Pop there,
	// or - when popping is a stage of its own - the parameter whose cancel channel is selected on.
	awaitFd := p.FuncDecl(pkg, "Queue", "Poll")
	for _, m := range p.Methods(pkg, "Queue") {
		if m.Body == nil {
			continue
		}
		has := false
		ast.Inspect(m.Body, func(n ast.Node) bool {
			if cc, ok := n.(*ast.CommClause); ok && cc.Comm != nil {
				if es, ok := cc.Comm.(*ast.ExprStmt); ok {
					if u, ok := es.X.(*ast.UnaryExpr); ok && u.Op == token.ARROW && strings.HasSuffix(exprKey(u.X), "timer.C") {
						has = true
					}
				}
			}
			return true
		})
		if has {
			awaitFd = m
		}
	}
	if awaitFd == nil || awaitFd.Body == nil {
		r.Unresolved("poll/value-only-when-due", pkg+".Queue.Poll", "method not found")
	} else {
		f := newFuncCFG(p, info, awaitFd.Body, funcKey(pkg, awaitFd))
		key := pkg + ".Queue.Poll"
		// variable holding the popped element
		var polled types.Object
		for _, pt := range f.Find(func(n ast.Node) bool {
			as, ok := n.(*ast.AssignStmt)
			return ok && len(as.Rhs) == 1 && strings.Contains(exprKey(as.Rhs[0]), "heap.Pop(")
		}) {
			polled = objOfIdent(info, f.nodeAt(pt).(*ast.AssignStmt).Lhs[0])
		}
		if polled == nil {
			params := map[types.Object]bool{}
			for _, po := range paramObjs(info, awaitFd) {
				if po != nil {
					params[po] = true
				}
			}
			ast.Inspect(awaitFd.Body, func(n ast.Node) bool {
				if cc, ok := n.(*ast.CommClause); ok && cc.Comm != nil {
					if es, ok := cc.Comm.(*ast.ExprStmt); ok {
						if u, ok := es.X.(*ast.UnaryExpr); ok && u.Op == token.ARROW && strings.HasSuffix(exprKey(u.X), ".cancel") {
							if ro := rootObj(info, u.X); ro != nil && params[ro] {
								polled = ro
							}
						}
					}
				}
				return true
			})
		}
		if polled == nil {
			r.Fail("poll/value-only-when-due", key, f.P.posStr(f.Body.Pos()), "no heap.Pop into a variable")
		} else {
			caseEdges := func(match func(comm ast.Stmt) bool) []Edge {
				var out []Edge
				for _, b := range f.G.Blocks {
					if !b.Live {
						continue
					}
					for si, s := range b.Succs {
						if cc, ok := s.Stmt.(*ast.CommClause); ok && s.Kind == cfg.KindSelectCaseBody && cc.Comm != nil && match(cc.Comm) {
							out = append(out, Edge{b, si})
						}
					}
				}
				return out
			}
			commRecv := func(suffix string) func(ast.Stmt) bool {
				return func(st ast.Stmt) bool {
					es, ok := st.(*ast.ExprStmt)
					if !ok {
						return false
					}
					u, ok := es.X.(*ast.UnaryExpr)
					return ok && u.Op == token.ARROW && strings.HasSuffix(exprKey(u.X), suffix)
				}
			}
			timerArms := caseEdges(commRecv("timer.C"))
			cancelArms := caseEdges(commRecv(".cancel"))
			ignoreT, _ := f.CondEdges(func(e ast.Expr) bool {
				cl, ok := e.(*ast.CallExpr)
				return ok && strings.HasSuffix(exprKey(cl.Fun), "shutdownFlags.HasBits") && len(cl.Args) == 1 && exprKey(cl.Args[0]) == "IgnorePendingTimeouts"
			})
			cancelPendingT, _ := f.CondEdges(func(e ast.Expr) bool {
				cl, ok := e.(*ast.CallExpr)
				return ok && strings.HasSuffix(exprKey(cl.Fun), "shutdownFlags.HasBits") && len(cl.Args) == 1 && exprKey(cl.Args[0]) == "CancelPendingElements"
			})
			isValueReturn := func(n ast.Node) bool {
				rs, ok := n.(*ast.ReturnStmt)
				return ok && len(rs.Results) >= 1 && mentionsObj(info, rs.Results, polled)
			}
			rets := f.Find(isValueReturn)
			if len(rets) == 0 || len(timerArms) == 0 {
				r.Fail("poll/value-only-when-due", key, f.P.posStr(f.Body.Pos()), fmt.Sprintf("expected value returns and timer arms, found %d / %d", len(rets), len(timerArms)))
			}
			lic := append(append([]Edge{}, timerArms...), ignoreT...)
			for _, rt := range rets {
				if w, only := f.OnlyThroughEdges(rt, lic); only {
					r.Pass("poll/value-only-when-due", key+" value return", f.PosOf(rt), "reached only through a timer.C arm or the ignore-pending-timeouts edge")
				} else {
					r.Fail("poll/value-only-when-due", key+" value return", f.PosOf(rt), "the polled value can be returned without its timer having fired (and without the ignore-timeouts shutdown flag): delivery before the scheduled time", w...)
				}
			}
			// a cancelled element is never delivered: when the arm that licenses the delivery (timer fired,
			// shutdown ignoring the timeouts) and the cancel channel are ready together, select picks one at
			// random - a poller that has popped the element but not parked yet sees both. Every return of the
			// value is therefore reached only through the `default` edge of a non-blocking look at the
			// element's cancel channel made AFTER that arm was taken.
			{
				var notCancelled []Edge
				ast.Inspect(awaitFd.Body, func(n ast.Node) bool {
					sel, ok := n.(*ast.SelectStmt)
					if !ok {
						return true
					}
					var def *ast.CommClause
					recvCancel := false
					for _, st := range sel.Body.List {
						cc := st.(*ast.CommClause)
						if cc.Comm == nil {
							def = cc
						} else if commRecv(".cancel")(cc.Comm) {
							recvCancel = true
						}
					}
					if def == nil || !recvCancel || len(sel.Body.List) != 2 {
						return true
					}
					// go/cfg emits the default body into the "after case" block of the last communication clause:
					// the not-cancelled edge is the second successor of the block that branches into the cancel
					// clause's body
					var cancelClause *ast.CommClause
					for _, st := range sel.Body.List {
						if cc := st.(*ast.CommClause); cc.Comm != nil {
							cancelClause = cc
						}
					}
					for _, b := range f.G.Blocks {
						if !b.Live || len(b.Succs) != 2 {
							continue
						}
						if b.Succs[0].Stmt == ast.Stmt(cancelClause) && b.Succs[0].Kind == cfg.KindSelectCaseBody && b.Succs[1].Kind == cfg.KindSelectAfterCase {
							notCancelled = append(notCancelled, Edge{b, 1})
						}
					}
					return true
				})
				for _, rt := range rets {
					if w, only := f.OnlyThroughEdges(rt, notCancelled); only {
						r.Pass("poll/cancel-checked-before-delivery", key+" value return", f.PosOf(rt), "reached only through the default edge of a non-blocking look at the cancel channel")
					} else {
						r.Fail("poll/cancel-checked-before-delivery", key+" value return", f.PosOf(rt), "the polled value is returned without a fresh look at its cancel channel: if the element was cancelled while the poller was between the pop and its select, both arms are ready, select picks at random, and an element whose Cancel had already returned is delivered", w...)
					}
				}
			}
			isPop := heapCall("Pop")
			// the timer whose arm licenses the delivery was armed for THIS candidate: after the pop every
			// path to a timer arm creates a timer (time.NewTimer), or re-arms one (Reset) that was stopped
			// and drained (CleanupTimer) since the cancel arm that abandoned the previous candidate -
			// otherwise a tick left over from an abandoned candidate delivers the next one early
			{
				isCallNamed := func(suffix string) func(ast.Node) bool {
					return func(n ast.Node) bool {
						cl, ok := n.(*ast.CallExpr)
						return ok && strings.HasSuffix(exprKey(cl.Fun), suffix)
					}
				}
				isNew, isReset, isCleanup := isCallNamed("time.NewTimer"), isCallNamed(".Reset"), isCallNamed("CleanupTimer")
				armTargets := map[*cfg.Block]bool{}
				for _, e := range timerArms {
					armTargets[e.From.Succs[e.Succ]] = true
				}
				bad := false
				for _, pp := range f.Find(isPop) {
					if w, found := f.reachBlock(Point{pp.B, pp.I + 1}, &searchOpts{AvoidNode: func(n ast.Node) bool { return isNew(n) || isReset(n) }}, func(b *cfg.Block) bool { return armTargets[b] }); found {
						bad = true
						r.Fail("poll/timer-armed-for-candidate", key, f.PosOf(pp), "after popping a candidate a timer arm can be reached without arming a timer for it", w...)
					}
				}
				for _, rp := range f.Find(isReset) {
					for _, e := range cancelArms {
						if w, found := f.reach(Point{e.From.Succs[e.Succ], 0}, &searchOpts{AvoidNode: func(n ast.Node) bool { return isCleanup(n) || isNew(n) }}, func(pt Point, atExit bool) bool { return !atExit && f.At(pt, rp) }); found {
							bad = true
							r.Fail("poll/timer-armed-for-candidate", key, f.PosOf(rp), "the timer of an abandoned (cancelled) candidate is re-armed with Reset without having been stopped and drained: its old tick, if it fired meanwhile, is taken for the next candidate's and that element is delivered before its time", w...)
							break
						}
					}
				}
				if !bad {
					r.Pass("poll/timer-armed-for-candidate", key, f.P.posStr(f.Body.Pos()), "every candidate gets its own timer (or a stopped and drained one) before its timer arm can fire")
				}
			}
			for i, group := range [][]Edge{cancelArms, cancelPendingT} {
				name := []string{"cancel arm", "cancel-pending-elements edge"}[i]
				if len(group) == 0 {
					r.Fail("poll/cancelled-never-delivered", key+" "+name, f.P.posStr(f.Body.Pos()), "arm/edge not found (vacuous)")
					continue
				}
				bad := false
				for _, e := range group {
					if w, found := f.reach(Point{e.From.Succs[e.Succ], 0}, &searchOpts{AvoidNode: isPop}, func(pt Point, atExit bool) bool {
						return !atExit && isValueReturn(f.nodeAt(pt))
					}); found {
						bad = true
						r.Fail("poll/cancelled-never-delivered", key+" "+name, f.P.posStr(f.Body.Pos()), "after the "+name+" the value of the same element can still be returned", w...)
					}
				}
				if !bad {
					r.Pass("poll/cancelled-never-delivered", key+" "+name, f.P.posStr(f.Body.Pos()), fmt.Sprintf("%d %s(s): the element's value is never returned afterwards", len(group), name))
				}
			}
		}
	}
	// (2) Cancel
	if fd := p.FuncDecl(pkg, "QueueElement", "Cancel"); fd == nil {
		r.Unresolved("cancel/close-once-under-lock", pkg+".QueueElement.Cancel", "method not found")
	} else {
		key := pkg + ".QueueElement.Cancel"
		// the close is reachable only through the default arm of a select whose other arm receives from
		// the same channel (the closed-test) - in Cancel itself or in a predicate helper spliced into it
		okGuard, nClose := false, 0
		{
			cf := newFuncCFG(p, info, fd.Body, key)
			var notClosed []Edge
			for _, b := range cf.G.Blocks {
				if !b.Live {
					continue
				}
				// go/cfg chains the clauses of a select: the block that evaluates a communication has the
				// clause body as its first successor and "after this case" (the next clause, finally the
				// default body) as its second; leaving a receive on the cancel channel through the second
				// edge means the channel was not ready, i.e. not closed
				if len(b.Succs) != 2 || b.Succs[0].Kind != cfg.KindSelectCaseBody || b.Succs[1].Kind != cfg.KindSelectAfterCase {
					continue
				}
				cc, ok := b.Succs[0].Stmt.(*ast.CommClause)
				if !ok || cc.Comm == nil {
					continue
				}
				if es, ok := cc.Comm.(*ast.ExprStmt); ok {
					if u, ok := es.X.(*ast.UnaryExpr); ok && u.Op == token.ARROW && strings.HasSuffix(exprKey(u.X), ".cancel") {
						notClosed = append(notClosed, Edge{b, 1})
					}
				}
			}
			closes := cf.Find(func(n ast.Node) bool {
				c2, ok := n.(*ast.CallExpr)
				return ok && exprKey(c2.Fun) == "close" && len(c2.Args) == 1 && strings.HasSuffix(exprKey(c2.Args[0]), ".cancel")
			})
			okGuard = len(closes) > 0 && len(notClosed) > 0
			for _, cp := range closes {
				if _, only := cf.OnlyThroughEdges(cp, notClosed); !only {
					okGuard = false
				}
			}
		}
		var heldAtClose LockSet
		AnalyzeLocks(fd.Body, LockSet{}, &FlowOpts{Info: info}, func(n ast.Node, stack []ast.Node, held LockSet) {
			if c2, ok := n.(*ast.CallExpr); ok && exprKey(c2.Fun) == "close" && strings.HasSuffix(exprKey(c2.Args[0]), ".cancel") {
				nClose++
				heldAtClose = held
			}
		})
		locked := false
		for k, m := range heldAtClose {
			if strings.HasSuffix(k, ".heapMutex") && m == ModeW {
				locked = true
			}
		}
		switch {
		case nClose == 0:
			r.Fail("cancel/close-once-under-lock", key, p.posStr(fd.Pos()), "Cancel never closes the cancel channel: a waiting Poll is not told")
		case !okGuard:
			r.Fail("cancel/close-once-under-lock", key, p.posStr(fd.Pos()), "close(cancel) is not guarded by the closed-test (select on the same channel with the close in default): a second Cancel panics")
		case !locked:
			r.Fail("cancel/close-once-under-lock", key, p.posStr(fd.Pos()), "close(cancel) outside the heap mutex: two concurrent Cancels can both pass the closed-test")
		default:
			r.Pass("cancel/close-once-under-lock", key, p.posStr(fd.Pos()), "closed at most once, under the heap mutex")
		}
		n := 0
		ast.Inspect(fd.Body, func(nd ast.Node) bool {
			if cl, ok := nd.(*ast.CallExpr); ok && strings.HasSuffix(exprKey(cl.Fun), ".removeElement") {
				n++
			}
			return true
		})
		if n == 1 {
			r.Pass("cancel/removes-from-heap", key, p.posStr(fd.Pos()), "removeElement called")
		} else {
			r.Fail("cancel/removes-from-heap", key, p.posStr(fd.Pos()), "Cancel must remove the element from the heap so that it is never polled")
		}
	}
	if f := p.CFGOf(pkg, "Queue", "removeElement"); f == nil {
		r.Unresolved("cancel/removes-from-heap", pkg+".Queue.removeElement", "method not found")
	} else {
		rem := f.Find(heapCall("Remove"))
		live := f.RelEdgesAt(func(rel Rel) bool {
			return rel.Op == "!=" && ((rel.L == "-1" && strings.HasSuffix(rel.R, ".Index()")) || (rel.R == "-1" && strings.HasSuffix(rel.L, ".Index()")))
		})
		if len(rem) != 1 {
			r.Fail("cancel/removes-from-heap", pkg+".Queue.removeElement", f.P.posStr(f.Body.Pos()), "expected one heap.Remove")
		} else if w, only := f.OnlyThroughEdges(rem[0], live); !only {
			r.Fail("cancel/removes-from-heap", pkg+".Queue.removeElement", f.PosOf(rem[0]), "heap.Remove is reachable for an element that is no longer in the heap (index -1): removes a wrong element or panics", w...)
		} else {
			cl := f.nodeAt(rem[0])
			okIdx := false
			ast.Inspect(cl, func(n ast.Node) bool {
				if c2, ok := n.(*ast.CallExpr); ok && exprKey(c2.Fun) == "heap.Remove" && len(c2.Args) == 2 && strings.HasSuffix(f.KeyAt(c2.Args[1], rem[0]), ".Index()") {
					okIdx = true
				}
				return true
			})
			if okIdx {
				r.Pass("cancel/removes-from-heap", pkg+".Queue.removeElement", f.PosOf(rem[0]), "heap.Remove(heap, element index) only while the element is in the heap")
			} else {
				r.Fail("cancel/removes-from-heap", pkg+".Queue.removeElement", f.PosOf(rem[0]), "heap.Remove must use the element's maintained index")
			}
		}
	}
	// (4) add-after-shutdown atomicity
	if fd := p.FuncDecl(pkg, "Queue", "Add"); fd == nil {
		r.Unresolved("add/atomic-with-shutdown", pkg+".Queue.Add", "method not found")
	} else {
		key := pkg + ".Queue.Add"
		recvObj := info.Defs[recvIdentOf(fd)]
		recvPath := fmt.Sprintf("%s@%d", recvObj.Name(), recvObj.Pos())
		n := 0
		bad := ""
		AnalyzeLocks(fd.Body, LockSet{}, &FlowOpts{Info: info}, func(nd ast.Node, stack []ast.Node, held LockSet) {
			if heapCall("Push")(nd) {
				n++
				if held[recvPath+".shutdownMutex"] < ModeR {
					bad = fmt.Sprintf("%s: the element is pushed outside the critical section of shutdownMutex in which the shutdown flag was checked: a Shutdown in between lets the pollers leave, the element is accepted (non-nil result) but never delivered", p.posStr(nd.Pos()))
				}
			}
		})
		if n == 0 {
			r.Fail("add/licensed-by-not-shutdown", key, p.posStr(fd.Pos()), "no heap.Push found (vacuous)")
		} else if bad != "" {
			r.Fail("add/atomic-with-shutdown", key, p.posStr(fd.Pos()), bad)
		} else {
			r.Pass("add/atomic-with-shutdown", key, p.posStr(fd.Pos()), "shutdown check and push in one critical section")
		}
		f := newFuncCFG(p, info, fd.Body, key)
		_, notShut := f.CondEdges(func(e ast.Expr) bool {
			cl, ok := e.(*ast.CallExpr)
			return (ok && strings.HasSuffix(exprKey(cl.Fun), ".IsShutdown")) || fieldSel(info, e, "isShutdown")
		})
		pushes := f.Find(heapCall("Push"))
		if len(pushes) == 1 {
			if w, only := f.OnlyThroughEdges(pushes[0], notShut); only {
				r.Pass("add/licensed-by-not-shutdown", key, f.PosOf(pushes[0]), "push only on the not-shut-down edge")
			} else {
				r.Fail("add/licensed-by-not-shutdown", key, f.PosOf(pushes[0]), "an element can be pushed without checking the shutdown flag", w...)
			}
		}
	}
	// (4b) a handle that Add hands out has been through heap.Push: the heap maintains the element's
	// index (Push sets it, Remove/Pop set it to -1) and Cancel removes by that index. A handle that was
	// never pushed still carries the zero index, so cancelling it removes whatever sits at the top of
	// the heap. Every return of a non-nil result in Add is reached only through the push.
	if fd := p.FuncDecl(pkg, "Queue", "Add"); fd != nil {
		key := pkg + ".Queue.Add"
		f := newFuncCFG(p, info, fd.Body, key)
		nRet, bad := 0, ""
		var wit []string
		for _, rpt := range f.FindOwn(func(n ast.Node) bool { _, ok := n.(*ast.ReturnStmt); return ok }) {
			rs := f.nodeAt(rpt).(*ast.ReturnStmt)
			if len(rs.Results) == 1 && isNil(info, rs.Results[0]) {
				continue
			}
			if len(rs.Results) == 0 {
				// named result: nil unless assigned; judged like a non-nil return
			}
			nRet++
			if w, found := f.PathFromEntryAvoiding(rpt, heapCall("Push"), nil); found {
				bad = f.PosOf(rpt) + ": Add hands out a handle that was never pushed on the heap: its index is still the zero value, so Cancel (or a re-schedule of a TaskExecutor identifier) removes the element at the top of the heap instead - an unrelated task is never delivered"
				wit = w
			}
		}
		switch {
		case nRet == 0:
			r.Fail("handle/returned-only-after-push", key, p.posStr(fd.Pos()), "no return of a handle found in Add (vacuous)")
		case bad != "":
			r.Fail("handle/returned-only-after-push", key, p.posStr(fd.Pos()), bad, wit...)
		default:
			r.Pass("handle/returned-only-after-push", key, p.posStr(fd.Pos()), fmt.Sprintf("%d return(s) of a handle, each reached only through heap.Push", nRet))
		}
	}
	// (5) executor
	checkGoWaitGroup(r, p, "wg/add-before-go", pkg, p.FuncDecl(pkg, "Executor", "startBackgroundWorkers"), 1)
	if fd := p.FuncDecl(pkg, "Executor", "startBackgroundWorkers"); fd != nil {
		// the worker goroutine (literal or named method): it has a loop every iteration of which polls
		// the queue (blocking), the loop is left only on the edge on which the polled entry is nil, and
		// every path from there to the end passes shutdownWG.Done()
		ok := false
		ast.Inspect(fd.Body, func(n ast.Node) bool {
			gs, isGo := n.(*ast.GoStmt)
			if !isGo {
				return true
			}
			body, _ := callableBody(p, info, gs.Call.Fun)
			if body == nil {
				return true
			}
			wf := newFuncCFG(p, info, body, "executor worker")
			isPoll := func(m ast.Node) bool {
				cl, isCall := m.(*ast.CallExpr)
				return isCall && strings.HasSuffix(exprKey(cl.Fun), ".queue.Poll") && len(cl.Args) == 1 && exprKey(cl.Args[0]) == "true"
			}
			isDone := func(m ast.Node) bool {
				cl, isCall := m.(*ast.CallExpr)
				return isCall && strings.HasSuffix(exprKey(cl.Fun), ".shutdownWG.Done")
			}
			// edges on which the polled entry is known to be nil: the tested variable holds, on every
			// definition that reaches the test, the result of a Poll
			var nilEdges []Edge
			wf.forEachEdgeFact(func(e Edge, eb *cfg.Block, ft fact) {
				x, nonNilOnTrue, isTest := nilTest(info, ft.Atom)
				if !isTest || nonNilOnTrue == ft.Pol {
					return
				}
				ept := Point{eb, len(eb.Nodes) - 1}
				if strings.Contains(wf.KeyAt(x, ept), ".queue.Poll(") {
					nilEdges = append(nilEdges, e)
					return
				}
				if o := objOfIdent(info, x); o != nil {
					defs, fromEntry := wf.ReachingDefs(ept, o)
					all := len(defs) > 0 && !fromEntry
					for _, d := range defs {
						if d.Rhs == nil || !isPoll(ast.Unparen(d.Rhs)) {
							all = false
						}
					}
					if all {
						nilEdges = append(nilEdges, e)
					}
				}
			})
			nilSet := map[Edge]bool{}
			for _, e := range nilEdges {
				nilSet[e] = true
			}
			polls := wf.Find(isPoll)
			if len(polls) == 0 || len(nilEdges) == 0 {
				return true
			}
			good := true
			// after a poll, the exit is reachable only through a nil edge ...
			for _, pp := range polls {
				if _, found := wf.reach(Point{pp.B, pp.I + 1}, &searchOpts{AvoidEdge: func(e Edge) bool { return nilSet[e] }, AvoidNode: isPoll}, func(pt Point, atExit bool) bool { return atExit }); found {
					good = false
				}
			}
			// ... and from a nil edge the exit only through Done, without polling again
			for _, e := range nilEdges {
				if _, found := wf.reach(Point{e.From.Succs[e.Succ], 0}, &searchOpts{AvoidNode: isDone}, func(pt Point, atExit bool) bool { return atExit }); found {
					good = false
				}
				if _, found := wf.reach(Point{e.From.Succs[e.Succ], 0}, nil, func(pt Point, atExit bool) bool { return !atExit && containsMatch(wf.nodeAt(pt), isPoll) }); found {
					good = false
				}
			}
			// a non-nil entry leads back to a poll (the loop)
			loops := false
			for _, pp := range polls {
				if _, found := wf.reach(Point{pp.B, pp.I + 1}, &searchOpts{AvoidEdge: func(e Edge) bool { return nilSet[e] }}, func(pt Point, atExit bool) bool { return !atExit && containsMatch(wf.nodeAt(pt), isPoll) }); found {
					loops = true
				}
			}
			if good && loops {
				ok = true
			}
			return true
		})
		if ok {
			r.Pass("executor/worker-loop", pkg+".Executor.startBackgroundWorkers", p.posStr(fd.Pos()), "worker polls until the empty value, then signals Done")
		} else {
			r.Fail("executor/worker-loop", pkg+".Executor.startBackgroundWorkers", p.posStr(fd.Pos()), "the worker must poll the queue in a loop that is left exactly when the polled entry is nil, and call shutdownWG.Done() afterwards")
		}
	}
	if f := p.CFGOf(pkg, "Executor", "Shutdown"); f != nil {
		qs := f.Find(func(n ast.Node) bool {
			cl, ok := n.(*ast.CallExpr)
			return ok && strings.HasSuffix(exprKey(cl.Fun), ".queue.Shutdown")
		})
		isWait := func(n ast.Node) bool {
			cl, ok := n.(*ast.CallExpr)
			return ok && strings.HasSuffix(exprKey(cl.Fun), ".shutdownWG.Wait")
		}
		dontWait, _ := f.CondEdges(func(e ast.Expr) bool {
			cl, ok := e.(*ast.CallExpr)
			return ok && strings.HasSuffix(exprKey(cl.Fun), ".HasBits") && len(cl.Args) == 1 && exprKey(cl.Args[0]) == "DontWaitForShutdown"
		})
		ex := map[Edge]bool{}
		for _, e := range dontWait {
			ex[e] = true
		}
		if len(qs) != 1 {
			r.Fail("executor/shutdown-waits", pkg+".Executor.Shutdown", f.P.posStr(f.Body.Pos()), "expected one queue.Shutdown call")
		} else if w, found := f.reach(Point{qs[0].B, qs[0].I + 1}, &searchOpts{AvoidNode: isWait, AvoidEdge: func(e Edge) bool { return ex[e] }}, func(pt Point, atExit bool) bool { return atExit }); found {
			r.Fail("executor/shutdown-waits", pkg+".Executor.Shutdown", f.PosOf(qs[0]), "Shutdown can return without waiting for the workers although DontWaitForShutdown was not given", w...)
		} else {
			r.Pass("executor/shutdown-waits", pkg+".Executor.Shutdown", f.PosOf(qs[0]), "waits for the workers unless DontWaitForShutdown")
		}
	}
	checkTaskExecutor(r, p)
	// (6) comparators
	if fd := p.FuncDecl(pkg, "HeapKey", "CompareTo"); fd == nil {
		r.Unresolved("cmp/direction", pkg+".HeapKey.CompareTo", "method not found")
	} else {
		got := timeCompareDirection(p, pkg, fd, pkg+".HeapKey.CompareTo")
		if got["Before(recv,arg)"] == "-1" && got["After(recv,arg)"] == "1" {
			r.Pass("cmp/direction", pkg+".HeapKey.CompareTo", p.posStr(fd.Pos()), "earlier time compares smaller (min-heap by scheduled time)")
		} else {
			r.Fail("cmp/direction", pkg+".HeapKey.CompareTo", p.posStr(fd.Pos()), fmt.Sprintf("earlier must be -1 and later +1, found %v", got))
		}
	}
	checkGeneralHeap(r, c)
	if pr := c.Load("runtime"); pr != nil {
		checkHeapFieldDiscipline(r, pr, "heap/only-through-container-heap", "runtime/timed", "Queue", "heap")
	}
}

func stripConv(e ast.Expr) string {
	if cl, ok := ast.Unparen(e).(*ast.CallExpr); ok && len(cl.Args) == 1 {
		return exprKey(cl.Args[0])
	}
	return exprKey(e)
}

func checkTaskExecutor(r *Reporter, p *Prog) {
	const pkg = "runtime/timed"
	info := p.Pkg(pkg).TypesInfo
	fd := p.FuncDecl(pkg, "TaskExecutor", "ExecuteAt")
	key := pkg + ".TaskExecutor.ExecuteAt"
	if fd == nil {
		r.Unresolved("taskexec/reschedule-cancels", key, "method not found")
		return
	}
	// every task of a TaskExecutor is scheduled through the identifier bookkeeping: the embedded
	// executor's own scheduling methods are called from ExecuteAt only - a method that hands a task
	// to the embedded executor directly leaves the identifier's pending task alone and its own task
	// unknown to Cancel
	{
		var bypass []string
		for _, m := range p.Methods(pkg, "TaskExecutor") {
			if m.Body == nil || m == fd {
				continue
			}
			self := recvObj(info, m)
			ast.Inspect(m.Body, func(n ast.Node) bool {
				cl, ok := n.(*ast.CallExpr)
				if !ok {
					return true
				}
				se, ok := ast.Unparen(cl.Fun).(*ast.SelectorExpr)
				if !ok || (se.Sel.Name != "ExecuteAt" && se.Sel.Name != "ExecuteAfter") {
					return true
				}
				// t.Executor.ExecuteX(...) - the embedded field selected explicitly - or a call on anything that
				// is an Executor and not the TaskExecutor itself
				if inner, isSel := ast.Unparen(se.X).(*ast.SelectorExpr); isSel && inner.Sel.Name == "Executor" && objOfIdent(info, inner.X) == self {
					bypass = append(bypass, p.posStr(cl.Pos())+" in "+m.Name.Name)
				} else if t := strings.TrimPrefix(typeName(info.TypeOf(se.X)), "*"); strings.HasSuffix(t, "timed.Executor") {
					bypass = append(bypass, p.posStr(cl.Pos())+" in "+m.Name.Name)
				}
				return true
			})
		}
		if len(bypass) > 0 {
			r.Fail("taskexec/scheduled-through-bookkeeping", pkg+".TaskExecutor", p.posStr(fd.Pos()), "a task is handed to the embedded executor outside ExecuteAt ("+strings.Join(bypass, "; ")+"): the identifier's pending task is not replaced and the new task is not registered - two tasks per identifier, Cancel(id) hits the stale one")
		} else {
			r.Pass("taskexec/scheduled-through-bookkeeping", pkg+".TaskExecutor", p.posStr(fd.Pos()), "only ExecuteAt schedules on the embedded executor")
		}
	}
	// cancel-the-old, schedule-the-new and register-the-new are ONE step per identifier: one critical
	// section of the identifier mutex per operation (two overlapping re-schedules would otherwise both
	// pass the cancel step and leave two pending tasks, one of them unknown to Cancel)
	checkAtomicOperations(r, p, "atomic/one-section-per-operation", pkg, "TaskExecutor", "queuedElementsMutex")
	f := newFuncCFG(p, info, fd.Body, key)
	isCancel := func(n ast.Node) bool {
		cl, ok := n.(*ast.CallExpr)
		return ok && strings.HasSuffix(exprKey(cl.Fun), ".Cancel") && len(cl.Args) == 0
	}
	sched := f.Find(func(n ast.Node) bool {
		cl, ok := n.(*ast.CallExpr)
		return ok && strings.HasSuffix(exprKey(cl.Fun), ".Executor.ExecuteAt")
	})
	exists, _ := f.CondEdges(func(e ast.Expr) bool { return strings.HasSuffix(exprKey(e), "Exists") })
	if len(sched) != 1 || len(exists) == 0 {
		r.Fail("taskexec/reschedule-cancels", key, p.posStr(fd.Pos()), "expected a lookup of the identifier and one scheduling call")
	} else {
		bad := false
		// the lookup of the previous element comes first: a replacement that is enqueued before the old
		// task is cancelled competes with it for a bounded queue (the eviction drops the replacement)
		if w, found := f.PathFromEntryAvoiding(sched[0], func(n ast.Node) bool {
			cl, ok := n.(*ast.CallExpr)
			return ok && strings.HasSuffix(exprKey(cl.Fun), ".queuedElements.Get")
		}, nil); found {
			bad = true
			r.Fail("taskexec/reschedule-cancels", key, f.PosOf(sched[0]), "the new task is scheduled before the previous task of the identifier was looked up and cancelled: with a bounded queue the replacement can be evicted in favour of the task it replaces, which is then cancelled too", w...)
		}
		for _, e := range exists {
			if w, found := f.reach(Point{e.From.Succs[e.Succ], 0}, &searchOpts{AvoidNode: isCancel}, func(pt Point, atExit bool) bool { return !atExit && f.At(pt, sched[0]) }); found {
				bad = true
				r.Fail("taskexec/reschedule-cancels", key, f.PosOf(sched[0]), "a pending task for the identifier is not cancelled before the new one is scheduled: two tasks per identifier", w...)
			}
		}
		if !bad {
			r.Pass("taskexec/reschedule-cancels", key, f.PosOf(sched[0]), "the previous element is cancelled before the new task is scheduled")
		}
		// the new element is recorded under the identifier
		isSet := func(n ast.Node) bool {
			cl, ok := n.(*ast.CallExpr)
			return ok && strings.HasSuffix(exprKey(cl.Fun), ".queuedElements.Set") && len(cl.Args) == 2
		}
		// after the scheduling call, the exit is reachable without recording the task only through an
		// edge on which the task is known to be nil (the executor refused it)
		isNilEdges := f.RelEdgesAt(func(rel Rel) bool { return rel.Op == "==" && (rel.L == "nil" || rel.R == "nil") })
		nilSet := map[Edge]bool{}
		for _, e := range isNilEdges {
			nilSet[e] = true
		}
		okRec := len(f.Find(isSet)) > 0
		if _, found := f.reach(Point{sched[0].B, sched[0].I + 1}, &searchOpts{AvoidNode: isSet, AvoidEdge: func(e Edge) bool { return nilSet[e] }}, func(pt Point, atExit bool) bool { return atExit }); found {
			okRec = false
		}
		if okRec {
			r.Pass("taskexec/records-pending", key, f.PosOf(sched[0]), "an accepted task is recorded under its identifier")
		} else {
			r.Fail("taskexec/records-pending", key, f.PosOf(sched[0]), "an accepted (non-nil) task must be recorded in queuedElements")
		}
	}
	// R-IDENT: the wrapper's Delete(identifier) must be guarded by an identity comparison with its own task
	// the wrapper handed to the executor: a function literal, or a method value / named function
	var litBody *ast.BlockStmt
	var litPos token.Pos
	ast.Inspect(fd.Body, func(n ast.Node) bool {
		if cl, ok := n.(*ast.CallExpr); ok && strings.HasSuffix(exprKey(cl.Fun), ".Executor.ExecuteAt") && len(cl.Args) >= 1 {
			if b, pos := callableBody(p, info, cl.Args[0]); b != nil {
				litBody, litPos = b, pos
			}
		}
		return true
	})
	ikey := key + " wrapper"
	lit := struct {
		Body *ast.BlockStmt
		pos  token.Pos
	}{litBody, litPos}
	if litBody == nil {
		r.Fail("ident/unregister-own-entry", ikey, p.posStr(fd.Pos()), "no wrapper (function literal or method value) passed to the executor")
	} else {
		lf := newFuncCFG(p, info, lit.Body, ikey)
		dels := lf.Find(func(n ast.Node) bool {
			cl, ok := n.(*ast.CallExpr)
			return ok && strings.HasSuffix(exprKey(cl.Fun), ".queuedElements.Delete")
		})
		// identity edges: a comparison `x == y` where one side is a variable of the enclosing function
		// bound to the task returned by the scheduling call
		var own types.Object
		var ownField types.Object // the task is kept in a field of the wrapper's state instead of a captured variable
		ast.Inspect(fd.Body, func(n ast.Node) bool {
			if as, ok := n.(*ast.AssignStmt); ok && len(as.Rhs) == 1 && len(as.Lhs) == 1 {
				if cl, ok := ast.Unparen(as.Rhs[0]).(*ast.CallExpr); ok && strings.HasSuffix(exprKey(cl.Fun), ".Executor.ExecuteAt") {
					own = objOfIdent(info, as.Lhs[0])
					if se, isSel := ast.Unparen(as.Lhs[0]).(*ast.SelectorExpr); isSel {
						if sel := info.Selections[se]; sel != nil && sel.Kind() == types.FieldVal {
							if v, isVar := sel.Obj().(*types.Var); isVar {
								ownField = v.Origin()
							}
						}
					}
				}
			}
			return true
		})
		isOwnField := func(e ast.Expr) bool {
			se, isSel := ast.Unparen(e).(*ast.SelectorExpr)
			if !isSel || ownField == nil {
				return false
			}
			if sel := info.Selections[se]; sel != nil && sel.Kind() == types.FieldVal {
				if v, isVar := sel.Obj().(*types.Var); isVar && v.Origin() == ownField {
					// on the wrapper's own state: the receiver of the method that is the wrapper
					return true
				}
			}
			return false
		}
		// (operands resolved through helper parameters back to the captured variable)
		var same []Edge
		if own != nil || ownField != nil {
			lf.forEachEdgeFact(func(e Edge, b *cfg.Block, ft fact) {
				be, ok := ast.Unparen(ft.Atom).(*ast.BinaryExpr)
				if !ok || !((be.Op == token.EQL && ft.Pol) || (be.Op == token.NEQ && !ft.Pol)) {
					return
				}
				pt := Point{b, len(b.Nodes) - 1}
				// the captured handle itself, or `*p` with p a helper parameter that was handed `&handle`
				isOwn := func(x ast.Expr) bool {
					if lf.IsVar(x, pt, own) {
						return true
					}
					if st, isStar := ast.Unparen(x).(*ast.StarExpr); isStar {
						if re, _ := lf.Resolve(st.X, pt); re != nil {
							if u, isAddr := ast.Unparen(re).(*ast.UnaryExpr); isAddr && u.Op == token.AND && objOfIdent(info, u.X) == own {
								return true
							}
						}
					}
					return false
				}
				if own != nil && (isOwn(be.X) || isOwn(be.Y)) {
					same = append(same, e)
				} else if isOwnField(be.X) || isOwnField(be.Y) {
					same = append(same, e)
				}
			})
		}
		switch {
		case len(dels) == 0:
			r.Fail("ident/unregister-own-entry", ikey, p.posStr(lit.pos), "the wrapper never removes its identifier: finished tasks stay 'pending'")
		default:
			ok := true
			for _, d := range dels {
				if w, only := lf.OnlyThroughEdges(d, same); !only {
					ok = false
					r.Fail("ident/unregister-own-entry", ikey, lf.PosOf(d), "the finished task removes the map entry of its identifier without checking that the entry is still its own task: a task re-scheduled under the same identifier while this one ran loses its entry (Cancel reports false, a further re-schedule leaves two tasks pending)", w...)
				}
			}
			if ok {
				r.Pass("ident/unregister-own-entry", ikey, p.posStr(lit.pos), "the entry is removed only if it is still this task")
			}
		}
		// and the callback runs before the removal
		cb := lf.Find(func(n ast.Node) bool {
			cl, ok := n.(*ast.CallExpr)
			if !ok || len(cl.Args) != 0 {
				return false
			}
			// the user's callback: a call of a func() VALUE (captured parameter or field), not of a method
			sig, isSig := info.TypeOf(cl.Fun).Underlying().(*types.Signature)
			if !isSig || sig.Params().Len() != 0 || sig.Results().Len() != 0 {
				return false
			}
			switch x := ast.Unparen(cl.Fun).(type) {
			case *ast.Ident:
				_, isVar := info.Uses[x].(*types.Var)
				return isVar
			case *ast.SelectorExpr:
				sel := info.Selections[x]
				return sel != nil && sel.Kind() == types.FieldVal
			}
			return false
		})
		skips := false
		if len(cb) == 1 {
			cbNode := lf.nodeAt(cb[0])
			_, skips = lf.PathToExitAvoiding(Point{lf.G.Blocks[0], -1}, func(n ast.Node) bool { return n == cbNode || containsNode(cbNode, n) || containsNode(n, cbNode) })
		}
		if len(cb) != 1 || skips {
			r.Fail("taskexec/wrapper-runs-callback", ikey, p.posStr(lit.pos), "the wrapper must run the callback exactly once, on every path")
		} else {
			r.Pass("taskexec/wrapper-runs-callback", ikey, lf.PosOf(cb[0]), "callback invoked once")
		}
	}
	// Cancel returns true only when an entry was found
	if f := p.CFGOf(pkg, "TaskExecutor", "Cancel"); f == nil {
		r.Unresolved("taskexec/cancel-result", pkg+".TaskExecutor.Cancel", "method not found")
	} else {
		found, notFound := f.CondEdges(func(e ast.Expr) bool { return strings.HasSuffix(exprKey(e), "Exists") })
		ok := len(found) > 0
		for _, pt := range f.Find(func(n ast.Node) bool { _, isRet := n.(*ast.ReturnStmt); return isRet }) {
			rs := f.nodeAt(pt).(*ast.ReturnStmt)
			if len(rs.Results) != 1 {
				continue
			}
			switch exprKey(rs.Results[0]) {
			case "true":
				if _, only := f.OnlyThroughEdges(pt, found); !only {
					ok = false
				}
				// cancel + delete precede
				if _, miss := f.PathFromEntryAvoiding(pt, func(n ast.Node) bool {
					cl, isCall := n.(*ast.CallExpr)
					return isCall && strings.HasSuffix(exprKey(cl.Fun), ".Cancel") && len(cl.Args) == 0
				}, nil); miss {
					ok = false
				}
			case "false":
				if _, only := f.OnlyThroughEdges(pt, notFound); !only {
					ok = false
				}
			}
		}
		if ok {
			r.Pass("taskexec/cancel-result", pkg+".TaskExecutor.Cancel", f.P.posStr(f.Body.Pos()), "true only after cancelling a found entry, false only when none was found")
		} else {
			r.Fail("taskexec/cancel-result", pkg+".TaskExecutor.Cancel", f.P.posStr(f.Body.Pos()), "Cancel must return true exactly on the path that found and cancelled an entry")
		}
	}
}

// checkGeneralHeap: index maintenance and comparator of ds/generalheap (shared with C12).
func checkGeneralHeap(r *Reporter, c *Ctx) {
	p := c.Load("ds")
	if p == nil {
		return
	}
	const pkg = "ds/generalheap"
	pk := p.Pkg(pkg)
	if pk == nil {
		r.Unresolved("heap/index-maintained", pkg, "package not loaded")
		return
	}
	src := func(m string) string {
		fd := p.FuncDecl(pkg, "Heap", m)
		if fd == nil || fd.Body == nil {
			return ""
		}
		var parts []string
		for _, st := range fd.Body.List {
			switch x := st.(type) {
			case *ast.AssignStmt:
				var l, rr []string
				for _, e := range x.Lhs {
					l = append(l, exprKey(e))
				}
				for _, e := range x.Rhs {
					rr = append(rr, exprKey(e))
				}
				parts = append(parts, strings.Join(l, ",")+x.Tok.String()+strings.Join(rr, ","))
			case *ast.ReturnStmt:
				var rr []string
				for _, e := range x.Results {
					rr = append(rr, exprKey(e))
				}
				parts = append(parts, "return "+strings.Join(rr, ","))
			}
		}
		return strings.Join(parts, "; ")
	}
	has := func(s string, subs ...string) bool {
		for _, x := range subs {
			if !strings.Contains(s, x) {
				return false
			}
		}
		return true
	}
	rows := []struct {
		m    string
		ok   bool
		want string
	}{
		{"Less", has(src("Less"), "return (h[i].Key.CompareTo(h[j].Key)<0)"), "h[i].Key.CompareTo(h[j].Key) < 0"},
		{"Swap", has(src("Swap"), "h[i],h[j]=h[j],h[i]", "h[i].index,h[j].index=i,j"), "swap slots and set both indices to their new slots"},
		{"Push", has(src("Push"), "*h=append(*h,data)", "data.index=(len(*h)-1)"), "append and set index = len-1"},
		{"Pop", has(src("Pop"), "data:=*h[(n-1)]", "*h=*h[:(n-1)]", "data.index=-1", "return data"), "remove the last slot and set its index to -1"},
	}
	for _, rw := range rows {
		key := pkg + ".Heap." + rw.m
		if src(rw.m) == "" {
			r.Unresolved("heap/index-maintained", key, "method not found")
		} else if rw.ok {
			r.Pass("heap/index-maintained", key, "-", rw.want)
		} else {
			r.Fail("heap/index-maintained", key, "-", "expected: "+rw.want+"; found: "+src(rw.m))
		}
	}
}

// checkHeapFieldDiscipline: the backing slice of an indexed heap (elements carry their own index,
// removal handles rely on Pop/Remove setting it to -1) may only be changed through
// container/heap: the field is passed by address to heap.Push/Pop/Remove/Fix/Init and is
// otherwise only read (Len, len, element reads). A direct element store, a re-slice, or a
// sort of the slice bypasses the index bookkeeping: stale handles then remove unrelated
// elements or index out of range.
func checkHeapFieldDiscipline(r *Reporter, p *Prog, rule, pkg, typ, field string) {
	pk := p.Pkg(pkg)
	if pk == nil {
		r.Unresolved(rule, pkg+"."+typ+"."+field, "package not loaded")
		return
	}
	info := pk.TypesInfo
	nHeapCalls := 0
	var bad []string
	isField := func(e ast.Expr) bool { return fieldSel(info, e, field) }
	for _, fd := range p.Methods(pkg, typ) {
		if fd.Body == nil {
			continue
		}
		fkey := funcKey(pkg, fd)
		var stack []ast.Node
		ast.Inspect(fd.Body, func(n ast.Node) bool {
			if n == nil {
				stack = stack[:len(stack)-1]
				return true
			}
			stack = append(stack, n)
			switch x := n.(type) {
			case *ast.AssignStmt:
				for _, l := range x.Lhs {
					l = ast.Unparen(l)
					if ix, ok := l.(*ast.IndexExpr); ok && isField(ix.X) {
						bad = append(bad, fmt.Sprintf("%s: direct element store %s in %s", p.posStr(x.Pos()), exprKey(l), fkey))
					}
					if isField(l) {
						bad = append(bad, fmt.Sprintf("%s: the heap slice is re-assigned (%s = %s) in %s", p.posStr(x.Pos()), exprKey(l), exprKey(x.Rhs[0]), fkey))
					}
				}
			case *ast.CallExpr:
				callee := exprKey(x.Fun)
				for _, a := range x.Args {
					a = ast.Unparen(a)
					if ue, ok := a.(*ast.UnaryExpr); ok && ue.Op == token.AND && isField(ue.X) {
						if fn, ok := info.Uses[selIdent(x.Fun)].(*types.Func); ok && fn.Pkg() != nil && fn.Pkg().Path() == "container/heap" {
							nHeapCalls++
						} else {
							bad = append(bad, fmt.Sprintf("%s: the heap slice is handed by address to %s (not container/heap) in %s", p.posStr(x.Pos()), callee, fkey))
						}
					}
					if isField(a) && callee != "len" && callee != "cap" {
						bad = append(bad, fmt.Sprintf("%s: the heap slice is passed to %s in %s (sorting or copying it in place bypasses Pop's index reset)", p.posStr(x.Pos()), callee, fkey))
					}
				}
				if se, ok := ast.Unparen(x.Fun).(*ast.SelectorExpr); ok && isField(se.X) {
					switch se.Sel.Name {
					case "Len", "Less":
					default:
						bad = append(bad, fmt.Sprintf("%s: %s called directly on the heap slice in %s (only container/heap may drive Push/Pop/Swap)", p.posStr(x.Pos()), se.Sel.Name, fkey))
					}
				}
			}
			return true
		})
	}
	key := pkg + "." + typ + "." + field
	switch {
	case len(bad) > 0:
		r.Fail(rule, key, "-", bad[0], bad...)
	case nHeapCalls < 2:
		r.Fail(rule, key, "-", fmt.Sprintf("expected the heap to be driven through container/heap, found %d such calls (row vacuous)", nHeapCalls))
	default:
		r.Pass(rule, key, "-", fmt.Sprintf("%d container/heap calls on &%s; no direct store, re-slice, sort or Push/Pop/Swap call", nHeapCalls, field))
	}
}
