package main

// R-WGADD (DESIGN §2): WaitGroup.Add that accounts for a goroutine must run before the `go`
// statement, not inside the goroutine (a waiter may otherwise pass Wait before the goroutine
// has announced itself).

import (
	"fmt"
	"go/ast"
	"go/types"
	"strings"
)

func isWaitGroup(t types.Type) bool {
	tn := typeName(t)
	return tn == "sync.WaitGroup"
}

func lastName(e ast.Expr) string {
	switch x := ast.Unparen(e).(type) {
	case *ast.Ident:
		return x.Name
	case *ast.SelectorExpr:
		return x.Sel.Name
	case *ast.IndexExpr:
		return lastName(x.X)
	case *ast.StarExpr:
		return lastName(x.X)
	case *ast.UnaryExpr:
		return lastName(x.X)
	}
	return ""
}

// wgCalls returns names of WaitGroups on which method `m` is called inside n.
func wgCalls(info *types.Info, n ast.Node, m string) map[string]ast.Node {
	out := map[string]ast.Node{}
	ast.Inspect(n, func(c ast.Node) bool {
		ce, ok := c.(*ast.CallExpr)
		if !ok {
			return true
		}
		se, ok := ast.Unparen(ce.Fun).(*ast.SelectorExpr)
		if !ok || se.Sel.Name != m || !isWaitGroup(info.TypeOf(se.X)) {
			return true
		}
		out[lastName(se.X)] = ce
		return true
	})
	return out
}

// checkGoWaitGroup examines every go statement in the given function.
func checkGoWaitGroup(r *Reporter, p *Prog, rule, pkg string, fd *ast.FuncDecl, minGo int) {
	if fd == nil || fd.Body == nil {
		r.Unresolved(rule, pkg, "spawning function not found")
		return
	}
	info := p.Pkg(pkg).TypesInfo
	fkey := funcKey(pkg, fd)
	// go statements may sit inside function literals (e.g. closures run under a lock): analyse
	// each enclosing body separately
	type unit struct{ body *ast.BlockStmt }
	units := []unit{{fd.Body}}
	ast.Inspect(fd.Body, func(n ast.Node) bool {
		if lit, ok := n.(*ast.FuncLit); ok {
			units = append(units, unit{lit.Body})
		}
		return true
	})
	nGo := 0
	for _, u := range units {
		f := newFuncCFG(p, info, u.body, fkey)
		for _, pt := range f.Find(func(n ast.Node) bool { _, ok := n.(*ast.GoStmt); return ok }) {
			gs, ok := f.nodeAt(pt).(*ast.GoStmt)
			if !ok {
				continue
			}
			var body ast.Node
			name := "func literal"
			if lit, ok := gs.Call.Fun.(*ast.FuncLit); ok {
				body = lit.Body
			} else if callee := staticCallee(info, gs.Call); callee != nil {
				name = callee.Name()
				for _, cand := range p.AllFuncDecls(pkg) {
					if info.Defs[cand.Name] == types.Object(callee) {
						body = cand.Body
					}
				}
			}
			if body == nil {
				continue
			}
			dones := wgCalls(info, body, "Done")
			if len(dones) == 0 {
				// the Done may live in a stage helper of the goroutine's function (spliced in)
				if bb, isBlock := body.(*ast.BlockStmt); isBlock {
					gf := newFuncCFG(p, info, bb, fkey+"$goroutine")
					for _, b := range gf.G.Blocks {
						if !b.Live {
							continue
						}
						for _, nd := range b.Nodes {
							for k, v := range wgCalls(info, nd, "Done") {
								dones[k] = v
							}
						}
					}
				}
			}
			if len(dones) == 0 {
				continue
			}
			nGo++
			addsInside := wgCalls(info, body, "Add")
			for wg := range dones {
				key := fmt.Sprintf("go %s in %s / WaitGroup %s", name, fkey, wg)
				isAdd := func(n ast.Node) bool {
					ce, ok := n.(*ast.CallExpr)
					if !ok {
						return false
					}
					se, ok := ast.Unparen(ce.Fun).(*ast.SelectorExpr)
					return ok && se.Sel.Name == "Add" && isWaitGroup(info.TypeOf(se.X)) && lastName(se.X) == wg
				}
				if w, found := f.PathFromEntryAvoiding(pt, isAdd, nil); found {
					detail := "the goroutine is started on a path that has not called " + wg + ".Add: a concurrent Wait can return before the goroutine is accounted for"
					if _, inside := addsInside[wg]; inside {
						detail = wg + ".Add is called inside the started goroutine instead of before the go statement: a Wait that runs first returns immediately"
					}
					r.Fail(rule, key, f.PosOf(pt), detail, w...)
				} else {
					r.Pass(rule, key, f.PosOf(pt), wg+".Add precedes the go statement on every path")
				}
			}
		}
	}
	if nGo < minGo {
		r.Fail(rule, "go statements in "+fkey, p.posStr(fd.Pos()), fmt.Sprintf("expected %d go statement(s) whose goroutine signals a WaitGroup, found %d (row vacuous)", minGo, nGo))
	}
}

// checkDoneOnAllExits: every normal exit of the goroutine body passes wg.Done() (direct or deferred).
func checkDoneOnAllExits(r *Reporter, p *Prog, rule, pkg string, fd *ast.FuncDecl, wg string) {
	if fd == nil || fd.Body == nil {
		r.Unresolved(rule, pkg+" "+wg, "goroutine function not found")
		return
	}
	info := p.Pkg(pkg).TypesInfo
	fkey := funcKey(pkg, fd)
	f := newFuncCFG(p, info, fd.Body, fkey)
	isDone := func(n ast.Node) bool {
		ce, ok := n.(*ast.CallExpr)
		if !ok {
			return false
		}
		se, ok := ast.Unparen(ce.Fun).(*ast.SelectorExpr)
		return ok && se.Sel.Name == "Done" && isWaitGroup(info.TypeOf(se.X)) && strings.HasSuffix(lastName(se.X), wg)
	}
	if w, found := f.reach(f.entry(), &searchOpts{AvoidNode: isDone}, func(pt Point, atExit bool) bool { return atExit }); found {
		r.Fail(rule, wg+".Done in "+fkey, p.posStr(fd.Pos()), "the goroutine can return without calling "+wg+".Done: the waiter blocks forever", w...)
	} else {
		r.Pass(rule, wg+".Done in "+fkey, p.posStr(fd.Pos()), "Done is called (or deferred) on every path to a normal exit")
	}
}
