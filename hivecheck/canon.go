package main

// Canonical expression keys. Rules compare expressions through exprKey; to keep a rule from
// depending on how a maintainer spells an expression, two behaviour-neutral spellings are
// normalised away before any rule runs (node-keyed, computed once per loaded program):
//
//   M1  a local variable that is assigned exactly once from a PURE expression (identifiers,
//       field selections, literals, operators, len/cap, conversions) whose operands are not
//       assigned anywhere in the same function is replaced by that expression
//       (isOptional := sField.settings.isOptional; if isOptional ... == if sField.settings.isOptional ...);
//   M2  a call of an UNEXPORTED function or method of the analysed packages whose body is a single
//       `return <expression>` (pure receiver and arguments at the call) is replaced by that expression
//       with receiver and parameters substituted (d.bytesLeft() == len(d.src[d.offset:])).
//
// Both substitutions are only applied when they cannot change the value (single assignment, no
// writes to any operand in the function); otherwise the spelling is left alone.

import (
	"go/ast"
	"go/token"
	"go/types"
	"golang.org/x/tools/go/ast/astutil"
	"strings"

	"golang.org/x/tools/go/packages"
)

var keySubst = map[ast.Node]string{}

// synthField: selectors written by the accessor inliner for an implicit embedded-field hop (they have
// no types.Selection, which cannot be constructed): the field they select.
var synthField = map[*ast.SelectorExpr]*types.Var{}

// singleDef: local variables with exactly one definition in their function (whatever its
// right-hand side) -> that expression. Used to look through variables captured by closures.
var singleDef = map[types.Object]ast.Expr{}

// astSubst: for boolean-valued substitutions whose defining expression lives in the same naming
// context (a temporary of the same function; a parameterless helper whose receiver has the same
// name as the receiver expression at the call site) the expression itself, so that branch
// conditions can be decomposed into their conjuncts/disjuncts through the helper.
var astSubst = map[ast.Node]ast.Expr{}

// caseTagOf: case expression of a tagged switch -> the switch tag. go/cfg represents
// `switch t { case A: ... }` as a branch on the bare expression A; the fact carried by its edges
// is t == A (true edge) / t != A (false edge), the same as for `if t == A`.
var caseTagOf = map[ast.Expr]ast.Expr{}

func buildCaseTags(p *Prog) {
	for _, pk := range p.Pkgs {
		if !strings.HasPrefix(pk.PkgPath, hivePrefix) {
			continue
		}
		for _, f := range pk.Syntax {
			ast.Inspect(f, func(n ast.Node) bool {
				if sw, ok := n.(*ast.SwitchStmt); ok && sw.Tag != nil && sw.Body != nil {
					for _, st := range sw.Body.List {
						if cc, ok := st.(*ast.CaseClause); ok {
							for _, e := range cc.List {
								caseTagOf[e] = sw.Tag
							}
						}
					}
				}
				return true
			})
		}
	}
}

func buildKeySubst(p *Prog) {
	declOf := map[*types.Func]*ast.FuncDecl{}
	var pkgs []*packages.Package
	for _, pk := range p.Pkgs {
		if !strings.HasPrefix(pk.PkgPath, hivePrefix) || pk.TypesInfo == nil {
			continue
		}
		pkgs = append(pkgs, pk)
		for _, f := range pk.Syntax {
			for _, d := range f.Decls {
				if fd, ok := d.(*ast.FuncDecl); ok && fd.Body != nil {
					if fn, ok := pk.TypesInfo.Defs[fd.Name].(*types.Func); ok {
						declOf[fn] = fd
					}
				}
			}
		}
	}
	inlineAccessors(p, pkgs, declOf)
	desugarShortCircuitReturns(p, pkgs)
	buildCaseTags(p)
	for _, pk := range pkgs {
		info := pk.TypesInfo
		for _, f := range pk.Syntax {
			if strings.HasSuffix(p.Fset.Position(f.Pos()).Filename, "_test.go") {
				continue
			}
			for _, d := range f.Decls {
				fd, ok := d.(*ast.FuncDecl)
				if !ok || fd.Body == nil {
					continue
				}
				substTemporaries(info, fd)
			}
		}
	}
	// M2 after M1 so that accessor bodies are already canonical
	for _, pk := range pkgs {
		info := pk.TypesInfo
		for _, f := range pk.Syntax {
			if strings.HasSuffix(p.Fset.Position(f.Pos()).Filename, "_test.go") {
				continue
			}
			ast.Inspect(f, func(n ast.Node) bool {
				cl, ok := n.(*ast.CallExpr)
				if !ok {
					return true
				}
				fn := staticCallee(info, cl)
				if fn == nil {
					return true
				}
				fd := declOf[fn.Origin()]
				if fd == nil || len(fd.Body.List) != 1 || fd.Name.IsExported() {
					return true // exported accessors are API: their names are the stable spelling
				}
				rs, ok := fd.Body.List[0].(*ast.ReturnStmt)
				if !ok || len(rs.Results) != 1 {
					return true
				}
				calleeInfo := infoOfDecl(p, fd)
				// the returned expression need not be pure: replacing the call by it at the call site is
				// exact inlining (it is evaluated once, at the same point) as long as the receiver and the
				// arguments are pure, which is required below; function literals are not carried over
				hasLit := false
				ast.Inspect(rs.Results[0], func(m ast.Node) bool {
					if _, isLit := m.(*ast.FuncLit); isLit {
						hasLit = true
					}
					return !hasLit
				})
				if calleeInfo == nil || hasLit {
					return true
				}
				// receiver and parameter substitution (arguments must be pure as well)
				env := map[types.Object]string{}
				okArgs := true
				if fd.Recv != nil && len(fd.Recv.List) == 1 && len(fd.Recv.List[0].Names) == 1 {
					se, isSel := ast.Unparen(cl.Fun).(*ast.SelectorExpr)
					if !isSel || !pureExpr(info, se.X) {
						return true
					}
					env[calleeInfo.Defs[fd.Recv.List[0].Names[0]]] = exprKey(se.X)
				}
				i := 0
				for _, fl := range fd.Type.Params.List {
					for _, nm := range fl.Names {
						if i >= len(cl.Args) || !pureExpr(info, cl.Args[i]) {
							okArgs = false
						} else {
							env[calleeInfo.Defs[nm]] = exprKey(cl.Args[i])
						}
						i++
					}
				}
				if !okArgs || i != len(cl.Args) {
					return true
				}
				k := exprKeyEnv(rs.Results[0], calleeInfo, env)
				if !strings.Contains(k, "?") {
					keySubst[cl] = k
					// the expression itself, with the receiver and the parameters replaced by the
					// receiver expression and the arguments of this call (a typed clone), so that
					// branch conditions can be decomposed through the helper
					envAST := map[types.Object]ast.Expr{}
					if fd.Recv != nil && len(fd.Recv.List) == 1 && len(fd.Recv.List[0].Names) == 1 {
						if se, isSel := ast.Unparen(cl.Fun).(*ast.SelectorExpr); isSel {
							envAST[calleeInfo.Defs[fd.Recv.List[0].Names[0]]] = se.X
						}
					}
					j := 0
					for _, fl := range fd.Type.Params.List {
						for _, nm := range fl.Names {
							if j < len(cl.Args) {
								envAST[calleeInfo.Defs[nm]] = cl.Args[j]
							}
							j++
						}
					}
					if calleeInfo == info {
						if c := cloneWithSubst(info, rs.Results[0], envAST); c != nil {
							astSubst[cl] = c
						}
					}
				}
				return true
			})
		}
	}
	straightLineHelperKeys(p, pkgs, declOf)
}

func infoOfDecl(p *Prog, fd *ast.FuncDecl) *types.Info {
	for _, pk := range p.Pkgs {
		if pk.TypesInfo != nil {
			if _, ok := pk.TypesInfo.Defs[fd.Name]; ok {
				return pk.TypesInfo
			}
		}
	}
	return nil
}

// pureExpr: evaluation has no side effects and depends only on variables and fields.
func pureExpr(info *types.Info, e ast.Expr) bool {
	switch x := ast.Unparen(e).(type) {
	case *ast.Ident:
		switch info.Uses[x].(type) {
		case *types.Var, *types.Const, *types.Nil:
			return true
		}
		return x.Name == "true" || x.Name == "false" || x.Name == "nil"
	case *ast.BasicLit:
		return true
	case *ast.SelectorExpr:
		if sel := info.Selections[x]; sel != nil {
			return sel.Kind() == types.FieldVal && pureExpr(info, x.X)
		}
		// package-qualified constant or variable
		switch info.Uses[x.Sel].(type) {
		case *types.Const, *types.Var:
			return true
		}
		return false
	case *ast.UnaryExpr:
		if x.Op == token.AND || x.Op == token.ARROW {
			return false
		}
		return pureExpr(info, x.X)
	case *ast.BinaryExpr:
		return pureExpr(info, x.X) && pureExpr(info, x.Y)
	case *ast.StarExpr:
		return pureExpr(info, x.X)
	case *ast.IndexExpr:
		return pureExpr(info, x.X) && pureExpr(info, x.Index)
	case *ast.SliceExpr:
		for _, s := range []ast.Expr{x.X, x.Low, x.High, x.Max} {
			if s != nil && !pureExpr(info, s) {
				return false
			}
		}
		return true
	case *ast.CallExpr:
		if id, ok := ast.Unparen(x.Fun).(*ast.Ident); ok && len(x.Args) == 1 {
			if b, isB := info.Uses[id].(*types.Builtin); isB && (b.Name() == "len" || b.Name() == "cap") {
				return pureExpr(info, x.Args[0])
			}
		}
		if tv, ok := info.Types[x.Fun]; ok && tv.IsType() && len(x.Args) == 1 {
			return pureExpr(info, x.Args[0]) // conversion
		}
		return false
	}
	return false
}

// substTemporaries registers M1 substitutions for one function declaration.
func substTemporaries(info *types.Info, fd *ast.FuncDecl) {
	type defInfo struct {
		n        int
		rhs      ast.Expr
		bad      bool
		pos      token.Pos // position of the defining statement
		scopeEnd token.Pos // end of the innermost block that contains it
	}
	type assignSite struct {
		pos   token.Pos
		inLit bool
	}
	defs := map[types.Object]*defInfo{}
	get := func(o types.Object) *defInfo {
		d := defs[o]
		if d == nil {
			d = &defInfo{}
			defs[o] = d
		}
		return d
	}
	assigned := map[string][]assignSite{} // exprKeys of every assigned lvalue (before substitution)
	var stack []ast.Node
	inLit := func() bool {
		for _, a := range stack {
			if _, ok := a.(*ast.FuncLit); ok {
				return true
			}
		}
		return false
	}
	scopeEnd := func() token.Pos {
		// a variable declared in the init clause of if/switch/for is scoped to that statement
		if len(stack) >= 2 {
			self := stack[len(stack)-1]
			switch par := stack[len(stack)-2].(type) {
			case *ast.IfStmt:
				if par.Init == self {
					return par.End()
				}
			case *ast.SwitchStmt:
				if par.Init == self {
					return par.End()
				}
			case *ast.TypeSwitchStmt:
				if par.Init == self {
					return par.End()
				}
			case *ast.ForStmt:
				if par.Init == self {
					return par.End()
				}
			}
		}
		for i := len(stack) - 1; i >= 0; i-- {
			switch b := stack[i].(type) {
			case *ast.BlockStmt:
				return b.End()
			case *ast.CaseClause:
				return b.End()
			case *ast.CommClause:
				return b.End()
			}
		}
		return fd.Body.End()
	}
	markAssigned := func(e ast.Expr) {
		k := rawKey(e)
		assigned[k] = append(assigned[k], assignSite{e.Pos(), inLit()})
	}
	ast.Inspect(fd.Body, func(n ast.Node) bool {
		if n == nil {
			stack = stack[:len(stack)-1]
			return true
		}
		stack = append(stack, n)
		switch x := n.(type) {
		case *ast.AssignStmt:
			for i, l := range x.Lhs {
				markAssigned(l)
				id, ok := ast.Unparen(l).(*ast.Ident)
				if !ok {
					continue
				}
				o := info.Defs[id]
				if o == nil {
					o = info.Uses[id]
				}
				if o == nil {
					continue
				}
				d := get(o)
				d.n++
				if x.Tok == token.DEFINE && len(x.Lhs) == len(x.Rhs) && info.Defs[id] != nil {
					d.rhs = x.Rhs[i]
					d.pos, d.scopeEnd = x.Pos(), scopeEnd()
				} else {
					d.bad = true
				}
			}
		case *ast.ValueSpec:
			for i, nm := range x.Names {
				if o := info.Defs[nm]; o != nil {
					d := get(o)
					d.n++
					if len(x.Values) == len(x.Names) {
						d.rhs = x.Values[i]
						d.pos, d.scopeEnd = x.Pos(), scopeEnd()
					} else {
						d.bad = true
					}
				}
			}
		case *ast.IncDecStmt:
			markAssigned(x.X)
			if o := objOfIdentRaw(info, x.X); o != nil {
				get(o).bad = true
			}
		case *ast.UnaryExpr:
			if x.Op == token.AND {
				if o := objOfIdentRaw(info, x.X); o != nil {
					get(o).bad = true
				}
			}
		case *ast.RangeStmt:
			for _, e := range []ast.Expr{x.Key, x.Value} {
				if e != nil {
					markAssigned(e)
					if o := objOfIdentRaw(info, e); o != nil {
						get(o).bad = true
					}
				}
			}
		}
		return true
	})
	// An assignment to an operand can only fall between the definition and a use (uses are
	// lexically inside the defining block, after the definition) if it lies in that block after
	// the definition, or in a function literal (which may run at any time). An assignment before
	// the definition, in a loop header of an enclosing loop or after the defining block can reach
	// a use only by executing the definition again.
	stable := func(d *defInfo) bool {
		ok := true
		ast.Inspect(d.rhs, func(n ast.Node) bool {
			e, isExpr := n.(ast.Expr)
			if !isExpr {
				return true
			}
			switch e.(type) {
			case *ast.Ident, *ast.SelectorExpr, *ast.IndexExpr, *ast.StarExpr, *ast.SliceExpr:
				k := stripIndex(rawKey(e))
				for a, sites := range assigned {
					a = stripIndex(a) // an element store changes the collection the operand reads from
					if a == k || strings.HasPrefix(k, a+".") || strings.HasPrefix(k, a+"[") {
						for _, st := range sites {
							if st.inLit || (st.pos > d.pos && st.pos < d.scopeEnd) {
								ok = false
							}
						}
					}
				}
			}
			return ok
		})
		return ok
	}
	subst := map[types.Object]ast.Expr{}
	for o, d := range defs {
		if _, isVar := o.(*types.Var); isVar && !d.bad && d.n == 1 && d.rhs != nil {
			singleDef[o] = d.rhs
		}
	}
	for o, d := range defs {
		v, isVar := o.(*types.Var)
		if !isVar || d.bad || d.n != 1 || d.rhs == nil || v.Name() == "_" || v.Name() == "err" || v.Name() == "ok" {
			continue
		}
		if !pureExpr(info, d.rhs) || !stable(d) {
			continue
		}
		// an identifier standing for another identifier is a plain alias; anything else must
		// be a real expression (skip huge literals)
		subst[o] = d.rhs
	}
	if len(subst) == 0 {
		return
	}
	ast.Inspect(fd.Body, func(n ast.Node) bool {
		id, ok := n.(*ast.Ident)
		if !ok {
			return true
		}
		if rhs, ok := subst[info.Uses[id]]; ok {
			k := exprKey(rhs)
			if !strings.Contains(k, "?") {
				keySubst[id] = k
				astSubst[id] = rhs
			}
		}
		return true
	})
}

func objOfIdentRaw(info *types.Info, e ast.Expr) types.Object {
	id, ok := ast.Unparen(e).(*ast.Ident)
	if !ok {
		return nil
	}
	if o := info.Uses[id]; o != nil {
		return o
	}
	return info.Defs[id]
}

// rawKey is exprKey without any substitution (used while the substitution table is built).
func rawKey(e ast.Expr) string {
	saved := keySubst
	keySubst = nil
	k := exprKey(e)
	keySubst = saved
	return k
}

// exprKeyEnv renders e with the given objects replaced by fixed strings (parameter substitution).
func exprKeyEnv(e ast.Expr, info *types.Info, env map[types.Object]string) string {
	var tmp []ast.Node
	ast.Inspect(e, func(n ast.Node) bool {
		if id, ok := n.(*ast.Ident); ok {
			if s, ok := env[info.Uses[id]]; ok {
				if _, exists := keySubst[id]; !exists {
					keySubst[id] = s
					tmp = append(tmp, id)
				}
			}
		}
		return true
	})
	k := exprKey(e)
	for _, n := range tmp {
		delete(keySubst, n)
	}
	return k
}

// stripIndex drops trailing index/slice suffixes: r.keys[i] -> r.keys
func stripIndex(k string) string {
	for strings.HasSuffix(k, "]") {
		depth := 0
		cut := -1
		for i := len(k) - 1; i >= 0; i-- {
			if k[i] == ']' {
				depth++
			} else if k[i] == '[' {
				depth--
				if depth == 0 {
					cut = i
					break
				}
			}
		}
		if cut < 0 {
			break
		}
		k = k[:cut]
	}
	return k
}

// cloneWithSubst deep-copies an expression, replacing identifiers that denote the given objects by
// the given expressions (which are shared, not copied). The clone's nodes get the type, selection
// and use entries of the nodes they were copied from, so that typed helpers (fieldSel, TypeOf)
// work on them. Returns nil for expression forms it does not copy.
func cloneWithSubst(info *types.Info, e ast.Expr, env map[types.Object]ast.Expr) ast.Expr {
	var rec func(e ast.Expr) ast.Expr
	ok := true
	note := func(orig, c ast.Expr) ast.Expr {
		if tv, has := info.Types[orig]; has {
			info.Types[c] = tv
		}
		return c
	}
	rec = func(e ast.Expr) ast.Expr {
		if e == nil || !ok {
			return nil
		}
		switch x := e.(type) {
		case *ast.Ident:
			if o := info.Uses[x]; o != nil {
				if r, has := env[o]; has {
					return r
				}
			}
			return x
		case *ast.BasicLit:
			return x
		case *ast.ParenExpr:
			return note(x, &ast.ParenExpr{Lparen: x.Lparen, X: rec(x.X), Rparen: x.Rparen})
		case *ast.SelectorExpr:
			c := &ast.SelectorExpr{X: rec(x.X), Sel: x.Sel}
			if sel, has := info.Selections[x]; has {
				info.Selections[c] = sel
			}
			return note(x, c)
		case *ast.StarExpr:
			return note(x, &ast.StarExpr{Star: x.Star, X: rec(x.X)})
		case *ast.UnaryExpr:
			return note(x, &ast.UnaryExpr{OpPos: x.OpPos, Op: x.Op, X: rec(x.X)})
		case *ast.BinaryExpr:
			return note(x, &ast.BinaryExpr{X: rec(x.X), OpPos: x.OpPos, Op: x.Op, Y: rec(x.Y)})
		case *ast.IndexExpr:
			return note(x, &ast.IndexExpr{X: rec(x.X), Lbrack: x.Lbrack, Index: rec(x.Index), Rbrack: x.Rbrack})
		case *ast.SliceExpr:
			return note(x, &ast.SliceExpr{X: rec(x.X), Lbrack: x.Lbrack, Low: rec(x.Low), High: rec(x.High), Max: rec(x.Max), Slice3: x.Slice3, Rbrack: x.Rbrack})
		case *ast.CallExpr:
			c := &ast.CallExpr{Fun: rec(x.Fun), Lparen: x.Lparen, Ellipsis: x.Ellipsis, Rparen: x.Rparen}
			for _, a := range x.Args {
				c.Args = append(c.Args, rec(a))
			}
			if ks, has := keySubst[x]; has {
				_ = ks // a nested helper call keeps its own substitution only if nothing in it was renamed
			}
			return note(x, c)
		case *ast.TypeAssertExpr:
			return note(x, &ast.TypeAssertExpr{X: rec(x.X), Lparen: x.Lparen, Type: x.Type, Rparen: x.Rparen})
		case *ast.ArrayType, *ast.MapType, *ast.FuncType, *ast.InterfaceType, *ast.StructType, *ast.ChanType, *ast.IndexListExpr:
			return x
		}
		ok = false
		return nil
	}
	c := rec(e)
	if !ok {
		return nil
	}
	return c
}

// inlinedAway: unexported single-expression helpers every use of which was inlined by
// inlineAccessors. They are dead code in the analysed program: the iteration helpers
// (Methods, AllFuncDecls) skip them, so that an obligation about what such a helper does is judged
// where it is used - e.g. an accessor `peek(n) = d.src[d.offset:d.offset+n]` is bounds-checked at
// each call, under the guard that dominates that call, not on its own.
var inlinedAway = map[*ast.FuncDecl]bool{}

// noInlinePkgs: packages whose helper calls are left as written, one reason each.
var noInlinePkgs = map[string]string{
	hivePrefix + "runtime/event": "generated code: every member of the Trigger family is compared with the template, which spells the helper calls",
}

// inlineAccessors rewrites the loaded syntax trees (in memory only): a call - not a statement of
// its own, not started with go/defer - of an UNEXPORTED function or method of the same package
// whose body is a single `return <expression>` is replaced by that expression with the receiver
// and the parameters replaced by the receiver expression and the arguments, which must be pure.
// This is exact inlining: the expression is evaluated once, at the point of the call. Repeated to
// a fixpoint (helpers that use helpers). All AST- and CFG-based rules thereby see the same program
// whether a predicate, accessor or key construction is written inline or behind such a helper.
func inlineAccessors(p *Prog, pkgs []*packages.Package, declOf map[*types.Func]*ast.FuncDecl) {
	candidates := map[*ast.FuncDecl]*types.Func{}
	for pass := 0; pass < 5; pass++ {
		changed := false
		for _, pk := range pkgs {
			if _, skip := noInlinePkgs[pk.PkgPath]; skip {
				continue
			}
			info := pk.TypesInfo
			for _, f := range pk.Syntax {
				if strings.HasSuffix(p.Fset.Position(f.Pos()).Filename, "_test.go") {
					continue
				}
				astutil.Apply(f, func(c *astutil.Cursor) bool {
					cl, ok := c.Node().(*ast.CallExpr)
					if !ok {
						return true
					}
					switch c.Parent().(type) {
					case *ast.ExprStmt, *ast.GoStmt, *ast.DeferStmt:
						return true
					}
					fn := staticCallee(info, cl)
					if fn == nil {
						return true
					}
					fd := declOf[fn.Origin()]
					if fd == nil || fd.Name.IsExported() || len(fd.Body.List) != 1 {
						return true
					}
					if _, isDef := info.Defs[fd.Name]; !isDef {
						return true // another package
					}
					if fd.Pos() <= cl.Pos() && cl.End() <= fd.End() {
						return true // recursion
					}
					rs, ok := fd.Body.List[0].(*ast.ReturnStmt)
					if !ok || len(rs.Results) != 1 {
						return true
					}
					hasLit := false
					ast.Inspect(rs.Results[0], func(m ast.Node) bool {
						if _, isLit := m.(*ast.FuncLit); isLit {
							hasLit = true
						}
						return !hasLit
					})
					if hasLit {
						return true
					}
					env := map[types.Object]ast.Expr{}
					if fd.Recv != nil && len(fd.Recv.List) == 1 {
						se, isSel := ast.Unparen(cl.Fun).(*ast.SelectorExpr)
						if !isSel || !pureExpr(info, se.X) {
							return true
						}
						if len(fd.Recv.List[0].Names) == 1 {
							// a method promoted through embedded fields (`s.m()` for `s.inner.m()`): its receiver is
							// s.inner, spelled out so that field and lock paths in the inlined body stay exact
							recvX := se.X
							if sel := info.Selections[se]; sel != nil && len(sel.Index()) > 1 {
								t := sel.Recv()
								for h := 0; h < len(sel.Index())-1; h++ {
									st := structOf(t)
									if st == nil {
										return true
									}
									fld := st.Field(sel.Index()[h])
									syn := &ast.SelectorExpr{X: recvX, Sel: ast.NewIdent(fld.Name())}
									synthField[syn] = fld
									info.Types[syn] = types.TypeAndValue{Type: fld.Type()}
									recvX = syn
									t = fld.Type()
								}
							}
							env[info.Defs[fd.Recv.List[0].Names[0]]] = recvX
						}
					}
					i := 0
					for _, fl := range fd.Type.Params.List {
						if len(fl.Names) == 0 {
							i++
							continue
						}
						for _, nm := range fl.Names {
							if i >= len(cl.Args) || !pureExpr(info, cl.Args[i]) {
								return true
							}
							env[info.Defs[nm]] = cl.Args[i]
							i++
						}
					}
					if i != len(cl.Args) || cl.Ellipsis.IsValid() {
						return true
					}
					clone := cloneWithSubst(info, rs.Results[0], env)
					if clone == nil {
						return true
					}
					par := &ast.ParenExpr{Lparen: cl.Pos(), X: clone, Rparen: cl.End()}
					if tv, has := info.Types[cl]; has {
						info.Types[par] = tv
					}
					c.Replace(par)
					candidates[fd] = fn.Origin()
					changed = true
					return true
				}, nil)
			}
		}
		if !changed {
			break
		}
	}
	if len(candidates) == 0 {
		return
	}
	used := map[*types.Func]bool{}
	for _, pk := range pkgs {
		info := pk.TypesInfo
		for _, f := range pk.Syntax {
			ast.Inspect(f, func(n ast.Node) bool {
				if id, ok := n.(*ast.Ident); ok {
					if fn, _ := info.Uses[id].(*types.Func); fn != nil {
						used[fn.Origin()] = true
					}
				}
				return true
			})
		}
	}
	for fd, fn := range candidates {
		if !used[fn] {
			inlinedAway[fd] = true
		}
	}
}

// desugarShortCircuitReturns rewrites (in memory) `return v && X` into `if !v { return false };
// return X` and `return v || X` into `if v { return true }; return X` when v is a plain boolean
// variable and the return has that single result. go/cfg does not split short-circuit operators;
// with the branch made explicit the result correlation of spliced helpers (`k, ok := helper();
// return ok && next(k)`) separates the paths on which the helper failed from the others.
func desugarShortCircuitReturns(p *Prog, pkgs []*packages.Package) {
	for _, pk := range pkgs {
		if _, skip := noInlinePkgs[pk.PkgPath]; skip {
			continue
		}
		info := pk.TypesInfo
		for _, f := range pk.Syntax {
			if strings.HasSuffix(p.Fset.Position(f.Pos()).Filename, "_test.go") {
				continue
			}
			astutil.Apply(f, func(c *astutil.Cursor) bool {
				rs, ok := c.Node().(*ast.ReturnStmt)
				if !ok || len(rs.Results) != 1 || c.Index() < 0 {
					return true
				}
				be, ok := ast.Unparen(rs.Results[0]).(*ast.BinaryExpr)
				if !ok || (be.Op != token.LAND && be.Op != token.LOR) {
					return true
				}
				id, ok := ast.Unparen(be.X).(*ast.Ident)
				if !ok {
					return true
				}
				v, _ := info.Uses[id].(*types.Var)
				if v == nil {
					return true
				}
				if bt, isB := v.Type().Underlying().(*types.Basic); !isB || bt.Info()&types.IsBoolean == 0 {
					return true
				}
				lit := "false"
				var cond ast.Expr = &ast.UnaryExpr{OpPos: be.Pos(), Op: token.NOT, X: id}
				if be.Op == token.LOR {
					lit, cond = "true", id
				}
				if tv, has := info.Types[id]; has {
					info.Types[cond] = tv
				}
				litId := &ast.Ident{NamePos: rs.Pos(), Name: lit}
				info.Uses[litId] = types.Universe.Lookup(lit)
				if tv, has := info.Types[id]; has {
					info.Types[litId] = types.TypeAndValue{Type: tv.Type}
				}
				early := &ast.IfStmt{If: rs.Pos(), Cond: cond, Body: &ast.BlockStmt{Lbrace: rs.Pos(), List: []ast.Stmt{&ast.ReturnStmt{Return: rs.Pos(), Results: []ast.Expr{litId}}}, Rbrace: rs.Pos()}}
				c.InsertBefore(early)
				c.Replace(&ast.ReturnStmt{Return: rs.Return, Results: []ast.Expr{be.Y}})
				return true
			}, nil)
		}
	}
}

// straightLineHelperKeys (M3): a call, inside an expression, of an unexported helper of the same
// package whose body is straight-line assignments followed by `return v` gets as its canonical key
// the key of the expression v stands for at that return (followed through the helper's own
// definitions), with the receiver and the parameters replaced by the receiver expression and the
// arguments - e.g. `d.consumers(id)` with `count, _ = d.counter.Get(id); return count` is keyed as
// `d.counter.Get(id)`. Key level only (the syntax tree is left alone); arguments must be pure.
func straightLineHelperKeys(p *Prog, pkgs []*packages.Package, declOf map[*types.Func]*ast.FuncDecl) {
	type summary struct {
		expr ast.Expr
		ok   bool
	}
	sums := map[*ast.FuncDecl]summary{}
	summarise := func(info *types.Info, fd *ast.FuncDecl) summary {
		if sm, done := sums[fd]; done {
			return sm
		}
		sums[fd] = summary{}
		n := len(fd.Body.List)
		if n < 2 || n > 6 {
			return summary{}
		}
		for _, st := range fd.Body.List[:n-1] {
			if _, isAs := st.(*ast.AssignStmt); !isAs {
				return summary{}
			}
		}
		rs, isRet := fd.Body.List[n-1].(*ast.ReturnStmt)
		if !isRet || len(rs.Results) != 1 {
			return summary{}
		}
		if _, isId := ast.Unparen(rs.Results[0]).(*ast.Ident); !isId {
			return summary{}
		}
		hf := newFuncCFGPlain(p, info, fd.Body, fd.Name.Name)
		pts := hf.Find(func(m ast.Node) bool { return m == ast.Node(rs) })
		if len(pts) != 1 {
			return summary{}
		}
		re, _ := hf.ResolveToCall(rs.Results[0], pts[0])
		if re == nil || re == rs.Results[0] {
			return summary{}
		}
		sm := summary{re, true}
		sums[fd] = sm
		return sm
	}
	for _, pk := range pkgs {
		if _, skip := noInlinePkgs[pk.PkgPath]; skip {
			continue
		}
		info := pk.TypesInfo
		for _, f := range pk.Syntax {
			if strings.HasSuffix(p.Fset.Position(f.Pos()).Filename, "_test.go") {
				continue
			}
			ast.Inspect(f, func(n ast.Node) bool {
				cl, ok := n.(*ast.CallExpr)
				if !ok {
					return true
				}
				if _, has := keySubst[cl]; has {
					return true
				}
				fn := staticCallee(info, cl)
				if fn == nil {
					return true
				}
				fd := declOf[fn.Origin()]
				if fd == nil || fd.Name.IsExported() || fd.Body == nil {
					return true
				}
				if _, same := info.Defs[fd.Name]; !same {
					return true
				}
				sm := summarise(info, fd)
				if !sm.ok {
					return true
				}
				env := map[types.Object]string{}
				if fd.Recv != nil && len(fd.Recv.List) == 1 && len(fd.Recv.List[0].Names) == 1 {
					se, isSel := ast.Unparen(cl.Fun).(*ast.SelectorExpr)
					if !isSel || !pureExpr(info, se.X) {
						return true
					}
					env[info.Defs[fd.Recv.List[0].Names[0]]] = exprKey(se.X)
				}
				i := 0
				for _, fl := range fd.Type.Params.List {
					for _, nm := range fl.Names {
						if i >= len(cl.Args) || !pureExpr(info, cl.Args[i]) {
							return true
						}
						env[info.Defs[nm]] = exprKey(cl.Args[i])
						i++
					}
				}
				if i != len(cl.Args) {
					return true
				}
				if k := exprKeyEnv(sm.expr, info, env); !strings.Contains(k, "?") {
					keySubst[cl] = k
				}
				return true
			})
		}
	}
}
