package main

import (
	"fmt"
	"go/ast"
	"go/token"
	"go/types"
	"os"
	"strings"
)

func init() {
	register(&property{
		ID:    "C13",
		Run:   runC13,
		Modes: []string{"deadlock"},
		Meta: propMeta{
			Explanation: "Static protocol clauses of reactive Variable/Set/Event on all CFG paths: (1) execution lock: every callback Invoke is dominated by a successful LockExecution on the same callback and followed on every path by UnlockExecution (conditional idiom) or sits between LockExecution and a deferred UnlockExecution (fresh-callback idiom), so callbacks of one subscription never overlap and unsubscribe (same mutex) orders after a running callback; (2) writer protocol: the value update and the whole notification loop lie in one critical section of the update-order mutex; inside the value helpers the value change, the update-id increment and the callback-list snapshot lie in one critical section of the value mutex; (3) registration hand-off: OnUpdate registers the callback and takes its execution lock while holding the value mutex, reads the initial value in that section and defers the unlock; (4) unsubscribe removes exactly the list element created by this registration and marks the callback; (5) payload provenance: the mutations handed to subscribers are the diff actually applied by the underlying set (Apply result; for Replace: elements not previously present / elements removed by the underlying Replace); (6) LockExecution skips unsubscribed callbacks and an update id already delivered, records the id, and returns true only while still holding the execution mutex. Also: all writers of one reactive value lock the same mutex field object (a shadowing field on an embedding type is reported); the ds.List core rules of C10 (handle validation, bookkeeping, splice shape) are obligations here too because the subscriber registries are ds.Lists. The value handed back by variable.updateValue for the callbacks is the value stored.",
			NotDecided:  "exactly-once/in-order delivery over all interleavings (needs schedule exploration); instance-level lock ordering between different reactive objects",
			Assumptions: []string{"ds.List (thread-safe) and ds.Set behave as specified by C10/C11"},
		},
	})
}

func reactiveCalleeIs(info *types.Info, cl *ast.CallExpr, name string) (ast.Expr, bool) {
	se, ok := ast.Unparen(cl.Fun).(*ast.SelectorExpr)
	if !ok || se.Sel.Name != name {
		return nil, false
	}
	if shortTypeName(typeName(info.TypeOf(se.X))) != "callback" {
		return nil, false
	}
	return se.X, true
}

func runC13(c *Ctx) {
	p := c.Load("ds")
	if p == nil {
		return
	}
	r := c.R
	const pkg = "ds/reactive"
	pk := p.Pkg(pkg)
	if pk == nil {
		r.Unresolved("load", pkg, "package not loaded")
		return
	}
	info := pk.TypesInfo
	// the initial state a new subscriber of a set receives is a copy, never the live set
	checkInitialStateIsSnapshot(r, p, pkg, "readableSet", "OnUpdate")
	// every subscriber of the snapshot is reached by a notification loop; replace reports added = new minus OLD
	checkNotifyLoopsVisitAll(r, p, pkg)
	checkDiffBeforeReplace(r, p, pkg, "set", "replace")

	// the subscriber registries are ds.Lists whose handles the unsubscribe closures remove (possibly
	// twice): the list's handle validation and bookkeeping are part of what exactly-once rests on
	checkListCore(r, p)

	// (2)/(3) guarded-by rows
	checkGuards(r, p, "lock/guarded-by", []GuardRow{
		{Pkg: pkg, Type: "readableVariable", Mutex: "valueMutex", Fields: []string{"value", "uniqueUpdateID"}},
		{Pkg: pkg, Type: "readableVariable", Mutex: "valueMutex", Fields: []string{"registeredCallbacks"}, WOnly: true,
			Mutators: map[string][]string{"registeredCallbacks": {"PushBack", "PushFront", "Values"}}},
		{Pkg: pkg, Type: "readableSet", Mutex: "mutex", Fields: []string{"value", "uniqueUpdateID"}, Mutators: map[string][]string{"value": {"Apply", "Replace", "Decode", "Add", "Delete", "AddAll", "DeleteAll", "Compute"}}},
		{Pkg: pkg, Type: "readableSet", Mutex: "mutex", Fields: []string{"updateCallbacks"}, WOnly: true,
			Mutators: map[string][]string{"updateCallbacks": {"PushBack", "PushFront", "Values"}}},
		{Pkg: pkg, Type: "derivedSet", Mutex: "set.readableSet.mutex", Fields: []string{"setArithmetic"}},
		{Pkg: pkg, Type: "callback", Mutex: "executionMutex", Fields: []string{"unsubscribed", "lastUpdate"}},
	})
	checkLockBalance(r, p, "lock/balance", []string{pkg}, map[string]string{
		pkg + ".callback.LockExecution":   "lock-transfer by design: returns true while still holding the execution mutex (checked by cb/lock-execution-contract)",
		pkg + ".callback.UnlockExecution": "releases the mutex taken by LockExecution",
	}, func(k string) bool {
		return hasPrefixAny(k, pkg+".variable.", pkg+".readableVariable.", pkg+".set.", pkg+".readableSet.", pkg+".derivedSet.", pkg+".callback.")
	})

	// (1) + (2): every Invoke site
	nInvoke := 0
	for _, fd := range p.AllFuncDecls(pkg) {
		if fd.Body == nil || strings.HasSuffix(p.Fset.Position(fd.Pos()).Filename, "_test.go") {
			continue
		}
		fkey := funcKey(pkg, fd)
		f := newFuncCFG(p, info, fd.Body, fkey)
		heldAt := map[ast.Node]LockSet{}
		AnalyzeLocks(fd.Body, LockSet{}, &FlowOpts{Info: info}, func(n ast.Node, stack []ast.Node, held LockSet) {
			if cl, ok := n.(*ast.CallExpr); ok {
				if _, seen := heldAt[cl]; !seen {
					heldAt[cl] = held
				}
			}
		})
		// an Invoke site is any use of a callback's Invoke field: the call cb.Invoke(...), or the
		// function value cb.Invoke handed to a (synchronous, spliced) invoker
		isInvokeUse := func(n ast.Node) (ast.Expr, bool) {
			se, ok := n.(*ast.SelectorExpr)
			if !ok || se.Sel.Name != "Invoke" || shortTypeName(typeName(info.TypeOf(se.X))) != "callback" {
				return nil, false
			}
			return se.X, true
		}
		if splicedEverywhere(p, pkg, fd) {
			continue // a shared notification helper: judged inside every writer it is spliced into
		}
		var lhF func(Point) LockSet
		for _, pt := range f.Find(func(n ast.Node) bool {
			_, isInv := isInvokeUse(n)
			return isInv
		}) {
			var inv *ast.SelectorExpr
			inspectNoLit(f.nodeAt(pt), func(n ast.Node) bool {
				if se, ok := n.(*ast.SelectorExpr); ok && inv == nil {
					if _, isInv := isInvokeUse(se); isInv {
						inv = se
					}
				}
				return inv == nil
			})
			recvX, _ := isInvokeUse(inv)
			cbObj := objOfIdent(info, recvX)
			nInvoke++
			key := fmt.Sprintf("Invoke of %s in %s", exprKey(recvX), fkey)
			// the same callback: the same variable, or - across a registration helper that returns
			// the callback it created and locked - the same defining expression
			cbDef, _ := f.Resolve(recvX, pt)
			sameCb := func(n ast.Node, name string) bool {
				cl, ok := n.(*ast.CallExpr)
				if !ok {
					return false
				}
				x, ok := reactiveCalleeIs(info, cl, name)
				if !ok {
					return false
				}
				if objOfIdent(info, x) == cbObj && cbObj != nil {
					return true
				}
				if q, okp := f.PointOf(cl); okp {
					if d, _ := f.Resolve(x, q); d != nil && d == cbDef {
						// the defining expression creates one object: a constructor call or &T{...}
						switch y := ast.Unparen(d).(type) {
						case *ast.CallExpr, *ast.CompositeLit:
							return true
						case *ast.UnaryExpr:
							if _, isLit := ast.Unparen(y.X).(*ast.CompositeLit); isLit && y.Op == token.AND {
								return true
							}
						}
					}
				}
				return false
			}
			// idiom A: true edge of LockExecution dominates, UnlockExecution follows on every path
			lockedT, _ := f.CondEdges(func(e ast.Expr) bool { return sameCb(e, "LockExecution") })
			okA := false
			if len(lockedT) > 0 {
				if _, only := f.OnlyThroughEdges(pt, lockedT); only {
					if _, found := f.PathToExitAvoiding(pt, func(n ast.Node) bool { return sameCb(n, "UnlockExecution") }); !found {
						okA = true
					}
				}
			}
			// idiom B: LockExecution statement precedes and a deferred UnlockExecution precedes
			okB := false
			if _, found := f.PathFromEntryAvoiding(pt, func(n ast.Node) bool {
				es, ok := n.(*ast.ExprStmt)
				return ok && sameCb(es.X, "LockExecution")
			}, nil); !found {
				if _, found2 := f.PathFromEntryAvoiding(pt, func(n ast.Node) bool {
					ds, ok := n.(*ast.DeferStmt)
					if !ok || !sameCb(ds.Call, "UnlockExecution") {
						return false
					}
					// a defer fires when the function that executed it returns: one inside a spliced
					// helper releases at that helper's return, before an Invoke outside the helper
					if q, okq := f.PointOf(ds.Call); okq {
						enclosing := false
						dreg := f.regionOf[q.B]
						if dreg == nil {
							enclosing = true
						}
						for rg := f.regionOf[pt.B]; rg != nil && !enclosing; rg = rg.parent {
							enclosing = rg == dreg
						}
						return enclosing
					}
					return true
				}, nil); !found2 {
					okB = true
				}
			}
			if okA || okB {
				idiom := "if cb.LockExecution(id) { cb.Invoke(...); cb.UnlockExecution() }"
				if okB {
					idiom = "cb.LockExecution(id); defer cb.UnlockExecution(); ... cb.Invoke(...)"
				}
				r.Pass("cb/invoke-under-execution-lock", key, p.posStr(inv.Pos()), idiom)
			} else {
				r.Fail("cb/invoke-under-execution-lock", key, p.posStr(inv.Pos()), "the callback is invoked without holding its execution lock on every path (or the lock is not released afterwards): callbacks of one subscription can overlap, run after unsubscribe returned, or deliver one update twice")
			}
			// writers: the notification happens under the order mutex
			if recvT := recvTypeName(fd); recvT == "variable" || recvT == "set" || recvT == "derivedSet" {
				hasOrder := false
				var heldHere LockSet
				inspectNoLit(f.nodeAt(pt), func(n ast.Node) bool {
					if cl, ok := n.(*ast.CallExpr); ok && heldHere == nil {
						if h, has := heldAt[cl]; has {
							heldHere = h
						}
					}
					return true
				})
				// an Invoke inside an expanded helper: the locks held there on the spliced graph (those
				// of the analysed function at the call plus what the helper itself took)
				if reg := f.regionOf[pt.B]; reg != nil {
					if lhF == nil {
						lhF = f.LocksHeld(LockSet{})
					}
					heldHere = lhF(pt)
				}
				for k, m := range heldHere {
					if m == ModeW && (strings.HasSuffix(k, ".updateOrderMutex") || strings.HasSuffix(k, ".mutex")) && !strings.Contains(k, "readableSet") {
						hasOrder = true
					}
				}
				if hasOrder {
					r.Pass("writer/notify-under-order-mutex", key, p.posStr(inv.Pos()), "notification loop runs inside the update-order critical section")
				} else {
					r.Fail("writer/notify-under-order-mutex", key, p.posStr(inv.Pos()), fmt.Sprintf("subscribers are notified outside the update-order mutex (held: %s): two writers can deliver their updates in different orders to different subscribers", heldHere))
				}
			}
		}
	}
	if nInvoke < 6 {
		r.Fail("cb/invoke-under-execution-lock", pkg, "-", fmt.Sprintf("expected at least 6 Invoke sites, found %d", nInvoke))
	}
	// (2) writers: the value helper call and the loop are in the SAME section (single acquisition, deferred release)
	for _, row := range []struct{ typ, m, helper string }{
		{"variable", "Compute", "updateValue"}, {"set", "Apply", "apply"}, {"set", "Compute", "apply"}, {"set", "Replace", "replace"}, {"derivedSet", "inheritMutations", "applyInheritedMutations"},
	} {
		fd := p.FuncDecl(pkg, row.typ, row.m)
		key := pkg + "." + row.typ + "." + row.m
		if fd == nil {
			r.Unresolved("writer/one-order-section", key, "method not found")
			continue
		}
		checkOneOrderSection(r, p, pkg, fd, row.helper, "writer/one-order-section")
	}
	// all writers of one reactive value serialise on the SAME update-order mutex: the field object the
	// Lock call selects (through embedding) must be identical - a field of the same name declared on an
	// embedding type shadows the promoted one and silently splits the writers into two lock domains
	for _, grp := range []struct {
		name    string
		members [][2]string
	}{
		{"set writers", [][2]string{{"set", "Apply"}, {"set", "Compute"}, {"set", "Replace"}, {"derivedSet", "inheritMutations"}}},
		{"variable writers", [][2]string{{"variable", "Compute"}}},
	} {
		var first *types.Var
		firstOf, okGrp, n := "", true, 0
		for _, m := range grp.members {
			fd := p.FuncDecl(pkg, m[0], m[1])
			if fd == nil {
				continue
			}
			var lockField *types.Var
			// (on the writer with its unexported helpers in place: the section may live in a body it
			// shares with another writer)
			wf := newFuncCFG(p, info, fd.Body, pkg+"."+m[0]+"."+m[1]+"/lock-field")
			var wnodes []ast.Node
			for _, b := range wf.G.Blocks {
				if b.Live {
					wnodes = append(wnodes, b.Nodes...)
				}
			}
			visit := func(nd ast.Node) bool {
				if lockField != nil {
					return false
				}
				cl, ok := nd.(*ast.CallExpr)
				if !ok {
					return true
				}
				se, ok := ast.Unparen(cl.Fun).(*ast.SelectorExpr)
				if !ok || se.Sel.Name != "Lock" {
					return true
				}
				if fs, ok := ast.Unparen(se.X).(*ast.SelectorExpr); ok {
					if sel := info.Selections[fs]; sel != nil && sel.Kind() == types.FieldVal {
						if v, _ := sel.Obj().(*types.Var); v != nil {
							lockField = v.Origin()
						}
					}
				}
				return true
			}
			for _, nd := range wnodes {
				inspectNoLit(nd, visit)
			}
			if lockField == nil {
				continue
			}
			n++
			if first == nil {
				first, firstOf = lockField, m[0]+"."+m[1]
			} else if lockField != first {
				okGrp = false
				r.Fail("writer/same-order-mutex", pkg+"."+m[0]+"."+m[1], p.posStr(fd.Pos()), fmt.Sprintf("locks %s (declared at %s) while %s locks %s (declared at %s): the writers of one value are not serialised against each other, so subscribers can see their updates in different orders", lockField.Name(), p.posStr(lockField.Pos()), firstOf, first.Name(), p.posStr(first.Pos())))
			}
		}
		if n != len(grp.members) {
			r.Fail("writer/same-order-mutex", pkg+" "+grp.name, "-", fmt.Sprintf("expected %d writers that lock a mutex field, found %d", len(grp.members), n))
		} else if okGrp {
			r.Pass("writer/same-order-mutex", pkg+" "+grp.name, p.posStr(first.Pos()), fmt.Sprintf("%d writer(s) lock the same field object %s", n, first.Name()))
		}
	}
	// value helpers: change + Next + Values in one value-mutex section
	for _, row := range []struct{ typ, m, change string }{
		{"variable", "updateValue", "value assignment"}, {"set", "apply", "value.Apply"}, {"set", "replace", "value.Replace"}, {"derivedSet", "applyInheritedMutations", "value.Apply"},
	} {
		fd := p.FuncDecl(pkg, row.typ, row.m)
		key := pkg + "." + row.typ + "." + row.m
		if fd == nil {
			r.Unresolved("writer/atomic-change-id-snapshot", key, "method not found")
			continue
		}
		checkSingleSectionNamed(r, p, pkg, fd, "writer/atomic-change-id-snapshot")
		var nNext, nValues, nChange int
		// counted on the helper with its own stage helpers in place
		sf := newFuncCFG(p, info, fd.Body, key)
		seenStep := map[ast.Node]bool{}
		visitStep := func(nd ast.Node) bool {
			if seenStep[nd] {
				return true
			}
			seenStep[nd] = true
			switch x := nd.(type) {
			case *ast.CallExpr:
				k := exprKey(x.Fun)
				switch {
				case strings.HasSuffix(k, ".uniqueUpdateID.Next"):
					nNext++
				case strings.HasSuffix(k, "Callbacks.Values"):
					nValues++
				case strings.HasSuffix(k, ".value.Apply") || strings.HasSuffix(k, ".value.Replace"):
					nChange++
				}
			case *ast.AssignStmt:
				for _, l := range x.Lhs {
					if fieldSel(info, l, "value") {
						nChange++
					}
				}
			}
			return true
		}
		for _, b := range sf.G.Blocks {
			if !b.Live {
				continue
			}
			for _, nd := range b.Nodes {
				inspectNoLit(nd, visitStep)
			}
		}
		// the value handed back for notification is the value that was stored: some result of every
		// return after a store into the value field is the very value written there (a stage helper
		// that transforms its by-value parameter and stores that leaves the caller with the raw value)
		if row.typ == "variable" {
			stores := sf.Find(func(nd ast.Node) bool {
				as, ok := nd.(*ast.AssignStmt)
				return ok && len(as.Lhs) == 1 && len(as.Rhs) == 1 && as.Tok == token.ASSIGN && fieldSel(info, as.Lhs[0], "value")
			})
			okStored := len(stores) > 0
			why := "no store into the value field"
			for _, st := range stores {
				sas := sf.nodeAt(st).(*ast.AssignStmt)
				for _, rpt := range sf.FindOwn(func(nd ast.Node) bool { _, ok := nd.(*ast.ReturnStmt); return ok }) {
					if _, reaches := sf.reach(Point{st.B, st.I + 1}, nil, func(q Point, atExit bool) bool { return !atExit && sf.At(q, rpt) }); !reaches {
						continue
					}
					rs := sf.nodeAt(rpt).(*ast.ReturnStmt)
					var results []ast.Expr
					results = append(results, rs.Results...)
					if len(results) == 0 && fd.Type.Results != nil {
						for _, fl := range fd.Type.Results.List {
							for _, nm := range fl.Names {
								results = append(results, nm)
							}
						}
					}
					same := false
					// a result record: the stored value is a field of the returned struct variable, and neither
					// the field nor the variable is written between the store and the return
					for _, res := range results {
						ro := objOfIdent(info, res)
						se, isSel := ast.Unparen(sas.Rhs[0]).(*ast.SelectorExpr)
						if ro == nil || !isSel || objOfIdent(info, se.X) != ro {
							continue
						}
						if _, isStruct := ro.Type().Underlying().(*types.Struct); !isStruct {
							continue
						}
						fk := exprKey(se)
						writes := func(nd ast.Node) bool {
							hit := false
							inspectNoLit(nd, func(m ast.Node) bool {
								switch x := m.(type) {
								case *ast.AssignStmt:
									for _, l := range x.Lhs {
										if objOfIdent(info, l) == ro || exprKey(l) == fk {
											hit = true
										}
									}
								case *ast.IncDecStmt:
									if exprKey(x.X) == fk {
										hit = true
									}
								case *ast.UnaryExpr:
									if x.Op == token.AND && rootObj(info, x.X) == ro {
										hit = true
									}
								}
								return !hit
							})
							return hit
						}
						if _, dirty := sf.reach(Point{st.B, st.I + 1}, nil, func(q Point, atExit bool) bool {
							if atExit || !writes(sf.nodeAt(q)) {
								return false
							}
							_, on := sf.reach(q, nil, func(q2 Point, e2 bool) bool { return !e2 && sf.At(q2, rpt) })
							return on
						}); !dirty {
							same = true
						}
					}
					for _, res := range results {
						if same {
							break
						}
						if t, st2 := info.TypeOf(res), info.TypeOf(sas.Rhs[0]); t == nil || st2 == nil {
							continue
						} else if _, tp := t.(*types.TypeParam); tp {
							// each method declares its own receiver type parameter: compare by kind only
							if _, sp := st2.(*types.TypeParam); !sp {
								continue
							}
						} else if !types.Identical(t, st2) {
							continue
						}
						if sf.SameValue(res, rpt, sas.Rhs[0], st) {
							same = true
							continue
						}
						// through the return sites of a stage helper: every value the result can stand for on
						// a path that passed the store is the stored one
						n, all := 0, true
						if os.Getenv("HC_DEBUG") != "" {
							for _, o := range sf.Origins(res, rpt) {
								fmt.Fprintf(os.Stderr, "DBG res=%s origin=%s at %s same=%v\n", exprKey(res), exprKey(o.E), sf.PosOf(o.At), sf.SameValue(o.E, o.At, sas.Rhs[0], st))
							}
						}
						for _, o := range sf.Origins(res, rpt) {
							n++
							if !sf.SameValue(o.E, o.At, sas.Rhs[0], st) {
								all = false
							}
						}
						if n > 0 && all {
							same = true
						}
					}
					if !same {
						okStored = false
						why = sf.PosOf(rpt) + ": no result of this return is the value stored at " + sf.PosOf(st)
					}
				}
			}
			if okStored {
				r.Pass("payload/applied-diff", key+" returns the stored value", p.posStr(fd.Pos()), "the value handed back for the callbacks is the value written to the field")
			} else {
				r.Fail("payload/applied-diff", key+" returns the stored value", p.posStr(fd.Pos()), "subscribers are told a value that is not the one stored (the transformation's result and the reported new value differ): "+why)
			}
		}
		if nNext == 1 && nValues == 1 && nChange >= 1 {
			r.Pass("writer/atomic-change-id-snapshot", key+" steps", p.posStr(fd.Pos()), "value change, update-id increment and callback snapshot all in the helper's single value-mutex section")
		} else {
			r.Fail("writer/atomic-change-id-snapshot", key+" steps", p.posStr(fd.Pos()), fmt.Sprintf("expected the value change, exactly one uniqueUpdateID.Next() and one callback snapshot (found change=%d next=%d snapshot=%d)", nChange, nNext, nValues))
		}
	}
	// (3)+(4) registration
	for _, typ := range []string{"readableVariable", "readableSet"} {
		checkReactiveRegistration(r, p, pkg, typ)
	}
	// (5) payload provenance
	checkReactivePayload(r, p)
	// ... and that diff is exact: what ds.Set's own Apply/AddAll/DeleteAll report is what changed (the
	// Set rules of C11 are obligations here, the reactive set forwards their result to every subscriber)
	checkSetProtocol(r, p)
	// (6) LockExecution contract
	checkLockExecutionContract(r, p)
}

// checkSingleSectionNamed: exactly one Lock (exclusive) with a deferred Unlock, no explicit release.
func checkSingleSectionNamed(r *Reporter, p *Prog, pkg string, fd *ast.FuncDecl, rule string) {
	info := p.Pkg(pkg).TypesInfo
	fkey := funcKey(pkg, fd)
	nAcq, nRel, nDefer := 0, 0, 0
	var stack []ast.Node
	ast.Inspect(fd.Body, func(n ast.Node) bool {
		if n == nil {
			stack = stack[:len(stack)-1]
			return true
		}
		stack = append(stack, n)
		if _, isLit := n.(*ast.FuncLit); isLit {
			return true
		}
		if cl, ok := n.(*ast.CallExpr); ok {
			op, _ := lockOp(info, cl)
			_, deferred := stack[len(stack)-2].(*ast.DeferStmt)
			switch {
			case op == "Lock":
				nAcq++
			case op == "RLock":
				nAcq += 100
			case (op == "Unlock" || op == "RUnlock") && deferred:
				nDefer++
			case op == "Unlock" || op == "RUnlock":
				nRel++
			}
		}
		return true
	})
	if nAcq == 1 && nRel == 0 && nDefer == 1 {
		r.Pass(rule, fkey, p.posStr(fd.Pos()), "one exclusive section covering the whole body")
	} else {
		r.Fail(rule, fkey, p.posStr(fd.Pos()), fmt.Sprintf("expected exactly one Lock released by defer (found Lock/RLock=%d explicit releases=%d deferred=%d): the steps are no longer one atomic section", nAcq, nRel, nDefer))
	}
}

func checkReactiveRegistration(r *Reporter, p *Prog, pkg, typ string) {
	info := p.Pkg(pkg).TypesInfo
	fd := p.FuncDecl(pkg, typ, "OnUpdate")
	key := pkg + "." + typ + ".OnUpdate"
	if fd == nil {
		r.Unresolved("reg/hand-off", key, "method not found")
		return
	}
	mutexName := map[string]string{"readableVariable": "valueMutex", "readableSet": "mutex"}[typ]
	// the registration stage: OnUpdate itself, or an unexported method of the receiver it delegates
	// to (`value, cb, elem := r.registerCallback(callback)`), found by the push onto the callback list
	findPush := func(body *ast.BlockStmt) (cb, elem types.Object) {
		ast.Inspect(body, func(n ast.Node) bool {
			if _, isLit := n.(*ast.FuncLit); isLit {
				return false
			}
			as, ok := n.(*ast.AssignStmt)
			if !ok || len(as.Lhs) != 1 || len(as.Rhs) != 1 {
				return true
			}
			if cl, ok := ast.Unparen(as.Rhs[0]).(*ast.CallExpr); ok && strings.HasSuffix(exprKey(cl.Fun), "Callbacks.PushBack") && len(cl.Args) == 1 {
				if o := objOfIdent(info, cl.Args[0]); o != nil {
					cb, elem = o, objOfIdent(info, as.Lhs[0])
				}
			}
			return true
		})
		return
	}
	regFd := fd
	cbVar, elemVar := findPush(fd.Body)
	regCb, regElem := cbVar, elemVar
	if cbVar == nil {
		ast.Inspect(fd.Body, func(n ast.Node) bool {
			as, ok := n.(*ast.AssignStmt)
			if !ok || len(as.Rhs) != 1 || cbVar != nil {
				return true
			}
			cl, ok := ast.Unparen(as.Rhs[0]).(*ast.CallExpr)
			if !ok {
				return true
			}
			fn := staticCallee(info, cl)
			if fn == nil {
				return true
			}
			hd := p.decls().byFunc[fn.Origin()]
			if hd == nil || hd.Body == nil || hd.Recv == nil || hd.Name.IsExported() || recvTypeName(hd) != typ {
				return true
			}
			hcb, helem := findPush(hd.Body)
			if hcb == nil || helem == nil {
				return true
			}
			// the helper's single return hands both back: map its result positions to OnUpdate's variables
			var ret *ast.ReturnStmt
			nRet := 0
			ast.Inspect(hd.Body, func(m ast.Node) bool {
				if _, isLit := m.(*ast.FuncLit); isLit {
					return false
				}
				if rs, ok := m.(*ast.ReturnStmt); ok {
					ret, nRet = rs, nRet+1
				}
				return true
			})
			if nRet != 1 || len(ret.Results) != len(as.Lhs) {
				return true
			}
			for k, res := range ret.Results {
				switch objOfIdent(info, res) {
				case hcb:
					cbVar = objOfIdent(info, as.Lhs[k])
				case helem:
					elemVar = objOfIdent(info, as.Lhs[k])
				}
			}
			if cbVar != nil && elemVar != nil {
				regFd, regCb, regElem = hd, hcb, helem
			} else {
				cbVar, elemVar = nil, nil
			}
			return true
		})
	}
	_ = regElem
	if cbVar == nil || elemVar == nil {
		// the registration stage has another shape (a helper that also builds the unsubscribe handle, a
		// package-level function, ...): judge the operation with its helpers in place
		checkReactiveRegistrationSpliced(r, p, pkg, typ, fd, key, mutexName)
		return
	}
	recvObj := info.Defs[recvIdentOf(regFd)]
	recvPath := fmt.Sprintf("%s@%d", recvObj.Name(), recvObj.Pos())
	var bad []string
	nSteps, nSnapshot := 0, 0
	AnalyzeLocks(regFd.Body, LockSet{}, &FlowOpts{Info: info}, func(n ast.Node, stack []ast.Node, held LockSet) {
		cl, ok := n.(*ast.CallExpr)
		if !ok {
			return
		}
		k := exprKey(cl.Fun)
		// the initial snapshot handed to the new subscriber is read inside the registration section
		if se, isSel := ast.Unparen(cl.Fun).(*ast.SelectorExpr); isSel {
			if id, isId := ast.Unparen(se.X).(*ast.Ident); isId && info.Uses[id] == recvObj {
				inLit := false
				for _, a := range stack {
					if _, ok := a.(*ast.FuncLit); ok {
						inLit = true
					}
				}
				ast.Inspect(regFd.Body, func(m ast.Node) bool {
					if l, ok := m.(*ast.FuncLit); ok && l.Pos() <= cl.Pos() && cl.End() <= l.End() {
						inLit = true // lexically inside a closure (e.g. the returned unsubscribe function)
					}
					return !inLit
				})
				if sel := info.Selections[se]; sel != nil && sel.Kind() == types.MethodVal && !inLit {
					nSnapshot++
					if held[recvPath+"."+mutexName] < ModeW {
						bad = append(bad, fmt.Sprintf("%s: the current state is read with %s outside the value mutex: a writer that completes between this snapshot and the registration is neither part of the initial state nor delivered as an update", p.posStr(cl.Pos()), k))
					}
				}
			}
		}
		isPush := strings.HasSuffix(k, "Callbacks.PushBack")
		x, isLockExec := reactiveCalleeIs(info, cl, "LockExecution")
		if !(isPush || (isLockExec && objOfIdent(info, x) == regCb)) {
			return
		}
		nSteps++
		if held[recvPath+"."+mutexName] < ModeW {
			bad = append(bad, fmt.Sprintf("%s: %s happens outside the value mutex: a writer can change the value and snapshot the callback list between the read of the initial value and the registration, so the subscriber misses that update or sees it twice", p.posStr(cl.Pos()), k))
		}
		if isLockExec {
			if len(cl.Args) != 1 || !strings.HasSuffix(exprKey(cl.Args[0]), ".uniqueUpdateID") {
				bad = append(bad, fmt.Sprintf("%s: the execution lock must be tagged with the current update id", p.posStr(cl.Pos())))
			}
		}
	})
	if nSteps < 2 {
		bad = append(bad, "PushBack and LockExecution of the created callback not both found")
	}
	if len(bad) > 0 {
		r.Fail("reg/hand-off", key, p.posStr(fd.Pos()), bad[0], bad...)
	} else {
		r.Pass("reg/hand-off", key, p.posStr(fd.Pos()), fmt.Sprintf("callback pushed and execution-locked (tagged with the current update id) while the value mutex is held; %d snapshot call(s) on the receiver inside the same section", nSnapshot))
	}
	// the unsubscribe function the registration returns: a literal, or a method of a subscription
	// struct used as a method value (its fields are what the literal would have captured)
	okRemove, okMark := false, false
	for _, st := range fd.Body.List {
		rs, ok := st.(*ast.ReturnStmt)
		if !ok || len(rs.Results) != 1 {
			continue
		}
		for _, ret := range callbacksIn(p, info, rs.Results[0]) {
			// with a named helper it may delegate to expanded in place
			uf := newFuncCFG(p, info, ret.Body, key+"$unsubscribe")
			is := func(e ast.Expr, pt Point, v types.Object) bool {
				if uf.IsVar(e, pt, v) {
					return true
				}
				re, _ := uf.Resolve(e, pt)
				for _, x := range []ast.Expr{e, re} {
					if x == nil {
						continue
					}
					if c := ret.Captured(p, info, x, fd.Body); c != nil && objOfIdent(info, c) == v {
						return true
					}
				}
				return false
			}
			for _, cl := range uf.Calls(func(*ast.CallExpr) bool { return true }) {
				pt, okp := uf.PointOf(cl)
				if !okp {
					continue
				}
				if strings.HasSuffix(exprKey(cl.Fun), "Callbacks.Remove") && len(cl.Args) == 1 {
					if is(cl.Args[0], pt, elemVar) {
						okRemove = true
					}
				}
				if x, ok := reactiveCalleeIs(info, cl, "MarkUnsubscribed"); ok {
					if is(x, pt, cbVar) {
						okMark = true
					}
				}
			}
		}
	}
	if okRemove && okMark {
		r.Pass("unsub/remove-own-and-mark", key, p.posStr(fd.Pos()), "unsubscribe removes the list element created by this registration and marks this callback")
	} else {
		r.Fail("unsub/remove-own-and-mark", key, p.posStr(fd.Pos()), fmt.Sprintf("unsubscribe must remove its own list element (%v) and mark its own callback unsubscribed (%v)", okRemove, okMark))
	}
}

func checkReactivePayload(r *Reporter, p *Prog) {
	const pkg = "ds/reactive"
	info := p.Pkg(pkg).TypesInfo
	// provenance at the writers: what is handed to the subscribers (the argument of Invoke, or of a
	// function value bound to an Invoke field) is the value the underlying set's Apply returned -
	// through tuple or struct results of the locked helper, temporaries and helper parameters
	for _, row := range []struct{ typ, m string }{{"set", "Apply"}, {"set", "Compute"}, {"derivedSet", "inheritMutations"}} {
		fd := p.FuncDecl(pkg, row.typ, row.m)
		key := pkg + "." + row.typ + "." + row.m
		if fd == nil {
			r.Unresolved("payload/applied-diff", key, "method not found")
			continue
		}
		f := newFuncCFG(p, info, fd.Body, key)
		n, bad := 0, ""
		for _, b := range f.G.Blocks {
			if !b.Live {
				continue
			}
			for i, nd := range b.Nodes {
				pt := Point{b, i}
				inspectNoLit(nd, func(m ast.Node) bool {
					cl, ok := m.(*ast.CallExpr)
					if !ok || len(cl.Args) != 1 {
						return true
					}
					isInvoke := false
					if se, isSel := ast.Unparen(cl.Fun).(*ast.SelectorExpr); isSel && se.Sel.Name == "Invoke" && shortTypeName(typeName(info.TypeOf(se.X))) == "callback" {
						isInvoke = true
					} else if id, isId := ast.Unparen(cl.Fun).(*ast.Ident); isId {
						if re, _ := f.Resolve(id, pt); re != nil {
							if se, isSel := ast.Unparen(re).(*ast.SelectorExpr); isSel && se.Sel.Name == "Invoke" {
								isInvoke = true
							}
						}
					}
					if !isInvoke {
						return true
					}
					n++
					if k := f.KeyAt(cl.Args[0], pt); !strings.Contains(k, ".value.Apply(") {
						bad = fmt.Sprintf("%s: subscribers are handed %s", p.posStr(cl.Pos()), k)
					}
					return true
				})
			}
		}
		switch {
		case n == 0:
			r.Fail("payload/applied-diff", key, p.posStr(fd.Pos()), "no notification of the subscribers found")
		case bad != "":
			r.Fail("payload/applied-diff", key, p.posStr(fd.Pos()), "the reported mutations must be the value returned by the underlying Apply (the diff that actually changed membership); "+bad)
		default:
			r.Pass("payload/applied-diff", key, p.posStr(fd.Pos()), "subscribers receive the mutations returned by the underlying set's Apply")
		}
	}
	fd := p.FuncDecl(pkg, "set", "replace")
	key := pkg + ".set.replace"
	if fd == nil {
		r.Unresolved("payload/applied-diff", key, "method not found")
		return
	}
	okDel, okAdd, rawAdd := false, false, false
	ast.Inspect(fd.Body, func(n ast.Node) bool {
		cl, ok := n.(*ast.CallExpr)
		if !ok {
			return true
		}
		k := exprKey(cl.Fun)
		switch {
		case strings.HasSuffix(k, ".WithDeletedElements") && len(cl.Args) == 1:
			if strings.Contains(exprKey(cl.Args[0]), ".value.Replace(") {
				okDel = true
			} else if dc := definingCall(info, fd.Body, cl.Args[0]); dc != nil && strings.HasSuffix(exprKey(dc.Fun), ".value.Replace") {
				okDel = true
			}
		case strings.HasSuffix(k, ".WithAddedElements") && len(cl.Args) == 1:
			src := cl.Args[0]
			if def := definingExpr(info, fd.Body, src); def != nil {
				src = def
			}
			if fc, ok := ast.Unparen(src).(*ast.CallExpr); ok && strings.HasSuffix(exprKey(fc.Fun), ".Filter") && len(fc.Args) == 1 {
				if lit, ok := fc.Args[0].(*ast.FuncLit); ok {
					ast.Inspect(lit.Body, func(m ast.Node) bool {
						if u, ok := m.(*ast.UnaryExpr); ok && u.Op.String() == "!" && strings.HasSuffix(exprKey(u.X), ".value.Has(element)") {
							okAdd = true
						}
						return true
					})
				}
			}
		case strings.HasPrefix(k, "ds.NewSetMutations") && len(cl.Args) > 0:
			rawAdd = true
		}
		return true
	})
	if okDel && okAdd && !rawAdd {
		r.Pass("payload/applied-diff", key, p.posStr(fd.Pos()), "added = new elements not previously present, deleted = elements removed by the underlying Replace")
	} else {
		r.Fail("payload/applied-diff", key, p.posStr(fd.Pos()), fmt.Sprintf("Replace must report the actual difference (added from a !Has filter: %v, deleted from the underlying Replace: %v, raw input reported as added: %v): elements present before and after are otherwise announced as added and deleted", okAdd, okDel, rawAdd))
	}
}

func checkLockExecutionContract(r *Reporter, p *Prog) {
	const pkg = "ds/reactive"
	info := p.Pkg(pkg).TypesInfo
	f := p.CFGOf(pkg, "callback", "LockExecution")
	key := pkg + ".callback.LockExecution"
	if f == nil {
		r.Unresolved("cb/lock-execution-contract", key, "method not found")
		return
	}
	fd := p.FuncDecl(pkg, "callback", "LockExecution")
	cond := ""
	ast.Inspect(fd.Body, func(n ast.Node) bool {
		if is, ok := n.(*ast.IfStmt); ok && cond == "" {
			cond = exprKey(is.Cond)
		}
		return true
	})
	// truth table of the skip decision over its three atoms, whatever its spelling: the lock is
	// granted (return true) exactly when the callback is not unsubscribed and the update is not
	// one it has already received (a zero id is never "already received")
	okCond := true
	{
		recvName := recvIdentOf(fd).Name
		params := paramObjs(info, fd)
		idName := "updateID"
		if len(params) > 0 && params[0] != nil {
			idName = params[0].Name()
		}
		for _, unsub := range []bool{false, true} {
			for _, zero := range []bool{false, true} {
				for _, same := range []bool{false, true} {
					got := f.ReturnsUnder(map[string]bool{
						recvName + ".unsubscribed":                           unsub,
						Rel{"0", "==", idName}.String():                      zero,
						Rel{recvName + ".lastUpdate", "==", idName}.String(): same,
					})
					wantTrue := !unsub && !(!zero && same)
					if got["true"] != wantTrue || got["false"] == wantTrue {
						okCond = false
						cond = fmt.Sprintf("unsubscribed=%v id==0:%v id==lastUpdate:%v returns %v", unsub, zero, same, got)
					}
				}
			}
		}
	}
	// return false only after Unlock; return true only while holding and after recording the id
	isUnlock := func(n ast.Node) bool {
		cl, ok := n.(*ast.CallExpr)
		if !ok {
			return false
		}
		op, _ := lockOp(info, cl)
		return op == "Unlock"
	}
	isRecord := func(n ast.Node) bool {
		as, ok := n.(*ast.AssignStmt)
		return ok && len(as.Lhs) == 1 && fieldSel(info, as.Lhs[0], "lastUpdate") && exprKey(as.Rhs[0]) == "updateID"
	}
	okRet := true
	detail := ""
	for _, pt := range f.Find(func(n ast.Node) bool { _, ok := n.(*ast.ReturnStmt); return ok }) {
		rs := f.nodeAt(pt).(*ast.ReturnStmt)
		switch exprKey(rs.Results[0]) {
		case "false":
			if _, found := f.PathFromEntryAvoiding(pt, isUnlock, nil); found {
				okRet, detail = false, "returns false while still holding the execution mutex (the caller never unlocks on false)"
			}
		case "true":
			if _, found := f.PathFromEntryAvoiding(pt, isRecord, nil); found {
				okRet, detail = false, "returns true without recording the update id (the same update can be delivered twice)"
			}
			if _, found := f.PathFromEntryAvoiding(pt, nil, nil); found {
				// reachable: make sure no unlock precedes it
				if _, viaUnlock := f.reach(f.entry(), nil, func(q Point, atExit bool) bool { return false }); viaUnlock {
					_ = viaUnlock
				}
			}
			if w, found := f.reach(f.entry(), &searchOpts{AvoidNode: func(n ast.Node) bool { return false }}, func(q Point, atExit bool) bool { return false }); found {
				_ = w
			}
			// an Unlock on the way to `return true` would hand out an unlocked callback
			if _, only := f.OnlyThroughEdges(pt, nil); only {
				_ = only
			}
			unl := f.Find(isUnlock)
			for _, u := range unl {
				if pathExists(f, Point{u.B, u.I + 1}, pt) {
					okRet, detail = false, "returns true after releasing the execution mutex"
				}
			}
		}
	}
	if okCond && okRet {
		r.Pass("cb/lock-execution-contract", key, p.posStr(fd.Pos()), "skips unsubscribed callbacks and an already delivered update id; false => unlocked, true => id recorded and mutex still held")
	} else {
		if detail == "" {
			detail = "skip condition must be `unsubscribed || updateID != 0 && updateID == lastUpdate`, found " + cond
		}
		r.Fail("cb/lock-execution-contract", key, p.posStr(fd.Pos()), detail)
	}
	// MarkUnsubscribed sets the flag under the execution mutex (guarded-by row) - presence check
	if fdm := p.FuncDecl(pkg, "callback", "MarkUnsubscribed"); fdm != nil {
		ok := false
		ast.Inspect(fdm.Body, func(n ast.Node) bool {
			if as, isAs := n.(*ast.AssignStmt); isAs && len(as.Lhs) == 1 && fieldSel(info, as.Lhs[0], "unsubscribed") && exprKey(as.Rhs[0]) == "true" {
				ok = true
			}
			return true
		})
		if ok {
			r.Pass("cb/lock-execution-contract", pkg+".callback.MarkUnsubscribed", p.posStr(fdm.Pos()), "sets unsubscribed (under the execution mutex, see lock/guarded-by)")
		} else {
			r.Fail("cb/lock-execution-contract", pkg+".callback.MarkUnsubscribed", p.posStr(fdm.Pos()), "MarkUnsubscribed must set the unsubscribed flag")
		}
	}
}

// checkOneOrderSection: in a writer (judged with its unexported helpers in place, so that a body shared
// by several writers counts for each of them) the value change and the notification of the
// subscribers happen in ONE exclusive section of the update-order mutex: exactly one call of the
// change helper, made with the mutex held exclusively; every notification that can follow it holds
// the mutex too; and the mutex is not taken again in between (the section is not split in two).
func checkOneOrderSection(r *Reporter, p *Prog, pkg string, fd *ast.FuncDecl, helper, rule string) {
	info := p.Pkg(pkg).TypesInfo
	fkey := funcKey(pkg, fd)
	f := newFuncCFG(p, info, fd.Body, fkey+"/order-section")
	calls := f.Calls(func(c *ast.CallExpr) bool { return selectorCall(info, c, "", helper) })
	if len(calls) != 1 {
		r.Fail(rule, fkey+" helper", p.posStr(fd.Pos()), fmt.Sprintf("expected exactly one call of %s, found %d", helper, len(calls)))
		return
	}
	cpt, _ := f.PointOf(calls[0])
	lh := f.LocksHeld(LockSet{})
	isOrder := func(k string) bool {
		return (strings.HasSuffix(k, ".updateOrderMutex") || strings.HasSuffix(k, ".mutex")) && !strings.Contains(k, "readableSet") && !strings.Contains(k, "readableVariable")
	}
	order := ""
	for k, m := range lh(cpt) {
		if m == ModeW && isOrder(k) {
			order = k
		}
	}
	if order == "" {
		r.Fail(rule, fkey, p.posStr(calls[0].Pos()), fmt.Sprintf("the value is changed without holding the update-order mutex exclusively (held: %s): the steps are no longer one atomic section", lh(cpt)))
		return
	}
	var bad []string
	nInv := 0
	after := Point{cpt.B, cpt.I + 1}
	for _, b := range f.G.Blocks {
		if !b.Live {
			continue
		}
		for i, nd := range b.Nodes {
			pt := Point{b, i}
			isInv, isLock := false, false
			inspectNoLit(nd, func(m ast.Node) bool {
				switch x := m.(type) {
				case *ast.SelectorExpr:
					if x.Sel.Name == "Invoke" && shortTypeName(typeName(info.TypeOf(x.X))) == "callback" {
						isInv = true
					}
				case *ast.CallExpr:
					if op, path := lockOp(info, x); op == "Lock" || op == "RLock" {
						if f.MapPath(path, pt) == order {
							isLock = true
						}
					}
				}
				return true
			})
			if !isInv && !isLock {
				continue
			}
			if _, reachable := f.reach(after, nil, func(q Point, atExit bool) bool { return !atExit && f.At(q, pt) }); !reachable {
				continue
			}
			if isLock {
				bad = append(bad, p.posStr(nd.Pos())+": the update-order mutex is taken again after the value was changed: the change and the notification are two sections")
			}
			if isInv {
				nInv++
				if lh(pt)[order] != ModeW {
					bad = append(bad, fmt.Sprintf("%s: subscribers are notified without the update-order mutex that was held when the value was changed (held: %s)", p.posStr(nd.Pos()), lh(pt)))
				}
			}
		}
	}
	if len(bad) > 0 {
		r.Fail(rule, fkey, p.posStr(fd.Pos()), bad[0], bad...)
	} else {
		r.Pass(rule, fkey, p.posStr(fd.Pos()), fmt.Sprintf("one exclusive section of %s covers the change and %d notification site(s)", displayPath(order), nInv))
	}
}

// checkReactiveRegistrationSpliced: the registration clauses of OnUpdate on the operation with its
// unexported helpers spliced in, whatever their shape: (hand-off) the new callback is pushed onto the
// callback list and execution-locked, tagged with the current update id, while the value mutex is held
// exclusively, and every snapshot call on the reactive value itself lies in that same section;
// (unsubscribe) the function handed back removes the list element this registration created and marks
// this callback unsubscribed.
func checkReactiveRegistrationSpliced(r *Reporter, p *Prog, pkg, typ string, fd *ast.FuncDecl, key, mutexName string) {
	info := p.Pkg(pkg).TypesInfo
	f := newFuncCFG(p, info, fd.Body, key+"/registration")
	self := recvObj(info, fd)
	lh := f.LocksHeld(LockSet{})
	heldW := func(pt Point) bool {
		for k, m := range lh(pt) {
			if m == ModeW && strings.HasSuffix(k, "."+mutexName) {
				return true
			}
		}
		return false
	}
	var cb, elem types.Object
	var pushPt Point
	nPush := 0
	for _, b := range f.G.Blocks {
		if !b.Live {
			continue
		}
		for i, nd := range b.Nodes {
			as, ok := nd.(*ast.AssignStmt)
			if !ok || len(as.Lhs) != 1 || len(as.Rhs) != 1 {
				continue
			}
			if cl, ok := ast.Unparen(as.Rhs[0]).(*ast.CallExpr); ok && strings.HasSuffix(exprKey(cl.Fun), "Callbacks.PushBack") && len(cl.Args) == 1 {
				if o := objOfIdent(info, cl.Args[0]); o != nil {
					cb, elem, pushPt = o, objOfIdent(info, as.Lhs[0]), Point{b, i}
					nPush++
				}
			}
		}
	}
	if nPush != 1 || cb == nil || elem == nil {
		r.Fail("reg/hand-off", key, p.posStr(fd.Pos()), "registration must create a callback and push it onto the callback list (exactly once)")
		return
	}
	var bad []string
	if !heldW(pushPt) {
		bad = append(bad, f.PosOf(pushPt)+": the callback is pushed onto the list outside the value mutex: a writer can change the value and snapshot the callback list between the read of the initial value and the registration")
	}
	nLock, nSnapshot := 0, 0
	for _, b := range f.G.Blocks {
		if !b.Live {
			continue
		}
		for i, nd := range b.Nodes {
			pt := Point{b, i}
			inspectNoLit(nd, func(m ast.Node) bool {
				cl, ok := m.(*ast.CallExpr)
				if !ok {
					return true
				}
				if x, isLock := reactiveCalleeIs(info, cl, "LockExecution"); isLock && (objOfIdent(info, x) == cb || f.IsVar(x, pt, cb)) {
					nLock++
					if !heldW(pt) {
						bad = append(bad, f.PosOf(pt)+": the new callback is execution-locked outside the value mutex: a writer that snapshots the callback list in between delivers its update concurrently with (or before) the initial state")
					}
					if len(cl.Args) != 1 || !strings.HasSuffix(f.KeyAt(cl.Args[0], pt), ".uniqueUpdateID") {
						bad = append(bad, f.PosOf(pt)+": the execution lock must be tagged with the current update id")
					}
				}
				// snapshot calls on the reactive value itself
				if se, isSel := ast.Unparen(cl.Fun).(*ast.SelectorExpr); isSel && self != nil {
					if sel := info.Selections[se]; sel != nil && sel.Kind() == types.MethodVal {
						if id, isId := ast.Unparen(se.X).(*ast.Ident); isId && (info.Uses[id] == self || f.IsVar(id, pt, self)) {
							if fn, _ := sel.Obj().(*types.Func); fn != nil && f.regionByCall(cl) == nil {
								nSnapshot++
								if !heldW(pt) {
									bad = append(bad, fmt.Sprintf("%s: the current state is read with %s outside the value mutex: a writer that completes between this snapshot and the registration is neither part of the initial state nor delivered as an update", f.PosOf(pt), exprKey(cl.Fun)))
								}
							}
						}
					}
				}
				return true
			})
		}
	}
	if nLock == 0 {
		bad = append(bad, "LockExecution of the created callback not found")
	}
	if len(bad) > 0 {
		r.Fail("reg/hand-off", key, p.posStr(fd.Pos()), bad[0], bad...)
	} else {
		r.Pass("reg/hand-off", key, p.posStr(fd.Pos()), fmt.Sprintf("callback pushed and execution-locked (tagged with the current update id) while the value mutex is held; %d snapshot call(s) on the receiver inside the same section", nSnapshot))
	}
	// the unsubscribe function: every value the operation can return
	okRemove, okMark, nRet := true, true, 0
	for _, rpt := range f.Find(func(n ast.Node) bool { _, ok := n.(*ast.ReturnStmt); return ok }) {
		rs := f.nodeAt(rpt).(*ast.ReturnStmt)
		if len(rs.Results) != 1 {
			continue
		}
		for _, o := range f.Origins(rs.Results[0], rpt) {
			nRet++
			cbs := callbacksIn(p, info, o.E)
			if len(cbs) != 1 {
				okRemove, okMark = false, false
				continue
			}
			ret := cbs[0]
			uf := newFuncCFG(p, info, ret.Body, key+"$unsubscribe")
			rem, mark := false, false
			is := func(e ast.Expr, pt Point, v types.Object) bool {
				if objOfIdent(info, e) == v || uf.IsVar(e, pt, v) {
					return true
				}
				if c := ret.Captured(p, info, e, fd.Body); c != nil && objOfIdent(info, c) == v {
					return true
				}
				return false
			}
			for _, cl := range uf.Calls(func(*ast.CallExpr) bool { return true }) {
				pt, okp := uf.PointOf(cl)
				if !okp {
					continue
				}
				if strings.HasSuffix(exprKey(cl.Fun), "Callbacks.Remove") && len(cl.Args) == 1 && is(cl.Args[0], pt, elem) {
					rem = true
				}
				if x, ok := reactiveCalleeIs(info, cl, "MarkUnsubscribed"); ok && is(x, pt, cb) {
					mark = true
				}
			}
			okRemove, okMark = okRemove && rem, okMark && mark
		}
	}
	if nRet > 0 && okRemove && okMark {
		r.Pass("unsub/remove-own-and-mark", key, p.posStr(fd.Pos()), "unsubscribe removes the list element created by this registration and marks this callback")
	} else {
		r.Fail("unsub/remove-own-and-mark", key, p.posStr(fd.Pos()), fmt.Sprintf("unsubscribe must remove its own list element (%v) and mark its own callback unsubscribed (%v)", okRemove && nRet > 0, okMark && nRet > 0))
	}
}
